"""C32 — cleanup never loses an assigned repository.

M: spec/sys/Cleanup.tla model-checked: ALL abstract index directories for two repository ids
   (simple shards 0/1/2/renamed, compound-shard member alive/renamed/tombstoned, trash fresh/old/
   future/exactly 24 h/mixed, *.tmp) x all assigned sets x shardMerging are the initial states;
   cleanup = one action per phase of cleanup.go, applied twice (second: any assigned set, 0 or
   25 h later).  Invariants = the four clauses of the statement over (before, after).
R: TLC prints one record per explored cleanup (before, parameters, predicted after).  A script =
   initial directory + first cleanup + all second cleanups.  Each script is materialised with
   REAL shards (real Builder / Merge / SetTombstone, os.Chtimes), the real cleanup() runs
   in-package, the directory is projected back independently (listing + ReadMetadataPath + raw
   .meta) and compared with the prediction: after cleanup 1 and after each second cleanup.
V: the recorded (before, after) pairs are validated by Trace_Cleanup.tla (clauses on the observed
   pair + recomputation with the same operators): everything in the quick tier; in the thorough
   tier a seeded sample plus every script where R saw a difference."""
import json
import os
import random
import shutil
import subprocess
import threading
import time

from lib import vk

PKG = "cmd/zoekt-sourcegraph-indexserver"
FILES = ["c32_cleanup_test.go"]
PER_ID = 4 * 4 * 7
NINIT = PER_ID * PER_ID * 4 * 2
ADVS = [0, 25]
ASETS = [[], [1], [2], [1, 2]]


def canon(d):
    return tuple(sorted((x["l"], x["f"], x["mt"], x["mf"],
                         tuple(sorted((e["id"], e["nm"], e["tb"]) for e in x["mem"]))) for x in d))


def show(c):
    return " ".join("%s/%s@%d%s[%s]" % (l, f, mt, "+meta" if mf else "",
                                        ",".join("%d:%s%s" % (i, n, "(tomb)" if t else "") for i, n, t in mem))
                    for l, f, mt, mf, mem in c) or "(empty)"


def diff_kind(obs, exp, otmp, etmp):
    """what differs between the observed and the predicted directory (first that applies)."""
    ok = {(x[0], x[1]): x for x in obs}
    ek = {(x[0], x[1]): x for x in exp}
    for loc, name in (("i", "index"), ("t", "trash")):
        if any(k[0] == loc and k not in ok for k in ek):
            return name + "-missing"
        if any(k[0] == loc and k not in ek for k in ok):
            return name + "-extra"
    for k in ek:
        if ok[k][4] != ek[k][4]:
            return "members" if [m[:2] for m in ok[k][4]] != [m[:2] for m in ek[k][4]] else "tombstone"
    for k in ek:
        if ok[k][2] != ek[k][2]:
            return "mtime"
    for k in ek:
        if ok[k][3] != ek[k][3]:
            return "sidecar"
    if otmp != etmp:
        return "tmp"
    return "other"


def viol_sigs(viol, m):
    return sorted({"C32:%s:%s:merging-%s" % (v["c"], v["cause"], "on" if m else "off") for v in viol})


def assemble(records, covered, rng, per_script):
    """join TLC's per-cleanup records into scripts: a first cleanup + second cleanups that start
    from its result.  TLC explores every (directory after the first cleanup, assigned set, hours)
    once; each is attached to the first script that leads to it (`covered`), and every script gets
    at least one second cleanup (per_script = how many in total, None = only the new ones)."""
    second = {}
    firsts = []
    for r in records:
        if r["run"] == 1:
            firsts.append(r)
        else:
            second[(canon(r["d0"]), r["m"], tuple(r["a"]), r["now"])] = r
    scripts = []
    for r in firsts:
        key0 = canon(r["d1"])
        cands = []
        for a2 in ASETS:
            for adv in ADVS:
                key = (key0, r["m"], tuple(a2), adv)
                r2 = second.get(key)
                if r2 is None or r2["t0"] != r["t1"]:
                    raise vk.Inconclusive("TLC printed no second cleanup for %s a2=%s adv=%d" % (show(key0), a2, adv))
                cands.append((key, {"a2": a2, "adv": adv, "exp": canon(r2["d1"]), "exp_raw": r2["d1"], "tmp": r2["t1"],
                                    "viol": r2["viol"]}))
        new = [c for c in cands if c[0] not in covered]
        old = [c for c in cands if c[0] in covered]
        rng.shuffle(old)
        if per_script is None:
            chosen = new or old[:1]
        else:
            chosen = (new + old)[:per_script]
        for key, _ in chosen:
            covered.add(key)
        scripts.append({"a": r["a"], "m": r["m"], "tmp": r["t0"], "init": r["d0"], "exp": key0, "exp_raw": r["d1"],
                        "exptmp": r["t1"], "viol": r["viol"], "sec": [c[1] for c in chosen]})
    return scripts, len(second)


def to_replay(sc):
    """a script with TLC's predictions as stored in replays/*.json (bin/check C32 --replay PATH)."""
    return {"a": sc["a"], "m": sc["m"], "tmp": sc["tmp"], "init": sc["init"], "exp": sc["exp_raw"],
            "exptmp": sc["exptmp"], "viol": sc["viol"],
            "sec": [{"a2": x["a2"], "adv": x["adv"], "exp": x["exp_raw"], "tmp": x["tmp"], "viol": x["viol"]}
                    for x in sc["sec"]]}


def from_replay(path):
    sc = json.load(open(path))["replay"]["script"]
    sc["exp_raw"], sc["exp"] = sc["exp"], canon(sc["exp"])
    for x in sc["sec"]:
        x["exp_raw"], x["exp"] = x["exp"], canon(x["exp"])
    return sc


def emit(ctx, name, covered, rng, per_script, sel=None, lo=1, hi=0):
    # M and script generation in one run: the invariants are checked on every state explored
    res = ctx.model_check("Cleanup", "Cleanup_mc.cfg", name=name, timeout=3600, workers=4, defines={
        "Sel": "{%s}" % ",".join(str(k) for k in sel or []), "Lo": lo, "Hi": hi,
        "Advs": "{%s}" % ",".join(map(str, ADVS)), "Fix": "FALSE", "Emit": "TRUE"})
    recs = res.printed("SCRIPT")
    if any(not isinstance(r, dict) for r in recs):
        raise vk.Inconclusive("unparsable SCRIPT line in " + res.log)
    return assemble(recs, covered, rng, per_script)


def replay(ctx, binp, scripts, tag, procs):
    """run the driver in `procs` single-threaded processes pinned to one CPU each (the work is
    mmap/munmap heavy: one address space per CPU is several times cheaper than threads).
    returns per script the list of its events."""
    cpus = sorted(os.sched_getaffinity(0))
    procs = max(1, min(procs, len(scripts)))
    jobs = []
    for p in range(procs):
        part = list(range(p, len(scripts), procs))
        inp = ctx.path("replay", "%s_in_%d.ndjson" % (tag, p))
        out = ctx.path("replay", "%s_out_%d.ndjson" % (tag, p))
        vk.write_ndjson(inp, [{"a": scripts[i]["a"], "m": scripts[i]["m"], "tmp": scripts[i]["tmp"],
                               "init": scripts[i]["init"],
                               "sec": [{"a2": s["a2"], "adv": s["adv"]} for s in scripts[i]["sec"]]} for i in part])
        env = ctx.goenv({"VERIF_IN": inp, "VERIF_OUT": out, "GOMAXPROCS": "1", "VERIF_C32_WORKERS": "1",
                         "VERIF_C32_STORE": ctx.mkdir("store")})
        cpu = cpus[(p * max(1, len(cpus) // procs)) % len(cpus)]
        log = open(ctx.path("replay", "%s_log_%d.txt" % (tag, p)), "w")
        pin = ["taskset", "-c", str(cpu)] if shutil.which("taskset") else []
        pr = subprocess.Popen(pin + [binp, "-test.run", "^TestVerif_C32_Replay$", "-test.count=1", "-test.timeout", "7200s"],
                              cwd=ctx.work, env=env, stdout=log, stderr=subprocess.STDOUT)
        if not pin:
            try:
                os.sched_setaffinity(pr.pid, {cpu})
            except OSError:
                pass
        jobs.append((pr, part, out, log))
    events = [None] * len(scripts)
    for pr, part, out, log in jobs:
        try:
            rc = pr.wait(timeout=7300)
        except subprocess.TimeoutExpired:
            pr.kill()
            raise vk.Inconclusive("replay driver timed out")
        log.close()
        if rc != 0:
            raise vk.Inconclusive("replay driver failed:\n" + open(log.name).read()[-3000:])
        per = {}
        for e in vk.read_ndjson(out):
            per.setdefault(e["k"], []).append(e)
        if sorted(per) != list(range(len(part))):
            raise vk.Inconclusive("replay driver did not record every script (%d of %d)" % (len(per), len(part)))
        for local, i in enumerate(part):
            events[i] = per[local]
        os.remove(out)
    return events


def run(ctx):
    rng = random.Random(ctx.seed)
    procs = min(8, len(os.sched_getaffinity(0)))
    bg = {}

    def background():
        try:
            binp = ctx.go_build_test(PKG, FILES)
            # the real shards every script is made of, built once for all replay processes
            rc, out = ctx.run_bin(binp, "^TestVerif_C32_Factory$", env={"VERIF_C32_STORE": ctx.mkdir("store")}, timeout=900)
            if rc != 0 or "--- PASS" not in out:
                raise vk.Inconclusive("building the shards failed:\n" + out[-3000:])
            bg["bin"] = binp
            if ctx.thorough:
                # M for the proposed patch: the four clauses hold without any allowance
                bg["fix"] = ctx.model_check("Cleanup", "Cleanup_mc.cfg", name="tlc_fix", timeout=7200, workers=2,
                                            defines={"Sel": "{}", "Lo": 0, "Hi": NINIT - 1,
                                                     "Advs": "{%s}" % ",".join(map(str, ADVS)),
                                                     "Fix": "TRUE", "Emit": "FALSE"})
        except BaseException as e:  # re-raised in the main thread
            bg["err"] = e
        finally:
            built.set()

    built = threading.Event()
    th = threading.Thread(target=background)
    th.start()
    try:
        rc = body(ctx, rng, procs, bg, built)
    finally:
        th.join()
    if "err" in bg:
        raise bg["err"]
    return rc


def body(ctx, rng, procs, bg, built):

    if ctx.replay:
        chunks = [("replay", None, 1, 0)]
        vsample = None
    elif ctx.thorough:
        nchunks = 8
        size = NINIT // nchunks
        chunks = [("c%d" % c, None, c * size, (c + 1) * size - 1 if c < nchunks - 1 else NINIT - 1)
                  for c in range(nchunks)]
        vsample = 400          # scripts per chunk validated by the trace spec
    else:
        chunks = [("q", sorted(rng.sample(range(NINIT), 1000)), 1, 0)]
        vsample = None         # all
    per_script = None if ctx.thorough else 4
    covered = set()

    st = {"second_records": 0, "scripts": 0, "cleanups": 0, "nontrivial": set(), "dirs": set(), "v_events": 0, "v_scripts": 0,
          "alt": 0, "known_shape": 0, "old_assigned_purged": 0, "by_sig": {}}
    for tag, sel, lo, hi in chunks:
        t0 = time.time()
        if ctx.replay:
            scripts, sel = [from_replay(ctx.replay)], [0]
        else:
            scripts, nsecond = emit(ctx, "tlc_" + tag, covered, rng, per_script, sel, lo, hi)
        want = len(sel) if sel is not None else hi - lo + 1
        if len(scripts) != want:
            raise vk.Inconclusive("TLC produced %d scripts for %d initial states" % (len(scripts), want))
        st["second_records"] = max(st["second_records"], len(covered))
        ctx.log("chunk %s: %d scripts with %d second cleanups from TLC in %.0fs" % (
            tag, len(scripts), sum(len(s["sec"]) for s in scripts), time.time() - t0))
        t0 = time.time()
        while not ("bin" in bg or "err" in bg):
            time.sleep(0.2)
        if "err" in bg:
            return 2
        events = replay(ctx, bg["bin"], scripts, tag, procs)
        ctx.log("chunk %s: replayed in %.0fs" % (tag, time.time() - t0))
        judge(ctx, rng, tag, scripts, events, vsample, st)
    return ctx.finish(
        evaluations=st["cleanups"], distinct_nontrivial=len(st["nontrivial"]),
        rule="evaluations = executions of the real cleanup() on materialised directories (per script the first "
             "cleanup and then, on the resulting real directory, second cleanups: thorough = every (directory after "
             "a first cleanup, assigned set, 0/25 h later) TLC explored, attached to the first script leading to it, "
             "at least one per script; quick = 4 per script); a script = one initial state of Cleanup.tla (abstract directory x assigned set "
             "x shardMerging); every result compared with TLC's prediction (R); non-trivial = distinct (directory "
             "before, assigned set, shardMerging, time) combinations in which cleanup had to change the directory",
        exhaustive=ctx.thorough,
        extra={"scripts": st["scripts"], "distinct_second_cleanups_replayed": st["second_records"], "distinct_initial_directories": len(st["dirs"]),
               "initial_states_total": NINIT, "trace_validated_events": st["v_events"],
               "trace_validated_scripts": st["v_scripts"], "accepted_as_patched_behaviour": st["alt"],
               "assigned_but_old_trash_purged": st["old_assigned_purged"],
               "violations_by_signature": st["by_sig"]})


def judge(ctx, rng, tag, scripts, events, vsample, st):
    """R: compare every recorded directory with the prediction; V: trace spec."""
    pending = {}        # script index -> list of (event index in script, reason) left to the trace spec
    reported = set()

    def report(i, j, sig, detail):
        if (i, j, sig) in reported:
            return
        reported.add((i, j, sig))
        st["by_sig"][sig] = st["by_sig"].get(sig, 0) + 1
        ctx.violation(sig, detail, replay={"script": to_replay(scripts[i])})

    for i, sc in enumerate(scripts):
        evs = events[i]
        cl = [e for e in evs if e["ev"] == "cleanup"]
        ini = evs[0]
        if ini["ev"] != "init" or len(cl) != 1 + len(sc["sec"]):
            raise vk.Inconclusive("unexpected event sequence for script %d of chunk %s" % (i, tag))
        if canon(ini["dir"]) != canon(sc["init"]) or ini["tmp"] != sc["tmp"] or ini["junk"]:
            raise vk.Inconclusive("materialisation differs from the script: wanted %s tmp=%d, got %s tmp=%d junk=%s" % (
                show(canon(sc["init"])), sc["tmp"], show(canon(ini["dir"])), ini["tmp"], ini["junk"]))
        st["scripts"] += 1
        st["dirs"].add(canon(sc["init"]))
        before = (canon(sc["init"]), sc["tmp"])
        first_ok = True
        for j, e in enumerate(cl):
            st["cleanups"] += 1
            if j == 0:
                a, now, exp, viol = sc["a"], 0, (sc["exp"], sc["exptmp"]), sc["viol"]
            else:
                s = sc["sec"][j - 1]
                a, now, exp, viol = s["a2"], s["adv"], (s["exp"], s["tmp"]), s["viol"]
                before = (canon(cl[0]["dir"]), cl[0]["tmp"])
            if e["a"] != a or e["now"] != now or e["m"] != sc["m"]:
                raise vk.Inconclusive("driver ran other parameters than the script")
            obs = (canon(e["dir"]), e["tmp"])
            detail = {"chunk": tag, "script": i, "cleanup": j, "assigned": a, "shardMerging": sc["m"], "now_h": now,
                      "initial": show(canon(sc["init"])), "before": show(before[0]), "tmp_before": before[1],
                      "observed": show(obs[0]), "tmp_observed": obs[1], "predicted": show(exp[0])}
            if e["junk"]:
                report(i, j, "C32:junk:" + e["junk"][0].split(":")[1], dict(detail, junk=e["junk"]))
                continue
            if j > 0 and not first_ok:
                pending.setdefault(i, []).append((j, "first cleanup differed from the prediction"))
                continue
            if obs == exp:
                if obs != before:
                    st["nontrivial"].add((before, tuple(a), sc["m"], now))
                for sig in viol_sigs(viol, sc["m"]):
                    st["known_shape"] += 1
                    report(i, j, sig, dict(detail, violated=viol))
                for x in before[0]:
                    if x[0] == "t" and x[2] < now - 24 and any(mm[0] in a for mm in x[4]):
                        st["old_assigned_purged"] += 1
                        break
            else:
                if j == 0:
                    first_ok = False
                pending.setdefault(i, []).append((j, diff_kind(obs[0], exp[0], obs[1], exp[1])))

    # ---- V
    if vsample is None:
        chosen = list(range(len(scripts)))
    else:
        chosen = sorted(set(rng.sample(range(len(scripts)), min(vsample, len(scripts)))) | set(pending))
    if not chosen:
        return
    lines, where = [], []
    for i in chosen:
        ncl = -1
        for e in events[i]:
            if e["ev"] == "cleanup":
                ncl += 1
            lines.append(e)
            where.append((i, ncl))
    tp = ctx.path("trace_%s.ndjson" % tag)
    vk.write_ndjson(tp, lines)
    acc, rej = ctx.validate_trace("Trace_Cleanup", "Trace_Cleanup.cfg", tp, name="tlcv_" + tag, timeout=3600)
    st["v_events"] += len(lines)
    rejected = {}
    for r in rej:
        i, j = where[r["line"] - 1]
        rejected.setdefault((i, j), []).append(r)
    bad_scripts = {i for i, _ in rejected}
    st["v_scripts"] += len(chosen)
    ctx.traces_validated += len(chosen) - len(bad_scripts)
    for (i, j), rs in sorted(rejected.items()):
        sc = scripts[i]
        e = [x for x in events[i] if x["ev"] == "cleanup"][j] if j >= 0 else events[i][0]
        for r in rs:
            base = {"chunk": tag, "script": i, "cleanup": j, "assigned": e["a"], "shardMerging": e["m"],
                    "now_h": e["now"], "initial": show(canon(sc["init"])), "observed": show(canon(e["dir"])),
                    "trace_line": r["line"], "why": r["why"]}
            if r["why"] == "viol":
                for sig in viol_sigs(r["expected"], e["m"]):
                    report(i, j, sig, dict(base, violated=r["expected"]))
            elif r["why"] == "diverge":
                # describe the difference against the closer of the two specified results
                obsd = canon(e["dir"])
                spec = r["expected"]["code"]
                pat = r["expected"]["patched"]
                keys = lambda c: {(x[0], x[1]) for x in c}
                if keys(canon(pat["d"])) == keys(obsd) != keys(canon(spec["d"])):
                    spec = pat
                kind = diff_kind(obsd, canon(spec["d"]), e["tmp"], spec["tmp"])
                report(i, j, "C32:diverge:" + kind, dict(base, specified=show(canon(spec["d"])), tmp_specified=spec["tmp"],
                                                         tmp_observed=e["tmp"]))
            else:
                report(i, j, "C32:junk:" + (e["junk"][0].split(":")[1] if e["junk"] else "?"), dict(base, junk=e["junk"]))
    # what R could not decide must have been decided by the trace spec
    for i, js in pending.items():
        for j, why in js:
            if (i, j) not in rejected:
                st["alt"] += 1    # accepted by the trace spec: the behaviour of the proposed patch
    if len(ctx.samples) < 3 and scripts:
        k = rng.randrange(len(scripts))
        sc = scripts[k]
        ctx.sample({"assigned": sc["a"], "shardMerging": sc["m"], "tmp_files": sc["tmp"],
                    "initial": show(canon(sc["init"])), "after_first_cleanup": show(sc["exp"]),
                    "second": [{"assigned": s["a2"], "hours_later": s["adv"], "after": show(s["exp"])} for s in sc["sec"][:3]]})
