"""C35 — zoekt-merge-index merge / explode report success only when done, never duplicate.

M: spec/sys/MergeExplode.tla (MergeExplodeOps.tla) model-checked over every configuration
   (merge of n simple shards with/without sidecars, `merge <compound>` that drops tombstones,
   explode with/without tombstoned repositories) with a crash in every state and a failing
   open / create / rename / unlink.
V: the real main() of zoekt-merge-index runs in a child process under strace: reference run,
   one run killed at every mutation of the index directory, one run per open / create /
   rename / unlink with that syscall failing (EIO).  After each run a fresh process loads the
   directory with search.NewDirectorySearcher.  Trace_MergeExplode.tla validates every run."""
import concurrent.futures
import json
import os
import re
import shutil

from lib import vk
from checks import c12 as fs

PKG = "cmd/zoekt-merge-index"
FILES = ["c35_merge_test.go"]
SHAPES = ["merge-open-failed-reported-ok", "explode-rename-failed-reported-ok"]

_comp = re.compile(r"^compound-(?P<h>[0-9a-f]+)_v\d+\.\d{5}\.zoekt(?P<meta>\.meta)?(?P<tmp>\.tmp)?(?P<tmp2>\.\d+\.tmp)?$")
_simple = re.compile(r"^repo(?P<i>\d+)_v\d+\.\d{5}\.zoekt(?P<meta>\.meta)?(?P<tmp>\.tmp)?(?P<tmp2>\.\d+\.tmp)?$")


def abstract_file(path, comp_hash):
    b = os.path.basename(path)
    m = _comp.match(b)
    if m:
        base, i = ("comp" if m.group("h") == comp_hash else "out"), 0
    else:
        m = _simple.match(b)
        if not m:
            return {"k": "unknown", "i": 0}
        base, i = "simple", int(m.group("i"))
    if m.group("meta"):
        if m.group("tmp") or m.group("tmp2"):
            return {"k": "unknown", "i": i}
        return {"k": base + "meta", "i": i}
    if m.group("tmp2"):
        return {"k": base + "tmp2", "i": i}
    if m.group("tmp"):
        return {"k": base + "tmp", "i": i}
    return {"k": base, "i": i}


def configs(ctx):
    q = [("merge", 2, [], [], False), ("merge", 3, [1], [], False), ("vacuum", 3, [], [1], True),
         ("explode", 2, [], [], False), ("explode", 3, [], [1], True)]
    t = q + [("merge", 1, [0], [], False), ("merge", 3, [0, 2], [], False), ("vacuum", 2, [], [0], False),
             ("vacuum", 3, [], [0, 2], True), ("explode", 1, [], [], False), ("explode", 3, [], [], False),
             ("explode", 3, [], [0, 2], False), ("explode", 2, [], [1], True)]
    return [{"op": op, "n": n, "sidecars": sc, "tomb": tb, "resimple": rs, "d": ctx.pick(3, 4)}
            for (op, n, sc, tb, rs) in ctx.pick(q, t)]


def cname(cfg):
    return "%s_n%d_s%s_t%s%s" % (cfg["op"], cfg["n"], "".join(map(str, cfg["sidecars"])),
                                 "".join(map(str, cfg["tomb"])), "_re" if cfg["resimple"] else "")


class Runner:
    def __init__(self, ctx, binp):
        self.ctx = ctx
        self.binp = binp
        self.comp = {}
        self.d = ctx.pick(3, 4)

    def env(self, cfg, d, role, args=None):
        c = dict(cfg)
        c["dir"] = d
        c["args"] = args or []
        return {"VERIF_C35_ROLE": role, "VERIF_C35_CFG": json.dumps(c)}

    def prep(self, cfg):
        n = cname(cfg)
        d = self.ctx.path(n, "tmpl", "index")
        rc, out, err = fs.run_plain(self.binp, self.env(cfg, d, "prep"))
        if rc != 0:
            raise vk.Inconclusive("preparing the input shards failed (rc=%d): %s" % (rc, err[-2000:]))
        comps = [f for f in os.listdir(d) if f.startswith("compound-") and f.endswith(".zoekt")]
        self.comp[n] = _comp.match(comps[0]).group("h") if comps else ""
        return d

    def args(self, cfg, d):
        if cfg["op"] == "merge":
            return ["merge"] + [os.path.join(d, "repo%d_v16.00000.zoekt" % i) for i in range(cfg["n"])]
        comp = [f for f in os.listdir(d) if f.startswith("compound-") and f.endswith(".zoekt")][0]
        return ["merge" if cfg["op"] == "vacuum" else "explode", os.path.join(d, comp)]

    def load_env(self, dirs):
        return {"VERIF_C35_ROLE": "load", "VERIF_C35_CFG": json.dumps({"dirs": dirs, "d": self.d})}

    def one(self, cfg, tmpl, tag, inject=None):
        n = cname(cfg)
        base = self.ctx.mkdir(n, tag)
        d = os.path.join(base, "index")
        shutil.copytree(tmpl, d)
        log = os.path.join(base, "strace.log")
        rc, out = fs.run_traced(self.binp, self.env(cfg, d, "run", self.args(cfg, d)), log, inject)
        calls, ends = fs.parse_strace(log)
        muts = fs.dir_mutations(calls, d, reads=True)
        files = [abstract_file(f, self.comp[n]) for f in sorted(os.listdir(d))]
        return {"rc": rc, "muts": muts, "view": None, "files": files, "tid": fs.main_tid(calls), "stdout": out.strip(), "dir": d}


def real(muts):
    return [m for m in muts if m["res"] != "noop"]


def run(ctx):
    # ---------------------------------------------------------------- M
    ops = '{"merge","vacuum","explode"}'
    res = ctx.model_check("MergeExplode", "MergeExplode_mc.cfg", timeout=1500, coverage=not ctx.thorough, defines={
        "OpSet": ops, "MaxN": ctx.pick(3, 4), "MaxFail": ctx.pick(1, 2)})
    if not ctx.thorough and res.coverage_zero():
        ctx.notes.append("MergeExplode.tla coverage: locations never reached: %s" % res.coverage_zero()[:5])
    reached = set(res.printed_raw("SHAPE"))
    if reached != {'"%s"' % x for x in SHAPES}:
        raise vk.Inconclusive("shapes reachable in MergeExplode.tla: %s" % sorted(reached))
    if ctx.thorough:
        r2 = ctx.tlc("MergeExplode", "MergeExplode_strict.cfg", count=False, defines={"OpSet": ops, "MaxN": 2, "MaxFail": 1})
        if r2.ok or r2.invariant != "SuccessCompleteStrict":
            raise vk.Inconclusive("expected only SuccessCompleteStrict to fail on the model of the design: %s" % r2.log)
    ctx.notes.append("model: NoDuplicateRepo holds in every state; strict success=>complete fails in exactly the two named shapes")

    # ---------------------------------------------------------------- V
    binp = ctx.go_build_test(PKG, FILES)
    rn = Runner(ctx, binp)
    cfgs = configs(ctx)
    reps = ctx.pick(1, 2)
    pool = concurrent.futures.ThreadPoolExecutor(max_workers=min(8, vk.NCPU))
    tmpls = {cname(c): pool.submit(rn.prep, c) for c in cfgs}
    tmpls = {k: v.result() for k, v in tmpls.items()}
    refs = {cname(c): pool.submit(rn.one, c, tmpls[cname(c)], "ref") for c in cfgs}
    refs = {k: v.result() for k, v in refs.items()}
    jobs = []
    for cfg in cfgs:
        n = cname(cfg)
        ref = refs[n]
        if ref["rc"] not in (0, 1):
            raise vk.Inconclusive("reference run of %s failed with rc=%s" % (n, ref["rc"]))
        if any(m["s"].tid != ref["tid"] for m in ref["muts"]):
            raise vk.Inconclusive("a second thread touches the index directory in %s" % n)
        rm = real(ref["muts"])
        if sum(1 for m in rm if m["op"] != "open") < 4:
            raise vk.Inconclusive("reference run of %s shows too few mutations" % n)
        for rep in range(reps):
            for j, mu in enumerate(rm):
                s = mu["s"]
                if mu["op"] != "open" and (ctx.thorough or mu["op"] != "chmod"):
                    jobs.append((cfg, "kill", j, "%s:error=EIO:signal=SIGKILL:when=%d" % (s.name, s.ordinal), rep))
                if mu["op"] in ("open", "create", "rename", "unlink"):
                    jobs.append((cfg, "fault", j, "%s:error=EIO:when=%d" % (s.name, s.ordinal), rep))
    ctx.log("configurations: %d, supervised runs: %d" % (len(cfgs), len(jobs)))

    def supervised(job):
        cfg, kind, j, inject, rep = job
        n = cname(cfg)
        rm = real(refs[n]["muts"])
        why = None
        for attempt in range(3):
            r = rn.one(cfg, tmpls[n], "%s_%d_%d_%d" % (kind, j, rep, attempt), inject)
            got = real(r["muts"])
            ops_ = [m["op"] for m in got]
            if kind == "kill":
                ok = (r["rc"] == -9 and len(got) == j + 1 and got[-1]["res"] == "kill"
                      and ops_ == [m["op"] for m in rm[:j + 1]] and all(m["res"] == "ok" for m in got[:-1]))
            else:
                ok = (r["rc"] in (0, 1) and len(got) > j and got[j]["res"] == "fail"
                      and ops_[:j + 1] == [m["op"] for m in rm[:j + 1]]
                      and all(m["res"] == "ok" for i, m in enumerate(got) if i != j))
            if ok and not any(m["s"].tid != r["tid"] for m in r["muts"]):
                return job, r, None
            why = "rc=%s ops=%s" % (r["rc"], [(m["op"], m["res"]) for m in got])
        return job, None, why

    trace, scen, inconclusive = [], [], []

    def emit(cfg, kind, point, r):
        n = cname(cfg)
        start = len(trace)
        trace.append({"ev": "reset", "cfg": cfg, "run": kind, "point": point})
        for m in real(r["muts"]):
            if m["res"] == "kill" or (m["op"] == "open" and m["res"] == "ok"):
                continue
            trace.append({"ev": "mut", "op": m["op"], "f": abstract_file(m["paths"][0], rn.comp[n]), "res": m["res"]})
        k = {"ref": "done", "kill": "crash", "fault": "fault"}[kind]
        rep = "none" if k == "crash" else ("ok" if r["rc"] == 0 else "err")
        trace.append({"ev": "end", "kind": k, "reported": rep, "view": r["view"]["view"], "files": r["files"],
                      "bad": len(r["view"].get("bad", [])) + int(r["view"].get("crashes", 0))})
        scen.append({"cfg": cfg, "run": kind, "point": point, "start": start + 1, "end": len(trace), "r": r})

    finished = []
    for job, r, why in pool.map(supervised, jobs):
        cfg, kind, j, inject, rep = job
        if r is None:
            inconclusive.append("%s %s@%d (%s): %s" % (cname(cfg), kind, j, inject, why))
            continue
        finished.append((cfg, kind, j, r))
    ctx.log("supervised runs done, loading %d surviving directories" % (len(finished) + len(cfgs)))
    allr = [refs[cname(c)] for c in cfgs] + [x[3] for x in finished]
    views = fs.load_views(pool, binp, rn.load_env, "C35VIEW", [r["dir"] for r in allr])
    for r in allr:
        r["view"] = views[r["dir"]]
        if not ctx.keep:
            shutil.rmtree(r["dir"], ignore_errors=True)
    for cfg in cfgs:
        emit(cfg, "ref", 0, refs[cname(cfg)])
    for cfg, kind, j, r in finished:
        emit(cfg, kind, j, r)
    pool.shutdown()
    if len(inconclusive) > max(2, len(jobs) // 20):
        raise vk.Inconclusive("%d of %d supervised runs did not hit the addressed syscall: %s" % (
            len(inconclusive), len(jobs), inconclusive[:3]))
    if inconclusive:
        ctx.notes.append("supervised runs dropped as inconclusive: %s" % inconclusive)

    tp = ctx.path("trace_merge.ndjson")
    vk.write_ndjson(tp, trace)
    acc, rej = ctx.validate_trace("Trace_MergeExplode", "Trace_MergeExplode.cfg", tp, name="tlc_trace", timeout=1500)

    by_line = {}
    for sc in scen:
        for ln in range(sc["start"], sc["end"] + 1):
            by_line[ln] = sc
    groups, bad_scen = {}, set()
    for rj in rej:
        sc = by_line[rj["line"]]
        bad_scen.add(sc["start"])
        e = trace[rj["line"] - 1]
        cfg = sc["cfg"]
        why, exp = rj["why"], rj["expected"]
        if why == "not-enabled":
            sig = "C35:order:%s-%s:%s" % (e["op"], e["f"]["k"], cfg["op"])
        elif why == "success-not-done":
            sig = "C35:success-not-done:%s" % exp.get("shape")
        else:
            sig = "C35:%s:%s" % (why, cfg["op"])
        end = trace[sc["end"] - 1]
        groups.setdefault(sig, []).append({
            "config": cfg, "run": sc["run"], "point": sc["point"], "why": why, "expected": exp,
            "mutations": [(x["op"], "%s%d" % (x["f"]["k"], x["f"]["i"]), x["res"]) for x in trace[sc["start"]:sc["end"] - 1]],
            "rejected_event": {k: v for k, v in e.items() if k not in ("view", "files")},
            "reported": end["reported"], "observed_view": end["view"],
            "surviving_files": ["%s%d" % (f["k"], f["i"]) for f in end["files"]],
            "stdout": sc["r"]["stdout"][:300], "loader": {k: v for k, v in sc["r"]["view"].items() if k in ("bad", "crashes", "files")}})
    for sig in sorted(groups):
        occ = sorted(groups[sig], key=lambda o: (o["config"]["n"], len(o["mutations"])))
        d = dict(occ[0])
        d["occurrences"] = len(occ)
        d["also_at"] = [[cname(o["config"]), o["run"], o["point"]] for o in occ[1:12]]
        ctx.violation(sig, d)
    ctx.traces_validated = len(scen) - len(bad_scen)

    # non-trivial: the surviving directory is neither the input nor the completed layout
    nontrivial = 0
    for sc in scen:
        n = cname(sc["cfg"])
        f0 = [abstract_file(f, rn.comp[n]) for f in sorted(os.listdir(tmpls[n]))]
        if sc["run"] != "ref" and sc["r"]["files"] not in (f0, refs[n]["files"]):
            nontrivial += 1
    for sc in scen[len(cfgs)::max(1, (len(scen) - len(cfgs)) // 5)]:
        ctx.sample({"config": cname(sc["cfg"]), "run": sc["run"], "point": sc["point"],
                    "files": ["%s%d" % (f["k"], f["i"]) for f in sc["r"]["files"]], "view": sc["r"]["view"]["view"]})
    ctx.assumptions += [
        "strace reports every file-system mutation of the index directory and inject=...:signal=SIGKILL stops the "
        "process before the addressed syscall takes effect",
        "a process kill, not a power failure (no fsync modelling)",
        "the Go driver's projection of search results (repository and document identity from content; a repository "
        "visible in two shards shows every document twice)"]
    return ctx.finish(
        evaluations=len(scen), distinct_nontrivial=nontrivial,
        rule="one evaluation = one run of the real zoekt-merge-index main() in a child under strace (reference, killed at "
             "mutation point j, or with open/create/rename/unlink j failing) followed by loading the surviving directory "
             "with search.NewDirectorySearcher in a fresh process, validated by Trace_MergeExplode.tla; non-trivial = "
             "supervised runs whose surviving directory differs from both the input and the completed layout",
        exhaustive=False,
        extra={"configurations": [cname(c) for c in cfgs], "supervised_runs": len(jobs),
               "trace_events": len(trace), "rejections": len(rej)})
