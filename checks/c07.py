"""C07 — query parsing and API query decoding never crash; every parsed query can be searched,
listed, printed and converted to the wire format without panicking.

M/R: spec/sys/QueryLang.tla is the documented EBNF as a token grammar.  TLC enumerates (i) its
   derivations, (ii) every field prefix with every value class in five contexts, (iii) EVERY token
   sequence up to a length over the damage alphabet ( ( ) or - " \\ and operands: all deletions,
   duplications, swaps, unbalanced and dangling forms), (iv) every shape of a JSON request body
   {Q, RepoIDs, Opts}; invariant: derivations are recognised as well-formed.  Every sentence is a
   script; the driver adds seeded random byte strings, one-byte mutants and very long / deeply
   nested inputs.
V: the real code runs every input in supervised child processes (recover, CPU/memory watchdog,
   journal); Trace_Total.tla accepts only the outcomes {ok, error} and the protocol parse ->
   (print, toProto -> fromProto, search x2, list x2)."""
import collections
import json
import random
import re

from lib import vk

PKG, FILES = "search", ["c07_total_test.go"]


def msg_class(msg):
    m = re.sub(r"0x[0-9a-f]+", "#", msg)
    m = re.sub(r"\d+(\.\d+)?(ms|s|µs)?", "#", m)
    return m.strip()[:60]


def validate(ctx, *a, **kw):
    """validate_trace_sharded, retried once with smaller parts when a TLC process disappears
    (killed under memory pressure on the shared machine) -- an infrastructure problem, never a verdict."""
    try:
        return ctx.validate_trace_sharded(*a, **kw)
    except vk.Inconclusive as e:
        if "consumed ?" not in str(e) and "resource failure" not in str(e):
            raise
        ctx.log("trace validation failed (%s); retrying once with smaller parts" % e)
        kw["shards"] = kw.get("shards", 8) * 2
        kw["name"] = kw.get("name", "tlcs") + "_retry"
        kw["heap"] = "2g"
        return ctx.validate_trace_sharded(*a, **kw)


def run(ctx):
    res = ctx.model_check("QueryLang", "QueryLang_mc.cfg", name="tlc_gen", timeout=7200, workers=4, defines={
        "Families": '{"grammar", "fields", "damage", "json"}', "MaxLenGrammar": ctx.pick(5, 6), "MaxLenDamage": ctx.pick(4, 5),
        "MaxDepth": 2, "Emit": "TRUE"})
    scripts = res.printed("SCRIPT")
    fam = collections.defaultdict(list)
    for s in scripts:
        fam[s["family"]].append(s)
    for f in fam.values():
        f.sort(key=lambda s: json.dumps(s, sort_keys=True))
    need = {"grammar": 5000, "fields": 4500, "damage": 10000, "json": 2800}
    short = {k: len(fam[k]) for k, n in need.items() if len(fam[k]) < n}
    if short:
        raise vk.Inconclusive("too few scripts from TLC: %s" % short)
    generated = {k: len(v) for k, v in fam.items()}
    rng = random.Random(ctx.seed)
    cap = ctx.pick(3000, 20000)
    if len(fam["grammar"]) > cap:
        # the derivations are a sample in the quick tier; fields / damage / json are always complete
        fam["grammar"] = rng.sample(fam["grammar"], cap)
    used = fam["grammar"] + fam["fields"] + fam["damage"] + fam["json"]
    wf_damage = sum(1 for s in fam["damage"] if s["wf"])
    if wf_damage == 0 or wf_damage == len(fam["damage"]):
        raise vk.Inconclusive("the damage family does not contain both well-formed and damaged sentences")
    ctx.log("sentences from TLC: %s; used %d (damage family: %d well-formed, %d damaged)" % (
        generated, len(used), wf_damage, len(fam["damage"]) - wf_damage))
    inp = ctx.path("scripts.ndjson")
    vk.write_ndjson(inp, used)

    binp = ctx.go_build_test(PKG, FILES)
    outp = ctx.path("trace.ndjson")
    rc, o = ctx.run_bin(binp, "^TestVerif_C07_Batch$", env={"VERIF_IN": inp, "VERIF_OUT": outp}, timeout=14400)
    with open(ctx.path("driver.log"), "w") as fh:
        fh.write(o)
    if rc != 0 or "--- PASS: TestVerif_C07_Batch" not in o:
        raise vk.Inconclusive("driver did not complete (rc=%d):\n%s" % (rc, o[-3000:]))
    events = vk.read_ndjson(outp)
    ctx.log("driver done: %d events" % len(events))

    # the trace spec reads whole groups: split only at input events; no header line
    acc, rej = validate(ctx, "Trace_Total", "Trace_Total.cfg", outp, header_lines=0, shards=8, name="tlcs",
                                          timeout=14400, group_start=lambda ln: '"ev":"input"' in ln)

    inputs = {}
    ops_of = collections.defaultdict(list)
    for e in events:
        if e["ev"] == "input":
            inputs[e["id"]] = e
        else:
            ops_of[e["id"]].append(e)
    stalled = [e for e in events if e["ev"] == "op" and e["outcome"] == "stalled"]
    if stalled:
        raise vk.Inconclusive("an operation made no progress without consuming CPU (not a positive observation): %s" % stalled[:2])

    worst = {}
    counts = collections.Counter()
    bad_inputs = set()
    for r in rej:
        e = events[r["line"] - 1]
        if e["ev"] == "input":
            i = e
            sig = "C07:%s" % r["why"]
        else:
            i = inputs[e["id"]]
            site, cls = e["site"], msg_class(e["msg"])
            if r["why"] != "outcome":
                sig = "C07:%s:%s" % (e["op"], r["why"])
            else:
                if e["outcome"] == "crash":
                    # a panic contained by the sharded searcher; the bare shard searcher shows the panic itself
                    site, cls = "?", ""
                if e["outcome"] in ("hang", "oom", "died", "stackoverflow"):
                    cls = ""
                sig = "C07:%s:%s:%s:%s" % (e["op"], e["outcome"], site or "?", cls)
                while sig.endswith(":") or sig.endswith(":?"):
                    sig = sig[:-2] if sig.endswith(":?") else sig[:-1]
        bad_inputs.add(i["id"])
        counts[sig] += 1
        detail = {"input": i["text"], "input_hex": i["hex"], "bytes": i["n"], "kind": i["kind"], "family": i["family"], "class": i["class"],
                  "why": r["why"], "spec": r["expected"],
                  "observed": {k: e.get(k) for k in ("op", "outcome", "site", "msg", "status")} if e["ev"] == "op" else None,
                  "all_ops": [(x["op"], x["outcome"]) for x in ops_of[i["id"]]]}
        if sig not in worst or i["n"] < worst[sig][0]:
            worst[sig] = (i["n"], detail)
    for sig in sorted(worst):
        d = worst[sig][1]
        d["occurrences"] = counts[sig]
        ctx.violation(sig, d)
    for sig, n in sorted(counts.items()):
        ctx.log("signature %-95s x %d (minimal input %r)" % (sig, n, worst[sig][1]["input"][:50]))

    # ---- evidence / vacuity
    nops = sum(1 for e in events if e["ev"] == "op")
    by_op = collections.Counter((e["op"], e["outcome"]) for e in events if e["ev"] == "op")
    by_family = collections.Counter()
    parsed = collections.Counter()
    for i, e in inputs.items():
        by_family[e["family"]] += 1
        if e["kind"] == "query" and ops_of[i] and ops_of[i][0]["op"] == "parse":
            parsed[(e["family"], ops_of[i][0]["outcome"])] += 1
    for f in ("grammar", "fields", "damage", "random"):
        if parsed[(f, "ok")] == 0 or parsed[(f, "error")] == 0:
            raise vk.Inconclusive("vacuous: family %s has no %s parse" % (f, "successful" if parsed[(f, "ok")] == 0 else "failing"))
    for op in ("print", "toProto", "fromProto", "search-dir", "search-shard", "list-dir", "list-shard", "jsonSearch", "jsonList"):
        if by_op[(op, "ok")] == 0:
            raise vk.Inconclusive("vacuous: operation %s never succeeded" % op)
    structured = sum(n for f, n in by_family.items() if f != "random")
    ctx.traces_validated = len(inputs) - len(bad_inputs)
    for f in ("grammar", "damage", "json"):
        xs = [e for e in inputs.values() if e["family"] == f]
        x = xs[len(xs) // 2]
        ctx.sample({"family": f, "input": x["text"][:120], "ops": [(o["op"], o["outcome"], o["status"]) for o in ops_of[x["id"]]]})
    return ctx.finish(
        evaluations=nops, distinct_nontrivial=structured,
        rule="evaluations = operations executed on the real code under supervision (parse, print, toProto, fromProto, search and "
             "list on a directory searcher and a bare shard searcher, JSON search/list handlers), each validated by "
             "Trace_Total.tla; non-trivial = distinct inputs from the structured families (TLC: grammar derivations, fields x "
             "value classes, all token sequences over the damage alphabet, JSON shapes; plus envelope damage, malformed wire "
             "queries, long/nested inputs); seeded random byte strings and one-byte mutants are exploration and counted separately",
        exhaustive=False,
        extra={"sentences_generated_by_tlc": generated, "inputs_by_family": dict(by_family),
               "random_inputs": by_family["random"],
               "parse_outcomes_by_family": {"%s:%s" % k: v for k, v in sorted(parsed.items())},
               "outcomes_by_operation": {"%s:%s" % k: v for k, v in sorted(by_op.items())},
               "violation_signatures": dict(counts),
               "exhaustive_scope": "every field prefix x value class x 5 contexts; every token sequence of length <= %d over the "
                                   "10-token damage alphabet; every JSON body shape (10 x 10 x 14 x 2 handlers); EBNF derivations "
                                   "<= %d tokens (%s)" % (ctx.pick(4, 5), ctx.pick(5, 6), ctx.pick("sampled: 3000", "sampled: 20000"))})
