"""C18 — the sharded searcher returns the union of per-shard answers.
V (in-package driver in package search): for shard sets mixing simple and compound shards and
repositories split over two shards, and queries whose top level combines repository sets, ids,
branch-repository lists, repository regexps, metadata filters and type:repo with content atoms:
 (1) the sharded searcher's reply is validated against QuerySem!Answer over the whole corpus
     (= the union of the per-shard answers) and Geometry!CheckRanges;
 (2) the output of selectRepoSet itself (kept shards, rewritten query) is validated by TLC on the
     logged shard contents: dropped shards have an empty answer, the rewritten query selects the
     same documents as the original on every kept shard;
 (3) List returns each repository once with statistics summed over its shards."""
import os
from checks import searchsem
from lib import vk


def run(ctx):
    ctx.level = "exploration"
    searchsem.FILES[:] = ["c18_select_test.go"]
    runs = [("TestVerif_C18_Select", {"VERIF_CORPORA": ctx.pick(25, 300)})]

    def classify(sig, e, events, line, rej=None):
        if sig == "C18:rewrite-changes-answer":
            q = e.get("qs", "")
            if "branchesrepos" in q and "HEAD" in q and "HEAD" in e.get("rqs", ""):
                return sig + ":branchesrepos-HEAD"
        return sig
    total, searches, nt = searchsem.run_family(ctx, "C18", "Trace_Search_c18.cfg", runs, "c18", lambda e: len(e["files"]) > 0,
                                               timeout=ctx.pick(1500, 5000), classify=classify)
    events = vk.read_ndjson(os.path.join(ctx.work, "trace_TestVerif_C18_Select.ndjson"))
    sel = [e for e in events if e["ev"] == "select"]
    lst = [e for e in events if e["ev"] == "list"]
    nontriv = sum(1 for e in sel if len(e["kept"]) < len(e["all"]) or e["qs"] != e["rqs"])
    ctx.traces_validated += len(sel) + len(lst)
    x = [e for e in sel if e["qs"] != e["rqs"]]
    if x:
        ctx.sample({"select": {"query": x[0]["qs"], "rewritten": x[0]["rqs"], "all": x[0]["all"], "kept": x[0]["kept"]}})
    return ctx.finish(evaluations=searches + len(sel) + len(lst), distinct_nontrivial=nontriv,
                      rule="sharded searches, selectRepoSet outputs and listings validated; non-trivial = selectRepoSet calls that dropped a "
                           "shard or rewrote the query",
                      extra={"events": total, "searches": searches, "select_events": len(sel), "list_events": len(lst)})
