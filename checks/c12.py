"""C12 — a killed indexer leaves the old or the new index, never a mix; success => installed.

M: spec/sys/Finish.tla (FinishOps.tla) model-checked over every configuration (mode x old shards
   x new shards x sidecars) with a crash in every state and failing rename/unlink operations.
V: the real installing operations (index.Builder.Finish full / delta / ShardMerging, the
   indexserver's mergeMeta) run in a child process under strace.  Run 0 of a configuration gives
   the mutation log of the index directory; then the run is repeated once per mutation point with
   strace killing the process at that syscall, and once per rename/unlink with that syscall made
   to fail (EIO).  After every run a fresh process loads the surviving directory with the real
   search.NewDirectorySearcher.  Trace_Finish.tla validates every run: each mutation is an
   enabled step of the install protocol, the observed view is the view the model computes, the
   report is the report the model computes, and the observed view is Old or New
   (and New when success was reported).

The strace helpers at the top are shared with checks/c35.py."""
import concurrent.futures
import json
import os
import re
import shutil
import subprocess

from lib import vk

SHAPES = ["multi-artifact-rename", "stale-old-left", "stale-sidecar", "rename-failed-old-deleted",
          "rename-failed-partial-install", "unlink-failed-stale-left", "tombstone-rename-failed", "error-overwritten"]

PKG = "cmd/zoekt-sourcegraph-indexserver"
FILES = ["c12_finish_test.go"]

STRACE_SET = ("openat,write,rename,renameat,renameat2,unlink,unlinkat,mkdirat,fchmod,fchmodat,"
              "utimensat,ftruncate,linkat,symlinkat")


# ----------------------------------------------------------------------------- strace helpers
class Sys:
    __slots__ = ("tid", "name", "text", "ret", "errno", "injected", "killed", "ordinal", "line")

    def __repr__(self):
        return "%d %s#%d %s = %s%s" % (self.tid, self.name, self.ordinal, self.text[:160], self.ret,
                                       " INJECTED" if self.injected else "")


def strace_cmd(log, inject=None):
    cmd = ["strace", "-f", "-y", "-s", "0", "-e", "signal=none", "-e", "trace=" + STRACE_SET]
    if inject:
        cmd += ["-e", "inject=" + inject]
    return cmd + ["-o", log]


_line = re.compile(r"^(\d+)\s+(.*)$")
_call = re.compile(r"^(\w+)\((.*)$")
_resumed = re.compile(r"^<\.\.\. (\w+) resumed>(.*)$")
_ret = re.compile(r"^(.*)\)\s+= (-?\d+|\?)(<[^>]*>)?(?: (E[A-Z]+) \([^)]*\))?( \(INJECTED\))?\s*$")


def parse_strace(path):
    """-> (list of Sys in log order, {tid: 'exited N' | 'killed SIG'}).  The ordinal of a call is
    its position among the calls of the same name entered by the same thread (what strace's
    inject `when=` counts)."""
    calls = []
    pending = {}
    counts = {}
    ends = {}
    with open(path, errors="replace") as fh:
        for ln, raw in enumerate(fh, 1):
            m = _line.match(raw.rstrip("\n"))
            if not m:
                continue
            tid, body = int(m.group(1)), m.group(2)
            if body.startswith("+++"):
                ends[tid] = body.strip("+ ").strip()
                continue
            if body.startswith("---"):
                continue
            r = _resumed.match(body)
            if r:
                s = pending.pop(tid, None)
                if s is None:
                    continue
                _finish(s, s.text + r.group(2))
                continue
            c = _call.match(body)
            if not c:
                continue
            s = Sys()
            s.tid, s.name, s.line = tid, c.group(1), ln
            key = (tid, s.name)
            counts[key] = counts.get(key, 0) + 1
            s.ordinal = counts[key]
            s.ret, s.errno, s.injected, s.killed = None, None, False, False
            rest = c.group(2)
            calls.append(s)
            if rest.endswith("<unfinished ...>"):
                s.text = rest[:-len("<unfinished ...>")]
                pending[tid] = s
            else:
                _finish(s, rest)
    for s in pending.values():
        s.ret, s.killed = "?", True
    return calls, ends


def _finish(s, rest):
    m = _ret.match(rest)
    if not m:
        s.text, s.ret, s.killed = rest, "?", True
        return
    s.text = m.group(1)
    s.ret = m.group(2)
    s.errno = m.group(4)
    s.injected = bool(m.group(5))
    s.killed = s.ret == "?"


_q = re.compile(r'"((?:[^"\\]|\\.)*)"')
_fd = re.compile(r"^(\d+)<([^>]*)>")


def sys_paths(s):
    """paths named by a call: quoted string arguments, and the path of a leading fd argument."""
    if s.name in ("write", "fchmod", "ftruncate"):
        m = _fd.match(s.text)
        return [m.group(2)] if m else []
    return _q.findall(s.text)


def dir_mutations(calls, d, reads=False):
    """calls that change (or were meant to change) something directly inside directory d.
    -> list of dict(op, paths, res, s) in log order.  res: ok | fail (injected error) | kill
    (injected kill: did not happen) | noop (failed on its own, e.g. ENOENT).
    reads=True also lists read-only opens (op "open")."""
    pre = d.rstrip("/") + "/"
    res = []
    for s in calls:
        paths = [p for p in sys_paths(s) if p.startswith(pre) and "/" not in p[len(pre):]]
        if not paths:
            continue
        op = None
        if s.name == "openat":
            flags = s.text.split('", ', 1)[1] if '", ' in s.text else ""
            if "O_CREAT" in flags:
                op = "create"
            elif "O_WRONLY" in flags or "O_RDWR" in flags or "O_TRUNC" in flags:
                op = "openw"
            elif reads:
                op = "open"
            else:
                continue
        elif s.name == "write":
            op = "write"
        elif s.name in ("fchmod", "fchmodat"):
            op = "chmod"
        elif s.name in ("rename", "renameat", "renameat2"):
            op = "rename"
        elif s.name in ("unlink", "unlinkat"):
            op = "unlink"
        else:
            op = "other-" + s.name
        if s.killed:
            r = "kill"
        elif s.injected:
            r = "fail"
        elif s.ret is not None and s.ret.startswith("-"):
            r = "noop"
        else:
            r = "ok"
        res.append({"op": op, "paths": paths, "res": r, "s": s})
    return res


def run_traced(binp, env, log, inject=None, timeout=180, cwd=None, stdin=None):
    """run binp under strace.  -> (exit code of the tracee or -9 when killed, stdout)"""
    e = dict(os.environ)
    e.update(CHILD_ENV)
    e.update({k: str(v) for k, v in env.items()})
    try:
        r = subprocess.run(strace_cmd(log, inject) + [binp], env=e, stdout=subprocess.PIPE, stderr=subprocess.DEVNULL,
                           timeout=timeout, cwd=cwd, input=stdin)
    except subprocess.TimeoutExpired:
        raise vk.Inconclusive("traced run timed out (%s)" % (inject or "reference"))
    rc = r.returncode
    if rc in (137, -9):
        rc = -9
    return rc, r.stdout.decode("utf8", "replace")


def run_plain(binp, env, timeout=180, cwd=None):
    e = dict(os.environ)
    e.update(CHILD_ENV)
    e.update({k: str(v) for k, v in env.items()})
    try:
        r = subprocess.run([binp], env=e, stdout=subprocess.PIPE, stderr=subprocess.PIPE, timeout=timeout, cwd=cwd)
    except subprocess.TimeoutExpired:
        raise vk.Inconclusive("child process timed out")
    return r.returncode, r.stdout.decode("utf8", "replace"), r.stderr.decode("utf8", "replace")


def main_tid(calls):
    return calls[0].tid if calls else 0


CHILD_ENV = {"GOMAXPROCS": "2"}   # fewer runtime threads for strace to follow


def load_views(pool, binp, env_for, tag, dirs, chunk=8):
    """load every directory in dirs with the driver's `load` role in fresh processes (several
    directories per process, one searcher each).  -> {dir: projection}.  A loader process that
    dies is retried per directory; a directory that kills the loader is reported as such."""
    pat = re.compile(r"^%s (.*)$" % tag, re.M)

    def go(ds):
        rc, out, err = run_plain(binp, env_for(ds))
        got = {}
        for m in pat.finditer(out):
            v = json.loads(m.group(1))
            got[v["dir"]] = v
        if rc == 0 and all(d in got for d in ds):
            return got
        if len(ds) == 1:
            return {ds[0]: {"dir": ds[0], "view": [], "bad": ["loader rc=%d: %s" % (rc, err[-400:])], "crashes": 1,
                            "files": sorted(os.listdir(ds[0])), "loader_died": True}}
        res = {}
        for d in ds:
            res.update(go([d]))
        return res

    chunks = [dirs[i:i + chunk] for i in range(0, len(dirs), chunk)]
    res = {}
    for got in pool.map(go, chunks):
        res.update(got)
    return res


# ----------------------------------------------------------------------------- C12 proper
_name = re.compile(r"^(?P<pre>.+)_v(?P<v>\d+)\.(?P<i>\d{5})\.zoekt(?P<meta>\.meta)?(?P<tmp>\.\d+\.tmp)?$")


def abstract_file(path):
    b = os.path.basename(path)
    m = _name.match(b)
    if not m:
        return {"k": "unknown", "i": 0}
    comp = m.group("pre").startswith("compound-")
    if not comp and m.group("pre") != "repoX":
        return {"k": "foreign", "i": int(m.group("i"))}
    base = "comp" if comp else "shard"
    if m.group("meta"):
        base = "compmeta" if comp else "meta"
    if m.group("tmp"):
        base += "tmp"
    return {"k": base, "i": int(m.group("i"))}


def mut_event(mu):
    """strace mutation -> trace event (the file acted upon is the rename source)."""
    return {"ev": "mut", "op": mu["op"], "f": abstract_file(mu["paths"][0]), "res": mu["res"]}


def configs(ctx):
    q = [("full", 1, 1, False), ("full", 1, 2, False), ("full", 2, 1, False), ("full", 2, 2, False),
         ("full", 1, 1, True), ("delta", 1, 1, False), ("delta", 2, 1, False), ("meta", 2, 1, False),
         ("meta", 3, 1, False), ("compound", 1, 1, False)]
    t = q + [("full", 3, 1, False), ("full", 0, 2, False), ("full", 2, 3, False), ("full", 3, 3, True),
             ("full", 2, 1, True), ("full", 1, 2, True), ("delta", 3, 1, False), ("delta", 2, 1, True),
             ("meta", 1, 1, False), ("meta", 3, 1, True), ("compound", 1, 2, False)]
    return [{"mode": m, "k": k, "m": mm, "sidecar": sc, "d": ctx.pick(3, 4)} for (m, k, mm, sc) in ctx.pick(q, t)]


class Runner:
    def __init__(self, ctx, binp):
        self.ctx = ctx
        self.binp = binp
        self.n = 0

    def cfg_env(self, cfg, d, role):
        c = dict(cfg)
        c["dir"] = d
        return {"VERIF_C12_ROLE": role, "VERIF_C12_CFG": json.dumps(c)}

    def prep(self, cfg, name):
        d = self.ctx.path(name, "tmpl", "index")
        rc, out, err = run_plain(self.binp, self.cfg_env(cfg, d, "prep"))
        if rc != 0:
            raise vk.Inconclusive("preparing the old index failed (rc=%d): %s" % (rc, err[-2000:]))
        return d

    def load_env(self, dirs):
        return {"VERIF_C12_ROLE": "load", "VERIF_C12_CFG": json.dumps({"dirs": dirs})}

    def one(self, cfg, name, tmpl, tag, inject=None):
        """copy the old index, run the operation under strace, load the result."""
        base = self.ctx.mkdir(name, tag)
        d = os.path.join(base, "index")
        shutil.copytree(tmpl, d)
        log = os.path.join(base, "strace.log")
        rc, out = run_traced(self.binp, self.cfg_env(cfg, d, "build"), log, inject)
        calls, ends = parse_strace(log)
        muts = dir_mutations(calls, d)
        files = sorted(abstract_name(f) for f in os.listdir(d))
        return {"rc": rc, "muts": muts, "view": None, "files": files, "log": log, "tid": main_tid(calls), "dir": d}


def abstract_name(fn):
    a = abstract_file(fn)
    return "%s%d" % (a["k"], a["i"])


def end_event(kind, rc, view):
    rep = "none" if kind == "crash" else ("ok" if rc == 0 else "err")
    return {"ev": "end", "kind": kind, "reported": rep, "view": view["view"],
            "bad": len(view.get("bad", [])) + int(view.get("crashes", 0))}


def real_muts(muts):
    return [m for m in muts if m["res"] != "noop"]


def run(ctx):
    # ---------------------------------------------------------------- M
    allmodes = '{"full","delta","meta","compound"}'
    mk = ctx.pick(3, 4)
    res = ctx.model_check("Finish", "Finish_mc.cfg", timeout=1500, coverage=not ctx.thorough, defines={
        "ModeSet": allmodes, "MaxK": mk, "MaxM": mk, "MaxFail": ctx.pick(1, 2)})
    if not ctx.thorough:
        cz = res.coverage_zero()
        if cz:
            ctx.notes.append("Finish.tla coverage: locations never reached: %s" % cz[:5])
    # every named shape (design-level counterexample) is reachable, nothing else is
    reached = set(res.printed_raw("SHAPE"))
    want = {'"%s"' % x for x in SHAPES}
    if reached != want:
        raise vk.Inconclusive("shapes reachable in Finish.tla: %s, expected %s" % (sorted(reached), sorted(want)))
    if ctx.thorough:
        r2 = ctx.tlc("Finish", "Finish_strict.cfg", count=False, defines={
            "ModeSet": allmodes, "MaxK": 2, "MaxM": 2, "MaxFail": 1})
        if r2.ok or r2.invariant not in ("CrashAtomicStrict", "SuccessMeansInstalledStrict"):
            raise vk.Inconclusive("the strict property was expected to fail on the model of the design: %s" % r2.log)
    ctx.notes.append("model: all 8 named non-atomic shapes are reachable (so the strict property fails on the design), no other shape is")

    # ---------------------------------------------------------------- V
    binp = ctx.go_build_test(PKG, FILES)
    rn = Runner(ctx, binp)
    cfgs = configs(ctx)
    reps = ctx.pick(1, 2)
    trace = []
    scen = []          # per scenario: dict(cfg, run, point, result)
    inconclusive = []
    jobs = []
    refs = {}
    pool = concurrent.futures.ThreadPoolExecutor(max_workers=min(8, vk.NCPU))

    def cname(cfg):
        return "%s_k%d_m%d%s" % (cfg["mode"], cfg["k"], cfg["m"], "_sc" if cfg["sidecar"] else "")

    # reference runs (run 0) first, in parallel
    tmpls = {}
    for cfg in cfgs:
        tmpls[cname(cfg)] = pool.submit(rn.prep, cfg, cname(cfg))
    for cfg in cfgs:
        n = cname(cfg)
        tmpls[n] = tmpls[n].result()
        refs[n] = pool.submit(rn.one, cfg, n, tmpls[n], "ref")
    for cfg in cfgs:
        n = cname(cfg)
        ref = refs[n] = refs[n].result()
        if ref["rc"] not in (0, 3):
            raise vk.Inconclusive("reference run of %s failed with rc=%s" % (n, ref["rc"]))
        foreign = [m for m in ref["muts"] if m["s"].tid != ref["tid"]]
        if foreign:
            raise vk.Inconclusive("a second thread mutates the index directory in %s: %r" % (n, foreign[0]["s"]))
        rm = real_muts(ref["muts"])
        if len(rm) < 3:
            raise vk.Inconclusive("reference run of %s shows only %d mutations" % (n, len(rm)))
        for rep in range(reps):
            for j, mu in enumerate(rm):
                s = mu["s"]
                # quick tier: a kill at the fchmod of a temp file leaves the same directory as a kill at
                # its first write (an empty temp file), so only the latter is run
                if ctx.thorough or mu["op"] != "chmod":
                    jobs.append((cfg, n, "kill", j, mu, "%s:error=EIO:signal=SIGKILL:when=%d" % (s.name, s.ordinal), rep))
                    if cfg["mode"] == "meta" and mu["op"] == "rename" and rep == 0:
                        # the sidecars are renamed in map order: a few more samples of which ones were installed
                        for extra in (10, 11, 12):
                            jobs.append((cfg, n, "kill", j, mu, "%s:error=EIO:signal=SIGKILL:when=%d" % (s.name, s.ordinal), extra))
                if mu["op"] in ("rename", "unlink"):
                    jobs.append((cfg, n, "fault", j, mu, "%s:error=EIO:when=%d" % (s.name, s.ordinal), rep))
    ctx.log("configurations: %d, supervised runs: %d" % (len(cfgs), len(jobs)))

    def supervised(job):
        cfg, n, kind, j, mu, inject, rep = job
        ref = refs[n]
        rm = real_muts(ref["muts"])
        why = None
        for attempt in range(3):
            r = rn.one(cfg, n, tmpls[n], "%s_%d_%d_%d" % (kind, j, rep, attempt), inject)
            got = real_muts(r["muts"])
            ops = [m["op"] for m in got]
            if kind == "kill":
                # exactly the first j mutations happened, the next one is the killed syscall
                ok = (r["rc"] == -9 and len(got) == j + 1 and got[-1]["res"] == "kill"
                      and ops == [m["op"] for m in rm[:j + 1]] and all(m["res"] == "ok" for m in got[:-1]))
            else:
                ok = (r["rc"] in (0, 3) and len(got) > j and got[j]["res"] == "fail"
                      and ops[:j + 1] == [m["op"] for m in rm[:j + 1]]
                      and all(m["res"] == "ok" for i, m in enumerate(got) if i != j))
            if ok and not any(m["s"].tid != r["tid"] for m in r["muts"]):
                return job, r, None
            why = "rc=%s ops=%s" % (r["rc"], [(m["op"], m["res"]) for m in got])
        return job, None, why

    def emit(cfg, kind, point, r):
        start = len(trace)
        trace.append({"ev": "reset", "cfg": cfg, "run": kind, "point": point})
        for m in real_muts(r["muts"]):
            if m["res"] != "kill":
                trace.append(mut_event(m))
        trace.append(end_event({"ref": "done", "kill": "crash", "fault": "fault"}[kind], r["rc"], r["view"]))
        scen.append({"cfg": cfg, "run": kind, "point": point, "start": start + 1, "end": len(trace), "r": r})

    done = []
    for job, r, why in pool.map(supervised, jobs):
        cfg, n, kind, j, mu, inject, rep = job
        if r is None:
            inconclusive.append("%s %s@%d (%s): %s" % (n, kind, j, inject, why))
            continue
        done.append((cfg, kind, j, r))
    # recovery: after a killed metadata update the same update is run again, to completion, on a copy of
    # the surviving directory (the next indexing job); success must mean the complete new index
    recov = {}
    for cfg, kind, j, r in done:
        if kind == "kill" and cfg["mode"] == "meta":
            d2 = r["dir"].rstrip("/") + "_recover"
            shutil.copytree(r["dir"], d2)
            rc2, out2, err2 = run_plain(binp, rn.cfg_env(cfg, d2, "build"))
            recov[id(r)] = {"rc": rc2, "dir": d2, "view": None}
    ctx.log("supervised runs done, loading %d surviving directories" % (len(done) + len(cfgs) + len(recov)))
    allr = [refs[cname(c)] for c in cfgs] + [x[3] for x in done] + list(recov.values())
    views = load_views(pool, binp, rn.load_env, "C12VIEW", [r["dir"] for r in allr])
    for r in allr:
        r["view"] = views[r["dir"]]
        if not ctx.keep:
            shutil.rmtree(r["dir"], ignore_errors=True)
    for cfg in cfgs:
        emit(cfg, "ref", 0, refs[cname(cfg)])
    for cfg, kind, j, r in done:
        emit(cfg, kind, j, r)
        rv = recov.get(id(r))
        if rv is not None and rv["rc"] in (0, 3):
            ev = end_event("done", rv["rc"], rv["view"])
            ev["ev"] = "recover"
            trace.append(ev)
            scen[-1]["end"] = len(trace)
            scen[-1]["recover"] = rv
    pool.shutdown()
    if len(inconclusive) > max(2, len(jobs) // 20):
        raise vk.Inconclusive("%d of %d supervised runs did not hit the addressed syscall: %s" % (
            len(inconclusive), len(jobs), inconclusive[:3]))
    if inconclusive:
        ctx.notes.append("supervised runs dropped as inconclusive: %s" % inconclusive)

    tp = ctx.path("trace_finish.ndjson")
    vk.write_ndjson(tp, trace)
    acc, rej = ctx.validate_trace("Trace_Finish", "Trace_Finish.cfg", tp, name="tlc_trace", timeout=1500)

    # ---------------------------------------------------------------- verdicts
    by_line = {}
    for sc in scen:
        for ln in range(sc["start"], sc["end"] + 1):
            by_line[ln] = sc
    bad_scen = set()
    groups = {}
    for rj in rej:
        sc = by_line[rj["line"]]
        bad_scen.add(sc["start"])
        e = trace[rj["line"] - 1]
        cfg = sc["cfg"]
        sfx = "" if cfg["mode"] == "full" else ":" + cfg["mode"]
        why = rj["why"]
        exp = rj["expected"]
        if why == "not-enabled":
            sig = "C12:order:%s-%s%s" % (e["op"], e["f"]["k"], sfx)
        elif why == "non-atomic":
            sig = "C12:%s:%s%s" % ("mixture" if sc["run"] == "kill" else "fault", exp.get("shape"), sfx)
        elif why == "success-not-installed":
            sig = "C12:fault:success-not-installed%s" % sfx
        else:
            sig = "C12:%s%s" % (why, sfx)
        muts = [(x["op"], "%s%d" % (x["f"]["k"], x["f"]["i"]), x["res"]) for x in trace[sc["start"]:sc["end"] - 1] if x["ev"] == "mut"]
        groups.setdefault(sig, []).append({
            "config": cfg, "run": sc["run"], "point": sc["point"], "why": why, "expected": exp,
            "mutations": muts, "rejected_event": {k: v for k, v in e.items() if k != "view"},
            "reported": trace[sc["end"] - 1]["reported"],
            "observed_view": trace[sc["end"] - 1]["view"], "surviving_files": sc["r"]["files"],
            "loader": {k: v for k, v in sc["r"]["view"].items() if k in ("bad", "crashes", "files")}})
    # one violation per signature: the smallest instance in full, the others by reference
    for sig in sorted(groups):
        occ = sorted(groups[sig], key=lambda o: (o["config"]["k"] + o["config"]["m"], len(o["mutations"])))
        d = dict(occ[0])
        d["occurrences"] = len(occ)
        d["also_at"] = [[cname(o["config"]), o["run"], o["point"]] for o in occ[1:12]]
        ctx.violation(sig, d)
    ctx.traces_validated = len(scen) - len(bad_scen)

    # non-trivial: the surviving directory is neither the old nor the new directory
    nontrivial = 0
    for sc in scen:
        n = cname(sc["cfg"])
        oldf = sorted(abstract_name(f) for f in os.listdir(tmpls[n]))
        if sc["run"] != "ref" and sc["r"]["files"] not in (oldf, refs[n]["files"]):
            nontrivial += 1
    for sc in scen[len(cfgs)::max(1, (len(scen) - len(cfgs)) // 5)]:
        ctx.sample({"config": cname(sc["cfg"]), "run": sc["run"], "point": sc["point"],
                    "files": sc["r"]["files"], "view": sc["r"]["view"]["view"]})
    ctx.assumptions += [
        "strace reports every file-system mutation of the index directory and inject=...:signal=SIGKILL stops the "
        "process before the addressed syscall takes effect",
        "a process kill, not a power failure: page-cache contents survive (no fsync modelling)",
        "the Go driver's projection of search results (document class from content, branch version from "
        "FileMatch.Version, RawConfig public via a RawConfig query)"]
    return ctx.finish(
        evaluations=len(scen), distinct_nontrivial=nontrivial,
        rule="one evaluation = one run of the real installing operation in a child under strace (reference, killed at "
             "mutation point j, or with rename/unlink j failing) followed by loading the surviving directory with "
             "search.NewDirectorySearcher in a fresh process, validated by Trace_Finish.tla; non-trivial = supervised "
             "runs whose surviving directory differs from both the old and the fully installed directory",
        exhaustive=False,
        extra={"configurations": [cname(c) for c in cfgs], "supervised_runs": len(jobs),
               "trace_events": len(trace), "rejections": len(rej)})
