"""C29 — ranking is deterministic, finite and ordered (RankLimit!CheckRank: order constraints,
no score formula).  Each search is run 3x on one searcher, once on a freshly loaded searcher and
once with DebugScore, with default and BM25 scoring, on shard searchers and the directory
searcher; scores are logged as order-preserving integer triples of the float64 bits."""
import os
from checks import searchsem
from lib import vk


def run(ctx):
    ctx.level = "exploration"
    searchsem.FILES.append("c21_limits_test.go")
    runs = [("TestVerif_C29_Rank", {"VERIF_CORPORA": ctx.pick(12, 160)})]

    def classify(sig, e, events, line, rej=None):
        return sig + (":bm25" if e.get("bm25") else ":default")
    total, searches, nt = searchsem.run_family(ctx, "C29", "Trace_Search_c29.cfg", runs, "c29", lambda e: False,
                                               timeout=ctx.pick(1500, 5000), classify=classify)
    events = vk.read_ndjson(os.path.join(ctx.work, "trace_TestVerif_C29_Rank.ndjson"))
    ranks = [e for e in events if e["ev"] == "rank"]
    nontriv = sum(1 for e in ranks if len(e["runs"][0]["files"]) >= 2)
    promoted = 0
    for e in ranks:
        f = e["runs"][0]["files"]
        if e["kind"] == "dir" and any(f[k]["score"] < f[k + 1]["score"] for k in range(len(f) - 1)):
            promoted += 1
    ctx.traces_validated += len(ranks)
    x = ranks[len(ranks) // 2]
    ctx.sample({"query": x["qs"], "bm25": x["bm25"], "kind": x["kind"],
                "files": [(f["doc"], f["score"]) for f in x["runs"][0]["files"]][:6]})
    ctx.assumptions += ["score values themselves are not specified; only order, finiteness, determinism, debug-neutrality",
                        "the 0.9 ratio test of the promotion rule is evaluated by the driver on the float scores it logs"]
    return ctx.finish(evaluations=len(ranks) * 5, distinct_nontrivial=nontriv,
                      rule="searches executed 5 times (3x same searcher, fresh searcher, debug scoring) for default and BM25 scoring; "
                           "non-trivial = searches ranking at least two files",
                      extra={"events": total, "rank_events": len(ranks), "with_promotion": promoted})
