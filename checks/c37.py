"""C37 — symbol ranges derived from ctags are always valid.

M: spec/sys/Ctags.tla — the conversion as a fold (one Feed step per ctags entry); TLC enumerates
   every entry list up to MaxEntries over 3 names x lines 0..n+1 for 3 small contents and checks
   the output properties in every state.
R: one script per enumerated list (content, entries, predicted ranges) replayed on the real
   tagsToSections.Convert + ShardBuilder.Add; prediction compared here.
V: the replay trace and a seeded random trace (>= 13 entries, duplicates, empty names) are
   validated by Trace_Ctags.tla (properties on the observed output, drop set = the fold's,
   Add succeeded)."""
import random

from lib import vk

PKG = "index"
FILES = ["c37_ctags_test.go"]


def text(cps):
    return "".join(chr(c) for c in cps)


def show(e):
    return {"content": text(e["content"]),
            "entries": [[x["line"], text(x["name"])] for x in e["entries"]]}


def same_modulo_equal_empty(exp, out):
    """predicted and observed range lists agree; entries that produced the same (empty) range
    may appear in any order."""
    if [(r["s"], r["e"]) for r in exp] != [(r["s"], r["e"]) for r in out]:
        return False
    return sorted((r["s"], r["e"], r["k"]) for r in exp) == sorted((r["s"], r["e"], r["k"]) for r in out)


def run(ctx):
    depth_mc = ctx.pick(3, 4)
    res = ctx.model_check("Ctags", "Ctags_mc.cfg", timeout=1800, workers=4, coverage=ctx.thorough,
                          defines={"Contents": "{1,2,3}", "MaxEntries": depth_mc, "Emit": "TRUE"})
    scripts = res.printed("SCRIPT")
    if len(scripts) != res.distinct - 3:
        raise vk.Inconclusive("scripts printed (%d) != entry lists explored (%d)" % (len(scripts), res.distinct - 3))
    if ctx.thorough:
        ctx.notes.append("coverage zero: %s" % (res.coverage_zero() or "none"))
    if len(scripts) < 1000:
        raise vk.Inconclusive("too few scripts generated: %d" % len(scripts))
    ctx.log("scripts from TLC: %d (every entry list of length <= %d)" % (len(scripts), depth_mc))
    inp = ctx.path("scripts.ndjson")
    vk.write_ndjson(inp, [{"content": s["content"], "entries": s["entries"]} for s in scripts])

    total = 0
    nontrivial = 0
    longlists = 0
    equal_starts = 0
    seen_sigs = {}

    def report(sig, detail):
        n = seen_sigs.get(sig, 0)
        seen_sigs[sig] = n + 1
        if n == 0:
            ctx.violation(sig, detail)

    binp = ctx.go_build_test(PKG, FILES)
    for name, run_, env in (("replay", "^TestVerif_C37_Replay$", {"VERIF_IN": inp}),
                            ("random", "^TestVerif_C37_Random$", {})):
        trace = ctx.path("trace_%s.ndjson" % name)
        env = dict(env, VERIF_OUT=trace)
        rc, out = ctx.run_bin(binp, run_, env=env, timeout=1800)
        if rc != 0 or "--- PASS" not in out:
            raise vk.Inconclusive("driver %s failed:\n%s" % (name, out[-3000:]))
        events = vk.read_ndjson(trace)
        conv = [e for e in events if e["ev"] == "convert"]
        if name == "replay":
            if len(conv) != len(scripts):
                raise vk.Inconclusive("replayed %d of %d scripts" % (len(conv), len(scripts)))
            # R: the prediction TLC printed with the script
            for s, e in zip(scripts, conv):
                if e["panic"] == "" and not same_modulo_equal_empty(s["expect"], e["out"]):
                    report("C37:replay:ranges", {"case": show(e), "expected": s["expect"], "fate": s["why"],
                                                 "observed": e["out"]})
        # V
        parts = 8 if len(events) > 20000 else (4 if len(events) > 1000 else 1)
        if parts == 1:
            acc, rej = ctx.validate_trace("Trace_Ctags", "Trace_Ctags.cfg", trace, name="tlc_" + name, timeout=3000)
        else:
            acc, rej = ctx.validate_trace_sharded("Trace_Ctags", "Trace_Ctags.cfg", trace, header_lines=0,
                                                  shards=parts, name="tlcs_" + name, timeout=3000)
        bad = set()
        for r in sorted(rej, key=lambda r: (len(events[r["line"] - 1].get("entries", [])), r["line"])):
            e = events[r["line"] - 1]
            bad.add(r["line"])
            if e["ev"] == "shard":
                report("C37:shard:write", {"err": e["err"], "docs": e["docs"]})
                continue
            why = r["why"]
            if why == "add":
                txt = e["add"]
                sig = "C37:add:" + ("panic" if txt.startswith("panic") else txt.split(" at byte")[0])
            elif why == "panic":
                sig = "C37:convert:" + ("panic" if e["panic"].startswith("panic") else "error")
            else:
                sig = "C37:convert:" + why
            report(sig, {"driver": name, "line": r["line"], "case": show(e), "observed": e["out"],
                         "add": e["add"], "panic": e["panic"], "expected": r["expected"]})
        ctx.traces_validated += len(conv) - len({b for b in bad if events[b - 1]["ev"] == "convert"})
        total += len(conv)
        for e in conv:
            out_ = e["out"]
            if len(out_) >= 2 and len(out_) < len(e["entries"]):
                nontrivial += 1
            if len(out_) >= 13:
                longlists += 1
                if any(out_[i]["s"] == out_[i + 1]["s"] for i in range(len(out_) - 1)):
                    equal_starts += 1
        if name == "random":
            rnd = random.Random(ctx.seed)
            for e in rnd.sample(conv, min(2, len(conv))):
                ctx.sample({"random_case": show(e), "out": e["out"], "add": e["add"]})
        else:
            ctx.sample({"script": show(conv[len(conv) // 2]), "out": conv[len(conv) // 2]["out"]})
    for sig, n in seen_sigs.items():
        ctx.log("signature %s: %d occurrence(s)" % (sig, n))
    if longlists == 0 or equal_starts == 0:
        raise vk.Inconclusive("vacuous: no accepted list with >= 13 ranges (%d) / with equal starts (%d)" % (longlists, equal_starts))
    ctx.assumptions += [
        "ctags itself is not run: entry lists are supplied directly (names valid UTF-8, as go-ctags decodes JSON)",
        "the entry a range came from is carried through Entry.Kind -> Symbol.Kind",
        "contents are valid UTF-8 without NUL (ShardBuilder.Add drops the symbols of binary documents)"]
    return ctx.finish(
        evaluations=total, distinct_nontrivial=nontrivial,
        rule="cases = (content, ctags entry list) converted by the real tagsToSections.Convert and added with the real "
             "ShardBuilder.Add; scripts = every entry list of length <= %d over 3 names x lines 0..n+1 for 3 contents "
             "(exhaustive in that scope) + seeded random lists with 13..45 entries; non-trivial = at least two ranges "
             "accepted and at least one entry dropped" % depth_mc,
        exhaustive=False,
        extra={"scripts_from_tlc": len(scripts), "outputs_with_13_or_more_ranges": longlists,
               "of_those_with_equal_starts": equal_starts})
