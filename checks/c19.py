"""C19 — shard reloads are safe under concurrent search and converge to disk.

M: spec/sys/Reload.tla (operators: ReloadOps.tla), mode "gen": every interleaving of directory
   changes (put / replace by rename / delete / sidecar written or removed), the scanner's steps
   (ScanBegin, ScanDrop, ScanLoad(f), PublishPartial, ScanEnd), the searches' steps (snapshot =
   one atomic load, shard, done = KeepAlive released) and Finalize(instance).  Invariants:
   ReadsOnlySnapshot, NoReadAfterClose, OneVersionPerRepo, RankedIsShards, ClosedWereReplaced,
   Converged.  Strict forms (ConvergedStrict, NoUpgradeGap) are expected to fail on the model of
   the code as it is; their counterexample histories are printed and replayed.
R: mode "macro" prints one script per explored transition; scripts, the counterexamples and
   seeded walks are executed step by step on the real DirectoryWatcher.scan / loader /
   shardedSearcher (gated loader, search gated in its first Send, GC with sentinel finalizers)
   and validated by Trace_Reload.tla.
V: stress with real goroutines (-race), validated by Trace_ReloadStress.tla.  Process death or
   a race report naming zoekt code is a violation."""
import json
import os
import random
import re
import threading

from lib import vk

PKG = "search"
FILES = ["c19_reload_test.go", "c19_slowload_test.go"]
NOF = {"r": "", "f": 0, "side": "", "p": 0}


def consts(repos, fmts, procs, maxops, macroops, mdepth, modes, emit="FALSE", fix="FALSE", keep="TRUE", one="FALSE", maxver=3, gap="FALSE"):
    return {"Repos": "{%s}" % ",".join('"%s"' % r for r in repos), "Fmts": "{%s}" % ",".join(map(str, fmts)),
            "MaxFmt": 17, "Procs": "{%s}" % ",".join(map(str, range(1, procs + 1))), "MaxVer": maxver,
            "MaxOps": maxops, "MacroOps": macroops, "MacroDepth": mdepth,
            "Modes": "{%s}" % ",".join('"%s"' % m for m in modes), "Emit": emit, "Fix": fix,
            "KeepAlive": keep, "OneOpPerScan": one, "FixGap": gap}


def cmd(c, **kw):
    d = dict(NOF)
    d["c"] = c
    d.update(kw)
    return d


def gen_walk(rng, repos, fmts, procs, n):
    """seeded command walk; enabledness is tracked trivially (presence, scanner pc, running searches)."""
    disk, scan, running, steps = {}, "idle", {}, []
    files = [(r, f) for r in repos for f in fmts]
    while len(steps) < n:
        x = rng.random()
        if x < 0.34:
            r, f = rng.choice(files)
            if (r, f) not in disk:
                steps.append(cmd("put", r=r, f=f))
                disk[(r, f)] = "none"
            else:
                y = rng.random()
                if y < 0.35:
                    steps.append(cmd("replace", r=r, f=f))
                elif y < 0.5:
                    steps.append(cmd("delete", r=r, f=f))
                    del disk[(r, f)]
                else:
                    side = rng.choice([s for s in ("none", "tomb", "live") if s != disk[(r, f)]])
                    steps.append(cmd("sidecar", r=r, f=f, side=side))
                    disk[(r, f)] = side
        elif x < 0.70:
            steps.append(cmd({"idle": "scanbegin", "drop": "scandrop", "load": "scanload"}[scan]))
            scan = {"idle": "drop", "drop": "load", "load": "idle"}[scan]
        elif x < 0.90:
            p = rng.randint(1, procs)
            if p in running:
                if p % 2 == 0 and running[p] == "snap" and rng.random() < 0.6:
                    steps.append(cmd("read", p=p))
                    running[p] = "read"
                else:
                    steps.append(cmd("finish", p=p))
                    del running[p]
            else:
                steps.append(cmd("snap", p=p))
                running[p] = "snap"
        else:
            steps.append(cmd("gc"))
    return {"repos": repos, "fmts": fmts, "procs": procs, "steps": steps}


CRASH = re.compile(r"fatal error: |SIGSEGV|SIGBUS|unexpected fault address|unexpected signal|panic: ")


def classify_output(ctx, name, rc, out, trace_path):
    """a test process that died or reported a race: positive observations; anything else that made the
    driver fail is an infrastructure problem."""
    tail = []
    if os.path.exists(trace_path):
        try:
            tail = open(trace_path).read().splitlines()[-3:]
        except OSError:
            pass
    if "WARNING: DATA RACE" in out:
        blocks = [b.split("==================")[0] for b in out.split("WARNING: DATA RACE")[1:]]
        mine = []
        for b in blocks:
            # per access (paragraph): the first frame that is neither the runtime nor the driver
            for para in re.split(r"\n\s*\n", b)[:2]:
                files = re.findall(r"^\s+(/\S+\.go):\d+", para, re.M)
                files = [f for f in files if "/src/" not in f and "/pkg/mod/" not in f]
                if files and "zz_verif" not in files[0] and files[0].startswith(vk.REPO + "/"):
                    mine.append((files[0][len(vk.REPO) + 1:], b))
                    break
        if mine:
            ctx.violation("C19:race", {"run": name, "file": mine[0][0], "report": mine[0][1][:3000], "reports": len(mine)})
        elif rc != 0:
            raise vk.Inconclusive("race report inside the driver only (%s):\n%s" % (name, blocks[0][:2000]))
    if rc != 0 and "WARNING: DATA RACE" not in out:
        if "(inconclusive)" in out or "[build failed]" in out:
            raise vk.Inconclusive("driver %s did not complete:\n%s" % (name, out[-3000:]))
        m = CRASH.search(out)
        if m and "c19:" not in out[m.start():m.start() + 200]:
            i = m.start()
            kind = "fault" if re.search(r"SIGSEGV|SIGBUS|fault address", out[i:i + 400]) else "fatal"
            ctx.violation("C19:crash:%s:%s" % (name, kind), {"run": name, "rc": rc, "output": out[i:i + 3000], "last_events": tail})
            return False
        raise vk.Inconclusive("driver %s failed (rc=%d):\n%s" % (name, rc, out[-3000:]))
    return True


def parallel(jobs, width):
    """run (name, thunk) jobs in threads; an exception of any job is re-raised."""
    import concurrent.futures
    res = {}
    with concurrent.futures.ThreadPoolExecutor(max_workers=width) as ex:
        futs = {name: ex.submit(f) for name, f in jobs}
        for name, fu in futs.items():
            res[name] = fu.result()
    return res


def transient_sidecar(final, evs):
    """Shape of the recorded finding C19-F3: every loaded shard whose sidecar state differs from the disk's is
    at the disk's shard version and carries a sidecar generation that existed only between two sidecar-less
    states of that file (written, then removed again, nothing after), i.e. absent when the scan took the
    file's times, present while the shard was loaded, absent again when the scan re-checked the times."""
    rnd = final.get("round")
    disk = {(x["r"], x["f"]): x for x in final["files"]}
    hist = {}
    for x in evs:
        if x["ev"] == "disk" and x["round"] == rnd:
            hist.setdefault((x["r"], x["f"]), []).append(x)
    bad = 0
    for v in final["loaded"]:
        d = disk.get((v["r"], v["f"]))
        if d is None or d["ver"] != v["ver"]:
            return False
        disk_side_none = not d["meta"]
        if v["side"] == "none" and disk_side_none:
            continue
        if v["side"] != "none" and not disk_side_none:
            # both have a sidecar: equal generations are fine, different ones are not this shape
            last = [x for x in hist.get((v["r"], v["f"]), []) if x["c"] == "sidecar"]
            if last and last[-1]["clk"] == v["smt"]:
                continue
            return False
        if v["side"] == "none":
            return False
        h = sorted(hist.get((v["r"], v["f"]), []), key=lambda x: x["clk"])
        i = next((k for k, x in enumerate(h) if x["c"] == "sidecar" and x["clk"] == v["smt"]), None)
        if i is None or i == 0 or i + 1 != len(h) - 1:
            return False
        before, after = h[i - 1], h[i + 1]
        before_none = before["c"] in ("put", "replace") or (before["c"] == "sidecar" and before["side"] == "none")
        if not (before_none and after["c"] == "sidecar" and after["side"] == "none"):
            return False
        bad += 1
    return bad > 0


def run(ctx):
    rng = random.Random(ctx.seed * 7919 + 19)
    pool = ctx.mkdir("pool")
    pooln = ctx.pick(24, 60)
    env0 = {"VERIF_C19_POOL": pool, "VERIF_C19_POOLN": pooln}
    bg = {}

    def background():
        try:
            binp = ctx.go_build_test(PKG, FILES)
            rc, out = ctx.run_bin(binp, "^TestVerif_C19_Factory$", env=env0, timeout=1800)
            if rc != 0 or "--- PASS" not in out:
                raise vk.Inconclusive("building the shard pool failed:\n" + out[-3000:])
            bg["bin"] = binp
            bg["race"] = ctx.go_build_test(PKG, FILES, race=True)
        except BaseException as e:  # noqa
            bg["err"] = e

    th = threading.Thread(target=background)
    th.start()

    # ------------------------------------------------------------------ M, script generation, strict forms
    # independent TLC runs, each in its own directory, a few at a time
    cov = bool(os.environ.get("VERIF_C19_COVERAGE"))
    mruns = [consts(["a", "b"], [16], 2, 2, 0, 0, ["gen"]),
             consts(["a"], [16, 17], 1, 3, 0, 0, ["gen"])]
    if ctx.thorough:
        mruns = [consts(["a", "b"], [16], 2, 3, 0, 0, ["gen"]),
                 consts(["a"], [16, 17], 2, 3, 0, 0, ["gen"]),
                 consts(["a"], [16, 17], 1, 4, 0, 0, ["gen"]),
                 consts(["a", "b"], [16, 17], 1, 3, 0, 0, ["gen"]),
                 # the proposed patch: every invariant incl. the strict forms, a file changing at most once per scan
                 consts(["a"], [16, 17], 1, 4, 0, 0, ["gen"], fix="TRUE", one="TRUE", gap="TRUE"),
                 consts(["a", "b"], [16, 17], 1, 3, 0, 0, ["gen"], fix="TRUE", one="TRUE", gap="TRUE")]
    shapes = [(["a", "b"], [16, 17], 2, 3, ctx.pick(6, 8))]
    if ctx.thorough:
        shapes.append((["a"], [16, 17, 18], 2, 4, 7))
    strict = [("Reload_strict.cfg", consts(["a"], [16], 1, 0, 4, 10, ["macro"]), []),
              ("Reload_gap.cfg", consts(["a"], [16, 17], 1, 0, 2, 8, ["macro"]), [cmd("snap", p=2), cmd("finish", p=2)]),
              # the model WITHOUT KeepAlive: schedules in which a collection closes a shard whose results are still
              # referenced; the real code must keep the mapping in exactly these schedules
              ("Reload_keepalive.cfg", consts(["a"], [16], 2, 0, 2, 12, ["macro"], keep="FALSE"), [])]
    jobs = []
    for i, c in enumerate(mruns):
        jobs.append(("m%d" % i, lambda c=c, i=i: ctx.model_check(
            "Reload", "Reload_fix.cfg" if c["Fix"] == "TRUE" else "Reload_mc.cfg", name="tlc_m%d" % i, timeout=7200,
            workers=ctx.pick(2, 4), coverage=cov and i == 0, defines=c)))
    for i, (repos, fmts, procs, mops, mdepth) in enumerate(shapes):
        jobs.append(("e%d" % i, lambda a=(repos, fmts, procs, mops, mdepth), i=i: ctx.model_check(
            "Reload", "Reload_mc.cfg", name="tlc_e%d" % i, timeout=7200, workers=1,
            defines=consts(a[0], a[1], a[2], 0, a[3], a[4], ["macro"], emit="TRUE"))))
    for i, (cfg, c, _) in enumerate(strict):
        jobs.append(("s%d" % i, lambda cfg=cfg, c=c, i=i: ctx.tlc(
            "Reload", cfg, name="tlc_s%d" % i, timeout=3600, workers=1, count=False, defines=c, extra=["-continue"])))
    if ctx.thorough or os.environ.get("VERIF_C19_VACUITY"):
        # vacuity: without KeepAlive the model must violate NoReadAfterClose
        jobs.append(("vac", lambda: ctx.tlc("Reload", "Reload_mc.cfg", name="tlc_vac", timeout=1800, workers=2, count=False,
                                             defines=consts(["a"], [16], 1, 2, 0, 0, ["gen"], keep="FALSE"))))
    out = parallel(jobs, ctx.pick(5, 4))
    if cov:
        ctx.log("coverage: locations with count 0: %s" % out["m0"].coverage_zero())
    if "vac" in out and out["vac"].invariant != "InvNoReadAfterClose":
        raise vk.Inconclusive("model mutant without KeepAlive does not violate NoReadAfterClose (%s)" % (out["vac"].invariant or out["vac"].error))

    # ------------------------------------------------------------------ R: scripts
    raw = []
    for i, (repos, fmts, procs, mops, mdepth) in enumerate(shapes):
        raw += [(x, repos, fmts, procs) for x in out["e%d" % i].printed_raw("SCRIPT")]
    n_tlc = len(raw)
    if n_tlc < 500:
        raise vk.Inconclusive("too few scripts generated: %d" % n_tlc)

    def decode(item):
        x, repos, fmts, procs = item
        h = json.loads(json.loads(x))
        if not isinstance(h, list):
            raise vk.Inconclusive("unparsable SCRIPT line")
        return {"repos": repos, "fmts": fmts, "procs": procs, "steps": h, "src": "tlc"}

    # counterexamples of the strict forms on the model of the code as it is
    cex = []
    for i, (cfg, c, suffix) in enumerate(strict):
        res = out["s%d" % i]
        hs = [h for h in res.printed("CEX") if isinstance(h, list)]
        if res.error:
            raise vk.Inconclusive("strict model run failed: %s (%s)" % (res.error, res.log))
        hs.sort(key=len)
        seen = set()
        for h in hs:
            key = json.dumps(h)
            if key in seen:
                continue
            seen.add(key)
            cex.append({"repos": ["a"], "fmts": [16, 17], "procs": 2, "steps": h + suffix, "src": cfg})
        ctx.log("%s: %d counterexample histories at the model level" % (cfg, len(seen)))
    by_cfg = {}
    for s in cex:
        by_cfg.setdefault(s["src"], []).append(s)
    cex = [s for k in by_cfg for s in by_cfg[k][:ctx.pick(12, 60)]]
    nsample = ctx.pick(260, 4000)
    raw.sort(key=lambda it: (-it[0].count("{"), it[0]))      # longest histories first
    nlong = sum(1 for it in raw if it[0].count("{") >= raw[0][0].count("{") - 1)
    pick = rng.sample(range(nlong), min(nlong, nsample * 2 // 3))
    pick += rng.sample(range(len(raw)), min(len(raw), nsample - len(pick)))
    chosen = [decode(raw[i]) for i in sorted(set(pick))]
    walks = []
    for i in range(ctx.pick(60, 1500)):
        repos = rng.choice([["a"], ["a", "b"], ["a", "b", "c"]])
        fmts = rng.choice([[16], [16, 17], [15, 16, 17, 18], [16, 17, 18]])
        w = gen_walk(rng, repos, fmts, rng.randint(1, 3), rng.randint(10, ctx.pick(26, 40)))
        w["src"] = "walk"
        walks.append(w)
    todo = cex + chosen + walks
    ctx.log("scripts: %d from TLC (replaying %d), %d model counterexamples, %d walks" % (n_tlc, len(chosen), len(cex), len(walks)))
    inp = ctx.path("scripts.ndjson")
    vk.write_ndjson(inp, [{k: s[k] for k in ("repos", "fmts", "procs", "steps")} for s in todo])
    ctx.sample({"script": [(s["c"], s["r"], s["f"], s["side"], s["p"]) for s in chosen[0]["steps"]]})

    th.join()
    if "err" in bg:
        e = bg["err"]
        if isinstance(e, vk.Inconclusive):
            raise e
        raise vk.Inconclusive("background build failed: %r" % (e,))

    # ------------------------------------------------------------------ R: replay + validation
    trace = ctx.path("trace_replay.ndjson")
    env = dict(env0, VERIF_IN=inp, VERIF_OUT=trace)
    rc, out = ctx.run_bin(bg["bin"], "^TestVerif_C19_Replay$", env=env, timeout=ctx.pick(1500, 7200))
    open(ctx.path("driver_replay.log"), "w").write(out)
    ctx.log("replay: rc=%d" % rc)
    complete = classify_output(ctx, "replay", rc, out, trace)
    events = vk.read_ndjson(trace) if os.path.exists(trace) else []
    if complete and (not events or events[-1]["ev"] != "end"):
        raise vk.Inconclusive("replay trace incomplete")
    total_events = len(events)
    nontrivial = 0
    plan = [("race", bg["race"], ctx.pick(3, 16), ctx.pick(80, 120)), ("plain", bg["bin"], ctx.pick(2, 8), ctx.pick(120, 200))]

    def stress(name, binp, rounds, ops):
        tp = ctx.path("trace_stress_%s.ndjson" % name)
        e2 = dict(env0, VERIF_OUT=tp, VERIF_C19_ROUNDS=rounds, VERIF_C19_OPS=ops, VERIF_C19_CAP=ctx.pick(150, 400))
        rc2, out2 = ctx.run_bin(binp, "^TestVerif_C19_Stress$", env=e2, timeout=ctx.pick(1500, 7200))
        open(ctx.path("driver_stress_%s.log" % name), "w").write(out2)
        ctx.log("stress %s: rc=%d" % (name, rc2))
        return rc2, out2, tp

    sres = {}
    sth = threading.Thread(target=lambda: sres.update({p[0]: stress(*p) for p in plan}))
    sth.start()
    if events:
        acc, rej = ctx.validate_trace("Trace_Reload", "Trace_Reload.cfg", trace, name="tlc_replay", timeout=3600)
        start = {}
        for i, e in enumerate(events):
            if e["ev"] == "reset":
                start[e["k"]] = i
        per_sig = {}
        bad_scripts = set()
        for r in rej:
            e = events[r["line"] - 1]
            k = e["k"]
            why = r["why"]
            if why == "not-enabled":
                raise vk.Inconclusive("script %d step %d (%s) is not enabled in the specification: generator bug" % (k, e.get("i", -1), e.get("c")))
            if why.startswith("converge:") or why.startswith("search:"):
                sig = "C19:" + why
            else:
                sig = "C19:step:%s:%s" % (why, e.get("c", "abort"))
            hist = [x for x in events[start[k]:r["line"]] if x["ev"] == "step"]
            per_sig.setdefault(sig, []).append((len(hist), k, r, e, hist))
            bad_scripts.add(k)
        for sig, lst in sorted(per_sig.items()):
            lst.sort(key=lambda x: x[0])
            n, k, r, e, hist = lst[0]
            ctx.violation(sig, {"occurrences": len(lst), "script_source": todo[k]["src"] if k < len(todo) else "?",
                                "history": [(x["c"], x["r"], x["f"], x["side"], x["p"]) for x in hist],
                                "observed": {f: e.get(f) for f in ("loaded", "ranked", "res", "vis", "unmapped", "crashes", "bad", "note")},
                                "expected": r["expected"]},
                          replay={"script": {k2: todo[k][k2] for k2 in ("repos", "fmts", "procs", "steps")} if k < len(todo) else None})
        nscripts = sum(1 for e in events if e["ev"] == "reset")
        ctx.traces_validated += nscripts - len(bad_scripts)
        # non-trivial: a search that held its snapshot across a publication (scandrop/scanload between snap and finish)
        open_, crossed = {}, set()
        for e in events:
            if e["ev"] == "reset":
                open_ = {}
            elif e["ev"] == "step":
                if e["c"] == "snap":
                    open_[e["p"]] = False
                elif e["c"] in ("scandrop", "scanload"):
                    for p in open_:
                        open_[p] = True
                elif e["c"] == "finish" and open_.pop(e["p"], False):
                    crossed.add((e["k"], e["i"]))
        nontrivial += len(crossed)
        ctx.log("replay: %d scripts, %d events, %d rejected, %d searches across a publication" % (nscripts, len(events), len(rej), len(crossed)))

    # ------------------------------------------------------------------ V: a start-up batch that runs for more than 5 s
    sl = ctx.path("trace_slowload.ndjson")
    rc3, out3 = ctx.run_bin(bg["bin"], "^TestVerif_C19_SlowLoad$", env=dict(env0, VERIF_OUT=sl), timeout=1800)
    if rc3 != 0 or "--- PASS" not in out3:
        zp = vk.zoekt_panic(out3)
        if zp or "unexpected fault address" in out3 or "SIGSEGV" in out3:
            ctx.violation("C19:slow-load:crash", {"output": out3[-2500:]})
        else:
            raise vk.Inconclusive("slow-load driver failed:\n" + out3[-2500:])
    else:
        sev = vk.read_ndjson(sl)
        acc3, rej3 = ctx.validate_trace("Trace_ReloadStress", "Trace_ReloadStress.cfg", sl, name="tlc_slowload", timeout=1800)
        for r in rej3:
            e = sev[r["line"] - 1]
            ctx.violation("C19:slow-load:%s" % r["why"], {"event": e, "expected": r["expected"]})
        total_events += len(sev)
        ctx.traces_validated += sum(1 for e in sev if e["ev"] == "slowload") - len(rej3)

    # ------------------------------------------------------------------ V: stress
    sth.join()
    if len(sres) != len(plan):
        raise vk.Inconclusive("stress runs did not complete")
    overlap = 0
    pubs = 0
    vres = {}
    for name, _, _, _ in plan:
        rc, out, trace = sres[name]
        if classify_output(ctx, "stress-" + name, rc, out, trace):
            evs = vk.read_ndjson(trace) if os.path.exists(trace) else []
            if not evs or evs[-1]["ev"] != "end":
                raise vk.Inconclusive("stress trace incomplete (%s)" % name)
            vres[name] = (evs, trace)
    val = parallel([(n, lambda n=n: ctx.validate_trace("Trace_ReloadStress", "Trace_ReloadStress.cfg", vres[n][1],
                                                        name="tlc_stress_" + n, timeout=3600)) for n in vres], 2)
    for name in vres:
        evs, trace = vres[name]
        acc, rej = val[name]
        total_events += len(evs)
        per_sig = {}
        for r in rej:
            e = evs[r["line"] - 1]
            why = r["why"]
            if why.startswith("harness:"):
                raise vk.Inconclusive("stress harness inconsistent (%s): %s" % (why, json.dumps(r)[:1000]))
            sig = "C19:" + why if why.startswith("converge:") else "C19:stress:%s%s" % (why, ":" + e["kind"] if e["ev"] == "obs" else "")
            if why == "converge:stale-sidecar" and transient_sidecar(e, evs):
                sig += ":transient"
            per_sig.setdefault(sig, []).append((r, e))
        for sig, lst in sorted(per_sig.items()):
            r, e = lst[0]
            rnd = e.get("round")
            ctx.violation(sig, {"run": name, "occurrences": len(lst), "event": e, "expected": r["expected"],
                                "disk_history": [(x["clk"], x["c"], x["r"], x["f"], x["side"], x["ver"], x["s0"], x["s1"])
                                                 for x in evs if x["ev"] == "disk" and x["round"] == rnd][-40:],
                                "publications": [x for x in evs if x["ev"] == "pub" and x["round"] == rnd][-12:]})
        ctx.traces_validated += sum(1 for e in evs if e["ev"] == "final") if not rej else 0
        for rnd in {e["round"] for e in evs if e["ev"] == "sreset"}:
            ps = [(e["s0"], e["s1"]) for e in evs if e["ev"] == "pub" and e["round"] == rnd]
            pubs += len(ps)
            for e in evs:
                if e["ev"] == "obs" and e["round"] == rnd and any(a <= e["s1"] and b >= e["s0"] for a, b in ps):
                    overlap += 1
        ctx.sample({"stress": name, "events": len(evs), "final": [e for e in evs if e["ev"] == "final"][0]["loaded"]})
    if pubs < 10 and not ctx.violations:
        raise vk.Inconclusive("stress produced only %d publications" % pubs)
    nontrivial += overlap
    ctx.assumptions += [
        "every directory change gets a distinct, later mtime (the driver sets mtime = base + number of the change); equal mtimes of different versions are outside the model",
        "shard files appear by rename (never partially written); delete removes the shard before its .meta",
        "projection of a loaded shard: address of its mapping and repository metadata read by reflection, version = inode of the mapping in /proc/self/maps",
        "fsnotify / the one-minute ticker (DirectoryWatcher.watch) are not exercised: scan() is called directly",
    ]
    return ctx.finish(
        evaluations=total_events, distinct_nontrivial=nontrivial,
        rule="evaluations = step observations of replayed scripts + stress events (publications, searches/lists, finals) "
             "validated by TLC; non-trivial = replayed searches that held their snapshot across a publication "
             "(scandrop/scanload between snap and finish) + stress searches/lists whose interval overlaps a publication",
        exhaustive=False,
        extra={"scripts_from_tlc": n_tlc, "scripts_replayed": len(todo), "model_counterexamples_replayed": len(cex),
               "stress_publications": pubs, "stress_observations_overlapping_a_publication": overlap})
