"""C17 — tombstoned repositories and paths stay hidden; set/unset idempotent, isolated,
persistent, reversible; success means effect.

M: spec/sys/Tombstone.tla model-checked (Set/Unset/RenameFails/Reload over 3 repositories):
   OkMeansEffect, ErrMeansNoChange, Isolated, Idempotent, Reversible, Hidden, Persistent; the
   deviation "rename failed but success reported" (Swallow) must violate OkMeansEffect.
R: TLC emits every Set/Unset sequence of length D (4 quick, 5 thorough) and the fault scripts
   (prefix, failing rename, retry) with the predicted live set per step and the table of
   per-query answers per live set; each is replayed on a real compound shard (real builder +
   real merge + real SetTombstone/UnsetTombstone, strace-injected EIO on the rename).
V: after every step the shard and the directory are reloaded and all output channels of the
   query set are recorded; Trace_Tombstone.tla recomputes what may be visible (TombstoneOps)
   and which action the step was.  Seeded random corpora (more repositories, extra simple
   shards, sidecar file tombstones, delta build chains, random query trees) go the same way."""
import concurrent.futures
import json

from lib import vk

PKG = "index"
FILES = ["c17_tombstone_test.go"]


def histories(events):
    """attach to each event the index of its scenario start (corpus) and history start (reset)."""
    corpus = reset = -1
    for i, e in enumerate(events):
        if e["ev"] == "corpus":
            corpus = i
        if e["ev"] == "reset":
            reset = i
        e["_c"], e["_r"] = corpus, reset


def ops_before(events, i):
    e = events[i]
    return [{k: x[k] for k in ("op", "id", "fault", "reported")}
            for x in events[e["_r"]:i + 1] if x["ev"] == "step"]


def report(ctx, name, events, rej):
    """one violation per rejected (line, why)."""
    snaps = {}
    bad_hist = set()
    for e in events:
        if e["ev"] == "corpus":
            snaps = {}
        if e["ev"] == "snap":
            snaps[(e["_c"], e["n"])] = e
    per_sig = {}
    for r in rej:
        per_sig[r["why"]] = per_sig.get(r["why"], 0) + 1
    shown = {}
    for r in rej:
        e = events[r["line"] - 1]
        why = r["why"]
        if why.startswith("harness:"):
            raise vk.Inconclusive("%s: %s at line %d (fault injection did not fire)" % (name, why, r["line"]))
        sig = "C17:" + why
        bad_hist.add((e["_c"], e["_r"]))
        shown[why] = shown.get(why, 0) + 1
        if shown[why] > 3:          # the first three occurrences of a signature carry the detail
            continue
        snap = snaps.get((e["_c"], e.get("snap")))
        obs = None
        if snap is not None:
            # the entries that show something not live, else the first few
            live_all = set(x for l in r["expected"].get("live", []) for x in l)
            ent = [x for x in snap["entries"] if not x["skip"] and (
                set(x["urls"]) | set(x["frags"]) | set(x["repos"]) | set(x["rmap"]) |
                {f["r"] for f in x["files"]}) - live_all]
            obs = (ent or snap["entries"])[:2]
        corp = events[e["_c"]]
        ctx.violation(sig, {"driver": name, "line": r["line"], "why": why, "occurrences_in_this_trace": per_sig[why],
                            "expected": r["expected"],
                            "step": {k: e.get(k) for k in ("op", "id", "shard", "fault", "injected", "reported",
                                                           "sidecar", "leftovers")},
                            "history": ops_before(events, r["line"] - 1)[-8:],
                            "observed_entries": obs,
                            "corpus": {"kind": corp["kind"], "shards": corp["shards"]} if name != "replay" else "Tombstone.tla:C17Corpus",
                            "queries": "see corpus event" if name != "replay" else "Tombstone.tla:C17Queries"})
    return bad_hist


def run(ctx):
    depth = ctx.pick(4, 5)
    fdepth = ctx.pick(2, 3)
    base = {"Swallow": "FALSE"}

    # ---- M
    ctx.model_check("Tombstone", "Tombstone_mc.cfg", timeout=900,
                    defines=dict(base, MaxDepth=99, Mode='"mc"'))   # the view is finite: no depth bound
    dev = ctx.tlc("Tombstone", "Tombstone_mc.cfg", timeout=300, count=False,
                  defines={"Swallow": "TRUE", "MaxDepth": 3, "Mode": '"mc"'})
    if dev.invariant != "OkMeansEffect":
        raise vk.Inconclusive("the swallowed-rename deviation does not violate OkMeansEffect in the model "
                              "(%s): the property would be vacuous; see %s" % (dev.invariant or dev.error, dev.log))

    # ---- R: scripts
    res = ctx.tlc("Tombstone", "Tombstone_emit.cfg", timeout=900, count=False,
                  defines=dict(base, MaxDepth=depth, Mode='"seq"'))
    if not res.ok:
        raise vk.Inconclusive("script generation failed: %s" % res.log)
    table = res.printed("TABLE")
    scripts = res.printed("SCRIPT")
    resf = ctx.tlc("Tombstone", "Tombstone_emit.cfg", timeout=900, count=False,
                   defines=dict(base, MaxDepth=fdepth, Mode='"fault"'))
    if not resf.ok:
        raise vk.Inconclusive("fault script generation failed: %s" % resf.log)
    fscripts = resf.printed("SCRIPT")
    want = 6 ** depth
    if len(table) != 1 or len(scripts) != want or len(fscripts) < 40:
        raise vk.Inconclusive("unexpected number of scripts: table=%d seq=%d (want %d) fault=%d" % (
            len(table), len(scripts), want, len(fscripts)))
    table = table[0]
    ctx.log("scripts from TLC: %d sequences of length %d, %d fault scripts" % (len(scripts), depth, len(fscripts)))
    allscripts = fscripts + scripts
    inp = ctx.path("scripts.ndjson")
    vk.write_ndjson(inp, [{"kind": table["kind"], "shards": table["shards"], "queries": table["queries"]}] +
                    [{"ops": s["ops"]} for s in allscripts])
    ctx.sample({"script": scripts[len(scripts) // 3]})
    ctx.sample({"fault_script": fscripts[len(fscripts) // 2]})
    answers = {}
    for a in table["answers"]:
        answers[frozenset(a["live"])] = a

    total_steps = 0
    nontrivial = set()
    fault_steps = 0
    fault_effective = 0
    # fault scripts whose failing operation would have changed a flag (the retry does)
    fault_nontrivial = sum(1 for f in fscripts if f["lives"][-1] != f["lives"][-2])
    nsnaps = 0
    nrandom = 0
    binp = ctx.go_build_test(PKG, FILES)

    def drive(name, run_, env):
        """run one driver and validate its trace (own thread: the two drivers are independent)."""
        trace = ctx.path("trace_%s.ndjson" % name)
        rc, out = ctx.run_bin(binp, run_, env=dict(env, VERIF_OUT=trace), timeout=3000)
        with open(ctx.path("driver_%s.log" % name), "w") as fh:
            fh.write(out)
        if rc != 0:
            raise vk.Inconclusive("driver %s failed:\n%s" % (name, out[-3000:]))
        events = vk.read_ndjson(trace)
        acc, rej = ctx.validate_trace("Trace_Tombstone", "Trace_Tombstone.cfg", trace, name="tlc_" + name,
                                      timeout=3000)
        return events, rej

    jobs = (("replay", "^TestVerif_C17_Replay$", {"VERIF_IN": inp, "C17_WORKERS": 6}),
            ("random", "^TestVerif_C17_Random$", {}))
    with concurrent.futures.ThreadPoolExecutor(max_workers=2) as pool:
        futs = [(j[0], pool.submit(drive, *j)) for j in jobs]
        results = [(name, f.result()) for name, f in futs]
    for name, (events, rej) in results:
        histories(events)
        bad = report(ctx, name, events, rej)
        rejected_lines = {r["line"] for r in rej}
        steps = [e for e in events if e["ev"] == "step"]
        total_steps += len(steps)
        nsnaps += sum(1 for e in events if e["ev"] == "snap")
        nh = len({(e["_c"], e["_r"]) for e in steps})
        ctx.traces_validated += nh - len(bad)
        snaps = {(e["_c"], e["n"]): e for e in events if e["ev"] == "snap"}

        def dir_entry(e, q):
            sn = snaps[(e["_c"], e["snap"])]
            return [x for x in sn["entries"] if x["at"] == 0 and x["q"] == q][0]

        if name == "replay":
            # cross-check: the prediction printed by Tombstone.tla (live set per step, answer table)
            # against what was observed; Trace_Tombstone.tla judged the same events independently.
            si, k = -1, 0
            for i, e in enumerate(events):
                if e["ev"] == "reset" and e["snap"] == 0:
                    si, k = si + 1, 0
                    continue
                if e["ev"] != "step":
                    continue
                sc = allscripts[si]
                pred_live = frozenset(sc["lives"][k])
                k += 1
                if (i + 1) in rejected_lines or (e["_c"], e["_r"]) in bad:
                    continue
                obs_live = frozenset(dir_entry(e, 1)["repos"])
                tab = answers[pred_live]
                ok = obs_live == pred_live
                for q in range(1, len(table["queries"]) + 1):
                    ent = dir_entry(e, q)
                    if sorted([f["r"], f["f"]] for f in ent["files"]) != sorted(map(list, tab["files"][q - 1])):
                        ok = False
                    if sorted(ent["repos"]) != sorted(tab["repos"][q - 1]):
                        ok = False
                if not ok:
                    raise vk.Inconclusive("Tombstone.tla's prediction and Trace_Tombstone.tla's judgement disagree "
                                          "at trace line %d (script %d step %d)" % (i + 1, si, k))
        for i, e in enumerate(events):
            if e["ev"] != "step":
                continue
            allr = set(x["id"] for x in events[e["_c"]]["shards"][0]["repos"])
            if set(dir_entry(e, 1)["repos"]) >= allr:
                continue
            key = (name, e["_c"] if name == "random" else 0,
                   tuple((x["op"], x["id"], x["fault"]) for x in events[e["_r"]:i + 1] if x["ev"] == "step"))
            nontrivial.add(key)
        for e in steps:
            if e["fault"]:
                fault_steps += 1
                if e["injected"] > 0:
                    fault_effective += 1
        if name == "random":
            c0 = [e for e in events if e["ev"] == "corpus"]
            ctx.sample({"random_corpus": {"kind": c0[0]["kind"], "shards": c0[0]["shards"]},
                        "queries": c0[0]["queries"][3:6]})
            nrandom = len(c0)
    if fault_steps and fault_effective != fault_steps:
        raise vk.Inconclusive("fault injection fired in %d of %d fault steps" % (fault_effective, fault_steps))
    ctx.assumptions += [
        "TLC; the driver's projection of zoekt.SearchResult / zoekt.RepoList and its mapping of abstract queries "
        "(word = content substring, file name = file-name substring, repository atoms = Repo regexp / RepoIDs / RepoSet, "
        "type:repo) to query.Q values; words and file names are chosen so that none is a substring of another",
        "strace's inject=rename,renameat,renameat2:error=EIO:when=1 is the failing rename; the operation runs in a "
        "child process (the test binary itself) and what it reported is read from a result file",
        "each step reloads with a fresh index.NewSearcher and a fresh search.NewDirectorySearcher; the watcher-driven "
        "reload of a long-lived directory searcher belongs to C19/C20",
    ]
    return ctx.finish(
        evaluations=total_steps, distinct_nontrivial=len(nontrivial),
        rule="evaluations = SetTombstone/UnsetTombstone calls on real compound shards, each followed by a reload and "
             "the projection of all channels (Files, RepoURLs, LineFragments, List Repos/ReposMap/Stats) for every "
             "query on the shard searcher(s) and the directory searcher, validated by Trace_Tombstone.tla; scripts = "
             "all 6^D operation sequences TLC enumerates + fault scripts + seeded random corpora/histories; "
             "non-trivial = distinct operation histories after which at least one repository of the compound shard "
             "is tombstoned (so hidden content exists that every channel must omit)",
        exhaustive=False,
        extra={"scripts_from_tlc": len(scripts), "fault_scripts": len(fscripts), "fault_steps": fault_steps,
               "fault_scripts_where_the_failed_operation_changes_a_flag": fault_nontrivial,
               "distinct_snapshots": nsnaps, "random_scenarios": nrandom, "sequence_length": depth})
