"""shared orchestration for the search-semantics family (C01, C02, C03, ...): run drivers of
harness/drivers/search, validate the traces with Trace_Search.tla under a given Check constant."""
from collections import Counter
import os

from lib import vk

PKG = "search"
FILES = ["c01_search_test.go", "c02_ranges_test.go", "c01_wide_test.go"]


def is_corpus(ln):
    return '"ev":"corpus"' in ln


def run_family(ctx, pid, cfg, runs, why_prefix, nontrivial, timeout=1500, classify=None, tag=""):
    """runs: list of (test name, env). Returns (events, searches, nontrivial count, rejected)."""
    total = 0
    searches = 0
    nt = 0
    only = os.environ.get("VERIF_ONLY_TEST")   # debugging aid: run one family
    for test, env in runs:
        if only and only not in test:
            continue
        rc, out, trace = ctx.driver(PKG, "^%s$" % test, FILES, env=env, out="trace_%s%s.ndjson" % (test, tag), timeout=timeout)
        if rc != 0:
            raise vk.Inconclusive("driver %s failed:\n%s" % (test, out[-3000:]))
        events = vk.read_ndjson(trace)
        acc, rej = ctx.validate_trace_sharded("Trace_Search", cfg, trace, header_lines=1, shards=8,
                                              name="tlcs_" + test + tag, group_start=is_corpus, timeout=timeout)
        total += len(events)
        corpus = None
        bad_lines = set()
        for r in rej:
            e = events[r["line"] - 1]
            cor = None
            for x in events[:r["line"]]:
                if x["ev"] == "corpus":
                    cor = x
            d = r["expected"].get("doc") if isinstance(r["expected"], dict) else None
            content = None
            if cor is not None and d:
                content = "".join(map(chr, cor["docs"][d - 1]["content"]))
            why = r["why"]
            sig = pid + ":" + why.split(":", 1)[1] if ":" in why else pid + ":" + why
            if why.startswith("c01:outcome") and "type:filematch" in e.get("qs", ""):
                sig = pid + ":outcome:panic:type-filematch"
            if classify:
                sig = classify(sig, e, events, r["line"], r)
            bad_lines.add(r["line"])
            ctx.violation(sig, {"test": test, "line": r["line"], "kind": e.get("kind"), "mode": e.get("mode"), "ctx": e.get("ctx"), "ev": e["ev"], "rewritten": e.get("rqs"),
                                "params": {k: e[k] for k in ("limits", "cancel", "maxdoc", "maxmatch", "stream", "config") if k in e},
                                "query": e.get("qs"), "expected": r["expected"], "content": content,
                                "observed_files": [{k: f.get(k) for k in ("doc", "branches", "lm", "cm") if k in f}
                                                   for f in e.get("files", []) if not d or f["doc"] == d][:4]})
        for e in events:
            if e["ev"] == "search":
                searches += 1
                if nontrivial(e):
                    nt += 1
        ctx.traces_validated += sum(1 for i, e in enumerate(events) if e["ev"] == "search" and (i + 1) not in bad_lines)
        s = [e for e in events if e["ev"] == "search" and e["files"]]
        if s:
            x = s[len(s) // 2]
            ctx.sample({"test": test, "query": x["qs"], "kind": x["kind"], "mode": x["mode"],
                        "files": [f["doc"] for f in x["files"]][:10]})
    return total, searches, nt
