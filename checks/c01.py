"""C01 — search returns exactly the documents the query matches.
V: seeded random corpora (simple + compound shards, tombstones, file tombstones, skipped binary
documents, symbols) x random query trees over all atom kinds, on shard searchers and the
directory searcher; plus the exhaustive small scope (every content up to length 4/5 over
{a,b,A,\\n} in one shard x every substring pattern up to length 4 x regexp skeletons).
Oracle: QuerySem!Answer evaluated by TLC on the logged corpus and query (scanning, no index)."""
from checks import searchsem
from lib import vk


def run(ctx):
    ctx.level = "exploration"
    runs = [("TestVerif_C01_Random", {"VERIF_CORPORA": ctx.pick(30, 400), "VERIF_DETAIL": 0}),
            ("TestVerif_C01_Exhaustive", {"VERIF_DOCLEN": ctx.pick(4, 5), "VERIF_DETAIL": 0}),
            # match-dense corpora with single-atom queries (literals on different lines, multi-line
            # regexps, word boundaries): the document set is checked here, the ranges in C02
            ("TestVerif_C02_Dense", {"VERIF_CORPORA": ctx.pick(12, 150), "VERIF_DETAIL": 0}),
            # one shard with tens of thousands of distinct trigrams (multi-bucket, multi-level b-tree)
            ("TestVerif_C01_Wide", {"VERIF_CORPORA": ctx.pick(1, 3), "VERIF_DETAIL": 0})]

    def nontrivial(e):
        return 0 < len(e["files"])

    total, searches, nt = searchsem.run_family(ctx, "C01", "Trace_Search_c01.cfg", runs, "c01", nontrivial,
                                               timeout=ctx.pick(1500, 5000))
    ctx.assumptions += ["case-insensitive text restricted to runes whose ToLower image and SimpleFold orbit agree (rest: C08)",
                        "regexp/syntax parser trusted (AST), matcher not; reported branches checked for admissibility only"]
    return ctx.finish(evaluations=searches, distinct_nontrivial=nt,
                      rule="searches validated against QuerySem!Answer; non-trivial = searches returning at least one file "
                           "(expected answer non-empty); random family: seeded corpora x query trees depth<=3; exhaustive "
                           "family: all contents <= L over {a,b,A,newline} x all substring patterns <= 4 x regexp skeletons",
                      extra={"events": total})
