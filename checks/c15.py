"""C15 — directory and archive indexers capture exactly the source files.

M: spec/sys/DirArchive.tla enumerates small directory trees (product of option groups: contents,
   ignored directory names as dir/file/symlink, symlinks to file/dir/parent/nowhere/self, the 8
   ignore files, ignore file / .sourcegraph as symlink, empty directory) and small archives
   (member lists x {tar,tgz,zip} x Strip 0..2) with the documents DirArchiveOps prescribes.
R: every scenario is materialised and indexed by the real indexArg / archive.Index; the
   produced shards are projected through search (Const true, Whole) and compared with the
   prediction printed by TLC.
V: the replay events, seeded random bigger trees/archives (also truncated archives) and
   ignore-dialect probes are validated by Trace_DirArchive.tla, which recomputes the expected
   documents from the logged scenario."""
import json
import os
import random
import time

from lib import vk

PKG_DIR = "cmd/zoekt-index"
PKG_ARCH = "internal/archive"
SIZEMAX = 48


def scaled(n):
    """VERIF_SCALE (default 1) scales the number of scenarios run against the real code; for
    self-tests on an overloaded machine only, the registered tiers use 1."""
    return max(10, int(n * float(os.environ.get("VERIF_SCALE") or 1)))


def text(cps):
    return "".join(chr(c) for c in cps)


def show_cd(cd):
    if cd["lit"]:
        return {"text": text(cd["text"])}
    return {"cid": cd["cid"], "size": cd["size"], "nul": cd["nul"]}


def show_doc(d):
    return [text(d["name"]), d["c"], text(d["t"])]


def show_event(e):
    if e["ev"] == "dir":
        return {"sizemax": e["sizemax"],
                "tree": [[text(x["path"]), x["kind"], show_cd(x["cd"])] for x in e["entries"]]}
    if e["ev"] == "archive":
        return {"sizemax": e["sizemax"], "format": e["format"], "strip": e["strip"], "truncated": e["cut"],
                "members": [[text(x["name"]), x["kind"], show_cd(x["cd"])] for x in e["members"]]}
    return {"ignore_file": text(e["text"]), "paths": [text(p) for p in e["paths"]], "match": e["match"]}


def bag(docs):
    return sorted((text(d["name"]), d["c"], text(d["t"])) for d in docs)


def content_class(d):
    return {-1: "text", -2: "toolarge", -3: "binary", -4: "toosmall", 0: "empty"}.get(d["c"], "plain")


def first_name_diff(obs, exp, want_missing):
    """first name with fewer (missing) / more (extra) observed than expected documents"""
    cnt = {}
    for d in exp:
        cnt[text(d["name"])] = cnt.get(text(d["name"]), 0) + 1
    for d in obs:
        cnt[text(d["name"])] = cnt.get(text(d["name"]), 0) - 1
    names = sorted(n for n, c in cnt.items() if (c > 0 if want_missing else c < 0))
    return names[0] if names else None


def signature(e, why, expected):
    mode = e["ev"]
    sig = "C15:%s:%s" % (mode, why)
    if mode == "archive":
        if why in ("panic", "died"):
            if not any(m["kind"] == "reg" for m in e["members"]):
                return sig + ":no-regular-members"
            return sig + (":truncated" if e["cut"] else "")
        items, key = e["members"], "name"
    else:
        if why in ("panic", "died", "error", "unreadable"):
            return sig
        items, key = e["entries"], "path"
    obs, exp = e["out"]["docs"], expected["docs"]
    if why in ("missing", "extra"):
        n = first_name_diff(obs, exp, why == "missing")
        cause = "unknown"
        for it, fate in zip(items, expected["fates"]):
            stripped = text(it[key])
            if mode == "archive":
                stripped = "/".join(stripped.split("/")[e["strip"]:]) if fate != "stripped" else stripped
            if stripped == n:
                cause = "%s:%s" % (fate, it["kind"])
                if (why == "extra") == (fate != "doc"):
                    break
        if why == "extra" and cause.startswith("ignorefile") and n is not None and not n.isascii():
            cause += ":nonascii"
        return "%s:%s" % (sig, cause)
    if why == "content":
        eb, ob = bag(exp), bag(obs)
        for x in eb:
            if x not in ob:
                d = {"c": x[1]}
                if mode == "archive":
                    kind = next((it["kind"] for it in items if it["kind"] == "reg" and
                                 "/".join(text(it[key]).split("/")[e["strip"]:]) == x[0]), "unknown")
                else:
                    kind = next((it["kind"] for it in items if text(it[key]) == x[0]), "unknown")
                return "%s:%s:%s" % (sig, kind, content_class(d))
    return sig


def run(ctx):
    # ------------------------------------------------------------------ M + scripts
    res = ctx.model_check("DirArchive", "DirArchive_mc.cfg", timeout=1800, workers=4, coverage=ctx.thorough,
                          defines={"Mode": '"dir"', "SizeMax": SIZEMAX, "MaxMembers": 0, "Scope": ctx.pick(1, 2), "Emit": "TRUE"})
    dir_scripts = res.printed("SCRIPT")
    if len(dir_scripts) * 2 != res.distinct:
        raise vk.Inconclusive("dir scripts printed (%d) != trees enumerated (%d)" % (len(dir_scripts), res.distinct // 2))
    if ctx.thorough:
        ctx.notes.append("coverage zero (dir): %s" % (res.coverage_zero() or "none"))
    res = ctx.model_check("DirArchive", "DirArchive_mc.cfg", timeout=1800, workers=4,
                          defines={"Mode": '"archive"', "SizeMax": SIZEMAX, "MaxMembers": ctx.pick(2, 3), "Scope": 1, "Emit": "TRUE"})
    arch_scripts = res.printed("SCRIPT")
    if len(arch_scripts) * 2 != res.distinct:
        raise vk.Inconclusive("archive scripts printed (%d) != scenarios enumerated (%d)" % (len(arch_scripts), res.distinct // 2))
    all_dir, all_arch = len(dir_scripts), len(arch_scripts)
    rnd = random.Random(ctx.seed)
    nd, na = scaled(ctx.pick(120, 600)), scaled(ctx.pick(120, 600))
    if len(dir_scripts) > nd:
        dir_scripts = rnd.sample(dir_scripts, nd)
    if len(arch_scripts) > na:
        # (about a fifth of the enumerated archives have no regular member; the vacuity guard below
        # requires that the sample contains some)
        arch_scripts = rnd.sample(arch_scripts, na)
    ctx.log("scripts from TLC: %d trees (%d replayed), %d archives (%d replayed)" % (
        all_dir, len(dir_scripts), all_arch, len(arch_scripts)))
    inp_dir, inp_arch = ctx.path("scripts_dir.ndjson"), ctx.path("scripts_arch.ndjson")
    vk.write_ndjson(inp_dir, [{"sc": s["sc"], "sizemax": s["sizemax"]} for s in dir_scripts])
    vk.write_ndjson(inp_arch, [{"sc": s["sc"], "sizemax": s["sizemax"]} for s in arch_scripts])

    # ------------------------------------------------------------------ drivers
    bin_dir = ctx.go_build_test(PKG_DIR, ["c15_dir_test.go"])
    bin_arch = ctx.go_build_test(PKG_ARCH, ["c15_archive_test.go"])
    runs = [("dirreplay", bin_dir, "^TestVerif_C15_DirReplay$", {"VERIF_IN": inp_dir}, dir_scripts, "dir"),
            ("dirrandom", bin_dir, "^TestVerif_C15_DirRandom$", {}, None, "dir"),
            ("glob", bin_dir, "^TestVerif_C15_Glob$", {}, None, "dir"),
            ("archreplay", bin_arch, "^TestVerif_C15_ArchiveReplay$", {"VERIF_IN": inp_arch}, arch_scripts, "archive"),
            ("archrandom", bin_arch, "^TestVerif_C15_ArchiveRandom$", {}, None, "archive")]
    seen = {}

    def report(sig, detail):
        seen[sig] = seen.get(sig, 0) + 1
        if seen[sig] == 1:
            ctx.violation(sig, detail)

    events = []          # all events of all drivers, in trace order
    origin = []
    for name, binp, run_, env, scripts, mode in runs:
        trace = ctx.path("trace_%s.ndjson" % name)
        prog = ctx.path("c15_progress_%s.json" % mode)
        phase = ctx.path("c15_phase.json")
        for f in (prog, phase):
            if os.path.exists(f):
                os.remove(f)
        env = dict(env, VERIF_OUT=trace, C15_RANDOM=scaled(ctx.pick(70, 300)))
        t0 = time.time()
        rc, out = ctx.run_bin(binp, run_, env=env, timeout=6000)
        ctx.log("driver %s: rc=%d in %.1fs" % (name, rc, time.time() - t0))
        if rc != 0 or "--- PASS" not in out:
            if (os.path.exists(prog) and os.path.exists(phase) and json.load(open(phase)) == "indexing"
                    and "--- FAIL" not in out and rc != 124):
                # the process ended while indexing the recorded scenario: not an outcome of the spec
                sc = json.load(open(prog))
                report("C15:%s:died" % mode, {"driver": name, "scenario": sc, "output_tail": out[-1500:]})
                continue
            raise vk.Inconclusive("driver %s failed:\n%s" % (name, out[-3000:]))
        evs = vk.read_ndjson(trace)
        if scripts is not None:
            if len(evs) != len(scripts):
                raise vk.Inconclusive("%s: replayed %d of %d scripts" % (name, len(evs), len(scripts)))
        events += evs
        origin += [name] * len(evs)
    if not events:
        return ctx.finish(evaluations=0, distinct_nontrivial=0, rule="no driver completed")

    # ------------------------------------------------------------------ V
    alltrace = ctx.path("trace_all.ndjson")
    vk.write_ndjson(alltrace, events)
    acc, rej = ctx.validate_trace_sharded("Trace_DirArchive", "Trace_DirArchive.cfg", alltrace, header_lines=0,
                                          shards=ctx.pick(6, 8), name="tlcs", timeout=3000)
    rejected_lines = set()
    order = sorted(rej, key=lambda r: (len(json.dumps(events[r["line"] - 1])), r["line"]))   # smallest scenario first
    # A rejected scripted scenario is executed once more on its own before it counts: the verdict has to be a
    # reproducible behaviour of the real code.  (Introduced when one 'unexpected EOF' on a well-formed archive
    # looked like a load artefact; it reproduced and turned out to be finding C15-F3.)
    unconfirmed = set()
    local = {}
    cnt = {}
    for i, o in enumerate(origin):
        local[i] = cnt.get(o, 0)
        cnt[o] = local[i] + 1
    by_driver = {}
    for r in rej:
        o = origin[r["line"] - 1]
        if o in ("dirreplay", "archreplay") and events[r["line"] - 1]["ev"] != "glob":
            by_driver.setdefault(o, []).append(r["line"] - 1)
    for name, binp, run_, env, scripts, mode in runs:
        idxs = sorted(set(by_driver.get(name, [])))[:40]
        if not idxs or scripts is None:
            continue
        sub = ctx.path("confirm_%s.ndjson" % name)
        vk.write_ndjson(sub, [scripts[local[i]] for i in idxs])
        t2 = ctx.path("trace_confirm_%s.ndjson" % name)
        rc, out = ctx.run_bin(binp, run_, env=dict(env, VERIF_IN=sub, VERIF_OUT=t2), timeout=3000)
        if rc != 0 or "--- PASS" not in out:
            continue            # cannot confirm: keep the first observation
        again = vk.read_ndjson(t2)
        for i, e2 in zip(idxs, again):
            if e2.get("out") != events[i].get("out"):
                unconfirmed.add(i + 1)
    if unconfirmed:
        ctx.notes.append("%d rejected scripted scenario(s) behaved differently when executed again on their own and are "
                         "not reported (first observation not reproducible): lines %s" % (len(unconfirmed), sorted(unconfirmed)[:10]))
    for r in order:
        e = events[r["line"] - 1]
        if r["line"] in unconfirmed:
            continue
        rejected_lines.add(r["line"])
        if e["ev"] == "glob":
            sig = "C15:" + r["why"]
            if r["why"] == "glob":
                diff = [(text(p), m, x) for p, m, x in zip(e["paths"], e["match"], r["expected"]["fates"]) if m != x]
                if all(x and not m and not p.isascii() for p, m, x in diff):
                    sig += ":nonascii"      # a pattern does not match a path with a multi-byte character
            report(sig, {"case": show_event(e), "expected_match": r["expected"]["fates"], "err": e["err"]})
            continue
        sig = signature(e, r["why"], r["expected"])
        report(sig, {"driver": origin[r["line"] - 1], "scenario": show_event(e),
                     "expected": [show_doc(d) for d in r["expected"]["docs"]],
                     "observed": {"kind": e["out"]["kind"], "msg": e["out"]["msg"][:300],
                                  "docs": [show_doc(d) for d in e["out"]["docs"]]}})
    # R cross-check: a replay event that differs from TLC's printed prediction must have been rejected by V
    k = 0
    for name, _, _, _, scripts, mode in runs:
        if scripts is None:
            k += sum(1 for o in origin if o == name)
            continue
        for s in scripts:
            if k >= len(events) or origin[k] != name:
                break
            e = events[k]
            k += 1
            o = e["out"]
            same = o["kind"] == "ok" and bag(o["docs"]) == bag(s["expect"])
            if not same and k not in rejected_lines and not (
                    mode == "archive" and o["kind"] == "error" and not any(m["kind"] == "reg" for m in e["members"])):
                raise vk.Inconclusive("replay step %d of %s differs from TLC's prediction but the trace spec accepted it" % (k, name))
    for sig, n in sorted(seen.items()):
        ctx.log("signature %s: %d occurrence(s)" % (sig, n))

    # ------------------------------------------------------------------ evidence
    scen = [e for e in events if e["ev"] in ("dir", "archive")]
    ctx.traces_validated = len(events) - len(rejected_lines)
    nontrivial = 0
    stats = {"dir_with_ignore_effect": 0, "dir_with_symlink_doc": 0, "dir_with_ignored_dirname": 0,
             "archives_without_regular_member": 0, "archives_truncated": 0, "archives_with_duplicate_names": 0,
             "archives_with_stripped_away_member": 0, "glob_probes": sum(1 for e in events if e["ev"] == "glob")}
    for e in scen:
        docs = e["out"]["docs"]
        if e["ev"] == "dir":
            items = [x for x in e["entries"] if x["kind"] != "dir"]
            if docs and len(docs) < len(items):
                nontrivial += 1
            names = {text(d["name"]) for d in docs}
            has_ig = any(text(x["path"]) == ".sourcegraph/ignore" and x["kind"] == "file" for x in e["entries"])
            under_ignored = [x for x in items if any(p in (".git", ".hg", ".svn") for p in text(x["path"]).split("/")[:-1])]
            if under_ignored:
                stats["dir_with_ignored_dirname"] += 1
            if has_ig and any(text(x["path"]) not in names and x not in under_ignored for x in items):
                stats["dir_with_ignore_effect"] += 1
            if any(x["kind"] == "symlink" and text(x["path"]) in names for x in e["entries"]):
                stats["dir_with_symlink_doc"] += 1
        else:
            regs = [m for m in e["members"] if m["kind"] == "reg"]
            if docs and len(docs) < len(e["members"]):
                nontrivial += 1
            if not regs:
                stats["archives_without_regular_member"] += 1
            if e["cut"]:
                stats["archives_truncated"] += 1
            ns = [text(m["name"]) for m in regs]
            if len(ns) != len(set(ns)):
                stats["archives_with_duplicate_names"] += 1
            if e["out"]["kind"] == "ok" and not e["cut"] and len(docs) < len(regs):
                stats["archives_with_stripped_away_member"] += 1
    for key in ("dir_with_ignore_effect", "dir_with_symlink_doc", "dir_with_ignored_dirname",
                "archives_without_regular_member", "archives_with_duplicate_names", "archives_with_stripped_away_member"):
        if stats[key] == 0 and not seen:
            raise vk.Inconclusive("vacuous: no scenario counted for " + key)
    for e in rnd.sample(scen, min(3, len(scen))):
        ctx.sample({"scenario": show_event(e), "outcome": e["out"]["kind"], "docs": [show_doc(d) for d in e["out"]["docs"]]})
    ctx.assumptions += [
        "shards are projected with index.NewSearcher + Search(Const true, Whole); skip explanations are recognised by their "
        "documented text (NOT-INDEXED: ...)",
        "archives are produced by the standard library writers (archive/tar, compress/gzip, archive/zip)",
        "gobwas/glob features outside the ignore dialect of Glob.tla (escapes, {a,b}) and malformed patterns are not generated",
        "the indexers run as root: permission errors during the walk do not occur"]
    return ctx.finish(
        evaluations=len(events), distinct_nontrivial=nontrivial,
        rule="evaluations = indexer runs (directory or archive) + ignore-dialect probes against the real code; non-trivial = "
             "runs that produced at least one document and fewer documents than the tree has files+symlinks / the archive "
             "has members (something had to be left out)",
        exhaustive=False,
        extra=dict(stats, trees_enumerated_by_tlc=all_dir, archives_enumerated_by_tlc=all_arch,
                   trees_replayed=len(dir_scripts), archives_replayed=len(arch_scripts)))
