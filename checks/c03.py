"""C03 — match locations and context agree with the file content (Geometry!CheckGeometry)."""
from checks import searchsem


def run(ctx):
    ctx.level = "exploration"
    runs = [("TestVerif_C03_Layout", {"VERIF_CORPORA": ctx.pick(30, 400)}),
            ("TestVerif_C02_Dense", {"VERIF_CORPORA": ctx.pick(8, 120), "VERIF_DETAIL": 2})]

    def nontrivial(e):
        return e["ctx"] > 0 and any(f.get("lm") or f.get("cm") for f in e["files"])

    total, searches, nt = searchsem.run_family(ctx, "C03", "Trace_Search_c03.cfg", runs, "c03", nontrivial,
                                               timeout=ctx.pick(1500, 5000))
    ctx.assumptions += ["End.LineNumber/Column of a chunk range follow the documented convention: line of the last byte of the range"]
    return ctx.finish(evaluations=searches, distinct_nontrivial=nt,
                      rule="searches whose LineMatch/ChunkMatch records were validated (line numbers, offsets, line texts, before/after "
                           "context, chunk content, columns, chunk disjointness); non-trivial = searches with context lines and matches",
                      extra={"events": total})
