"""C05 — query rewriting preserves meaning.

M: spec/sys/Rewrite.tla enumerates every query tree of depth <= 3, fan-out <= 3 with at most
   MaxNodes nodes over {atom a, atom b, TRUE, FALSE, always-true atom, never-true atom, empty
   and/or, not, boost, type:filename/filematch/repo} and checks that a meaning preserving normal
   form exists for each (Sound) -- the oracle is consistent and what is demanded is satisfiable.
R: every complete tree is a replay script (plus -simulate samples of the larger trees of the same
   depth/fan-out); the drivers instantiate the leaf classes with real atoms and run the REAL
   rewrites: evalConstants, flatten, Simplify, Map(ExpandFileContent), stripCaseScopes / Parse
   (package query) and indexData.simplify on real loaded shards (package index).
V: Trace_Rewrite.tla validates every recorded rewrite: before and after agree under EVERY truth
   assignment of the atoms (and on every live repository of the shard, repository-level atoms
   being evaluated from the logged metadata), and the result has the promised structure."""
import collections
import concurrent.futures
import json

from lib import vk

QPKG, QFILES = "query", ["c05_bridge_test.go", "c05_rewrite_test.go"]
IPKG, IFILES = "index", ["c05_bridge_test.go", "c05_simplify_test.go"]

REPO_LEVEL = {"repo", "reporegexp", "reposet", "repoids", "rawconfig", "meta", "branchesrepos", "lang"}


def tree_size(n):
    return 1 + sum(tree_size(c) for c in n["sub"])


def show(n, atoms):
    t = n["t"]
    if t == "atom":
        a = atoms[n["a"] - 1]
        extra = ""
        if a["t"] in ("substr", "regex", "branch", "repo", "reporegexp", "meta"):
            extra = ":" + ("file_" if a.get("fn") and not a.get("ct") else "content_" if a.get("ct") and not a.get("fn") else "") + repr("".join(map(chr, a["pat"])))
        elif a["t"] == "reposet" or a["t"] == "filenameset":
            extra = ":" + repr(["".join(map(chr, x)) for x in a["names"]])
        elif a["t"] == "repoids":
            extra = ":" + repr(a["ids"])
        elif a["t"] == "branchesrepos":
            extra = ":" + repr([("".join(map(chr, b["branch"])), b["ids"]) for b in a["br"]])
        elif a["t"] == "rawconfig":
            extra = ":" + "".join("1" if f else "0" for f in a["flags"])
        elif a["t"] in ("lang", "unknown"):
            extra = ":" + a["s"]
        return "%s%s" % (a["t"], extra)
    if t == "const":
        return "TRUE" if n["b"] else "FALSE"
    head = t if t != "type" else "type:" + n["s"]
    return "(%s%s)" % (head, "".join(" " + show(c, atoms) for c in n["sub"]))


def atom_kinds(n, atoms, acc=None):
    acc = set() if acc is None else acc
    if n["t"] == "atom":
        acc.add(atoms[n["a"] - 1]["t"])
    for c in n["sub"]:
        atom_kinds(c, atoms, acc)
    return acc


def scripts_from(res):
    return [json.dumps(s, separators=(",", ":")) for s in res.printed("SCRIPT")]


def run_test(ctx, binp, test, out, env=None, timeout=7200):
    outp = ctx.path(out)
    e = dict(env or {})
    e["VERIF_OUT"] = outp
    rc, o = ctx.run_bin(binp, "^%s$" % test, env=e, timeout=timeout)
    with open(ctx.path("driver_%s.log" % test), "w") as fh:
        fh.write(o)
    if rc != 0 or "--- PASS: " + test not in o:
        raise vk.Inconclusive("driver %s did not complete (rc=%d):\n%s" % (test, rc, o[-3000:]))
    ctx.log("driver %s done" % test)
    return outp


def validate(ctx, *a, **kw):
    """validate_trace_sharded, retried once with smaller parts when a TLC process disappears
    (killed under memory pressure on the shared machine) -- an infrastructure problem, never a verdict."""
    try:
        return ctx.validate_trace_sharded(*a, **kw)
    except vk.Inconclusive as e:
        if "consumed ?" not in str(e) and "resource failure" not in str(e):
            raise
        ctx.log("trace validation failed (%s); retrying once with smaller parts" % e)
        kw["shards"] = kw.get("shards", 8) * 2
        kw["name"] = kw.get("name", "tlcs") + "_retry"
        kw["heap"] = "2g"
        return ctx.validate_trace_sharded(*a, **kw)


def run(ctx):
    # ---- M + R: the input space
    res = ctx.model_check("Rewrite", "Rewrite_mc.cfg", name="tlc_gen", timeout=7200, workers=4, defines={
        "MaxDepth": 3, "MaxFan": 3, "MaxNodes": ctx.pick(4, 5), "Emit": "TRUE"})
    exhaustive = scripts_from(res)
    sim = ctx.tlc("Rewrite", "Rewrite_mc.cfg", name="tlc_gen", timeout=7200, count=False,
                  simulate="num=%d" % ctx.pick(1500, 12000), depth=60, seed=ctx.seed, defines={
                      "MaxDepth": 3, "MaxFan": 3, "MaxNodes": 13, "Emit": "TRUE"})
    if not sim.ok:
        raise vk.Inconclusive("simulation of Rewrite.tla failed (%s); see %s" % (sim.invariant or sim.error, sim.log))
    seen = set(exhaustive)
    sampled = []
    for s in scripts_from(sim):
        if s not in seen:
            seen.add(s)
            sampled.append(s)
    if len(exhaustive) < 5000 or len(sampled) < 50:
        raise vk.Inconclusive("too few scripts from TLC: %d exhaustive, %d sampled" % (len(exhaustive), len(sampled)))
    ctx.log("trees from TLC: %d exhaustive (<= %d nodes), %d sampled larger ones" % (len(exhaustive), ctx.pick(4, 5), len(sampled)))
    inp = ctx.path("scripts.ndjson")
    with open(inp, "w") as fh:
        fh.write("\n".join(exhaustive + sampled) + "\n")

    # ---- the real rewrites
    with concurrent.futures.ThreadPoolExecutor(max_workers=2) as ex:
        fq = ex.submit(ctx.go_build_test, QPKG, QFILES)
        fi = ex.submit(ctx.go_build_test, IPKG, IFILES)
        qbin, ibin = fq.result(), fi.result()
    jobs = [
        ("scripts", qbin, "TestVerif_C05_Scripts", {"VERIF_IN": inp}, None),
        ("random", qbin, "TestVerif_C05_Random", {}, None),
        ("casescope", qbin, "TestVerif_C05_CaseScope", {}, None),
        ("shards", ibin, "TestVerif_C05_Shards", {"VERIF_IN": inp}, '"ev":"shard"'),
        ("shardsrandom", ibin, "TestVerif_C05_ShardsRandom", {}, '"ev":"shard"'),
    ]
    with concurrent.futures.ThreadPoolExecutor(max_workers=3) as ex:
        futs = {name: ex.submit(run_test, ctx, binp, test, "trace_%s.ndjson" % name, env) for name, binp, test, env, _ in jobs}
        traces = {name: f.result() for name, f in futs.items()}

    # ---- V: one trace (the JVM start is paid once per parallel part); everything is streamed
    merged = ctx.path("trace_all.ndjson")
    origin_bounds = []      # (first line, last line, driver name), 1-based lines of the merged trace
    nlines = 0
    with open(merged, "w") as out:
        for name, _, _, _, _ in jobs:
            with open(traces[name]) as fh:
                first = nlines + 1 if nlines else 2
                for k, ln in enumerate(fh):
                    if k == 0:
                        if nlines == 0:
                            out.write(ln)
                            nlines = 1
                        continue
                    out.write(ln)
                    nlines += 1
                origin_bounds.append((first, nlines, name))
    acc, rej = validate(
        ctx,
        "Trace_Rewrite", "Trace_Rewrite.cfg", merged, header_lines=1, shards=8, name="tlcs", timeout=14400,
        group_start=lambda ln: '"ev":"shard"' in ln or '"back":0,' in ln)

    def origin_of(line):
        for a, b, name in origin_bounds:
            if a <= line <= b:
                return name
        return "?"

    rej_by_line = collections.defaultdict(list)
    for r in rej:
        rej_by_line[r["line"]].append(r)
    total = 0
    by_kind = collections.Counter()
    changed = set()
    worst = {}      # signature -> (size, detail)
    counts = collections.Counter()
    fold_classes = collections.Counter()
    cur_shard = None
    sampled_from = set()
    with open(merged) as fh:
        for line, ln in enumerate(fh, 1):
            if '"ev":"shard"' in ln:
                cur_shard = json.loads(ln)
                continue
            if '"ev":"rewrite"' not in ln:
                continue
            e = json.loads(ln)
            name = origin_of(line)
            total += 1
            by_kind[e["kind"]] += 1
            if line not in rej_by_line:
                ctx.traces_validated += 1
            for r in rej_by_line.get(line, ()):
                why = r["why"]
                if why == "budget":
                    raise vk.Inconclusive("event %d (%s) exceeds the valuation budget: %s" % (line, name, r["expected"]))
                sig = "C05:%s:%s" % (e["kind"], why)
                if e["kind"] == "shard" and why == "equiv":
                    ks = sorted(atom_kinds(e["before"], e["atoms"]) & REPO_LEVEL)
                    sig += (":" + "+".join(ks)) if ks else ""
                counts[sig] += 1
                detail = {"driver": name, "line": line, "kind": e["kind"], "why": why, "input": e["src"],
                          "before": show(e["before"], e["atoms"]),
                          "after": show(e["after"], e["atoms"]) if e["outcome"] == "ok" else e["note"], "witness": r["expected"]}
                if e["back"] > 0 and cur_shard is not None:
                    detail["shard"] = [{"name": "".join(map(chr, x["name"])), "id": x["id"], "tomb": x["tomb"], "public": x["public"],
                                        "fork": x["fork"], "archived": x["archived"], "branches": ["".join(map(chr, b)) for b in x["branches"]],
                                        "meta": {m["k"]: "".join(map(chr, m["v"])) for m in x["meta"]}} for x in cur_shard["repos"]]
                    detail["shard_langs"] = cur_shard["langs"]
                sz = tree_size(e["before"])
                if sig not in worst or sz < worst[sig][0]:
                    worst[sig] = (sz, detail)
            if e["before"] != e["after"] and e["atoms"]:
                changed.add(hash((e["kind"], json.dumps(e["before"], sort_keys=True), json.dumps(e["atoms"], sort_keys=True))))
                if name not in sampled_from and len(e["atoms"]) >= 2 and tree_size(e["before"]) >= 5:
                    sampled_from.add(name)
                    ctx.sample({"driver": name, "kind": e["kind"], "before": show(e["before"], e["atoms"]), "after": show(e["after"], e["atoms"])})
            if e["kind"] == "shard" and e["before"]["t"] == "atom" and cur_shard is not None and e["back"] > 0:
                a = e["atoms"][e["before"]["a"] - 1]
                if a["t"] in REPO_LEVEL and any(x["tomb"] for x in cur_shard["repos"]) and any(not x["tomb"] for x in cur_shard["repos"]):
                    out = e["after"]
                    fold_classes[(a["t"], "kept" if out["t"] == "atom" else "TRUE" if out["b"] else "FALSE")] += 1
    # a failure on a tree with several repository-level atom kinds is explained by the failure of
    # a tree with fewer of them: report the minimal kind sets only
    pre = "C05:shard:equiv:"
    kindsets = {sig: frozenset(k for k in sig[len(pre):].split("+") if k) for sig in worst if sig.startswith(pre[:-1])}
    if any(sig.startswith("C05:simplify:") or sig.startswith("C05:evalconst:") or sig.startswith("C05:flatten:") for sig in worst):
        # indexData.simplify ends with query.Simplify: its failures are then consequences
        kindsets[pre + "(query.Simplify)"] = frozenset()
    for sig, ks in list(kindsets.items()):
        if sig in worst and any(o < ks for o in kindsets.values()):
            del worst[sig]
    for sig in sorted(worst):
        d = worst[sig][1]
        d["occurrences"] = counts[sig]
        ctx.violation(sig, d)

    # ---- vacuity: every rewrite kind exercised; the all / none / some trichotomy of the per-shard
    # simplification seen with tombstoned repositories present, for every repository-level atom kind
    need = {"evalconst": 5000, "flatten": 5000, "simplify": 5000, "expand": 5000, "casescope": 300, "parse": 300, "shard": 5000}
    short = {k: by_kind[k] for k, n in need.items() if by_kind[k] < n}
    if short:
        raise vk.Inconclusive("too few rewrites of some kind: %s" % short)
    for kind in ("repo", "reporegexp", "reposet", "repoids", "rawconfig", "meta"):
        for cls in ("kept", "TRUE", "FALSE"):
            if fold_classes[(kind, cls)] == 0:
                raise vk.Inconclusive("vacuous: per-shard simplification of %s never %s with a tombstoned repository in the shard" % (kind, cls))
    for kind in ("branchesrepos", "lang"):
        for cls in ("kept", "FALSE"):
            if fold_classes[(kind, cls)] == 0:
                raise vk.Inconclusive("vacuous: per-shard simplification of %s never %s" % (kind, cls))

    return ctx.finish(
        evaluations=total, distinct_nontrivial=len(changed),
        rule="evaluations = rewrites executed on the real code (evalConstants, flatten, Simplify, Map(ExpandFileContent), "
             "stripCaseScopes, Parse, indexData.simplify on real loaded shards), each validated by Trace_Rewrite.tla under every "
             "truth assignment of its atoms; non-trivial = distinct (rewrite kind, input tree with at least one atom) whose "
             "result differs from the input",
        exhaustive=False,
        extra={"trees_from_tlc_exhaustive": len(exhaustive), "trees_from_tlc_sampled": len(sampled), "rewrites_by_kind": dict(by_kind),
               "shard_fold_classes_with_tombstones": {"%s:%s" % k: v for k, v in sorted(fold_classes.items())},
               "violation_signatures": dict(counts),
               "exhaustive_scope": "all trees with depth<=3, fan-out<=3 and <= %d nodes over the 8 leaf classes, 5 unary and 2 n-ary "
                                   "operators; each instantiated with one of 10 atom palettes (rotating)" % ctx.pick(4, 5)})
