"""C38 — incremental indexing skips only up-to-date repositories.

M: spec/sys/Incremental.tla model-checked: a repository indexed once receives requests that
   differ in at most two fields; Classify (= Options.IndexState) -> Skip / MetaOnly (mergeMeta)
   / Reindex; SkipSound, MetaApplied, NoNeedlessReindex, ChangeReindexes.  "Content-affecting"
   is derived from the builder model (ContentFields); the code's deviations (content-affecting
   options missing from the option hash, metadata the merge never looks at) are reproduced by
   the model and named; the strict invariants must fail (non-vacuity).
V: the driver indexes a probe corpus with options A via the real index.Builder, asks the real
   Options.IndexState()/IncrementalSkipIndexing() with B for every single-field and pairwise
   change, ALSO builds B into a second directory, runs the indexserver's real mergeMeta for
   meta-mismatch; Trace_Incremental.tla evaluates the property on the observed views and
   compares classification and builder model with IncrementalOps (conformance)."""
import json

from lib import vk

PKG = "cmd/zoekt-sourcegraph-indexserver"
FILES = ["c38_incremental_test.go"]

CONTENT_WHYS = ("equal-but-content-differs", "meta-but-content-differs")


def run(ctx):
    T = ctx.thorough
    # ------------------------------------------------------------------ M
    d = {"MaxSteps": ctx.pick(1, 2), "Strict": "FALSE", "InitAll": "FALSE", "Fixed": "FALSE"}
    m = ctx.model_check("Incremental", "Incremental_mc.cfg", timeout=14400, defines=d)
    if T:
        ctx.model_check("Incremental", "Incremental_mc.cfg", timeout=14400,
                        defines={"MaxSteps": 1, "Strict": "FALSE", "InitAll": "TRUE", "Fixed": "FALSE"})
    model_content = set(m.printed("CONTENT_FIELDS")[0])
    model_unhashed = set(m.printed("UNHASHED_CONTENT_FIELDS")[0])
    # the strict forms must fail: the named deviations are reachable in the model
    for cfg, inv in (("Incremental_strict_skip.cfg", "SkipSound"), ("Incremental_strict_meta.cfg", "MetaApplied")):
        strict = ctx.tlc("Incremental", cfg, timeout=14400, count=False,
                         defines={"MaxSteps": 1, "Strict": "TRUE", "InitAll": "FALSE", "Fixed": "FALSE"})
        if strict.invariant != inv:
            raise vk.Inconclusive("the strict model does not violate %s (named deviation unreachable, vacuous): %s" % (
                inv, strict.log))
    # ... and hold with the proposed fix (hash covers every derived content-affecting option,
    # Metadata merged like RawConfig)
    ctx.model_check("Incremental", "Incremental_mc.cfg", timeout=14400, count=False,
                    defines={"MaxSteps": 1, "Strict": "TRUE", "InitAll": "TRUE" if T else "FALSE", "Fixed": "TRUE"})
    ctx.notes.append("model-derived content-affecting option fields: %s; not covered by the option hash: %s" % (
        sorted(model_content), sorted(model_unhashed)))

    # ------------------------------------------------------------------ V
    rc, out, trace = ctx.driver(PKG, "^TestVerif_C38_Probe$", FILES, timeout=14400)
    if rc != 0:
        raise vk.Inconclusive("driver failed:\n%s" % out[-3000:])
    events = vk.read_ndjson(trace)
    acc, rej = ctx.validate_trace("Trace_Incremental", "Trace_Incremental.cfg", trace, timeout=14400)
    bases = {e["base"]: e for e in events if e["ev"] == "base"}
    probes = [e for e in events if e["ev"] == "probe"]

    # observed (derived from real builds): which single changes alter the content view
    affecting = {}
    for e in probes:
        if len(e["fields"]) == 1 and e["fault"] == "none" and e["build_err"] == "":
            key = (e["base"], e["fields"][0], e["vars"][0])
            affecting[key] = e["view"]["docs"] != bases[e["base"]]["view"]["docs"]
    observed_content = {k[1] for k, v in affecting.items() if v}
    opt_fields = {"SizeMax", "TrigramMax", "LargeFiles", "DisableCTags", "CTagsPath", "ScipCTagsPath",
                  "CTagsMustSucceed", "LanguageMap", "ShardMax", "Parallelism"}
    observed_content_opts = observed_content & opt_fields
    if observed_content_opts != model_content:
        raise vk.Inconclusive("content-affecting option fields derived from real builds %s differ from the model's %s "
                              "(builder model out of date)" % (sorted(observed_content_opts), sorted(model_content)))

    by_line = {}
    for r in rej:
        by_line.setdefault(r["line"], []).append(r)
    conform = []
    found = {}       # signature -> list of details
    single_flag = {}  # (why, base, field) for single-field events
    for r in rej:
        e = events[r["line"] - 1]
        if r["why"].startswith("harness:"):
            raise vk.Inconclusive("harness problem: %s" % json.dumps(r)[:1500])
        if e["ev"] == "probe" and len(e["fields"]) == 1:
            single_flag[(r["why"], e["base"], e["fields"][0])] = True
    for r in rej:
        e = events[r["line"] - 1]
        why = r["why"]
        if why.startswith("conform:"):
            conform.append({"line": r["line"], "why": why, "expected": r["expected"],
                            "event": {k: e.get(k) for k in ("base", "fields", "vars", "fault", "state", "build_err")}})
            continue
        fields = e.get("fields", [])
        vars_ = e.get("vars", [])
        # the fields responsible: for content, the changed options that alter the view of a real
        # build on their own; for metadata, the fields of the metadata view that are wrong
        if why in CONTENT_WHYS:
            resp = [f for f, v in zip(fields, vars_) if affecting.get((e["base"], f, v))]
        elif "view_fields" in r["expected"]:
            resp = list(r["expected"]["view_fields"])
        else:
            resp = [f for f in fields if single_flag.get((why, e["base"], f))]
        if resp:
            sigs = ["C38:%s:%s" % (why, f) for f in sorted(set(resp))]     # one signature per responsible field
        elif fields:
            sigs = ["C38:%s:%s" % (why, "+".join(sorted(set(fields))))]    # only the combination is responsible
        else:
            sigs = ["C38:%s" % why]
        a = bases[e["base"]]
        detail = {"line": r["line"], "why": why, "base": e["base"], "changed": dict(zip(fields, vars_)), "fault": e["fault"],
                  "state": e["state"], "skip": e["skip"], "expected": r["expected"],
                  "A": {f: a["cfg"][f] for f in fields}, "B": {f: e["cfg"][f] for f in fields},
                  "docs_that_differ": [[x, y] for x, y in zip(a["view"]["docs"], e["view"]["docs"]) if x != y][:4]
                  if why in CONTENT_WHYS else [],
                  "nfields": len(fields)}
        for sig in sigs:
            found.setdefault(sig, []).append(detail)
    for sig in sorted(found):
        ds = sorted(found[sig], key=lambda x: (x["nfields"], x["line"]))
        det = ds[0]
        det["occurrences"] = len(ds)
        ctx.violation(sig, det)
    if conform and not found:
        raise vk.Inconclusive("the code's classification / builder behaviour differs from IncrementalOps in %d probes "
                              "although the property holds on every observation (model out of date?): %s" % (
                                  len(conform), json.dumps(conform[0])[:2500]))
    if conform:
        ctx.notes.append("%d conformance mismatches next to the violations, first: %s" % (len(conform), json.dumps(conform[0])[:800]))

    states = {}
    for e in probes:
        states[e["state"]] = states.get(e["state"], 0) + 1
    need = {"equal", "meta-mismatch", "content-mismatch", "option-mismatch", "missing", "corrupt"}
    if not need <= set(states):
        raise vk.Inconclusive("vacuous: states never observed: %s" % sorted(need - set(states)))
    nontrivial = {(e["base"], tuple(e["fields"]), tuple(e["vars"])) for e in probes
                  if e["fault"] == "none" and e["build_err"] == "" and e["state"] in ("equal", "meta-mismatch") and e["fields"]}
    ctx.traces_validated = len(probes) - len({r["line"] for r in rej if not r["why"].startswith("conform:")})
    ctx.sample({"probe": {k: probes[len(probes) // 2].get(k) for k in ("base", "fields", "vars", "state", "skip")}})
    ctx.sample({"observed_content_affecting": sorted("%s=%s@%s" % (k[1], k[2], k[0]) for k, v in affecting.items() if v)})
    ctx.assumptions += [
        "ctags is not installed: fake universal-ctags / scip-ctags programs (python, interactive protocol) produce the symbols",
        "views are read through search.NewDirectorySearcher (Search with Whole content, symbol query, List)",
        "index format / feature version mismatch (IndexStateVersion) is not produced",
    ]
    return ctx.finish(
        evaluations=len(probes), distinct_nontrivial=len(nontrivial),
        rule="evaluations = (A, B) pairs for which the real Options.IndexState/IncrementalSkipIndexing answered and B was "
             "built by the real index.Builder into a second directory (plus the real mergeMeta for meta-mismatch), "
             "validated by Trace_Incremental.tla; B = A with one or two fields changed (all single changes, all "
             "option-option pairs, quick: seeded sample of the other pairs, thorough: all) over 3 base configurations, "
             "plus missing/truncated/empty/bad-sidecar indexes; non-trivial = distinct changed requests the code "
             "answered with equal or meta-mismatch (skip decisions that had to be justified by equal views)",
        exhaustive=bool(T),
        extra={"index_states": states, "model_content_fields": sorted(model_content), "model_unhashed": sorted(model_unhashed),
               "observed_content_fields": sorted(observed_content)})
