"""C25 — streaming delivers every file once and conserves statistics.

M: spec/sys/Stream.tla (producer -> samplingSender -> gRPCChunkSender/chunk.SendAll -> client,
   final Flush) model-checked exhaustively with SampleEvery = 3, Budget = 4 units.
R: TLC prints one producer-event script per explored Produce transition; each is fed to the
   REAL newSamplingSender(gRPCChunkSender(fake stream)) with files of exactly u * Budget/4 bytes.
V: what the fake stream received (file ids, proto sizes, every integer Stats field found by
   reflection) for the scripts, for seeded random long sequences and for the real StreamSearch
   on a directory searcher is validated by spec/trace/Trace_Stream.tla (SampleEvery = 100,
   Budget = 1 MiB), which recomputes the delivered messages with the operators of the model and
   evaluates the property on the observed ones.

Verdicts: files / stats-lost / stats-dup / budget / overhead / e2e-* rejections are violations.
A pure conformance mismatch (the code delivers something else than the model but the property
predicates hold) is not a positive observation of wrong behaviour: exit 2."""
import random

from lib import vk

PKG = "cmd/zoekt-webserver/grpc/server"
FILES = ["c25_stream_test.go"]
UNITS = 4
BUDGET = 1 << 20


def _consts(ctx, emit, max_events, max_files):
    return {"SampleEvery": 3, "Budget": UNITS, "Sizes": "{1,2,4}", "MaxFiles": max_files,
            "MaxEvents": max_events, "StatKinds": '{"z","c","r","d","a"}',
            "Emit": "TRUE" if emit else "FALSE"}


def _files_kind(exp, is_flush):
    q = exp.get("produced_pending", [])
    d = exp.get("delivered", [])
    if any(x not in q for x in d):
        return "unknown"
    if len(set(d)) != len(d):
        return "duplicated"
    if len(d) < len(q) and d == q[:len(d)]:
        return "lost"
    if sorted(d) == sorted(q):
        return "order"
    return "lost"


def _stats_sigs(prefix, exp, generic):
    """one signature per affected counter, or the bare prefix when the defect is not specific to
    a few fields (more than 3 counters affected over the whole run)."""
    if generic:
        return [prefix]
    dropped = set(exp.get("dropped", []))
    return ["%s:%s%s" % (prefix, f, ":dropped" if f in dropped else "") for f in sorted(exp.get("fields", []))]


def _scenarios(events):
    """list of (start, end) index ranges, one per reset."""
    res = []
    for i, e in enumerate(events):
        if e["ev"] == "reset":
            res.append([i, len(events)])
            if len(res) > 1:
                res[-2][1] = i
    return res


def _nontrivial(sc_events, names):
    """judged on the producer side only (inputs), so that it does not depend on what the code
    under test delivered: a result that has to be split (>= 2 files reaching the budget), the
    100th stats-only event with counters to forward, a file event following stats-only events
    with counters (merge), trailing stats-only events with counters (final flush)."""
    cidx = [i for i, n in enumerate(names) if n not in ("Duration", "FlushReason")]
    split = sample = merge = final = False
    pending = False   # stats-only counters not yet followed by a file event
    nstats = 0
    for e in sc_events:
        if e["ev"] != "send":
            continue
        nz = any(e["stats"][i] > 0 for i in cidx)
        if e["files"]:
            if len(e["files"]) >= 2 and sum(f[1] for f in e["files"]) >= BUDGET:
                split = True
            if pending:
                merge = True
            pending = False
        else:
            nstats += 1
            pending = pending or nz
            if nstats % 100 == 0 and pending:
                sample = True
                pending = False
    final = pending
    return split, sample, merge, final


def run(ctx):
    # ---------------------------------------------------------------- M
    ctx.model_check("Stream", "Stream_mc.cfg", timeout=900,
                    defines=_consts(ctx, False, ctx.pick(8, 10), ctx.pick(2, 3)))
    # ---------------------------------------------------------------- R: scripts
    res = ctx.tlc("Stream", "Stream_mc.cfg", timeout=900, count=False,
                  defines=_consts(ctx, True, ctx.pick(6, 8), 2))
    if not res.ok:
        raise vk.Inconclusive("script generation failed: %s" % res.log)
    scripts = res.printed("SCRIPT")
    if len(scripts) < 500:
        raise vk.Inconclusive("too few scripts generated: %d" % len(scripts))
    total_scripts = len(scripts)
    cap = ctx.pick(1500, 30000)
    if len(scripts) > cap:
        rnd = random.Random(ctx.seed)
        scripts = rnd.sample(scripts, cap)
    ctx.log("scripts from TLC: %d (replaying %d)" % (total_scripts, len(scripts)))
    inp = ctx.path("scripts.ndjson")
    vk.write_ndjson(inp, scripts)
    ctx.sample({"script": scripts[len(scripts) // 2]})

    # ---------------------------------------------------------------- drivers
    binp = ctx.go_build_test(PKG, FILES)
    tmp = ctx.mkdir("tmp")
    total_events = 0
    nontrivial = 0
    cover = {"split": 0, "sample_flush": 0, "merge": 0, "final_flush": 0, "long_stats_runs": 0}
    conform = []
    rejected = []   # (why, history length, detail)
    vacuous = []
    names = None
    for name, run_, env in (("replay", "^TestVerif_C25_Replay$", {"VERIF_IN": inp, "VERIF_C25_UNITS": UNITS}),
                            ("random", "^TestVerif_C25_Random$", {}),
                            ("e2e", "^TestVerif_C25_E2E$", {})):
        trace = ctx.path("trace_%s.ndjson" % name)
        e = dict(env)
        e.update({"VERIF_OUT": trace, "TMPDIR": tmp})
        rc, out = ctx.run_bin(binp, run_, env=e, timeout=1500)
        with open(ctx.path("driver_%s.log" % name), "w") as fh:
            fh.write(out)
        if rc != 0 or "--- PASS" not in out:
            raise vk.Inconclusive("driver %s failed (rc=%d):\n%s" % (name, rc, out[-3000:]))
        ctx.log("driver %s: %s" % (name, [l for l in out.splitlines() if "C25 " in l][-1:]))
        events = vk.read_ndjson(trace)
        scs = _scenarios(events)
        if not scs:
            raise vk.Inconclusive("driver %s recorded no scenario" % name)
        names = events[scs[0][0]]["names"]
        counters = [n for n in names if n not in ("Duration", "FlushReason")]
        acc, rej = ctx.validate_trace("Trace_Stream", "Trace_Stream.cfg", trace, name="tlc_" + name, timeout=3000)
        total_events += sum(1 for x in events if x["ev"] in ("send", "flush"))
        by_sc = {events[a]["sc"]: (a, b) for a, b in scs}
        bad = set()
        for r in rej:
            ev = events[r["line"] - 1]
            a, b = by_sc[r["sc"]]
            exp = r.get("expected", {})
            if r["why"] == "conform":
                conform.append({"driver": name, "sc": r["sc"], "line": r["line"], "expected": exp,
                                "observed": ev.get("msgs")})
                continue
            bad.add(r["sc"])
            # the producer history of the scenario up to the rejected event (sizes, not contents)
            hist = [{"files": x["files"], "stats": dict((n, v) for n, v in zip(names, x["stats"]) if v)}
                    for x in events[a + 1:r["line"]] if x["ev"] == "send"]
            nhist = len(hist)
            if len(hist) > 12:
                hist = [{"omitted_events": len(hist) - 12}] + hist[-12:]
            rejected.append((r["why"], nhist, {
                "driver": name, "scenario": r["sc"], "line": r["line"], "why": r["why"],
                "event": ev["ev"], "expected": exp,
                "observed_msgs": [{"files": m["files"][:20], "hs": m["hs"], "size": m["size"],
                                   "stats": dict((n, v) for n, v in zip(names, m["stats"]) if v)}
                                  for m in ev.get("msgs", [])[:8]],
                "producer_events": nhist, "history": hist}))
        confsc = {c["sc"] for c in conform if c["driver"] == name}
        ctx.traces_validated += len(scs) - len(bad | confsc)
        for a, b in scs:
            split, sample, merge, final = _nontrivial(events[a:b], names)
            cover["split"] += split
            cover["sample_flush"] += sample
            cover["merge"] += merge
            cover["final_flush"] += final
            if split or sample or merge:
                nontrivial += 1
            run_len = best = 0
            for x in events[a:b]:
                if x["ev"] == "send" and not x["files"]:
                    run_len += 1
                    best = max(best, run_len)
                elif x["ev"] == "send":
                    run_len = 0
            cover["long_stats_runs"] += best > 100
        if name == "e2e":
            mine = [_nontrivial(events[a:b], names) for a, b in scs]
            for k, what in enumerate(("split", "sample_flush", "merge", "final_flush")):
                if not any(m[k] for m in mine):
                    vacuous.append("no end-to-end request exercised '%s'" % what)
        if name != "replay":
            a, b = scs[len(scs) // 2]
            ctx.sample({name: [{"files": len(x["files"]), "msgs": [len(m["files"]) for m in x["msgs"]]}
                               for x in events[a + 1:b] if x["ev"] in ("send", "flush")][:10]})
    ctx.log("coverage of the real pipeline: %s" % cover)
    for k in ("split", "sample_flush", "merge", "final_flush", "long_stats_runs"):
        if cover[k] == 0:
            vacuous.append("no scenario exercised '%s'" % k)
    # one violation per signature: the occurrence with the shortest producer history
    union = {}
    for why, _, d in rejected:
        if why in ("stats-lost", "stats-dup"):
            union.setdefault(why, set()).update(d["expected"].get("fields", []))
    found = {}
    for why, nhist, d in rejected:
        exp = d["expected"]
        if why == "files":
            sigs = ["C25:files:" + _files_kind(exp, d["event"] == "flush")]
        elif why in ("stats-lost", "stats-dup"):
            sigs = _stats_sigs("C25:stats:" + why[6:], exp, len(union[why]) > 3)
        elif why == "e2e-stats":
            sigs = ["C25:e2e:stats:" + f for f in sorted(exp.get("fields", []))]
        elif why == "e2e-files":
            sigs = ["C25:e2e:files"]
        else:
            sigs = ["C25:" + why]     # budget, overhead
        for sig in sigs:
            cur = found.setdefault(sig, {"n": 0, "best": None})
            cur["n"] += 1
            if cur["best"] is None or nhist < cur["best"][0]:
                cur["best"] = (nhist, d)
    for sig in sorted(found):
        d = dict(found[sig]["best"][1])
        d["occurrences"] = found[sig]["n"]
        ctx.violation(sig, d)
    ctx.assumptions += [
        "TLC; the fake gRPC stream reads each message out during Send (as the serialising real stream does)",
        "driver's reflection over zoekt.Stats (integer kinds); Duration and FlushReason are specified as "
        "non-additive (Stats.Add keeps the receiver's Duration, first non-zero FlushReason) and not part of conservation",
        "file size = proto.Size(FileMatch); Budget = 1 MiB, SampleEvery = 100 are constants of the trace spec",
    ]
    rc = ctx.finish(
        evaluations=total_events, distinct_nontrivial=nontrivial,
        rule="evaluations = producer events and final flushes pushed through the real "
             "samplingSender(gRPCChunkSender) whose delivered messages Trace_Stream.tla validated; scenarios = "
             "TLC scripts (one per Produce transition of Stream.tla, sampled to the tier's cap), seeded random "
             "histories (incl. > 100 consecutive stats-only events, ~1.5 MB and exactly-budget files, one "
             "scenario group per Stats field) and StreamSearch end-to-end on a directory searcher; non-trivial "
             "(judged on the producer events) = scenarios in which a result of >= 2 files reaches the budget and "
             "must be split, or the 100th stats-only event finds counters to forward, or a file event follows "
             "stats-only events with counters (merge)",
        exhaustive=False,
        extra={"scripts_from_tlc": total_scripts, "scripts_replayed": len(scripts), "pipeline_coverage": cover,
               "stats_fields": names, "conformance_mismatches": len(conform)})
    if vacuous and rc == 0:
        raise vk.Inconclusive("vacuous run: " + "; ".join(vacuous))
    if conform and rc == 0:
        c = conform[0]
        raise vk.Inconclusive(
            "the real pipeline delivered other messages than spec/sys/StreamOps.tla in %d scenario(s) while "
            "files/statistics/budget were respected: the model no longer describes the code (first: driver=%s "
            "scenario=%d line=%d expected=%s observed=%s)" % (
                len(conform), c["driver"], c["sc"], c["line"], str(c["expected"])[:400], str(c["observed"])[:400]))
    if conform:
        ctx.log("additionally %d conformance mismatches" % len(conform))
    return rc
