"""C06 — query strings mean what doc/query_syntax.md says.

M/R: spec/sys/QueryLangGen.tla enumerates the derivation skeletons of the documented EBNF (atoms,
   negation, groups, `or`, case:/type: directives; depth <= 3, <= 4 expressions per group) - each
   finished skeleton is a script (invariant: an independent recogniser of the EBNF accepts it).
V: the driver fills skeletons (plus seeded random deeper derivations, one derivation per field
   value, and the candidate-finding classes) with material aimed at two fixed corpora, renders
   each derivation in several spellings, runs the real query.Parse on every string and a real
   directory search for every distinct parse result.  spec/trace/Trace_QueryLang.tla (oracle:
   spec/lib/QueryLangSem.tla = yield + Meaning written from the document, QuerySem!Answer)
   requires: string = yield(derivation), parse ok, Answer(parsed) = Answer(Meaning(derivation))
   on both corpora, real files = Answer(parsed)."""
import glob
import json
import os
import random
import re

from lib import vk

PKG = "search"
FILES = ["c01_search_test.go", "c06_querylang_test.go"]


def leaves(toks):
    return sum(1 for t in toks if t in ("a", "-a", "c", "t"))


def printed(path, tag):
    pat = re.compile(r'^<<"%s", (".*")>>$' % re.escape(tag))
    res = []
    for line in open(path, errors="replace"):
        m = pat.match(line.strip())
        if m:
            res.append(json.loads(json.loads(m.group(1))))
    return res


def doc_revision(ctx):
    """the two places where the document has a known alternative wording (NOTES/C06_proposed_fix.patch)"""
    p = os.path.join(vk.REPO, "doc", "query_syntax.md")
    try:
        text = open(p).read()
    except OSError as e:
        raise vk.Inconclusive("cannot read the normative text %s: %s" % (p, e))
    row = [ln for ln in text.splitlines() if ln.startswith("| `regex:`")]
    if len(row) != 1:
        raise vk.Inconclusive("doc/query_syntax.md: no row for regex: in the field table; re-read the document")
    if "Matches content using a regular expression" in row[0]:
        regex_field = "content"
    elif "file names or content" in row[0]:
        regex_field = "any"
    else:
        raise vk.Inconclusive("doc/query_syntax.md: the description of regex: changed (%r); re-read the document" % row[0])
    multiline = "Multi-line mode is always on" in text
    return regex_field, multiline


def run(ctx):
    regex_field, multiline = doc_revision(ctx)
    ctx.log("document: regex: matches %s; ^ and $ are %s anchors" % (regex_field, "line" if multiline else "text"))
    # ---- R: skeletons from TLC (also model-checks the generator against the recogniser)
    res = ctx.model_check("QueryLangGen", "QueryLangGen_mc.cfg", name="tlc_gen", timeout=3000, workers=4, defines={
        "MaxDepth": 3, "MaxItems": 4, "MaxLeaves": ctx.pick(4, 5), "MaxGroups": 2, "Emit": "TRUE"})
    scripts = res.printed("SCRIPT")
    if len(scripts) < 30000:
        raise vk.Inconclusive("too few skeletons from TLC: %d" % len(scripts))
    scripts.sort(key=lambda s: (len(s), s))
    rng = random.Random(ctx.seed)
    small = [s for s in scripts if leaves(s) <= 2]
    rest = [s for s in scripts if leaves(s) > 2]
    # skeletons that exercise scoping are preferred in the sample: a directive or an `or` next to a group
    scoped = [s for s in rest if ("(" in s or "-(" in s) and ("c" in s or "t" in s or "or" in s)]
    n = ctx.pick(100, 1500)
    pick = (rng.sample(small, min(len(small), ctx.pick(30, 10 ** 6))) + rng.sample(scoped, min(len(scoped), n * 2 // 3))
            + rng.sample(rest, min(len(rest), n // 3)))
    ctx.log("skeletons from TLC: %d (%d with <= 2 leaves), used %d" % (len(scripts), len(small), len(pick)))
    inp = ctx.path("skeletons.ndjson")
    vk.write_ndjson(inp, pick)
    ctx.sample({"skeleton": pick[len(pick) // 2]})

    # ---- the real parser and searcher
    rc, out, trace = ctx.driver(PKG, "^TestVerif_C06_QueryLang$", FILES, env={"VERIF_IN": inp, "VERIF_C06_MULTILINE": int(multiline)},
                                timeout=3000)
    if rc != 0:
        raise vk.Inconclusive("driver failed:\n%s" % out[-3000:])
    events = vk.read_ndjson(trace)
    qls = [e for e in events if e["ev"] == "ql"]
    by_id = {e["id"]: e for e in qls}
    nstr = sum(len(e["vars"]) for e in qls)
    nparsed = sum(len(e["parsed"]) for e in qls)
    ctx.log("driver: %d derivations, %d strings, %d distinct parse results searched on 2 corpora" % (len(qls), nstr, nparsed))

    # ---- V
    cfg = "Trace_QueryLang.cfg" if regex_field == "content" else "Trace_QueryLang_any.cfg"
    acc, rej = ctx.validate_trace_sharded("Trace_QueryLang", cfg, trace, header_lines=3, shards=8,
                                          name="tlcs_ql", timeout=ctx.pick(1500, 6000))
    answers = {}
    for logp in glob.glob(os.path.join(ctx.work, "tlcs_ql_*", "tlc.log")):
        for a in printed(logp, "ANS"):
            answers[a["id"]] = a
    if len(answers) != len(qls):
        raise vk.Inconclusive("answers reported for %d of %d derivations" % (len(answers), len(qls)))

    gen_errors = [r for r in rej if r["why"].startswith("gen:")]
    if gen_errors:
        r = gen_errors[0]
        e = by_id[r["expected"]["id"]]
        raise vk.Inconclusive("generator/driver error %s (%d events): %s" % (
            r["why"], len(gen_errors), json.dumps({"expected": r["expected"], "s": e["vars"][r["expected"]["var"] - 1]["s"]})[:1500]))

    groups = {}
    bad_strings = set()
    for r in rej:
        x = r["expected"]
        e = by_id[x["id"]]
        why = r["why"]
        shape = "+".join(e["feat"]) or "atom"
        if why.startswith("engine"):
            p = e["parsed"][x["parsed"] - 1]
            sig = "C06:" + why
            det = {"parsed": p["qs"], "corpus": x["corpus"], "search": p["so"][x["corpus"] - 1], "files": p["files"][x["corpus"] - 1],
                   "missing": x.get("missing"), "extra": x.get("extra"), "string": e["vars"][0]["s"]}
            key = len(p["qs"])
        else:
            v = e["vars"][x["var"] - 1]
            cls = "+".join(v["tags"]) if v["tags"] else "plain:" + shape
            sig = "C06:%s:%s" % ("answer" if why == "answer" else "parse-" + why.split(":", 1)[1], cls)
            det = {"string": v["s"], "family": e["fam"], "outcome": v["out"], "parsed_or_error": v["msg"], "corpus": x.get("corpus"),
                   "missing_docs": x.get("missing"), "extra_docs": x.get("extra"),
                   "canonical_spelling": e["vars"][0]["s"], "derivation": v["d"]}
            key = len(v["s"])
            bad_strings.add((x["id"], x["var"]))
        g = groups.setdefault(sig, {"n": 0, "key": 10 ** 9, "det": None})
        g["n"] += 1
        if key < g["key"]:
            g["key"], g["det"] = key, det
    for sig in sorted(groups):
        g = groups[sig]
        g["det"]["occurrences"] = g["n"]
        ctx.violation(sig, g["det"])
    ctx.traces_validated = nstr - len(bad_strings)

    # ---- evidence: what the corpora can tell apart
    ndocs = [len(e["docs"]) for e in events if e["ev"] == "corpus"]
    vectors = {}
    nontrivial = 0
    for e in qls:
        a = answers[e["id"]]["a"][0]          # answers of the canonical spelling's meaning on corpus 1, 2
        vec = tuple(tuple(sorted(x)) for x in a)
        vectors[vec] = vectors.get(vec, 0) + 1
        if any(0 < len(x) < ndocs[c] for c, x in enumerate(a)):
            nontrivial += 1
    tot = len(qls)
    same = sum(k * (k - 1) // 2 for k in vectors.values())
    fam = {}
    for e in qls:
        fam[e["fam"]] = fam.get(e["fam"], 0) + 1
    for e in qls[len(qls) // 3::max(1, len(qls) // 4)][:3]:
        ctx.sample({"family": e["fam"], "spellings": [v["s"] for v in e["vars"]][:4], "parsed": e["parsed"][0]["qs"] if e["parsed"] else None,
                    "answer": answers[e["id"]]["a"][0]})
    ctx.assumptions += [
        "regexp/syntax parser trusted: the AST of every value text is produced by syntax.Parse(value, syntax.Perl) (the documented 'Go regular expression'); the matcher is the specification's",
        "where the document is silent the specification follows the established oracle QuerySem: a bare search term matches file name or content; repo:, meta.<f>:, branch: are case-sensitive and not affected by case:; lang: names compared ignoring ASCII case plus the linguist aliases golang, js",
        "generated sentences are restricted to the unambiguous part of the documented grammar: at most one case: and one type: per group, directives not negated, every or-operand has an operand besides directives, bare terms do not start with - ( or a field prefix",
        "the driver's projection of search results to documents (repository, name, checksum) is trusted",
    ]
    return ctx.finish(
        evaluations=nstr, distinct_nontrivial=nontrivial,
        rule="evaluations = query strings parsed by the real query.Parse and judged by Trace_QueryLang.tla (yield, parse outcome, "
             "Answer(parsed) = Answer(Meaning(derivation)) on 2 corpora; each distinct parse result also searched on the real "
             "directory searcher); non-trivial = derivations whose documented answer on some corpus is neither empty nor every document",
        exhaustive=False,
        extra={"derivations": tot, "families": fam, "skeletons_from_tlc": len(scripts), "skeletons_used": len(pick),
               "distinct_parse_results_searched": nparsed, "distinct_answer_vectors": len(vectors),
               "derivation_pairs": tot * (tot - 1) // 2, "derivation_pairs_told_apart": tot * (tot - 1) // 2 - same,
               "probes_undocumented_inputs": [{k: e[k] for k in ("name", "s", "result")} for e in events if e["ev"] == "probe"]})
