"""C34 — zoekt-local-sync -f makes the index match the discovered repositories; duplicate names fail
before any change; remove -f deletes exactly the selected repository's shards.
See checks/localsync.py (shared with C33) and spec/sys/LocalSync.tla."""
from checks import localsync


def run(ctx):
    return localsync.run(ctx, "C34")
