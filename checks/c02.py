"""C02 — reported match ranges are real, ordered and complete (Geometry!CheckRanges)."""
from checks import searchsem


def run(ctx):
    ctx.level = "exploration"
    runs = [("TestVerif_C02_Dense", {"VERIF_CORPORA": ctx.pick(24, 300), "VERIF_DETAIL": 1}),
            ("TestVerif_C01_Random", {"VERIF_CORPORA": ctx.pick(10, 150), "VERIF_DETAIL": 1}),
            ("TestVerif_C01_Exhaustive", {"VERIF_DOCLEN": ctx.pick(3, 4), "VERIF_DETAIL": 1})]

    def nontrivial(e):
        return any(sum(len(m["frags"]) for m in f.get("lm", [])) + sum(len(m["ranges"]) for m in f.get("cm", [])) >= 2
                   for f in e["files"])

    total, searches, nt = searchsem.run_family(ctx, "C02", "Trace_Search_c02.cfg", runs, "c02", nontrivial,
                                               timeout=ctx.pick(1500, 5000))
    ctx.assumptions += ["ordering is required within a line match / chunk, disjointness across them (line matches and chunks are sorted by score)",
                        "a regexp range is justified when the regexp can match exactly those bytes at that position; exactness "
                        "(leftmost non-overlapping occurrences / bytes of FindAll's non-empty matches) is required for single content atoms"]
    return ctx.finish(evaluations=searches, distinct_nontrivial=nt,
                      rule="searches (line and chunk mode, context 0..5) whose reported ranges were validated; non-trivial = "
                           "searches with a file carrying at least two ranges",
                      extra={"events": total})
