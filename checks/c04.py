"""C04 — search results do not depend on earlier or concurrent searches.
M: spec/sys/Cursor.tla (cache of document-level match trees with a per-search cursor) checked
   exhaustively for cache sizes 0..3; the SharedCursor variant documents the repaired defect.
R: one script per explored transition (cache size, history of Meta queries) replayed on a freshly
   loaded real compound shard with ZOEKT_DOCMATCHTREE_CACHE set accordingly.
V: seeded random histories over a richer query alphabet (Meta atoms alone, under and/or/not, with
   content atoms) sequentially and from 8 goroutines (with -race in the thorough tier); every
   reply is validated by TLC against QuerySem!Answer, which knows nothing about history."""
from checks import searchsem
from lib import vk

FILES = ["c01_search_test.go", "c02_ranges_test.go", "c04_history_test.go"]


def run(ctx):
    scripts = []
    for cache in (0, 1, 2, 3):
        d = {"CacheSize": cache, "MaxDepth": ctx.pick(4, 6), "SharedCursor": "FALSE", "Emit": "FALSE"}
        ctx.model_check("Cursor", "Cursor_mc.cfg", defines=d, timeout=600)
        d["Emit"] = "TRUE"
        d["MaxDepth"] = ctx.pick(3, 4)
        res = ctx.tlc("Cursor", "Cursor_mc.cfg", defines=d, count=False, timeout=600)
        scripts += res.printed("SCRIPT")
    # the defect model must still exhibit the stale cursor (vacuity guard for the invariant)
    bad = ctx.tlc("Cursor", "Cursor_mc.cfg", count=False, defines={"CacheSize": 2, "MaxDepth": 4, "SharedCursor": "TRUE", "Emit": "FALSE"})
    if bad.ok or bad.invariant != "HistoryIndependent":
        raise vk.Inconclusive("Cursor.tla with SharedCursor=TRUE no longer violates HistoryIndependent: the invariant is vacuous")
    if len(scripts) < 50:
        raise vk.Inconclusive("too few scripts: %d" % len(scripts))
    inp = ctx.path("c04_scripts.ndjson")
    vk.write_ndjson(inp, scripts)
    ctx.sample({"script": scripts[len(scripts) // 2]})
    searchsem.FILES[:] = FILES
    runs = [("TestVerif_C04_Replay", {"VERIF_IN": inp}),
            ("TestVerif_C04_Random", {"VERIF_CORPORA": ctx.pick(16, 200)}),
            ("TestVerif_C04_Random", {"VERIF_CORPORA": ctx.pick(12, 48), "VERIF_CONCURRENT": 1})]
    total = searches = nt = 0
    for i, (test, env) in enumerate(runs):
        race = ctx.thorough and env.get("VERIF_CONCURRENT") == 1
        t, s, n = run_one(ctx, test, env, i, race)
        total += t
        searches += s
        nt += n
    return ctx.finish(evaluations=searches, distinct_nontrivial=nt,
                      rule="searches issued as part of a history (TLC-generated per transition of Cursor.tla, seeded random sequential, "
                           "seeded random from 8 goroutines) each validated against the history-free answer; non-trivial = searches at "
                           "step >= 2 with the cache enabled that return at least one file",
                      extra={"events": total, "scripts_from_tlc": len(scripts)})


def run_one(ctx, test, env, i, race):
    import re
    rc, out, trace = ctx.driver(searchsem.PKG, "^%s$" % test, FILES, env=env, out="trace_%s_%d.ndjson" % (test, i),
                                timeout=2400, race=race)
    if "WARNING: DATA RACE" in out:
        ctx.violation("C04:data-race", {"test": test, "report": out[out.index("WARNING: DATA RACE"):][:3000]})
    elif rc != 0:
        raise vk.Inconclusive("driver %s failed:\n%s" % (test, out[-3000:]))
    events = vk.read_ndjson(trace)
    acc, rej = ctx.validate_trace_sharded("Trace_Search", "Trace_Search_c01.cfg", trace, header_lines=1, shards=8,
                                          name="tlcs_%d" % i, group_start=searchsem.is_corpus, timeout=2400)
    for r in rej:
        e = events[r["line"] - 1]
        sig = "C04:" + r["why"].split(":", 1)[1]
        ctx.violation(sig, {"test": test, "concurrent": env.get("VERIF_CONCURRENT", 0), "cache": e.get("cache"), "step": e.get("step"),
                            "query": e["qs"], "kind": e["kind"], "expected": r["expected"],
                            "observed": [f["doc"] for f in e["files"]]})
    s = [e for e in events if e["ev"] == "search"]
    ctx.traces_validated += len(s) - len({r["line"] for r in rej})
    nt = sum(1 for e in s if e.get("cache", 0) > 0 and e.get("step", 0) >= 2 and e["files"])
    return len(events), len(s), nt
