"""SYS stand-alone: `bin/check SYS` runs the system-level conformance stage of the root model
(checks/sys_zoekt.py, which other checks call through run_stage)."""
from checks.sys_zoekt import run  # noqa: F401
