"""C33 — zoekt-local-sync previews (sync and remove without -f) are side-effect free and faithful.
See checks/localsync.py (shared with C34) and spec/sys/LocalSync.tla."""
from checks import localsync


def run(ctx):
    return localsync.run(ctx, "C33")
