"""C31 — index directory operations are mutually exclusive (indexMutex.With / Global).

M: spec/sys/IndexMutex.tla, every interleaving of the code's steps with the environment's
   commands, under the general read/write-lock semantics and under sync.RWMutex's.
R: the macro machine (command, then run to quiescence) prints one schedule per explored
   transition with the predicted observable state; each is replayed on the real indexMutex
   with gated callbacks.  The verdict is given by Trace_IndexMutex.tla, which re-derives the
   admissible observations from the previous state with the same operators (general
   semantics), not by the prediction.
V: -race stress, callbacks take an atomic sequence number inside the critical section; the
   recorded order is validated by the same trace spec."""
import os
import re

from lib import vk

PKG = "cmd/zoekt-sourcegraph-indexserver"
FILES = ["c31_indexmutex_test.go", "c31_callers_test.go"]


def consts(n, names, depth, mdepth, modes, emit, viewret="FALSE"):
    return {"N": n, "Names": "{%s}" % ",".join('"%s"' % x for x in names), "MaxDepth": depth,
            "MacroDepth": mdepth, "Modes": "{%s}" % ",".join('"%s"' % x for x in modes),
            "Emit": emit, "ViewRet": viewret}


def reject_sig(r, ev):
    why = r["why"]
    if ev["ev"] == "step":
        who = r.get("who") or 0
        kind = ""
        if who:
            # kind of the offending goroutine's operation: the command itself or unknown
            kind = ev["k"] if who == ev["p"] else "other"
        return "C31:step:%s%s" % (why, ":" + kind if kind else "")
    if ev["ev"] == "caller":
        return "C31:caller:%s:%s" % (why, ev["op"])
    return "C31:stress:%s:%s" % (why, ev.get("k", ""))


def run(ctx):
    # ------------------------------------------------ M (modes gen, go) and R generation (mode macro)
    # one TLC run explores the three machines (mode is chosen in Init); workers=1 keeps the
    # breadth-first order, hence the printed histories, deterministic
    runs = [(3, ["a", "b"], ctx.pick(6, 8), ctx.pick(7, 9), ["gen", "go", "macro"], ctx.pick("FALSE", "TRUE"))]
    if ctx.thorough:
        runs += [(4, ["a", "b"], 7, 7, ["gen", "go", "macro"], "FALSE"), (3, ["a", "b", "c"], 6, 7, ["macro"], "FALSE")]
    scripts = []
    for i, (n, names, depth, mdepth, modes, viewret) in enumerate(runs):
        cov = i == 0 and bool(os.environ.get("VERIF_C31_COVERAGE"))
        res = ctx.model_check("IndexMutex", "IndexMutex_mc.cfg", timeout=1800, workers=1, coverage=cov,
                              defines=consts(n, names, depth, mdepth, modes, "TRUE", viewret))
        if cov:
            ctx.log("coverage: locations with count 0: %s" % res.coverage_zero())
        scripts += res.printed("SCRIPT")
    if len(scripts) < 100:
        raise vk.Inconclusive("too few schedules generated: %d" % len(scripts))
    n_bfs = len(scripts)
    ctx.log("schedules from TLC: %d" % n_bfs)
    inp = ctx.path("scripts.ndjson")
    vk.write_ndjson(inp, scripts)
    ctx.sample({"schedule": [(s["c"], s["p"], s["k"], s["n"]) for s in scripts[len(scripts) // 2]["steps"]]})

    # ---------------------------------------------------------------- run both drivers
    events = []          # concatenated trace: replay part, then stress part
    part = []            # driver name per event
    # "random": history-dependent coverage -- seeded random command walks chosen by the driver from the
    # observed state (no prediction), more goroutines/names than the exhaustive machine, same validation
    rnd = ctx.path("trace_random.ndjson")
    for name, run_, env, race in (("replay", "^TestVerif_C31_(Replay|Random)$", {"VERIF_IN": inp, "VERIF_OUT2": rnd}, False),
                                  ("stress", "^TestVerif_C31_Stress$", {}, True),
                                  # a caller: Server.merge started while an index job holds its repository lock
                                  ("callers", "^TestVerif_C31_Callers$", {}, False)):
        rc, out, trace = ctx.driver(PKG, run_, FILES, env=env, out="trace_%s.ndjson" % name, timeout=1500, race=race)
        if rc != 0:
            m = re.search(r"fatal error: (sync: [^\n]*)", out)
            if m and "index_mutex.go" in out:
                ctx.violation("C31:fatal:" + re.sub(r"\W+", "-", m.group(1)), {"driver": name, "output": out[-2500:]})
            elif "WARNING: DATA RACE" in out and "index_mutex.go" in out:
                ctx.violation("C31:race", {"driver": name, "output": out[out.index("WARNING: DATA RACE"):][:2500]})
            elif name == "stress" and "did not finish" in out:
                # not a verdict by itself; it only matters if the gated replay found nothing
                ctx.notes.append("stress run did not finish")
                stuck = out[-800:]
            else:
                raise vk.Inconclusive("driver %s failed:\n%s" % (name, out[-3000:]))
            continue
        for nm, tp in ((name, trace),) + ((("random", rnd),) if name == "replay" else ()):
            ev = vk.read_ndjson(tp)
            events += ev
            part += [nm] * len(ev)
    if not events:
        if ctx.violations:
            return ctx.finish(0, 0, "drivers aborted", extra={})
        raise vk.Inconclusive("no trace recorded")
    both = ctx.path("trace_all.ndjson")
    vk.write_ndjson(both, events)
    acc, rej = ctx.validate_trace("Trace_IndexMutex", "Trace_IndexMutex.cfg", both, timeout=3000)

    start = [i for i, e in enumerate(events) if e["ev"] == "reset"]
    hist_of = []
    h = -1
    for e in events:
        if e["ev"] == "reset":
            h += 1
        hist_of.append(h)
    bad = set()
    for r in rej:
        i = r["line"] - 1
        e = events[i]
        hno = hist_of[i]
        if r["why"] == "driver":
            raise vk.Inconclusive("harness error: command not applicable at line %d of %s" % (r["line"], both))
        bad.add(hno)
        if e["ev"] == "step":
            hist = [(x["c"], x["p"], x["k"], x["n"]) for x in events[start[hno]:i + 1] if x["ev"] == "step"]
            det = {"driver": part[i], "line": r["line"], "why": r["why"], "goroutine": r.get("who"),
                   "schedule": hist, "observed": {k: e[k] for k in ("ph", "ret", "running", "probe", "where")},
                   "admissible": r["expected"]}
        else:
            det = {"driver": part[i], "line": r["line"], "why": r["why"], "event": e, "context": r["expected"],
                   "before": events[max(start[hno], i - 6):i]}
        ctx.violation(reject_sig(r, e), det)
    ctx.traces_validated += len(start) - len(bad)
    if ctx.violations:
        cnt = {}
        for r in rej:
            k = (part[r["line"] - 1], reject_sig(r, events[r["line"] - 1]))
            cnt[k] = cnt.get(k, 0) + 1
        ctx.log("rejections by driver/signature: %s" % sorted(cnt.items()))

    stats = {}
    steps = [e for e in events if e["ev"] == "step"]
    blocked = [e for e in steps if "wait" in e["ph"]]
    # a step is non-trivial when some goroutine is blocked or was skipped in its observation
    nontrivial = sum(1 for e in steps if "wait" in e["ph"] or "false" in e["ret"])
    stats["replay_steps"] = len(steps)
    stats["replay_steps_with_blocked_goroutine"] = len(blocked)
    stats["replay_skips_observed"] = sum(1 for e in steps if e["c"] == "start" and e["ret"][e["p"] - 1] == "false")
    stats["unpredicted_steps"] = sum(1 for e in events if e["ev"] == "note" and e["what"] == "unpredicted")
    stats["diverged_schedules"] = sum(1 for e in events if e["ev"] == "note" and e["what"] == "diverged")
    enters = [e for e in events if e["ev"] == "enter"]
    stats["stress_bodies"] = len(enters)
    stats["stress_skips"] = sum(1 for e in events if e["ev"] == "cend" and e["ret"] == "false")
    stats["stress_global_bodies"] = sum(1 for e in enters if e["k"] == "global")
    nontrivial += stats["stress_skips"] + stats["stress_global_bodies"]
    if blocked:
        ctx.sample({"observation_with_blocked": {k: blocked[len(blocked) // 2][k]
                                                 for k in ("c", "p", "k", "n", "ph", "ret", "where")}})
    if not ctx.violations:
        if "stress run did not finish" in ctx.notes:
            raise vk.Inconclusive("stress run did not finish and nothing else was observed:\n" + stuck)
        if not blocked or not stats["replay_skips_observed"]:
            raise vk.Inconclusive("replay never observed a blocked goroutine / a skip: harness is vacuous")
        if stats["stress_skips"] == 0 or stats["stress_global_bodies"] == 0:
            raise vk.Inconclusive("stress saw no skip / no global operation: vacuous")
    ctx.assumptions += [
        "quiescence is read from the runtime's goroutine dump (all process goroutines parked twice in a row)",
        "sync.RWMutex semantics (go mode) is only used to predict; verdicts use the general rw-lock semantics",
    ]
    # Root model (spec/sys/Zoekt.tla): the index directory's life cycle (index runs, merge, cleanup as
    # sequences of file-system steps) under the mutex.  With the mutex no repository is visible twice
    # and indexed assigned repositories stay visible; without it TLC must find the race (vacuity guard).
    zk = {"UseMutex": "TRUE", "MaxOps": ctx.pick(4, 5)}
    ctx.model_check("Zoekt", "Zoekt_mc.cfg", defines=zk, timeout=3000, workers=4)
    if ctx.thorough:
        bad = ctx.tlc("Zoekt", "Zoekt_mc.cfg", count=False, defines={"UseMutex": "FALSE", "MaxOps": 4}, timeout=3000, workers=4)
        if bad.ok or not bad.invariant:
            raise vk.Inconclusive("Zoekt.tla without the index mutex no longer violates its invariants: the composition is vacuous")

    return ctx.finish(
        evaluations=len(events), distinct_nontrivial=nontrivial,
        rule="schedules = one per transition of the macro machine of IndexMutex.tla (command history of the state + "
             "command) + seeded random command walks over 3-5 goroutines, each followed by a validated drain; evaluations = "
             "recorded observations/events validated by Trace_IndexMutex.tla; non-trivial = replay observations with "
             "a blocked goroutine or a skipped With, plus skips and global bodies seen in the -race stress",
        exhaustive=False, extra=dict(stats, schedules_from_tlc=len(scripts), per_transition=n_bfs))
