"""C31 — index directory operations are mutually exclusive (indexMutex.With / Global).

M: spec/sys/IndexMutex.tla, every interleaving of the code's steps with the environment's
   commands, under the general read/write-lock semantics and under sync.RWMutex's.
R: the macro machine (command, then run to quiescence) prints one schedule per explored
   transition with the predicted observable state; each is replayed on the real indexMutex
   with gated callbacks.  The verdict is given by Trace_IndexMutex.tla, which re-derives the
   admissible observations from the previous state with the same operators (general
   semantics), not by the prediction.
V: -race stress, callbacks take an atomic sequence number inside the critical section; the
   recorded order is validated by the same trace spec."""
import random
import re

from lib import vk

PKG = "cmd/zoekt-sourcegraph-indexserver"
FILES = ["c31_indexmutex_test.go"]


def consts(n, names, depth, go, macro, emit):
    return {"N": n, "Names": "{%s}" % ",".join('"%s"' % x for x in names), "MaxDepth": depth,
            "Go": go, "Macro": macro, "Emit": emit}


def reject_sig(r, ev):
    why = r["why"]
    if ev["ev"] == "step":
        who = r.get("who") or 0
        kind = ""
        if who:
            # kind of the offending goroutine's operation: the command itself or unknown
            kind = ev["k"] if who == ev["p"] else "other"
        return "C31:step:%s%s" % (why, ":" + kind if kind else "")
    return "C31:stress:%s:%s" % (why, ev.get("k", ""))


def run(ctx):
    # ---------------------------------------------------------------- M
    cfgs = [(3, ["a", "b"], ctx.pick(6, 8))]
    if ctx.thorough:
        cfgs.append((4, ["a", "b"], 7))
    first = True
    for n, names, depth in cfgs:
        for go in ("FALSE", "TRUE"):
            res = ctx.model_check("IndexMutex", "IndexMutex_mc.cfg", timeout=1200, coverage=first,
                                  defines=consts(n, names, depth, go, "FALSE", "FALSE"))
            if first:
                zero = [z for z in res.coverage_zero() if "IndexMutex" in z]
                ctx.notes.append("coverage: %d locations with count 0 in the fine-grained general model" % len(zero))
                first = False
    # ---------------------------------------------------------------- R: schedules
    gen = [(3, ["a", "b"], ctx.pick(7, 9))]
    if ctx.thorough:
        gen += [(4, ["a", "b"], 7), (3, ["a", "b", "c"], 7)]
    scripts = []
    for n, names, depth in gen:
        res = ctx.tlc("IndexMutex", "IndexMutex_mc.cfg", timeout=1200, workers=1,
                      defines=consts(n, names, depth, "TRUE", "TRUE", "TRUE"))
        if not res.ok:
            raise vk.Inconclusive("schedule generation failed (%s): %s" % (res.invariant or res.error, res.log))
        scripts += res.printed("SCRIPT")
    if len(scripts) < 100:
        raise vk.Inconclusive("too few schedules generated: %d" % len(scripts))
    cap_ = ctx.pick(1500, 20000)
    if len(scripts) > cap_:
        random.Random(ctx.seed).shuffle(scripts)
        scripts = scripts[:cap_]
    ctx.log("schedules from TLC: %d" % len(scripts))
    inp = ctx.path("scripts.ndjson")
    vk.write_ndjson(inp, scripts)
    ctx.sample({"schedule": [(s["c"], s["p"], s["k"], s["n"]) for s in scripts[len(scripts) // 2]["steps"]]})

    total_events = 0
    nontrivial = 0
    stats = {}
    for name, run_, env, race in (("replay", "^TestVerif_C31_Replay$", {"VERIF_IN": inp}, False),
                                  ("stress", "^TestVerif_C31_Stress$", {}, True)):
        rc, out, trace = ctx.driver(PKG, run_, FILES, env=env, out="trace_%s.ndjson" % name, timeout=1500, race=race)
        if rc != 0:
            m = re.search(r"fatal error: (sync: [^\n]*)", out)
            if m and "index_mutex.go" in out:
                ctx.violation("C31:fatal:" + re.sub(r"\W+", "-", m.group(1)), {"driver": name, "output": out[-2500:]})
                continue
            if "WARNING: DATA RACE" in out and "index_mutex.go" in out:
                ctx.violation("C31:race", {"driver": name, "output": out[out.index("WARNING: DATA RACE"):][:2500]})
                continue
            raise vk.Inconclusive("driver %s failed:\n%s" % (name, out[-3000:]))
        events = vk.read_ndjson(trace)
        acc, rej = ctx.validate_trace("Trace_IndexMutex", "Trace_IndexMutex.cfg", trace, name="tlc_" + name,
                                      timeout=1800)
        total_events += len(events)
        start = [i for i, e in enumerate(events) if e["ev"] == "reset"]
        hist_of = {}
        h = -1
        for i, e in enumerate(events):
            if e["ev"] == "reset":
                h += 1
            hist_of[i] = h
        bad = set()
        for r in rej:
            i = r["line"] - 1
            e = events[i]
            hno = hist_of[i]
            if r["why"] == "driver":
                raise vk.Inconclusive("harness error: command not applicable at line %d of %s" % (r["line"], trace))
            bad.add(hno)
            if e["ev"] == "step":
                hist = [(x["c"], x["p"], x["k"], x["n"]) for x in events[start[hno]:i + 1] if x["ev"] == "step"]
                det = {"driver": name, "line": r["line"], "why": r["why"], "goroutine": r.get("who"),
                       "schedule": hist, "observed": {k: e[k] for k in ("ph", "ret", "running", "probe", "where")},
                       "admissible": r["expected"]}
            else:
                det = {"driver": name, "line": r["line"], "why": r["why"], "event": e, "context": r["expected"],
                       "before": events[max(start[hno], i - 6):i]}
            ctx.violation(reject_sig(r, e), det)
        ctx.traces_validated += len(start) - len(bad)
        if name == "replay":
            steps = [e for e in events if e["ev"] == "step"]
            # a step is non-trivial when some goroutine is blocked or was skipped in its observation
            nontrivial += sum(1 for e in steps if "wait" in e["ph"] or "false" in e["ret"])
            stats["replay_steps"] = len(steps)
            stats["replay_steps_with_blocked_goroutine"] = sum(1 for e in steps if "wait" in e["ph"])
            stats["replay_skips_observed"] = sum(1 for e in steps if e["c"] == "start" and e["ret"][e["p"] - 1] == "false")
            stats["unpredicted_steps"] = sum(1 for e in events if e["ev"] == "note" and e["what"] == "unpredicted")
            stats["diverged_schedules"] = sum(1 for e in events if e["ev"] == "note" and e["what"] == "diverged")
            if stats["replay_steps_with_blocked_goroutine"] == 0:
                raise vk.Inconclusive("replay never observed a blocked goroutine: harness is vacuous")
            w = [e for e in steps if "wait" in e["ph"]]
            ctx.sample({"observation_with_blocked": {k: w[len(w) // 2][k] for k in ("c", "p", "k", "n", "ph", "ret", "where")}})
        else:
            enters = [e for e in events if e["ev"] == "enter"]
            stats["stress_bodies"] = len(enters)
            stats["stress_skips"] = sum(1 for e in events if e["ev"] == "cend" and e["ret"] == "false")
            stats["stress_global_bodies"] = sum(1 for e in enters if e["k"] == "global")
            nontrivial += stats["stress_skips"] + stats["stress_global_bodies"]
            if stats["stress_skips"] == 0 or stats["stress_global_bodies"] == 0:
                raise vk.Inconclusive("stress saw no skip / no global operation: vacuous")
    ctx.assumptions += [
        "quiescence is read from the runtime's goroutine dump (all process goroutines parked twice in a row)",
        "sync.RWMutex semantics (go mode) is only used to predict; verdicts use the general rw-lock semantics",
    ]
    return ctx.finish(
        evaluations=total_events, distinct_nontrivial=nontrivial,
        rule="schedules = one per transition of the macro machine of IndexMutex.tla (command history of the state + "
             "command; each followed by a validated drain); evaluations = recorded observations/events validated by "
             "Trace_IndexMutex.tla; non-trivial = replay observations with a blocked goroutine or a skipped With, "
             "plus skips and global bodies seen in the -race stress",
        exhaustive=False, extra=dict(stats, schedules_from_tlc=len(scripts)))
