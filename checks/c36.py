"""C36 — the web UI renders index and request text as text.

V: every page the real web.Server handlers produce (httptest) over a real directory searcher is
   tokenised with golang.org/x/net/html and validated by Trace_HtmlSkel.tla:
     * the token stream is a word of the page-structure expression of its template
       (spec/sys/HtmlSkel.tla, written from web/templates.go: {{range}} = Star, {{if}} = Opt/Alt),
       where text that carries a value of the index / the request may only stand in a data slot and
       attributes may only carry data where the template puts a value;
     * every marker the driver planted is followed by the verbatim value after the decoding proper
       to the slot (entities; percent-encoding in URL attributes; string literals in script text
       and on* attributes), i.e. the value is shown, not interpreted;
     * no URL attribute starts with javascript: / vbscript: / data:;
     * a payload page has the token skeleton and the script skeletons of its benign twin;
     * no request over the corpus fails (418 / template execution error); errors are text/plain+nosniff.
M: the expressions are exercised at the specification level on the benign renderings: every
   single-token injection (a <script> start tag, an <img onerror src> tag, an on* attribute on an
   existing start tag) into an accepted benign page must be rejected (Trace_HtmlSkel.tla with
   Stride > 0: every 5th position in the quick tier, every position in the thorough tier)."""
import collections
import json
import os

from lib import vk

PKG = "web"
FILES = ["c36_html_test.go"]


def run(ctx):
    pages, rejs, benign_ok = [], [], []
    for rot in ctx.pick([0], [0, 5, 11]):
        rc, out, trace = ctx.driver(PKG, "^TestVerif_C36_Pages$", FILES, timeout=1800, env={"VERIF_C36_ROT": rot},
                                    out="trace_%d.ndjson" % rot)
        if rc != 0:
            raise vk.Inconclusive("driver failed:\n" + out[-3000:])
        ps = vk.read_ndjson(trace)
        if len(ps) < 100:
            raise vk.Inconclusive("too few pages rendered: %d" % len(ps))
        acc, rej = ctx.validate_trace("Trace_HtmlSkel", "Trace_HtmlSkel.cfg", trace, name="tlc_pages_%d" % rot, timeout=3600,
                                      defines={"Stride": 0})
        rejs += [(r, ps) for r in rej]
        pages += ps
        benign_ok += [p for p in ps if p["variant"] == "benign" and p["status"] == 200]
    per_sig = collections.OrderedDict()
    benign_rejected = []
    nrejected = set()
    # templates whose benign renderings the structure acceptor rejects: on those "structure" says nothing
    # about payload pages either; the other clauses (verbatim values, URL schemes, twin skeleton) still do
    unreliable = set()
    for r, ps in rejs:
        p = ps[r["line"] - 1]
        if p["variant"] == "benign" and not p["path"].startswith("tplfail:") and r["why"] == "structure":
            unreliable.add(p["tmpl"])
    for r, ps in rejs:
        p = ps[r["line"] - 1]
        by_id = {x["id"]: x for x in ps}
        nrejected.add((id(ps), r["line"]))
        why = r["why"]
        if p["variant"] == "benign" and p["path"].startswith("tplfail:") is False and why in ("structure", "twin-status"):
            benign_rejected.append((p["path"], why, r["expected"]))
            continue
        if why == "structure" and p["tmpl"] in unreliable:
            continue
        sig = "C36:%s:%s" % (why, p["tmpl"])
        per_sig.setdefault(sig, []).append((r, p, by_id))
    if benign_rejected and not per_sig:
        # the acceptor is not precise enough for this tree's benign pages and nothing else was observed: no claim
        raise vk.Inconclusive("the page-structure acceptor rejects benign pages (template changed?): %s" % json.dumps(benign_rejected[:3])[:1500])
    for sig, lst in per_sig.items():
        r, p, by_id = lst[0]
        det = {"occurrences": len(lst), "request": p["path"], "variant": p["variant"], "status": p["status"], "head": p["head"],
               "why": r["why"], "expected": r["expected"]}
        exp = r["expected"]
        if isinstance(exp, dict):
            i = exp.get("tok") or exp.get("at")
            if isinstance(i, int) and p["toks"]:
                lo = max(0, i - 4)
                det["tokens_around"] = [(t["k"], t["tag"], t["an"], t["ad"], t["cls"], t["bad"]) for t in p["toks"][lo:i + 3]]
            if "twin" in exp and exp["twin"] in by_id:
                q = by_id[exp["twin"]]
                a = [(t["k"], t["tag"], tuple(t["an"]), t["js"]) for t in p["toks"]]
                b = [(t["k"], t["tag"], tuple(t["an"]), t["js"]) for t in q["toks"]]
                d = next((k for k in range(min(len(a), len(b))) if a[k] != b[k]), min(len(a), len(b)))
                det["first_difference"] = {"index": d, "payload": a[max(0, d - 2):d + 3], "benign": b[max(0, d - 2):d + 3]}
        ctx.violation(sig, det, replay={"request": p["path"], "print": p["print"]})
    ctx.traces_validated = len(pages) - len(nrejected)

    # M: sensitivity of the expressions on the benign renderings of this tree
    small = {}
    for p in benign_ok:
        if p["path"].startswith("tplfail:"):
            continue
        k = p["tmpl"]
        if p["toks"] and (k not in small or len(p["toks"]) < len(small[k]["toks"])) and len(p["toks"]) > 50:
            small[k] = p
    if ctx.thorough:
        # also the largest results page
        small["results-large"] = max((p for p in benign_ok if p["tmpl"] == "results"), key=lambda p: len(p["toks"]))
    sens = ctx.path("sens.ndjson")
    vk.write_ndjson(sens, list(small.values()))
    acc2, rej2 = ctx.validate_trace("Trace_HtmlSkel", "Trace_HtmlSkel.cfg", sens, name="tlc_sens", timeout=7200,
                                    defines={"Stride": ctx.pick(5, 1)})
    if rej2:
        raise vk.Inconclusive("the page-structure expressions accept an injected token: %s" % json.dumps(rej2[:3])[:1500])
    stride = ctx.pick(5, 1)
    nmut = 0
    for p in small.values():
        pos = [j for j in range(1, len(p["toks"]) + 2) if j % stride == 1 % stride]
        nmut += 2 * len(pos) + sum(1 for j in pos if j <= len(p["toks"]) and p["toks"][j - 1]["k"] == "S")
    ctx.tlc_states += nmut
    ctx.tlc_transitions += nmut

    nontrivial = sum(1 for p in pages if p["variant"] == "payload" and p["ndata"] > 0)
    ctx.sample({"request": pages[0]["path"], "tokens": len(pages[0]["toks"]), "data_slots": pages[0]["ndata"]})
    qp = [p for p in pages if p["variant"] == "payload" and p["kind"] == "query" and p["status"] == 200]
    if qp:
        ctx.sample({"request": qp[0]["path"], "tokens": len(qp[0]["toks"]), "data_slots": qp[0]["ndata"]})
    ctx.assumptions += [
        "golang.org/x/net/html tokenizer = how a browser tokenises; JavaScript string-literal lexer of the driver (no regex literals, no template literals with ${} nesting in the pages' scripts)",
        "payload recognition is done by the driver (marker + verbatim value after slot decoding); the specification decides on the logged classes",
        "html/template itself is not specified; only its effect on the served pages is observed for the payload list of the driver",
    ]
    return ctx.finish(
        evaluations=len(pages), distinct_nontrivial=nontrivial,
        rule="evaluations = pages rendered by the real handlers and validated by Trace_HtmlSkel.tla (payload and benign twin, "
             "Print on/off); non-trivial = payload pages in which at least one token carries a planted value",
        exhaustive=False,
        extra={"sensitivity_mutations_rejected": nmut,
               "pages_by_template": dict(collections.Counter(p["tmpl"] for p in pages)),
               "payload_pages_200": sum(1 for p in pages if p["variant"] == "payload" and p["status"] == 200)})
