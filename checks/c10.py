"""C10 — results do not depend on how the index was built.
V: one corpus built with several configurations of the real index.Builder (ShardMax forcing
1..N shards, Parallelism 1..16, permuted insertion order, reuse of one Builder across flushes,
merged into a compound shard); the same query set through the directory searcher; every search
must satisfy QuerySem!Answer and Geometry!CheckRanges, which do not mention the configuration."""
from checks import searchsem
from lib import vk


def run(ctx):
    ctx.level = "exploration"
    searchsem.FILES.append("c10_build_test.go")
    runs = [("TestVerif_C10_Builds", {"VERIF_CORPORA": ctx.pick(5, 50)})]

    def nontrivial(e):
        return len(e["files"]) > 0 and e.get("nshards", 1) > 1

    total, searches, nt = searchsem.run_family(ctx, "C10", "Trace_Search_c01c02.cfg", runs, "c10", nontrivial,
                                               timeout=ctx.pick(1500, 5000))
    ctx.assumptions += ["documents go through index.Builder: 1-2 byte and NUL-containing contents are expected as NOT-INDEXED markers",
                        "ctags disabled; symbols supplied directly"]
    return ctx.finish(evaluations=searches, distinct_nontrivial=nt,
                      rule="(corpus, build configuration, query) triples validated against the configuration-free specification; "
                           "non-trivial = searches with results over an index of more than one shard",
                      extra={"events": total})
