"""C11 — corrupt shard files never crash or hang the searcher; other shards' results unaffected.

spec/sys/ContainmentOps.tla: outcome alphabet {LoadOk, LoadErr} x {Search/List Ok, CrashContained}
(no died / hang / oom / failed operation) and the model of the shard FILE LAYOUT (tagged sections
of index/toc.go, table of contents, trailer, .meta sidecar) with FaultClasses = part x position x
mutation.  spec/sys/Containment.tla: the serving process as a state machine.
M: TLC checks that in every state the results attributed to the healthy shards are the baseline.
R: TLC enumerates the fault classes as scripts; the driver maps each to a byte of a real shard
   using the table of contents it parses from that file (plus truncation at every k-th byte and
   seeded random garbage) and runs them against search.NewDirectorySearcher in supervised children.
V: Trace_Containment.tla validates every recorded fault run against the alphabet and the baseline."""
import collections
import json
import random
import re

from lib import vk

PKG = "search"
FILES = ["c11_containment_test.go"]


def slug(msg, n=6):
    m = re.sub(r"/\S+", "", msg or "")
    m = re.sub(r"0x[0-9a-f]+|[0-9]+", "N", m)
    m = re.sub(r"[^A-Za-z ]+", " ", m).strip()
    return "-".join(m.split()[:n])


def signature(e, why):
    if why.startswith("proc:"):
        proc = why[5:]
        fn = e.get("func") or slug(e.get("msg"), 5) or "unknown"
        if proc == "died":
            # the stack knows better than the journal which activity died: a panicking load goroutine runs
            # its deferred wg.Done() while unwinding, so the searcher can become "ready" and a search can
            # start before the process is gone
            phase = "load" if "search.loadShard" in e.get("stderr", "") else e["phase"]
            return "C11:died:%s:%s" % (phase, fn)
        return "C11:%s:%s%s" % (proc, e["phase"], (":" + e["func"]) if e.get("func") else "")
    if why.startswith("search:") or why.startswith("list:"):
        op, outcome = why.split(":", 1)
        bad = [o for o in e["ops"] if o["op"] == op and o["outcome"] == outcome]
        return "C11:%s:%s:%s" % (op, outcome, slug(bad[0]["msg"], 4) if bad else "")
    return "C11:" + why


def run(ctx):
    # ------------------------------------------------------------ M + R
    res = ctx.model_check("Containment", "Containment_mc.cfg", name="tlc_m", timeout=1800, workers=4, coverage=True, defines={
        "Healthy": '{"h1", "h2"}', "Victim": '"v"', "Queries": '{"q1", "q2"}', "MaxOps": ctx.pick(2, 3), "Emit": "TRUE"})
    zero = [z for z in res.coverage_zero() if "Containment" in z and "ASSUME" not in z]
    if zero:
        ctx.notes.append("model coverage: locations never evaluated: %s" % zero[:6])
    classes = res.printed("SCRIPT")
    layout = res.printed("LAYOUT")
    if len(classes) < 3000 or len(layout) != 1:
        raise vk.Inconclusive("fault-class generation failed: %d classes, %d layouts; see %s" % (len(classes), len(layout), res.log))
    classes.sort(key=lambda c: json.dumps(c, sort_keys=True))
    rng = random.Random(ctx.seed)
    if ctx.thorough:
        chosen = classes
    else:
        side = [c for c in classes if c["target"] == "sidecar"]
        # every posting list (content and file names) with the continuation bit of its last byte flipped
        items = [c for c in classes if c["part"] == "items"]
        always = [c for c in items if c["section"] in ("postings", "namePostings") and c["pos"] == "each-last" and c["mut"] == "flip7"]
        rest = [c for c in classes if c["target"] != "sidecar" and c not in always]
        chosen = side + always + rng.sample(rest, 700)
    ctx.log("fault classes from TLC: %d, executed: %d" % (len(classes), len(chosen)))
    inp = ctx.path("model.json")
    with open(inp, "w") as fh:
        json.dump({"layout": layout[0], "classes": chosen}, fh)

    # ------------------------------------------------------------ driver
    rc, out, trace = ctx.driver(PKG, "^TestVerif_C11_Faults$", FILES, env={"VERIF_IN": inp}, timeout=6000)
    if rc != 0 or "--- PASS: TestVerif_C11_Faults" not in out:
        raise vk.Inconclusive("driver did not complete (rc=%d):\n%s" % (rc, out[-3000:]))
    events = vk.read_ndjson(trace)
    faults = [e for e in events if e["ev"] == "fault"]
    if events[0]["ev"] != "baseline" or len(faults) < 500:
        raise vk.Inconclusive("trace is not a baseline followed by fault runs")
    base = events[0]
    if not all(o["healthy"] for o in base["ops"][:1]) or sum(1 for o in base["ops"] if o["healthy"]) < 8:
        raise vk.Inconclusive("vacuous baseline: %s" % [len(o["healthy"]) for o in base["ops"]])

    # ------------------------------------------------------------ V
    # the stderr tails are not needed by the specification; keep the validated trace small
    slim = ctx.path("trace_slim.ndjson")
    vk.write_ndjson(slim, [{k: v for k, v in e.items() if k not in ("stderr", "set")} for e in events])
    acc, rej = ctx.validate_trace("Trace_Containment", "Trace_Containment.cfg", slim, name="tlc_v", timeout=3000)
    groups = collections.OrderedDict()
    for r in rej:
        e = events[r["line"] - 1]
        if r["why"].startswith("driver:"):
            raise vk.Inconclusive("the driver executed a fault class the model does not have: %s" % {k: e[k] for k in ("section", "part", "pos", "mut")})
        groups.setdefault(signature(e, r["why"]), []).append((e, r))
    for sig, items in groups.items():
        # smallest witness first: single-byte class faults before truncations before random garbage
        items.sort(key=lambda it: ({"class": 0, "trunc": 1, "random": 2}[it[0]["family"]], it[0]["nset"], it[0]["i"]))
        e, r = items[0]
        where = collections.Counter("%s/%s:%s:%s" % (x["section"], x["part"], x["pos"], x["mut"]) for x, _ in items if x["family"] == "class")
        ctx.violation(sig, {
            "occurrences": len(items), "why": r["why"],
            "witness": {k: e[k] for k in ("family", "base", "target", "section", "part", "pos", "mut", "off", "where", "trunc", "set", "proc", "phasefull", "load", "msg", "func")},
            "ops": [{k: o[k] for k in ("op", "q", "outcome", "msg")} for o in e["ops"] if o["outcome"] != "ok"][:4],
            "stderr": e.get("stderr", "")[-900:],
            "fault_classes": dict(where.most_common(60)),
            "families": dict(collections.Counter(x["family"] for x, _ in items))})
    bad = {r["line"] for r in rej}
    ctx.traces_validated = len(faults) - len(bad)

    by_family = collections.Counter(e["family"] for e in faults)
    outcomes = collections.Counter((e["proc"], e["load"]) for e in faults)
    crashes = sum(1 for e in faults if any(o["outcome"] == "crash" for o in e["ops"]))
    served = sum(1 for e in faults if e["proc"] == "alive" and e["load"] == "ok")
    refused = sum(1 for e in faults if e["proc"] == "alive" and e["load"] == "err")
    if served < 50 or refused < 50:
        raise vk.Inconclusive("vacuous run: damaged shard served %d times, refused %d times" % (served, refused))
    for e in (faults[len(faults) // 3], faults[-1]):
        ctx.sample({k: e[k] for k in ("family", "base", "target", "section", "part", "pos", "mut", "off", "proc", "load")})
    sigs = collections.Counter({s: len(v) for s, v in groups.items()})
    for sig, n in sorted(sigs.items()):
        ctx.log("violation signature %-80s x %d" % (sig, n))
    ctx.assumptions += [
        "files are not modified after being loaded (SIGBUS on a shard truncated after mmap is excluded by the property)",
        "the watchdog thresholds: 3 s process CPU time, +512 MB runtime memory per fault run (a healthy run needs ~10 ms / a few MB); "
        "RLIMIT_AS turns a single runaway allocation into the runtime's fatal out-of-memory error",
        "LoadOk / LoadErr is read from the loader's log line '[ERROR] reloading: <file>'",
        "results are attributed to shards by repository name (the damaged shard's repositories have names that no single-byte "
        "change turns into a healthy repository's name)",
    ]
    return ctx.finish(
        evaluations=len(faults), distinct_nontrivial=len({(e["base"], e["target"], e["off"], e["mut"], e["trunc"], json.dumps(e["set"])) for e in faults
                                                          if not (e["proc"] == "alive" and e["load"] == "ok" and not any(o["victim"] == 0 for o in e["ops"][5:6]))}),
        rule="evaluations = fault runs (one damaged shard or sidecar next to two healthy shards, fresh NewDirectorySearcher in a supervised "
             "child, 10 searches + 2 listings) validated by Trace_Containment.tla; non-trivial = distinct damaged files that did not "
             "behave like the undamaged shard (refused, crashed, died, or the victim's documents missing from Const(true)); fault classes from "
             "the layout model are exhaustive per class in the thorough tier, truncations exhaustive per byte in the thorough tier, random "
             "garbage is exploration",
        exhaustive=False,
        extra={"fault_classes_in_model": len(classes), "fault_classes_executed": by_family["class"], "truncations": by_family["trunc"],
               "random_garbage": by_family["random"], "outcomes(proc,load)": {"%s/%s" % k: v for k, v in sorted(outcomes.items())},
               "runs_with_contained_crash": crashes, "violation_signatures": dict(sigs)})
