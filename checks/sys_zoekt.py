"""SYS — system-level conformance of the root model: the life cycle of one index directory.

spec/sys/Zoekt.tla composes index runs, merge, cleanup and unassign at the granularity of file-system
steps under the index mutex; with the mutex every operation is atomic.  spec/sys/ZoektSeq.tla is that
operation-level machine, faithful to the code (ZoektSeqOps.tla: Builder.Finish with shard merging,
Server.merge + zoekt-merge-index merge, Server.vacuum (self-merge / explode), cleanup, assign /
unassign, clock, crashed indexer), and it is bound to the real code here:

M: TLC checks the statement after every operation of every history within the bounds (a repository
   is visible in at most one shard; a visible repository stays visible across merge / vacuum /
   cleanup unless it is unassigned and cleaned up; an index run makes it visible at the indexed
   version; unassigned repositories are invisible after cleanup; what is visible is the last indexed
   version).  Two deviations of the code that the faithful model reproduces are named allowances
   (ZoektSeqOps!Known); the strict model is checked to fail because of them, and the model of the
   proposed patch to need no allowance for the first (thorough).
R: TLC prints one script per explored transition (operation history from a warm start + predicted
   state) and, in the thorough tier, seeded random walks over 3 repositories.  The scripts are
   executed as a tree on REAL code in a scratch index directory (real Builder, real Server.merge
   starting the really built zoekt-merge-index, real Server.vacuum finding it on PATH, real cleanup);
   after every operation the projected directory is compared with the prediction.
V: every executed step (observed before, operation, observed after, the searcher's view from a fresh
   search.NewDirectorySearcher) is validated by Trace_ZoektSeq.tla: after in Apply(before, op)
   recomputed with the same operators, view = what the directory implies, clauses on the pair.

run_stage(ctx) does all of it and reports violations as "SYS:step:<op>:<why>..."; run(ctx) makes it a
stand-alone check (bin/check SYS through checks/sys.py)."""
import json
import os
import random
import subprocess
import threading
import time

from lib import vk

PKG = "cmd/zoekt-sourcegraph-indexserver"
FILES = ["sys_zoekt_test.go"]
NWARM = 10         # warm starts defined in ZoektSeq.tla (Warm)
PROCS = 8


# ---------------------------------------------------------------- abstract states
def canon_file(f):
    return (f["l"], f["k"], tuple(f["nm"]), f["mt"], f["mf"],
            tuple((m["id"], m["ver"], m["tb"]) for m in f["mem"]),
            tuple((m["id"], m["ver"], m["cv"]) for m in f["raw"]))


def canon(s):
    return (frozenset(canon_file(f) for f in s["d"]), s["tmp"], tuple(sorted(s["a"])), s["clk"], tuple(s["last"]))


def show_file(c):
    l, k, nm, mt, mf, mem, raw = c
    return "%s/%s%s%s%s[%s|%s]" % (
        {"i": "index", "t": "trash"}[l], {"s": "simple", "c": "compound"}.get(k, k), list(nm), "+meta" if mf else "",
        "@%dh" % mt if l == "t" else "",
        ",".join("r%d:v%d%s" % (i, v, "(tomb)" if t else "") for i, v, t in mem),
        ",".join("r%d:v%d/docs-v%d" % (i, v, c_) for i, v, c_ in raw))


def show(s):
    c = canon(s)
    return "%s ; tmp=%d assigned=%s clock=%dh last-indexed=%s" % (
        " ".join(sorted(show_file(f) for f in c[0])) or "(empty)", c[1], list(c[2]), c[3], list(c[4]))


def show_vis(vis):
    return ["r%d: shards=%d list=v%d docs=%d doc-versions=%s" % (v["id"], v["n"], v["lv"], v["docs"], v["cv"]) for v in vis]


def show_op(o):
    if o["op"] == "index":
        return "index(r%d,v%d)" % (o["r"], o["v"])
    if o["op"] == "vacuum":
        return "vacuum(%s)" % ("explode" if o["min"] else "drop-tombstones")
    if o["op"] in ("assign", "unassign", "crash"):
        return "%s(r%d)" % (o["op"], o["r"])
    return o["op"]


def opkey(o):
    return (o["op"], o["r"], o["v"], o["min"])


def diff_kind(obs, exps):
    """what differs between the observed state and the closest specified one."""
    best = None
    for e in exps:
        ok = {(f[0], f[1], f[2]): f for f in obs[0]}
        ek = {(f[0], f[1], f[2]): f for f in e[0]}
        if any(k not in ok for k in ek):
            k = sorted(k for k in ek if k not in ok)[0]
            kind = "%s-%s-missing" % ({"i": "index", "t": "trash"}[k[0]], {"s": "simple", "c": "compound"}[k[1]])
            rank = 0
        elif any(k not in ek for k in ok):
            k = sorted(k for k in ok if k not in ek)[0]
            kind = "%s-%s-extra" % ({"i": "index", "t": "trash"}[k[0]], {"s": "simple", "c": "compound"}[k[1]])
            rank = 0
        else:
            kind, rank = "other", 9
            for k in sorted(ek):
                o, x = ok[k], ek[k]
                if [m[0] for m in o[5]] != [m[0] for m in x[5]]:
                    kind, rank = "members", 1
                elif [m[2] for m in o[5]] != [m[2] for m in x[5]]:
                    kind, rank = "tombstone", 2
                elif o[5] != x[5] or o[6] != x[6]:
                    kind, rank = "version", 3
                elif o[4] != x[4]:
                    kind, rank = "sidecar", 4
                elif o[3] != x[3]:
                    kind, rank = "mtime", 5
                else:
                    continue
                break
            if rank == 9:
                if obs[1] != e[1]:
                    kind = "tmp"
                elif obs[2:] != e[2:]:
                    kind = "environment"
        if best is None or rank > best[1]:
            best = (kind, rank)
    return best[0] if best else "no-result"


def view_kind(vis, exp):
    o = {v["id"]: v for v in vis}
    e = {v["id"]: v for v in exp}
    if set(o) - set(e):
        return "extra-visible"
    if set(e) - set(o):
        return "not-visible"
    for r in sorted(e):
        if o[r]["n"] != e[r]["n"] or o[r]["docs"] != e[r]["docs"]:
            return "count"
        if sorted(o[r]["cv"]) != sorted(e[r]["cv"]):
            return "doc-version"
    return "list-version"


# ---------------------------------------------------------------- TLC
def tla_set(xs):
    return "{%s}" % ", ".join(str(x) for x in xs)


def defines(repos, depth, starts, emit, strict=False, ticks=1, crash=1, fix=False):
    return {"Repos": tla_set(range(1, repos + 1)), "MaxVersion": 2, "MaxDepth": depth, "MaxTick": ticks,
            "MaxCrash": crash, "Starts": tla_set(starts), "Strict": "TRUE" if strict else "FALSE",
            "Fix": "TRUE" if fix else "FALSE", "Emit": '"%s"' % emit}


def scripts_of(res, repos, origin):
    out = []
    for s in res.printed("SCRIPT"):
        if not isinstance(s, dict) or "ops" not in s:
            raise vk.Inconclusive("unparsable SCRIPT line in " + res.log)
        out.append({"repos": repos, "ops": s["ops"], "preds": s["preds"], "n": s["n"], "origin": origin})
    return out


# ---------------------------------------------------------------- replay on the real code
# seconds per operation measured with 8 driver processes on a busy 16-core machine (merge and vacuum start
# zoekt-merge-index, whose start-up alone takes 1-2 s there; every index run allocates 64 MB of tables).
# The budget is spent in these units, not in wall time.
COST = {"index": 2.0, "crash": 1.0, "merge": 4.0, "vacuum": 7.0, "cleanup": 0.1}


def cost(o):
    return COST.get(o["op"], 0.05)


class Tree:
    """the scripts as a prefix tree; one node = one operation executed once."""

    def __init__(self):
        self.kids = {}
        self.nodes = 0
        self.cost = 0.0

    def add(self, repos, ops, dry=False):
        n = self.kids.setdefault(("repos", repos), {})
        new, c = 0, 0.0
        for o in ops:
            k = opkey(o)
            if k not in n:
                if dry:
                    new += 1
                    c += cost(o)
                    n = {}
                    continue
                n[k] = {}
                new += 1
                c += cost(o)
            n = n[k]
        if not dry:
            self.nodes += new
            self.cost += c
        return new, c


def shape(s, o):
    """class of a transition: the directory with the versions erased + the operation without its version."""
    files = frozenset((f["l"], f["k"], tuple(f["nm"]), f["mf"], tuple((m["id"], m["tb"]) for m in f["mem"]),
                       f["l"] == "t" and f["mt"] < s["clk"] - 24) for f in s["d"])
    return (files, s["tmp"] > 0, tuple(sorted(s["a"])), o["op"], o["r"], o["min"])


def choose(rng, must, pool, pred, budget):
    """must + a seeded selection of pool within `budget` cost units: first one script per class of
    transition not yet covered (shape), then whatever still fits."""
    t = Tree()
    chosen, covered = [], set()

    def take(s):
        t.add(s["repos"], s["ops"])
        chosen.append(s)
        h = tuple(opkey(o) for o in s["ops"])
        for j in range(1, len(h) + 1):
            p = pred.get((s["repos"], h[:j - 1]))
            if p is not None:
                covered.add(shape(p, s["ops"][j - 1]))

    for s in must:
        take(s)
    pool = list(pool)
    rng.shuffle(pool)
    later = []
    for s in pool:
        if t.cost >= budget:
            break
        h = tuple(opkey(o) for o in s["ops"])
        p = pred.get((s["repos"], h[:-1]))
        if p is not None and shape(p, s["ops"][-1]) in covered:
            later.append(s)
            continue
        if t.cost + t.add(s["repos"], s["ops"], dry=True)[1] <= budget:
            take(s)
    for s in later:
        if t.cost >= budget:
            break
        new, c = t.add(s["repos"], s["ops"], dry=True)
        if new and t.cost + c <= budget:
            take(s)
    return chosen, t, len(covered)


def partition(scripts, procs):
    """the scripts in tree order cut into `procs` contiguous parts of about equal cost (neighbours share
    the longest prefixes, so only the histories at the cuts are executed twice)."""
    order = sorted(range(len(scripts)), key=lambda i: (scripts[i]["repos"], [opkey(o) for o in scripts[i]["ops"]]))
    t = Tree()
    weights = [t.add(scripts[i]["repos"], scripts[i]["ops"])[1] + 0.01 for i in order]
    total = sum(weights)
    parts, cur, acc = [], [], 0.0
    for i, w in zip(order, weights):
        cur.append(i)
        acc += w
        if acc >= total * (len(parts) + 1) / procs and len(parts) < procs - 1:
            parts.append(cur)
            cur = []
    if cur:
        parts.append(cur)
    return [sorted(p) for p in parts if p]


def replay(ctx, binp, mergebin, scripts, tag, timeout):
    parts = partition(scripts, PROCS)
    jobs = []
    for p, part in enumerate(parts):
        inp = ctx.path("replay", "%s_in_%d.ndjson" % (tag, p))
        out = ctx.path("replay", "%s_out_%d.ndjson" % (tag, p))
        vk.write_ndjson(inp, [{"repos": scripts[i]["repos"], "ops": scripts[i]["ops"]} for i in part])
        env = ctx.goenv({"VERIF_IN": inp, "VERIF_OUT": out, "GOMAXPROCS": "2", "VERIF_SYS_MERGEBIN": mergebin,
                         "VERIF_SYS_SCRATCH": ctx.mkdir("scratch")})
        log = open(ctx.path("replay", "%s_log_%d.txt" % (tag, p)), "w")
        pr = subprocess.Popen([binp, "-test.run", "^TestVerif_SYS_Replay$", "-test.count=1", "-test.v",
                               "-test.timeout", "%ds" % timeout], cwd=ctx.work, env=env, stdout=log, stderr=subprocess.STDOUT)
        jobs.append((pr, part, out, log))
    events = []
    deadline = time.time() + timeout + 60
    for pr, part, out, log in jobs:
        try:
            rc = pr.wait(timeout=max(1, deadline - time.time()))
        except subprocess.TimeoutExpired:
            for j in jobs:
                j[0].kill()
            raise vk.Inconclusive("replay driver timed out after %d s" % timeout)
        log.close()
        text = open(log.name).read()
        if rc != 0 or "--- PASS" not in text:
            for j in jobs:
                j[0].kill()
            raise vk.Inconclusive("replay driver failed (rc=%s):\n%s" % (rc, text[-3000:]))
        for e in vk.read_ndjson(out):
            e["sid"] = part[e["sid"]]        # index in `scripts`
            events.append(e)
        os.remove(out)
    return events


# Named deviations of the model (ZoektSeqOps!Known) that no listed property forbids: reported as notes.
OBSERVATIONS = {
    "revived-old-copy": "index(r,v1) merge index(r,v2) unassign(r) cleanup; 25 h later assign(r) cleanup: the trashed v2 shard is "
                        "purged (older than 24 h, as C32 allows) and the tombstoned v1 copy inside the compound shard is revived, so r "
                        "is searchable at v1 until its next index run (which IndexState then does not skip)",
}


# ---------------------------------------------------------------- the stage
def run_stage(ctx):
    """M + R + V for the root model.  Reports violations through ctx; returns statistics."""
    rng = random.Random(ctx.seed)
    bg = {}

    def build():
        try:
            bg["bin"] = ctx.go_build_test(PKG, FILES)
            mb = ctx.path("bin", "zoekt-merge-index")
            t = time.time()
            r = subprocess.run(["go", "build", "-o", mb, "./cmd/zoekt-merge-index"], cwd=vk.REPO, env=ctx.goenv(),
                               stdout=subprocess.PIPE, stderr=subprocess.STDOUT, text=True)
            if r.returncode != 0 or not os.path.exists(mb):
                raise vk.Inconclusive("go build ./cmd/zoekt-merge-index failed:\n" + r.stdout[-3000:])
            ctx.log("built zoekt-merge-index in %.1fs" % (time.time() - t))
            bg["merge"] = mb
        except BaseException as e:       # re-raised in the main thread
            bg["err"] = e

    th = threading.Thread(target=build)
    th.start()
    try:
        st = body(ctx, rng, bg, th)
    finally:
        th.join()
    if "err" in bg:
        raise bg["err"]
    return st


def body(ctx, rng, bg, th):
    if ctx.replay:
        # bin/check SYS --replay replays/SYS_<seed>_<n>.json: only that history, judged by the trace spec
        sc = json.load(open(ctx.replay))["replay"]["script"]
        th.join()
        if "err" in bg:
            raise bg["err"]
        chosen = [{"repos": sc["repos"], "ops": sc["ops"], "preds": [], "n": 0, "origin": "replay"}]
        events = replay(ctx, bg["bin"], bg["merge"], chosen, "r", 1500)
        return judge(ctx, rng, chosen, events, {}, {"tlc_scripts": 0, "random_walks": 0, "tlc_distinct_states": 0,
                                                    "transition_classes": 0})
    starts = list(range(1, NWARM + 1))
    # ---- M + script generation (one run: the invariants are checked on every state explored)
    depth = ctx.pick(3, 4)
    res = ctx.model_check("ZoektSeq", "ZoektSeq_mc.cfg", name="tlc_bfs", workers=1, timeout=3000,
                          defines=defines(2, depth, starts, "bfs"))
    bfs = scripts_of(res, 2, "bfs")
    if len(bfs) < 500:
        raise vk.Inconclusive("too few scripts from TLC: %d (%s)" % (len(bfs), res.log))
    ctx.log("TLC: %d transitions = scripts, %d distinct states (2 repositories, depth %d after %d warm starts)" % (
        len(bfs), res.distinct, depth, NWARM))
    sim = []
    if ctx.thorough:
        # deeper, from the empty directory only
        ctx.model_check("ZoektSeq", "ZoektSeq_mc.cfg", name="tlc_deep", workers=4, timeout=3000,
                        defines=defines(2, 9, [1], "none", ticks=2))
        # three repositories
        ctx.model_check("ZoektSeq", "ZoektSeq_mc.cfg", name="tlc_three", workers=4, timeout=3000,
                        defines=defines(3, 5, [1, 2, 4], "none"))
        # the allowances are not vacuous: without them the statement fails, through the named deviations
        for start, fix in ((4, False), (10, True)):
            bad = ctx.tlc("ZoektSeq", "ZoektSeq_mc.cfg", name="tlc_strict", workers=1, timeout=3000, count=False,
                          defines=defines(2, 2, [start], "none", strict=True, fix=fix))
            if bad.ok or bad.invariant != "Holds":
                raise vk.Inconclusive("the strict model (no allowances) was expected to violate Holds from warm "
                                      "start %d: %s" % (start, bad.log))
        # with the proposed patch (NOTES/SYS_proposed_fix.patch) the inherited sidecar needs no allowance
        ctx.model_check("ZoektSeq", "ZoektSeq_mc.cfg", name="tlc_fix", workers=4, timeout=3000,
                        defines=defines(2, 4, starts, "none", fix=True))
        # seeded random walks over three repositories
        walks = ctx.tlc("ZoektSeq", "ZoektSeq_mc.cfg", name="tlc_sim", simulate="num=40", depth=20, seed=ctx.seed,
                        timeout=3000, count=False, deadlock=False, defines=defines(3, 12, [1, 2], "sim", ticks=2))
        if not walks.ok:
            raise vk.Inconclusive("simulation run failed (%s): %s" % (walks.invariant or walks.error, walks.log))
        sim = scripts_of(walks, 3, "sim")
        if len(sim) < 20:
            raise vk.Inconclusive("too few random walks from TLC: %d (%s)" % (len(sim), walks.log))

    # predictions by history
    pred = {(r, ()): {"d": [], "tmp": 0, "a": list(range(1, r + 1)), "clk": 0, "last": [0, 0, 0]} for r in (2, 3)}
    for s in bfs + sim:
        ops = tuple(opkey(o) for o in s["ops"])
        k = len(s["preds"])
        for i, p in enumerate(s["preds"]):
            pred[(s["repos"], ops[:len(ops) - k + 1 + i])] = p

    # ---- which scripts to execute: every first step after each warm start, a seeded sample of the rest
    # (operations that only change the environment are executed on the way, never as the last step)
    real = ("index", "merge", "vacuum", "cleanup")
    first = [s for s in bfs if s["n"] == 1 and s["ops"][-1]["op"] in real]
    rest = [s for s in bfs if s["n"] > 1 and s["ops"][-1]["op"] in real]
    budget = ctx.pick(40, 350) * PROCS
    chosen, tree, classes = choose(rng, first + sim, rest, pred, budget + sum(cost(o) for s in sim for o in s["ops"]))
    ctx.log("executing %d scripts (%d first steps after a warm start, %d random walks, %d selected of %d others): "
            "%d operations, %d classes of transitions, estimated %.0f s in %d processes on a busy machine" % (
                len(chosen), len(first), len(sim), len(chosen) - len(first) - len(sim), len(rest), tree.nodes, classes,
                tree.cost / PROCS, PROCS))

    th.join()
    if "err" in bg:
        raise bg["err"]
    t0 = time.time()
    events = replay(ctx, bg["bin"], bg["merge"], chosen, "r", ctx.pick(1500, 7200))
    ctx.log("replayed %d operations on the real code in %.0fs" % (len(events), time.time() - t0))
    return judge(ctx, rng, chosen, events, pred, {"tlc_scripts": len(bfs), "random_walks": len(sim),
                                                  "tlc_distinct_states": res.distinct, "transition_classes": classes})


def judge(ctx, rng, scripts, events, pred, st):
    # ---- R: the observed state after every operation against the prediction for that history
    events.sort(key=lambda e: (e["sid"], e["j"]))
    compared = differ = unpredicted = 0
    off = set()           # histories after which the real directory left the predicted one
    nontrivial = set()
    per_op = {}
    for e in events:
        sc = scripts[e["sid"]]
        hist = tuple(opkey(o) for o in sc["ops"][:e["j"]])
        e["_hist"] = sc["ops"][:e["j"]]
        e["_repos"] = sc["repos"]
        per_op[e["op"]] = per_op.get(e["op"], 0) + 1
        if canon(e["pre"])[0] != canon(e["post"])[0]:
            nontrivial.add((canon(e["pre"]), opkey(sc["ops"][e["j"] - 1])))
        p = pred.get((sc["repos"], hist))
        if p is None or any(hist[:k] in off for k in range(1, len(hist))):
            unpredicted += 1
            continue
        compared += 1
        if canon(p) != canon(e["post"]):
            differ += 1
            off.add(hist)
            e["_predicted"] = p

    # ---- V
    tp = ctx.path("trace.ndjson")
    keys = ("ev", "sid", "j", "op", "r", "v", "min", "pre", "post", "junk", "failed")
    vk.write_ndjson(tp, [{k: e[k] for k in keys} for e in events])
    shards = ctx.pick(4, 8)
    acc, rej = ctx.validate_trace_sharded("Trace_ZoektSeq", "Trace_ZoektSeq.cfg", tp, header_lines=0, shards=shards,
                                          name="tlcv", timeout=ctx.pick(1500, 5400))
    bad_lines = set()
    groups = {}
    observed = {}
    for r in rej:
        if not isinstance(r, dict) or "line" not in r:
            raise vk.Inconclusive("unparsable REJECTED line: %r" % (r,))
        e = events[r["line"] - 1]
        bad_lines.add(r["line"])
        why, exp = r["why"], r["expected"]
        base = {"why": why, "history": [show_op(o) for o in e["_hist"]], "repositories": e["_repos"],
                "before": show(e["pre"]), "after": show(e["post"]),
                "searcher_before": show_vis(e["pre"]["vis"]), "searcher_after": show_vis(e["post"]["vis"]),
                "script": {"repos": e["_repos"], "ops": e["_hist"]}}
        if why == "clause":
            for v in exp:
                if v["cause"] in OBSERVATIONS:
                    # behaviour outside the listed properties (see OBSERVATIONS): noted, never a verdict
                    observed[v["cause"]] = observed.get(v["cause"], 0) + 1
                    continue
                sig = "SYS:step:%s:%s:%s" % (e["op"], v["c"], v["cause"])
                groups.setdefault(sig, []).append(dict(base, clause=v["c"], repository=v["r"], cause=v["cause"]))
        elif why == "diverge":
            kind = diff_kind(canon(e["post"]), [canon(x) for x in exp])
            groups.setdefault("SYS:step:%s:diverge:%s" % (e["op"], kind), []).append(
                dict(base, specified=[show(x) for x in exp]))
        elif why in ("view", "view-before"):
            vis = e["post"]["vis"] if why == "view" else e["pre"]["vis"]
            groups.setdefault("SYS:step:%s:%s:%s" % (e["op"], why, view_kind(vis, exp)), []).append(
                dict(base, directory_implies=show_vis(exp)))
        elif why == "junk":
            tag = ":".join((e["junk"] or ["?"])[0].split(":")[:2])
            groups.setdefault("SYS:step:%s:junk:%s" % (e["op"], tag), []).append(dict(base, junk=e["junk"]))
        elif why == "failed":
            groups.setdefault("SYS:step:%s:failed" % e["op"], []).append(dict(base, error=e["failed"]))
        else:
            raise vk.Inconclusive("unknown rejection %r" % why)
    for sig in sorted(groups):
        occ = sorted(groups[sig], key=lambda d: (len(d["history"]), d["history"]))
        d = dict(occ[0])
        d["occurrences"] = len(occ)
        d["also_after"] = [o["history"] for o in occ[1:6]]
        ctx.violation(sig, d, replay={"script": d["script"]})
    ctx.traces_validated += len(events) - len(bad_lines)
    for cause, n in sorted(observed.items()):
        ctx.notes.append("observed %d times, outside the listed properties: %s" % (n, OBSERVATIONS[cause]))

    # what R saw differently must have been settled by V (another member of Apply, or a rejection)
    alt = 0
    for i, e in enumerate(events):
        if "_predicted" in e and (i + 1) not in bad_lines:
            alt += 1
    if alt:
        ctx.notes.append("%d steps ended in a specified state other than the one TLC had picked for the script "
                         "(operations whose result depends on directory order)" % alt)
    for e in rng.sample(events, min(3, len(events))):
        ctx.sample({"history": [show_op(o) for o in e["_hist"]], "after": show(e["post"]),
                    "searcher": show_vis(e["post"]["vis"])})
    st.update({"steps": len(events), "nontrivial": len(nontrivial), "compared_with_prediction": compared,
               "differing_from_prediction": differ, "no_prediction": unpredicted, "other_specified_result": alt,
               "scripts_executed": len(scripts), "operations_by_kind": per_op, "rejected_steps": len(bad_lines),
               "violations_by_signature": {k: len(v) for k, v in groups.items()}})
    return st


def run(ctx):
    st = run_stage(ctx)
    ctx.assumptions += [
        "TLC; the driver's projection of the directory (listing, index.ReadMetadata on the file bytes with and "
        "without the sidecar, a searcher on the bare shard for the document versions, compound shard names decoded "
        "by hashing all sequences of repository names) and of the searcher's view (List + whole-content search on a "
        "fresh search.NewDirectorySearcher after every operation)",
        "operations are atomic and sequential (the index mutex, C31); no file-system errors; one shard per "
        "repository, names are a function of the id, distinct priorities (merge order is determined)",
        "Server.merge is given targetSizeBytes = total size of the shards that list one repository, so that every "
        "eligible shard is picked; vacuum runs with minSizeBytes 0 (self-merge) or 2^40 (explode)",
    ]
    return ctx.finish(
        evaluations=st["steps"], distinct_nontrivial=st["nontrivial"],
        rule="evaluations = operations executed on the real code in a scratch index directory (index / merge / vacuum / "
             "cleanup / assign / unassign / tick / crash), each observed before and after and validated by "
             "Trace_ZoektSeq.tla; the scripts are TLC's transitions (every first step after each warm start, a seeded "
             "sample of the deeper ones) and in the thorough tier seeded random walks; non-trivial = distinct (directory "
             "before, operation) pairs in which the operation changed the directory",
        exhaustive=False, extra=st)
