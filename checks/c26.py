"""C26 — the binary encodings of FileNameSet, BranchesRepos and ReposMap round-trip and reject
garbage safely.

spec/sys/Codec.tla specifies the three wire formats byte-exactly (Tokens*/Flatten = Enc, Parse* /
Outcome = Dec).  Roaring payloads are opaque blobs; the library's verdict on a handful of blobs
(c26_blobs.ndjson, produced by the driver from the real library) is an input of the spec.
M: spec/sys/CodecGen.tla enumerates small values x damage steps; TLC checks the spec's own
   properties (Dec(Enc(v)) = v, prefix-freeness, inflated counts are never encodings).
R: every case is printed as a script; the REAL decoders run them in supervised child processes.
V: Trace_Codec.tla validates (rt) real encoder bytes are an encoding of v by the spec and the real
   decoder returns v; (g) the real decoder's outcome on every malformed input is one the spec
   allows ({value, error}; error where the spec can decide; panic/hang/oom are not actions)."""
import collections
import shutil

from lib import vk

PKG = "query"
FILES = ["c26_codec_test.go"]


def cls_of(e):
    if e["cls"] in ("deflated", "inflated", "wrapped"):
        return "%s-%s" % (e["cls"], e["kind"])
    return e["cls"]


def drive(ctx, binp, test, out, env=None, timeout=1800):
    """run one driver test of the prebuilt test binary; it writes the trace `out`."""
    outp = ctx.path(out)
    e = dict(env or {})
    e["VERIF_OUT"] = outp
    rc, o = ctx.run_bin(binp, "^%s$" % test, env=e, timeout=timeout)
    with open(ctx.path("driver_%s.log" % test), "w") as fh:
        fh.write(o)
    if rc != 0 or "--- PASS: " + test not in o:
        raise vk.Inconclusive("driver %s did not complete (rc=%d):\n%s" % (test, rc, o[-3000:]))
    ctx.log("driver %s done" % test)
    return outp


def run(ctx):
    binp = ctx.go_build_test(PKG, FILES)
    # library-made blobs: input of the specification
    blobs = drive(ctx, binp, "TestVerif_C26_Blobs", "c26_blobs.ndjson")
    rows = vk.read_ndjson(blobs)
    names_ok = {r["name"] for r in rows if r["ok"]}
    if not {"empty", "one", "two"} <= names_ok or not any(not r["ok"] for r in rows):
        raise vk.Inconclusive("roaring does not classify the probe blobs as expected: %s" % (
            [(r["name"], r["ok"]) for r in rows],))
    if any(r["panicked"] for r in rows):
        ctx.notes.append("roaring.FromBuffer panicked on a probe blob: %s" % [r["name"] for r in rows if r["panicked"]])
    for d in ("tlc_gen", "tlc_trace"):
        shutil.copy(blobs, ctx.tlc_dir(d) + "/c26_blobs.ndjson")
    ctx.assumptions.append("roaring serialisation is opaque to the specification; the library's accept/refuse verdict "
                           "on %d probe blobs is an input (c26_blobs.ndjson)" % len(rows))

    # M + R: the model of the input space; its invariants; one script per case
    res = ctx.model_check("CodecGen", "CodecGen_mc.cfg", name="tlc_gen", timeout=1800, workers=2,
                          defines={"Emit": "TRUE", "Full": ctx.pick("FALSE", "TRUE")})
    raw = res.printed("SCRIPT")
    raw.sort(key=lambda s: (s["typ"], s["cls"], s["kind"], s["sub"], s["bytes"]))
    seen, scripts = set(), []
    for s in raw:
        k = (s["typ"], tuple(s["bytes"]))
        if k not in seen:
            seen.add(k)
            scripts.append(s)
    if len(scripts) < 200:
        raise vk.Inconclusive("too few scripts from TLC: %d" % len(scripts))
    ctx.log("cases from TLC: %d (%d distinct inputs)" % (len(raw), len(scripts)))
    inp = ctx.path("scripts.ndjson")
    vk.write_ndjson(inp, scripts)

    t_rt = drive(ctx, binp, "TestVerif_C26_RoundTrip", "trace_rt.ndjson")
    t_g = drive(ctx, binp, "TestVerif_C26_Garbage", "trace_g.ndjson", env={"VERIF_IN": inp}, timeout=3000)
    events = vk.read_ndjson(t_rt) + vk.read_ndjson(t_g)
    trace = ctx.path("trace_all.ndjson")
    vk.write_ndjson(trace, events)

    acc, rej = ctx.validate_trace("Trace_Codec", "Trace_Codec.cfg", trace, name="tlc_trace", timeout=3000)
    bad = set()
    for r in rej:
        e = events[r["line"] - 1]
        bad.add(r["line"])
        if e["ev"] == "rt":
            sig = "C26:roundtrip:%s:%s" % (e["typ"], r["why"] if r["why"] != "outcome" else e["out"])
            ctx.violation(sig, {"why": r["why"], "value": e["v"], "encoder": e["encout"], "bytes": e["bytes"],
                                "decoder": e["out"], "decoded": e["dec"], "msg": e["msg"]})
        else:
            what = e["out"] if r["why"] == "outcome" else {"value": "wrong-value"}.get(r["why"], r["why"])
            sig = "C26:%s:%s:%s" % (what, e["typ"], cls_of(e))
            ctx.violation(sig, {"why": r["why"], "input": e["inp"], "damage": [e["cls"], e["kind"], e["sub"]],
                                "spec": r["expected"], "real": e["out"], "decoded": e["dec"], "msg": e["msg"][:300]})
    ctx.traces_validated = len(events) - len(bad)

    stats = {}
    for line in open(ctx.path("tlc_trace", "tlc_%d_Trace_Codec.log" % (len(ctx.tlc_runs) - 1))):
        if line.startswith('<<"STATS"'):
            stats = vk.tla_unquote(vk.tla_unquote(line.strip()[len('<<"STATS", '):-2]))
    if not stats or not stats.get("error") or not stats.get("value") or not stats.get("any"):
        raise vk.Inconclusive("vacuous run: spec outcome classes %s" % (stats,))

    g = [e for e in events if e["ev"] == "g"]
    rt = [e for e in events if e["ev"] == "rt"]
    by_cls = collections.Counter("%s/%s" % (e["typ"], cls_of(e)) for e in g)
    by_out = collections.Counter(e["out"] for e in g)
    nontrivial = len({(e["typ"], tuple(e["inp"])) for e in g if e["cls"] != "random" and len(e["inp"]) >= 2}) + \
        len({(e["typ"], tuple(e["bytes"])) for e in rt if len(e["v"]) >= 1})
    for e in (rt[len(rt) // 2], g[len(g) // 3], g[-1]):
        ctx.sample({k: (v if not isinstance(v, list) or len(v) < 40 else v[:40] + ["..."]) for k, v in e.items()})
    sigs = collections.Counter(v["signature"] for v in ctx.violations)
    for sig, n in sorted(sigs.items()):
        ctx.log("violation signature %-70s x %d" % (sig, n))
    return ctx.finish(
        evaluations=len(events), distinct_nontrivial=nontrivial,
        rule="evaluations = round trips (value, real encoder bytes, real decoder result) + malformed inputs decoded "
             "by the real decoders in supervised child processes, every event validated by Trace_Codec.tla; "
             "non-trivial = distinct TLC-generated inputs of at least 2 bytes (beyond the version byte) + distinct "
             "round-tripped values with at least one item; seeded random byte strings are counted separately "
             "(exploration, not exhaustive)",
        exhaustive=False,
        extra={"violation_signatures": dict(sigs), "scripts_from_tlc": len(scripts), "random_inputs": sum(1 for e in g if e["cls"] == "random"),
               "round_trips": len(rt), "spec_outcome_classes": stats, "real_outcomes": dict(by_out),
               "inputs_per_damage_class": dict(sorted(by_cls.items()))})
