"""C28 — the RE2 size threshold never changes search results.
V: the regexp-heavy C02 drivers run in separate processes (the variable is read once per process)
with ZOEKT_RE2_THRESHOLD_BYTES in {-1 (disabled), 0 (always), 1, 64, 1000000}; documents are
sized below, at and above the thresholds.  Every search of every process must satisfy
QuerySem!Answer and Geometry!CheckRanges (exact FindAll bytes for single regexps), which do not
mention the threshold — hence all settings agree."""
from checks import searchsem
from lib import vk

SETTINGS = ["-1", "0", "1", "64", "1000000"]


def run(ctx):
    ctx.level = "exploration"
    total = searches = nt = 0
    per = {}
    for th in SETTINGS:
        runs = [("TestVerif_C02_Dense", {"VERIF_CORPORA": ctx.pick(4, 80), "VERIF_DETAIL": 1, "ZOEKT_RE2_THRESHOLD_BYTES": th,
                                         "VERIF_DENSE_RUNES": 1})]
        if ctx.thorough or th == "0":
            runs.append(("TestVerif_C01_Exhaustive", {"VERIF_DOCLEN": ctx.pick(3, 4), "VERIF_DETAIL": 1, "ZOEKT_RE2_THRESHOLD_BYTES": th}))

        def classify(sig, e, events, line, rej=None, th=th):
            return "%s:threshold=%s" % (sig, th)
        # separate work names per setting
        old = ctx.path
        t, s, n = searchsem.run_family(ctx, "C28", "Trace_Search_c01c02.cfg",
                                       [(name, env) for name, env in runs], "c28",
                                       lambda e: e["q"]["t"] == "regex" and len(e["files"]) > 0,
                                       timeout=ctx.pick(1500, 5000), classify=classify, tag="th" + th.replace("-", "m"))
        total += t
        searches += s
        nt += n
        per[th] = s
    ctx.assumptions += ["valid UTF-8 only; patterns from the C02 families (all accepted by RE2)",
                        "go-re2 runs as WASM (wazero) inside the test process"]
    return ctx.finish(evaluations=searches, distinct_nontrivial=nt,
                      rule="searches per threshold setting validated against the threshold-free specification; non-trivial = regexp "
                           "searches with results", extra={"events": total, "searches_per_setting": per})
