"""C28 — the RE2 size threshold never changes search results.
V: the regexp-heavy C02 drivers run in separate processes (the variable is read once per process)
with ZOEKT_RE2_THRESHOLD_BYTES in {-1 (disabled), 0 (always), 1, 64, 1000000}; documents are
sized below, at and above the thresholds.  Every search of every process must satisfy
QuerySem!Answer and Geometry!CheckRanges (exact FindAll bytes for single regexps), which do not
mention the threshold — hence all settings agree."""
from checks import searchsem
from lib import vk

SETTINGS = ["-1", "0", "1", "64", "1000000"]


def run(ctx):
    ctx.level = "exploration"
    total = searches = nt = 0
    per = {}
    for th in SETTINGS:
        runs = [("TestVerif_C02_Dense", {"VERIF_CORPORA": ctx.pick(4, 80), "VERIF_DETAIL": 1, "ZOEKT_RE2_THRESHOLD_BYTES": th,
                                         "VERIF_DENSE_RUNES": 1})]
        if ctx.thorough or th == "0":
            runs.append(("TestVerif_C01_Exhaustive", {"VERIF_DOCLEN": ctx.pick(3, 4), "VERIF_DETAIL": 1, "ZOEKT_RE2_THRESHOLD_BYTES": th}))

        def classify(sig, e, events, line, rej=None, th=th):
            return "%s:threshold=%s" % (sig, th)
        # separate work names per setting
        old = ctx.path
        t, s, n = searchsem.run_family(ctx, "C28", "Trace_Search_c01c02.cfg",
                                       [(name, env) for name, env in runs], "c28",
                                       lambda e: e["q"]["t"] == "regex" and len(e["files"]) > 0,
                                       timeout=ctx.pick(1500, 5000), classify=classify, tag="th" + th.replace("-", "m"))
        total += t
        searches += s
        nt += n
        per[th] = s
    # documents far above the thresholds (2 KiB .. 400 KiB, one 200 KiB line): beyond the scanning oracle,
    # so the relational statement itself is checked: every setting's result = the result with RE2 disabled
    searchsem.FILES.append("c28_large_test.go") if "c28_large_test.go" not in searchsem.FILES else None
    all_ev = []
    for th in ["-1", "0", "4096", "131072", "200000"]:
        rc, out, trace = ctx.driver("search", "^TestVerif_C28_Large$", searchsem.FILES, env={"ZOEKT_RE2_THRESHOLD_BYTES": th},
                                    out="trace_large_%s.ndjson" % th.replace("-", "m"), timeout=1800)
        if rc != 0:
            raise vk.Inconclusive("large-document driver failed (threshold %s):\n%s" % (th, out[-2500:]))
        all_ev += vk.read_ndjson(trace)
    big = ctx.path("trace_large_all.ndjson")
    vk.write_ndjson(big, all_ev)
    acc, rej = ctx.validate_trace("Trace_Threshold", "Trace_Threshold.cfg", big, name="tlc_large", timeout=1800)
    for r in rej:
        e = all_ev[r["line"] - 1]
        base = [x for x in all_ev if x["qi"] == e["qi"] and x["threshold"] == "-1"]
        ctx.violation("C28:large:%s:threshold=%s" % (r["why"].split(":")[0], e["threshold"]),
                      {"pattern": e["q"], "case_sensitive": e["cs"], "threshold": e["threshold"], "outcome": e["outcome"],
                       "files": e["files"], "with_re2_disabled": base[0]["files"] if base else None})
    ctx.traces_validated += len(all_ev) - len(rej)
    searches += len(all_ev)
    nt += sum(1 for e in all_ev if e["files"])
    per["large"] = len(all_ev)
    ctx.assumptions += ["valid UTF-8 only; patterns from the C02 families (all accepted by RE2)",
                        "go-re2 runs as WASM (wazero) inside the test process"]
    return ctx.finish(evaluations=searches, distinct_nontrivial=nt,
                      rule="searches per threshold setting validated against the threshold-free specification; non-trivial = regexp "
                           "searches with results", extra={"events": total, "searches_per_setting": per})
