"""C27 — regexp printing and optimisation preserve the matched language.

V: for seeded pattern sources (skeletons over anchors, classes, repeats greedy/lazy, captures,
flag groups, non-ASCII and non-printable atoms) the driver records the parser's AST and, for every
subject string over {a,b,A,\\n,é} up to a length, the first match found by the REAL engine for
(0) the pattern, (1) Parse(RegexpString(re)), (2) OptimizeRegexp(re).  Trace_Regex.tla recomputes
the leftmost-first match of the ORIGINAL AST with the independent semantics of spec/lib/Regex.tla;
all three must equal it on every subject."""
from lib import vk

PKG = "query"
FILES = ["c27_regex_test.go"]


def run(ctx):
    ctx.level = "translation_validation"
    families = [("^TestVerif_C27_Regex$", ctx.pick(260, 2500), ctx.pick(3, 4)),
                ("^TestVerif_C27_Classes$", ctx.pick(200, 1500), 2)]
    all_pats, nontriv, nrej, nsubj = [], 0, 0, 0
    for test, npat, slen in families:
        rc, out, trace = ctx.driver(PKG, test, FILES,
                                    env={"VERIF_PATTERNS": npat, "VERIF_SUBJLEN": slen}, timeout=900)
        if rc != 0:
            raise vk.Inconclusive("driver failed:\n" + out[-3000:])
        events = vk.read_ndjson(trace)
        subjects = events[1]["list"]
        pats = [e for e in events if e["ev"] == "re"]
        acc, rej = ctx.validate_trace_sharded("Trace_Regex", "Trace_Regex.cfg", trace, header_lines=2,
                                              shards=12, timeout=ctx.pick(600, 3000))
        oracle_bad = [r for r in rej if r["why"].startswith("oracle")]
        if oracle_bad:
            r = oracle_bad[0]
            e = events[r["line"] - 1]
            raise vk.Inconclusive("the specification's regexp semantics disagrees with the engine on the ORIGINAL "
                                  "pattern %r (%s, subject #%s): oracle calibration failure, not a verdict" % (
                                      e["src"], r["why"], r["expected"]["subject"]))
        for r in rej:
            e = events[r["line"] - 1]
            k = r["expected"]["subject"]
            subj = "".join(chr(c) for c in subjects[k - 1]) if k and k > 0 else None
            which = "r1" if r["why"].startswith("print") else "r2"
            ctx.violation("C27:" + r["why"], {
                "pattern": e["src"], "printed": e["printed"], "subject": subj,
                "expected_first_match": r["expected"]["exp"],
                "observed": e[which][k - 1] if k and k > 0 and e[which] else None})
        for e in pats:
            hits = sum(1 for x in e["r0"] if x[0] >= 0)
            if 0 < hits < len(e["r0"]):
                nontriv += 1
        ctx.traces_validated += len(pats) - len({r["line"] for r in rej})
        ctx.sample({"family": test, "pattern": pats[0]["src"], "printed": pats[0]["printed"], "subjects": len(subjects)})
        ctx.sample({"pattern": pats[len(pats) // 2]["src"], "printed": pats[len(pats) // 2]["printed"]})
        all_pats += pats
        nrej += len(rej)
        nsubj = max(nsubj, len(subjects))
    pats, rej = all_pats, [None] * nrej
    subjects = [None] * nsubj
    slen = families[0][2]
    ctx.assumptions += ["regexp/syntax parser (AST) trusted; the matcher is not: expected matches come from spec/lib/Regex.tla",
                        "subjects bounded: alphabet {a,b,A,\\n,e-acute}, length <= %d; class family: 23-character pool, length <= 2" % slen]
    return ctx.finish(
        evaluations=len(pats) * len(subjects) * 3, distinct_nontrivial=nontriv,
        rule="distinct pattern sources from a seeded skeleton grammar (depth<=3); each evaluated on all %d subjects "
             "for original/printed/optimised forms; non-trivial = patterns matching some but not all subjects" % len(subjects),
        extra={"patterns": len(pats), "subjects": len(subjects), "programs": len(pats),
               "disagreements_checked": len(rej)})
