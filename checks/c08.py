"""C08 — case-insensitive literal and regexp search agree on all Unicode text.
V: for every rune with a non-trivial simple-fold orbit or case mapping (all ~1,400 orbits in the
thorough tier, a seeded sample plus the notable ones in quick) one document per orbit member and,
per member, the case-insensitive substring query and equivalent regular expressions that the
engine does not collapse into a substring.  Spec: QuerySem/Geometry with FoldEq = equality of
simple-fold orbits — the one folding relation both forms must implement; every form must return
exactly the specification's files and ranges, hence all forms agree."""
import os
from checks import searchsem
from lib import vk


def run(ctx):
    ctx.level = "exploration"
    searchsem.FILES.append("c08_fold_test.go")
    runs = [("TestVerif_C08_Fold", {"VERIF_ORBIT_PERCENT": ctx.pick(8, 100)})]

    def classify(sig, e, events, line, rej=None):
        return "%s:%s:orbit=U+%04X" % (sig, e.get("form", "?"), e.get("orbit", 0))
    total, searches, nt = searchsem.run_family(ctx, "C08", "Trace_Search_c01c02.cfg", runs, "c08",
                                               lambda e: len(e["files"]) >= 2, timeout=ctx.pick(2400, 7200), classify=classify)
    events = vk.read_ndjson(os.path.join(ctx.work, "trace_TestVerif_C08_Fold.ndjson"))
    orbits = {e["orbit"] for e in events if e["ev"] == "search"}
    ctx.assumptions += ["folding relation of the specification = unicode.SimpleFold orbits (the regexp engine's relation)",
                        "contents are 5-rune documents xx<m>yy; patterns of 1, 2 and 5 runes"]
    return ctx.finish(evaluations=searches, distinct_nontrivial=nt,
                      rule="(orbit member, query form) searches over the documents of a batch of orbits; non-trivial = searches that "
                           "must return at least two documents (the member and a fold partner)",
                      extra={"events": total, "orbits": len(orbits)})
