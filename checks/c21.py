"""C21 — match limits and cancellation only remove whole files.
V: for (corpus, query) pairs the unlimited search, then the same search under per-shard /
per-repository / total match limits, a 1 ns wall-time budget, and a counting context that is
cancelled at the k-th poll for every k (deterministic enumeration of cancellation points).
Spec (RankLimit!CheckLimited + Geometry!CheckRanges): outcome is a result or an error, never a
panic or hang; every returned file is in QuerySem!Answer, appears once, and is identical (matches,
branches, score) to the file of the unlimited run; its ranges satisfy the C02 conditions."""
from checks import searchsem
from lib import vk


def run(ctx):
    ctx.level = "exploration"
    searchsem.FILES.append("c21_limits_test.go")
    runs = [("TestVerif_C21_Limits", {"VERIF_CORPORA": ctx.pick(8, 100)})]
    stats = {"dropped": 0, "cancelled": 0}

    def nontrivial(e):
        return e["ev"] == "search" or False

    # count limited events by hand (run_family counts "search" events only)
    total, searches, nt = searchsem.run_family(ctx, "C21", "Trace_Search_c21.cfg", runs, "c21", nontrivial,
                                               timeout=ctx.pick(1500, 5000))
    import glob, os
    trace = os.path.join(ctx.work, "trace_TestVerif_C21_Limits.ndjson")
    events = vk.read_ndjson(trace)
    limited = [e for e in events if e["ev"] == "limited"]
    nontriv = 0
    for i, e in enumerate(events):
        if e["ev"] != "limited":
            continue
        ref = events[i - e["back"]]
        if e["outcome"] == "ok" and len(e["files"]) < len(ref["files"]):
            nontriv += 1
    ctx.traces_validated += len(limited)
    ctx.sample({"limited": {k: limited[len(limited) // 2][k] for k in ("qs", "limits", "cancel", "outcome")}})
    ctx.assumptions += ["'promptly' is only checked as 'returns within 60 s' (a hang is reported, slowness is not)",
                        "cancellation points = polls of ctx.Done()/Err(); at most 24 evenly spread points per search when there are more"]
    return ctx.finish(evaluations=len(limited), distinct_nontrivial=nontriv,
                      rule="limited or cancelled searches compared with their unlimited run; non-trivial = runs in which the limit or "
                           "cancellation actually removed at least one file",
                      extra={"events": total, "unlimited_searches": searches,
                             "outcomes": {o: sum(1 for e in limited if e["outcome"] == o) for o in {e["outcome"] for e in limited}}})
