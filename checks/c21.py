"""C21 — match limits and cancellation only remove whole files.
V: for (corpus, query) pairs the unlimited search, then the same search under per-shard /
per-repository / total match limits, a 1 ns wall-time budget, and a counting context that is
cancelled at the k-th poll for every k (deterministic enumeration of cancellation points); plus
Search / StreamSearch / List of the real sharded searcher cancelled before the call, by MaxWallTime and
while queued in the scheduler (batch queue full, time slice over), judged by Trace_Sched.tla.
Spec (RankLimit!CheckLimited + Geometry!CheckRanges): outcome is a result or an error, never a
panic or hang; every returned file is in QuerySem!Answer, appears once, and is identical (matches,
branches, score) to the file of the unlimited run; its ranges satisfy the C02 conditions."""
from checks import searchsem
from lib import vk


def run(ctx):
    ctx.level = "exploration"
    searchsem.FILES.append("c21_limits_test.go")
    runs = [("TestVerif_C21_Limits", {"VERIF_CORPORA": ctx.pick(8, 100)})]
    stats = {"dropped": 0, "cancelled": 0}

    def nontrivial(e):
        return e["ev"] == "search" or False

    # count limited events by hand (run_family counts "search" events only)
    total, searches, nt = searchsem.run_family(ctx, "C21", "Trace_Search_c21.cfg", runs, "c21", nontrivial,
                                               timeout=ctx.pick(1500, 5000))
    import glob, os
    trace = os.path.join(ctx.work, "trace_TestVerif_C21_Limits.ndjson")
    events = vk.read_ndjson(trace)
    limited = [e for e in events if e["ev"] == "limited"]
    nontriv = 0
    for i, e in enumerate(events):
        if e["ev"] != "limited":
            continue
        ref = events[i - e["back"]]
        if e["outcome"] == "ok" and len(e["files"]) < len(ref["files"]):
            nontriv += 1
    ctx.traces_validated += len(limited)

    # cancellation while the search waits for the scheduler (batch queue full, time slice over), before
    # the call and by MaxWallTime, on the real sharded searcher with real shards: the calls are recorded
    # by the C20 callers driver and judged by Trace_Sched.tla; here only "a call crashed or hung" counts
    rc, out, ptrace = ctx.driver("search", "^TestVerif_C20_Callers$", ["c20_sched_test.go", "c20_callers_test.go"],
                                 env={"VERIF_C20_PRESSURE_ONLY": 1, "VERIF_C20_CALLER_ROUNDS": ctx.pick(6, 30)},
                                 out="trace_pressure.ndjson", timeout=1800)
    if rc != 0:
        raise vk.Inconclusive("pressure driver failed:\n" + out[-3000:])
    pev = vk.read_ndjson(ptrace)
    acc, prej = ctx.validate_trace("Trace_Sched", "Trace_Sched.cfg", ptrace, name="tlc_pressure", timeout=1800)
    ncalls = sum(1 for e in pev if e["ev"] in ("hold", "fail") and (e["ev"] == "hold" and e["sem"] == "I" or e["sem"] == "acq"))
    crashed = 0
    for r in prej:
        e = pev[r["line"] - 1]
        if e["ev"] == "fail" and (e["sem"].startswith("panic:") or e["sem"].startswith("hang:")):
            kind, op = e["sem"].split(":", 1)
            crashed += 1
            ctx.violation("C21:outcome:%s:%s:scheduler-pressure" % (kind, op),
                          {"what": "a cancelled / timed-out %s did not return normally" % op, "event": e,
                           "before": pev[max(0, r["line"] - 8):r["line"] - 1]})
    ctx.traces_validated += ncalls - crashed
    stats["pressure_calls"] = ncalls
    ctx.sample({"limited": {k: limited[len(limited) // 2][k] for k in ("qs", "limits", "cancel", "outcome")}})
    ctx.assumptions += ["'promptly' is only checked as 'returns within 60 s' (a hang is reported, slowness is not)",
                        "cancellation points = polls of ctx.Done()/Err(); at most 24 evenly spread points per search when there are more"]
    return ctx.finish(evaluations=len(limited), distinct_nontrivial=nontriv,
                      rule="limited or cancelled searches compared with their unlimited run; non-trivial = runs in which the limit or "
                           "cancellation actually removed at least one file",
                      extra={"events": total, "unlimited_searches": searches, "calls_under_scheduler_pressure": stats.get("pressure_calls", 0),
                             "outcomes": {o: sum(1 for e in limited if e["outcome"] == o) for o in {e["outcome"] for e in limited}}})
