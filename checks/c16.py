"""C16 — merging and exploding shards preserves searchable content.

M: spec/sys/MergeContent.tla model-checked (merge / explode / tombstone / untombstone over 3
   repositories): NoDuplicateRepo, Accounted, WellFormed, ContentStable, TombExact.
R: TLC prints one script per explored transition (operation history + predicted abstract
   directory after every step); each is replayed on real shard files (real builder, then
   index.Merge / index.Explode / SetTombstone and the zoekt-merge-index entry points).
V: the directory is projected before and after the last operation of every script, and after
   every operation of seeded random scenarios (2..5 repositories with priorities, branches,
   symbols, sub-repositories, file tombstones, binary/empty documents, empty repositories):
   shard structure, per repository the bag of documents and the answers of a fixed query set,
   List metadata.  Trace_MergeContent.tla: structure' in MergeContentOps.After(structure, op),
   content and metadata of every visible repository equal to its reference (metadata except
   the Recomputed fields)."""
import concurrent.futures

from lib import vk

PKG = "cmd/zoekt-merge-index"
FILES = ["c16_content_test.go"]


def absdir(shards):
    """abstract directory; compound shards without repositories are indistinguishable garbage (counted by the
    trace spec), so they are left out of the comparison with TLC's prediction."""
    return sorted((s["compound"], tuple((r["id"], r["tomb"]) for r in s["repos"])) for s in shards if s["repos"])


def run(ctx):
    depth = ctx.pick(3, 5)
    nrandom = 0
    # ---- M
    for empty in ("{}", "{3}", "{1, 2}"):
        # the view (directory, lost) is finite: no depth bound needed for the exhaustive run
        ctx.model_check("MergeContent", "MergeContent_mc.cfg", timeout=900,
                        defines={"MaxDepth": 99, "Emit": "FALSE", "Empty": empty})
    # ---- R: scripts
    scripts = []
    for empty, d in (("{}", depth), ("{3}", depth - 1)):
        res = ctx.tlc("MergeContent", "MergeContent_mc.cfg", timeout=900, count=False, workers=1,
                      defines={"MaxDepth": d, "Emit": "TRUE", "Empty": empty})
        if not res.ok:
            raise vk.Inconclusive("script generation failed: %s" % res.log)
        scripts += res.printed("SCRIPT")
    if len(scripts) < 150:
        raise vk.Inconclusive("too few scripts generated: %d" % len(scripts))
    ctx.log("scripts from TLC: %d" % len(scripts))
    inp = ctx.path("scripts.ndjson")
    vk.write_ndjson(inp, [{"empty": s["empty"], "ops": s["ops"]} for s in scripts])
    ctx.sample({"script_ops": scripts[len(scripts) // 2]["ops"], "predicted_directory": scripts[len(scripts) // 2]["dirs"][-1]})

    binp = ctx.go_build_test(PKG, FILES)

    def drive(name, run_, env):
        trace = ctx.path("trace_%s.ndjson" % name)
        rc, out = ctx.run_bin(binp, run_, env=dict(env, VERIF_OUT=trace), timeout=3000)
        with open(ctx.path("driver_%s.log" % name), "w") as fh:
            fh.write(out)
        if rc != 0:
            raise vk.Inconclusive("driver %s failed:\n%s" % (name, out[-3000:]))
        events = vk.read_ndjson(trace)
        acc, rej = ctx.validate_trace("Trace_MergeContent", "Trace_MergeContent.cfg", trace, name="tlc_" + name,
                                      timeout=3000)
        return events, rej

    jobs = (("replay", "^TestVerif_C16_Replay$", {"VERIF_IN": inp}),
            ("random", "^TestVerif_C16_Random$", {}))
    with concurrent.futures.ThreadPoolExecutor(max_workers=2) as pool:
        futs = [(j[0], pool.submit(drive, *j)) for j in jobs]
        results = [(name, f.result()) for name, f in futs]

    total_ops = 0
    diverged = []
    nontrivial = set()
    per_op = {}
    for name, (events, rej) in results:
        base = -1
        for i, e in enumerate(events):
            if e["ev"] == "base":
                base = i
            e["_b"] = base
        per_sig, shown, bad = {}, {}, set()
        for r in rej:
            per_sig[r["why"]] = per_sig.get(r["why"], 0) + 1
        for r in rej:
            why = r["why"]
            e = events[r["line"] - 1]
            if why.startswith("harness:"):
                raise vk.Inconclusive("%s: %s at trace line %d: %s" % (name, why, r["line"], str(r["expected"])[:500]))
            bad.add(r["line"])
            if why == "prefix-diverged":
                # an unobserved prefix operation did not lead to the predicted directory; the script
                # ending with that operation reports it (checked at the end)
                diverged.append(r["line"])
                continue
            shown[why] = shown.get(why, 0) + 1
            if shown[why] > 3:
                continue
            start = max([e["_b"]] + [j for j in range(e["_b"], r["line"]) if events[j]["ev"] == "reset"])
            hist = [{k: x[k] for k in ("op", "via", "shards", "shard", "id", "reported")}
                    for x in events[start:r["line"]] if x["ev"] == "op"]

            prev = events[r["line"] - 2]["state"] if r["line"] >= 2 and "state" in events[r["line"] - 2] else None
            detail = {"driver": name, "line": r["line"], "why": why, "occurrences_in_this_trace": per_sig[why],
                      "expected": r["expected"], "corpus": events[e["_b"]]["corpus"],
                      "history_since_base_or_reset": hist[-6:],
                      "structure_before": prev["shards"] if prev else None,
                      "structure_after": e["state"]["shards"]}
            # the repository whose content / metadata differs
            ref = events[e["_b"]]["state"]
            for kind in ("content", "list"):
                if why.startswith(kind + ":"):
                    refm = {c["id"]: c for c in ref[kind]}
                    for c in e["state"][kind]:
                        if c["id"] in refm and c != refm[c["id"]]:
                            if kind == "list":
                                detail["differs"] = {"id": c["id"], "fields": {k: [refm[c["id"]][k], c[k]] for k in c
                                                                               if c[k] != refm[c["id"]][k]}}
                            else:
                                rd, od = refm[c["id"]]["docs"], c["docs"]
                                detail["differs"] = {"id": c["id"], "reference_docs": [d for d in rd if d not in od][:3],
                                                     "observed_docs": [d for d in od if d not in rd][:3],
                                                     "answers_differ": [i for i, (a, b) in enumerate(
                                                         zip(refm[c["id"]]["answers"], c["answers"])) if a != b]}
                            break
            ctx.violation("C16:" + why, detail)
        ops = [(i, e) for i, e in enumerate(events) if e["ev"] == "op"]
        total_ops += len(ops)
        ctx.traces_validated += sum(1 for i, e in ops if (i + 1) not in bad)
        if name == "replay":
            # cross-check with the directory MergeContent.tla predicted for this script
            si = -1
            for i, e in enumerate(events):
                if e["ev"] == "reset":
                    si += 1
                    sc = scripts[si]
                    if len(sc["dirs"]) >= 2 and absdir(e["state"]["shards"]) != absdir(sc["dirs"][-2]):
                        if (i + 1) not in bad and not ctx.violations and not ctx.known_hits:
                            raise vk.Inconclusive("prefix of script %d did not lead to the predicted directory: %s vs %s" % (
                                si, absdir(e["state"]["shards"]), absdir(sc["dirs"][-2])))
                if e["ev"] == "op":
                    sc = scripts[si]
                    if absdir(e["state"]["shards"]) != absdir(sc["dirs"][-1]) and (i + 1) not in bad \
                            and not ctx.violations and not ctx.known_hits:
                        raise vk.Inconclusive("MergeContent.tla's prediction and Trace_MergeContent.tla's judgement "
                                              "disagree at trace line %d (script %d)" % (i + 1, si))
            if si + 1 != len(scripts):
                raise vk.Inconclusive("replayed %d of %d scripts" % (si + 1, len(scripts)))
        for i, e in ops:
            per_op[e["op"] + ":" + e["via"]] = per_op.get(e["op"] + ":" + e["via"], 0) + 1
            if e["op"] in ("merge", "explode") and e["reported"] == "ok":
                before = events[i - 1]["state"]["shards"]
                ins = [s for s in before if s["file"] in (e["shards"] or [e["shard"]])]
                nrep = sum(len(s["repos"]) for s in ins)
                # non-trivial: rewrites at least two repositories, or drops one
                if nrep >= 2:
                    nontrivial.add((name, e["_b"], i))
        if name == "random":
            b0 = [e for e in events if e["ev"] == "base"]
            ctx.sample({"random_corpus": b0[0]["corpus"], "first_ops": [
                {k: x[k] for k in ("op", "via", "shards", "shard", "id")} for x in events[1:4] if x["ev"] == "op"]})
            nrandom = len(b0)
    if diverged and not ctx.violations and not ctx.known_hits:
        raise vk.Inconclusive("script prefixes diverged from the predicted directory (trace lines %s) although no "
                              "operation was rejected" % diverged[:5])
    # system histories: merge / vacuum (self-merge, explode) composed with index runs, cleanup and
    # (un)assignment on one index directory (spec/sys/ZoektSeq.tla, checks/sys_zoekt.py): a live
    # repository must survive every merge at its indexed version, visible exactly once
    from checks import sys_zoekt
    sys_stats = sys_zoekt.run_stage(ctx)
    total_ops += sys_stats.get("steps", 0)
    ctx.assumptions += [
        "TLC; the driver's projection (whole-content constant-true search, a symbol query matching every symbol, "
        "15 fixed queries incl. one with ChunkMatches, List in both field modes) of what the directory searcher "
        "returns; scores and debug strings are not compared (document order inside a shard is a score tie-breaker)",
        "List fields not compared because the builder recomputes them when it rewrites a shard: IndexFormatVersion, "
        "IndexTime, shard ID, LanguageMap, PlainASCII, Stats.IndexBytes",
        "symbols are supplied as Document.Symbols (ctags is not installed)",
    ]
    return ctx.finish(
        evaluations=total_ops, distinct_nontrivial=len(nontrivial),
        rule="evaluations = merge / explode / tombstone operations on real shard files whose before/after directory "
             "projections were validated by Trace_MergeContent.tla (the last operation of each TLC script and every "
             "operation of the seeded random scenarios); non-trivial = successful merges / explodes whose inputs hold "
             "at least two repositories",
        exhaustive=False,
        extra={"scripts_from_tlc": len(scripts), "operations_by_kind": per_op, "random_scenarios": nrandom,
               "system_histories": sys_stats})
