"""C30 — the indexing queue behaves as a priority queue.

M: spec/sys/Queue.tla model-checked (invariants over every reachable state).
R: TLC prints one script per explored transition (history of the representative state + the
   op); each is replayed on the real Queue followed by a drain.
V: the recorded calls (scripts and seeded random histories over more ids) are validated by
   Trace_Queue.tla: reply and projected state must be the step the spec takes."""
from lib import vk

PKG = "cmd/zoekt-sourcegraph-indexserver"
FILES = ["c30_queue_test.go"]


def run(ctx):
    ids = ctx.pick("{1,2,3}", "{1,2,3}")
    depth = ctx.pick(3, 4)
    scripts = []
    for mode in ("zero", "hour"):
        # M: exhaustive, deeper than the script generation, no printing
        ctx.model_check("Queue", "Queue_mc.cfg", timeout=900, defines={
            "Ids": "{1,2,3}", "Vers": "{1,2}", "Mode": '"%s"' % mode,
            "MaxDepth": ctx.pick(5, 7), "Emit": "FALSE"})
        # R: one script per transition
        res = ctx.tlc("Queue", "Queue_mc.cfg", timeout=900, count=False, defines={
            "Ids": ids, "Vers": "{1,2}", "Mode": '"%s"' % mode, "MaxDepth": depth, "Emit": "TRUE"})
        if not res.ok:
            raise vk.Inconclusive("script generation failed: %s" % res.log)
        scripts += res.printed("SCRIPT")
    if len(scripts) < 100:
        raise vk.Inconclusive("too few scripts generated: %d" % len(scripts))
    ctx.log("scripts from TLC: %d" % len(scripts))
    inp = ctx.path("scripts.ndjson")
    vk.write_ndjson(inp, scripts)
    ctx.sample({"script": scripts[len(scripts) // 2]})

    total_events = 0
    nontrivial = set()
    for name, run_, env in (("replay", "^TestVerif_C30_Replay$", {"VERIF_IN": inp}),
                            ("random", "^TestVerif_C30_Random$", {})):
        rc, out, trace = ctx.driver(PKG, run_, FILES, env=env, out="trace_%s.ndjson" % name, timeout=900)
        if rc != 0:
            raise vk.Inconclusive("driver %s failed:\n%s" % (name, out[-3000:]))
        events = vk.read_ndjson(trace)
        nhist = sum(1 for e in events if e["ev"] == "reset")
        acc, rej = ctx.validate_trace("Trace_Queue", "Trace_Queue.cfg", trace, name="tlc_" + name, timeout=1800)
        total_events += len(events)
        # histories: split by reset
        start = {}
        h = -1
        for i, e in enumerate(events):
            if e["ev"] == "reset":
                h += 1
                start[h] = i
            e["_h"] = h
        bad_h = set()
        for r in rej:
            e = events[r["line"] - 1]
            hno = e["_h"]
            hist = [x for x in events[start[hno]:r["line"]]]
            ops = [x.get("o") for x in hist if x["ev"] == "op"]
            if r["why"] == "same-size-skip":
                sig = "C30:same-size-skip"
            else:
                sig = "C30:%s:%s" % (r["why"], e["o"]["op"])
                bad_h.add(hno)
            ctx.violation(sig, {"driver": name, "line": r["line"], "why": r["why"], "expected": r["expected"],
                                "observed": {"reply": e.get("reply"), "items": e.get("items"), "len": e.get("len")},
                                "history": ops, "mode": events[start[hno]].get("mode")})
        ctx.traces_validated += nhist - len(bad_h)
        for e in events:
            if e["ev"] == "op" and e["o"]["op"] == "pop" and e["reply"]["ok"] and e["len"] > 0:
                # a pop that had to choose among several waiting items
                nontrivial.add((e["_h"],))
        if name == "random":
            ops = [e["o"] for e in events[start[0]:start.get(1, len(events))] if e["ev"] == "op"]
            ctx.sample({"random_history": ops[:12]})
    return ctx.finish(
        evaluations=total_events, distinct_nontrivial=len(nontrivial),
        rule="scripts = one per transition TLC explored in Queue.tla (history of the state + op, then drain) "
             "for backoff modes zero/hour, plus seeded random histories over 2..6 ids; evaluations = recorded "
             "calls validated by Trace_Queue.tla; non-trivial = histories containing a Pop that had to choose "
             "among at least two waiting repositories",
        exhaustive=False,
        extra={"scripts_from_tlc": len(scripts)})
