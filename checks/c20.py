"""C20 — the search scheduler bounds concurrency and never leaks slots (search/sched.go).

M: spec/sys/Sched.tla: every interleaving of the code's steps (Acquire on the interactive
   semaphore; Yield = release interactive, then acquire batch, which can fail; Release;
   semaphore hand-over and cancellation races) with the environment's commands, cancellation
   anywhere, under "any waiter is served" and under the implementation's FIFO queues.
R: the macro machine (command, then run to quiescence) prints one schedule per explored
   transition with the predicted observable state; each is replayed on the real
   multiScheduler (one goroutine per process, expired timers installed by the driver,
   occupancy probed with TryAcquire).  Verdicts come from Trace_Sched.tla, which re-derives the
   admissible observations with the same operators (general semantics), not from the
   prediction.  Seeded random command walks over more processes / larger capacities are
   validated the same way.
V: -race stress with real 1 ms slices, timeouts and cancellations; conservative holding
   intervals, error causes and the final occupancy are validated by the same trace spec."""
import os
import random
import re

from lib import vk

PKG = "search"
FILES = ["c20_sched_test.go", "c20_callers_test.go"]


def consts(n, capi, capb, depth, mdepth, modes, emit):
    return {"N": n, "CapI": capi, "CapB": capb, "MaxDepth": depth, "MacroDepth": mdepth,
            "Modes": "{%s}" % ",".join('"%s"' % x for x in modes), "Emit": emit}


def reject_sig(r, ev):
    if ev["ev"] == "step":
        return "C20:step:%s:%s" % (r["why"], ev["c"])
    return "C20:stress:%s:%s" % (r["why"], ev.get("sem", ""))


def run(ctx):
    # ------------------------------------------------ M (modes gen, fifo) and R generation (mode macro)
    # (N, capI, capB, depth of gen/fifo, depth of macro, modes, number of schedules replayed)
    # runs with "macro" use one worker (deterministic breadth-first order of the printed histories)
    runs = [(3, 1, 1, 14, 0, ["gen", "fifo"], 0),
            (3, 1, 1, 0, ctx.pick(8, 10), ["macro"], ctx.pick(800, 10 ** 9)),
            (2, 2, 1, 14, 12, ["gen", "fifo", "macro"], 10 ** 9)]
    if ctx.thorough:
        runs += [(3, 2, 1, 14, 0, ["gen", "fifo"], 0),
                 (3, 2, 1, 0, 10, ["macro"], 10 ** 9),
                 (2, 1, 1, 14, 12, ["macro"], 10 ** 9),
                 (3, 2, 2, 14, 0, ["gen", "fifo"], 0),
                 (3, 2, 2, 0, 8, ["macro"], 4000)]
    scripts = []
    generated = 0
    for i, (n, ci, cb, depth, mdepth, modes, keep) in enumerate(runs):
        cov = i == 0 and bool(os.environ.get("VERIF_C20_COVERAGE"))
        res = ctx.model_check("Sched", "Sched_mc.cfg", timeout=3000, coverage=cov,
                              workers=1 if "macro" in modes else None,
                              defines=consts(n, ci, cb, depth, mdepth, modes, "TRUE"))
        if cov:
            ctx.log("coverage: locations with count 0: %s" % res.coverage_zero())
        sc = res.printed("SCRIPT")
        generated += len(sc)
        if len(sc) > keep:
            # seeded sample, always keeping the longest histories' share
            random.Random(ctx.seed * 7919 + i).shuffle(sc)
            sc = sc[:keep]
        scripts += sc
    if len(scripts) < 300:
        raise vk.Inconclusive("too few schedules generated: %d" % len(scripts))
    ctx.log("schedules from TLC: %d generated, %d replayed" % (generated, len(scripts)))
    inp = ctx.path("scripts.ndjson")
    vk.write_ndjson(inp, scripts)
    ctx.sample({"schedule": [(s["c"], s["p"]) for s in scripts[len(scripts) // 2]["steps"]]})

    # ---------------------------------------------------------------- run the drivers
    events = []
    part = []
    stuck = ""
    rnd = ctx.path("trace_random.ndjson")
    for name, run_, env, race in (("replay", "^TestVerif_C20_(Replay|Random)$", {"VERIF_IN": inp, "VERIF_OUT2": rnd}, False),
                                  ("stress", "^TestVerif_C20_Stress$", {}, True),
                                  # the callers: Search / StreamSearch / List of the real sharded searcher over real shards
                                  # with a recording scheduler around the real ones (multi and the legacy semaphore one)
                                  ("callers", "^TestVerif_C20_Callers$", {}, False)):
        rc, out, trace = ctx.driver(PKG, run_, FILES, env=env, out="trace_%s.ndjson" % name, timeout=3000, race=race)
        if rc != 0:
            if "semaphore: released more than held" in out and "sched.go" in out:
                ctx.violation("C20:panic:released-more-than-held", {"driver": name, "output": out[-2500:]})
            elif "WARNING: DATA RACE" in out and "sched.go" in out:
                ctx.violation("C20:race", {"driver": name, "output": out[out.index("WARNING: DATA RACE"):][:2500]})
            elif name == "stress" and "did not finish" in out:
                ctx.notes.append("stress run did not finish")
                stuck = out[-800:]
            else:
                raise vk.Inconclusive("driver %s failed:\n%s" % (name, out[-3000:]))
            continue
        for nm, tp in ((name, trace),) + ((("random", rnd),) if name == "replay" else ()):
            ev = vk.read_ndjson(tp)
            events += ev
            part += [nm] * len(ev)
    if not events:
        if ctx.violations:
            return ctx.finish(0, 0, "drivers aborted", extra={})
        raise vk.Inconclusive("no trace recorded")
    both = ctx.path("trace_all.ndjson")
    vk.write_ndjson(both, events)
    acc, rej = ctx.validate_trace("Trace_Sched", "Trace_Sched.cfg", both, timeout=6000)

    start = [i for i, e in enumerate(events) if e["ev"] == "reset"]
    hist_of = []
    h = -1
    for e in events:
        if e["ev"] == "reset":
            h += 1
        hist_of.append(h)
    bad = set()
    cnt = {}
    for r in rej:
        i = r["line"] - 1
        e = events[i]
        hno = hist_of[i]
        if r["why"] == "driver":
            raise vk.Inconclusive("harness error: command not applicable at line %d of %s" % (r["line"], both))
        bad.add(hno)
        rs = events[start[hno]]
        if e["ev"] == "step":
            hist = [(x["c"], x["p"]) for x in events[start[hno]:i + 1] if x["ev"] == "step"]
            det = {"driver": part[i], "line": r["line"], "why": r["why"], "process": r.get("who"),
                   "procs": rs["procs"], "capI": rs["capI"], "capB": rs["capB"], "schedule": hist,
                   "observed": {k: e[k] for k in ("ph", "ret", "freeI", "freeB", "where")},
                   "admissible": r["expected"]}
        else:
            det = {"driver": part[i], "line": r["line"], "why": r["why"], "event": e, "context": r["expected"],
                   "capI": rs["capI"], "capB": rs["capB"], "before": events[max(start[hno], i - 6):i]}
        sig = reject_sig(r, e)
        cnt[(part[i], sig)] = cnt.get((part[i], sig), 0) + 1
        ctx.violation(sig, det)
    ctx.traces_validated += len(start) - len(bad)
    if cnt:
        ctx.log("rejections by driver/signature: %s" % sorted(cnt.items()))

    steps = [e for e in events if e["ev"] == "step"]
    blocked = [e for e in steps if "wait" in e["ph"]]
    stats = {
        "replay_steps": len(steps),
        "replay_steps_with_parked_process": len(blocked),
        "replay_failed_yields": sum(1 for e in steps if e["c"] in ("yield", "yieldx") and e["ret"][e["p"] - 1] == "err"),
        "unpredicted_steps": sum(1 for e in events if e["ev"] == "note" and e["what"] == "unpredicted"),
        "diverged_schedules": sum(1 for e in events if e["ev"] == "note" and e["what"] == "diverged"),
        "stress_holds": sum(1 for e in events if e["ev"] == "hold"),
        "stress_batch_holds": sum(1 for e in events if e["ev"] == "hold" and e["sem"] == "B"),
        "stress_failed_acquires": sum(1 for e in events if e["ev"] == "fail" and e["sem"] == "acq"),
        "stress_failed_yields": sum(1 for e in events if e["ev"] == "fail" and e["sem"] == "yield"),
    }
    nontrivial = sum(1 for e in steps if "wait" in e["ph"] or "err" in e["ret"]) \
        + stats["stress_batch_holds"] + stats["stress_failed_yields"] + stats["stress_failed_acquires"]
    if blocked:
        ctx.sample({"observation_with_parked": {k: blocked[len(blocked) // 2][k]
                                                for k in ("c", "p", "ph", "ret", "freeI", "freeB", "where")}})
    if not ctx.violations:
        if "stress run did not finish" in ctx.notes:
            raise vk.Inconclusive("stress run did not finish and nothing else was observed:\n" + stuck)
        if not blocked or not stats["replay_failed_yields"]:
            raise vk.Inconclusive("replay never observed a parked process / a failed yield: harness is vacuous")
        if not stats["stress_batch_holds"] or not stats["stress_failed_yields"] or not stats["stress_failed_acquires"]:
            raise vk.Inconclusive("stress saw no batch slot / failed yield / failed acquire: vacuous (%s)" % stats)
    ctx.assumptions += [
        "quiescence is read from the runtime's goroutine dump (all process goroutines parked twice in a row)",
        "FIFO hand-over is only used to predict; verdicts admit any waiter being served",
        "the end of a time slice is forced by installing an expired deadlineTimer (R); real timers only in the stress (V)",
        "golang.org/x/sync/semaphore is modelled from its source (weight 1): Acquire fails first if ctx is done, "
        "hand-over by Release, a cancelled waiter gives a handed token back",
    ]
    return ctx.finish(
        evaluations=len(events), distinct_nontrivial=nontrivial,
        rule="schedules = one per transition of the macro machine of Sched.tla (command history of the state + "
             "command; seeded sample of the 3-process machine in the quick tier) + seeded random command walks over "
             "3-6 processes and capacities up to 3/2, each followed by a validated cancel-and-release drain; "
             "evaluations = recorded observations/events validated by Trace_Sched.tla; non-trivial = replay "
             "observations with a parked process or a failed call, plus batch-slot holds and failed calls in the "
             "-race stress",
        exhaustive=False, extra=dict(stats, schedules_generated=generated, schedules_replayed=len(scripts)))
