"""C14 — git indexing captures exactly the indexed branch trees; both blob-reading paths agree.

M: spec/sys/GitTree.tla (commits Put/Remove on 2 branches over 5 paths, then Index = GitDocs) is
   model-checked for the statement's properties of the prescribed outcome; spec/sys/GitCatfile.tla
   is the state machine of the streaming cat-file reader.
R: TLC prints every reachable small repository / one reader script per transition; they are
   built with `git fast-import` and indexed by the real IndexGitRepo, resp. replayed on the real
   catfileReader.
V: replay events and seeded random repositories (1-4 branches, nested paths, shared blobs, mode
   changes, symlinks, gitlinks, sizes around SizeMax, NUL blobs, ignore files, LargeFiles) are
   validated by Trace_GitTree.tla, once per blob-reading path: the driver process is started with
   ZOEKT_DISABLE_CATFILE_BATCH=true (go-git) and =false (git cat-file --batch); which path really
   ran is taken from the indexer's own log line."""
import json
import os
import random
import time

from lib import vk

PKG = "gitindex"
FILES = ["c14_gittree_test.go"]
SIZEMAX = 48


def scaled(n):
    """VERIF_SCALE (default 1) scales the number of scenarios run against the real code; for
    self-tests on an overloaded machine only, the registered tiers use 1."""
    return max(10, int(n * float(os.environ.get("VERIF_SCALE") or 1)))


def text(cps):
    return "".join(chr(c) for c in cps)


def show_cd(cd):
    if cd["lit"]:
        return {"text": text(cd["text"])}
    return {"cid": cd["cid"], "size": cd["size"], "nul": cd["nul"]}


def show_doc(d):
    return [text(d["name"]), d["c"], text(d["t"]), sorted(d["branches"])]


def show_repo(e):
    return {"sizemax": e["sizemax"], "largefiles": [text(p) for p in e["large"]],
            "branches": {b["branch"]: [[text(x["path"]), x["mode"], show_cd(x["cd"])] for x in b["entries"]] for b in e["repo"]}}


def docset(docs):
    return sorted((text(d["name"]), d["c"], text(d["t"]), tuple(sorted(d["branches"]))) for d in docs)


def signature(e, why, expected):
    ran = e["ran"].replace("fallback:", "")
    sig = "C14:%s:%s" % (ran, why)
    if why in ("panic", "error", "unreadable"):
        return sig
    obs, exp = docset(e["out"]["docs"]), docset(expected["docs"])
    nb = lambda ds: {(d[0], b) for d in ds for b in d[3]}
    if why in ("missing", "extra"):
        diff = sorted(nb(exp) - nb(obs)) if why == "missing" else sorted(nb(obs) - nb(exp))
        if not diff:
            return sig + ":duplicate"
        name, br = diff[0]
        cause = "unknown"
        for b, fates in zip(e["repo"], expected["fates"]):
            if b["branch"] != br:
                continue
            for x, fate in zip(b["entries"], fates):
                if text(x["path"]) == name:
                    cause = "%s:%s" % (fate, x["mode"])
        if why == "extra" and cause.startswith("ignorefile") and not name.isascii():
            cause += ":nonascii"
        return "%s:%s" % (sig, cause)
    if why == "content":
        for d in exp:
            if d not in obs:
                return "%s:%s" % (sig, {-1: "text", -2: "toolarge", -3: "binary", -4: "toosmall", 0: "empty"}.get(d[1], "plain"))
    return sig


def run(ctx):
    # ------------------------------------------------------------------ M + scripts
    res = ctx.model_check("GitTree", "GitTree_mc.cfg", timeout=3000, workers=4, coverage=ctx.thorough,
                          defines={"NBranches": 2, "MaxOps": ctx.pick(3, 4), "SizeMax": SIZEMAX, "Emit": "TRUE"})
    repo_scripts = res.printed("SCRIPT")
    if ctx.thorough:
        ctx.notes.append("coverage zero (GitTree): %s" % (res.coverage_zero() or "none"))
    if len(repo_scripts) < 1000:
        raise vk.Inconclusive("too few repositories enumerated: %d" % len(repo_scripts))
    res = ctx.model_check("GitCatfile", "GitCatfile_mc.cfg", timeout=3000, workers=4,
                          defines={"MaxDepth": ctx.pick(7, 8), "Emit": "TRUE"})
    cat_scripts = res.printed("SCRIPT")
    if len(cat_scripts) < 300:
        raise vk.Inconclusive("too few reader scripts: %d" % len(cat_scripts))
    all_repo, all_cat = len(repo_scripts), len(cat_scripts)
    rnd = random.Random(ctx.seed)
    nr, nc = scaled(ctx.pick(40, 300)), scaled(ctx.pick(200, all_cat))
    if len(repo_scripts) > nr:
        repo_scripts = rnd.sample(repo_scripts, nr)
    if len(cat_scripts) > nc:
        cat_scripts = rnd.sample(cat_scripts, nc)
    ctx.log("scripts from TLC: %d repositories (%d replayed per path), %d reader scripts (%d replayed)" % (
        all_repo, len(repo_scripts), all_cat, len(cat_scripts)))
    inp_repo, inp_cat = ctx.path("scripts_repo.ndjson"), ctx.path("scripts_cat.ndjson")
    vk.write_ndjson(inp_repo, [{"repo": s["repo"], "sizemax": s["sizemax"]} for s in repo_scripts])
    vk.write_ndjson(inp_cat, [{"ids": s["ids"], "ops": s["ops"]} for s in cat_scripts])

    # ------------------------------------------------------------------ drivers
    binp = ctx.go_build_test(PKG, FILES)
    runs = []
    for want, flag in (("gogit", "true"), ("catfile", "false")):
        runs.append(("replay_" + want, "^TestVerif_C14_Replay$", {"VERIF_IN": inp_repo, "ZOEKT_DISABLE_CATFILE_BATCH": flag}, want))
        runs.append(("random_" + want, "^TestVerif_C14_Random$", {"ZOEKT_DISABLE_CATFILE_BATCH": flag,
                                                                   "C14_RANDOM": scaled(ctx.pick(40, 200))}, want))
    runs.append(("catfile_reader", "^TestVerif_C14_Catfile$", {"VERIF_IN": inp_cat}, None))
    runs.append(("slab", "^TestVerif_C14_Slab$", {}, None))
    seen = {}

    def report(sig, detail):
        seen[sig] = seen.get(sig, 0) + 1
        if seen[sig] == 1:
            ctx.violation(sig, detail)

    events, origin = [], []
    for name, run_, env, want in runs:
        trace = ctx.path("trace_%s.ndjson" % name)
        prog, phase = ctx.path("c14_progress.json"), ctx.path("c15_phase.json")
        for f in (prog, phase):
            if os.path.exists(f):
                os.remove(f)
        t0 = time.time()
        rc, out = ctx.run_bin(binp, run_, env=dict(env, VERIF_OUT=trace), timeout=6000)
        ctx.log("driver %s: rc=%d in %.1fs" % (name, rc, time.time() - t0))
        if rc != 0 or "--- PASS" not in out:
            if (want and os.path.exists(prog) and os.path.exists(phase) and json.load(open(phase)) == "indexing"
                    and "--- FAIL" not in out and rc != 124):
                report("C14:%s:died" % want, {"driver": name, "scenario": json.load(open(prog)), "output_tail": out[-1500:]})
                continue
            raise vk.Inconclusive("driver %s failed:\n%s" % (name, out[-3000:]))
        evs = vk.read_ndjson(trace)
        events += evs
        origin += [name] * len(evs)

    # ------------------------------------------------------------------ V
    alltrace = ctx.path("trace_all.ndjson")
    vk.write_ndjson(alltrace, events)
    acc, rej = ctx.validate_trace_sharded("Trace_GitTree", "Trace_GitTree.cfg", alltrace, header_lines=0,
                                          shards=ctx.pick(6, 8), name="tlcs", timeout=3000)
    rejected = set()
    for r in sorted(rej, key=lambda r: (len(json.dumps(events[r["line"] - 1])), r["line"])):
        e = events[r["line"] - 1]
        rejected.add(r["line"])
        if e["ev"] == "cat":
            report("C14:" + r["why"], {"ids": e["ids"], "ops": e["ops"], "replies": e["replies"], "expected": r["expected"]["docs"]})
            continue
        if e["ev"] == "slab":
            report("C14:slab", {k: e[k] for k in ("cap", "sizes", "lens", "caps", "intact")})
            continue
        report(signature(e, r["why"], r["expected"]),
               {"driver": origin[r["line"] - 1], "wanted_path": e["want"], "path_that_ran": e["ran"], "repository": show_repo(e),
                "expected": [show_doc(d) for d in r["expected"]["docs"]],
                "observed": {"kind": e["out"]["kind"], "msg": e["out"]["msg"][:300], "docs": [show_doc(d) for d in e["out"]["docs"]]}})
    # R: TLC's printed prediction for the replayed repositories
    git = [(i, e) for i, e in enumerate(events) if e["ev"] == "git"]
    for i, e in git:
        if origin[i].startswith("replay_") and (i + 1) not in rejected:
            s = repo_scripts[e["n"]]
            if not (e["out"]["kind"] == "ok" and docset(e["out"]["docs"]) == docset(s["expect"])):
                raise vk.Inconclusive("replay step %d differs from TLC's prediction but the trace spec accepted it" % (i + 1))
    # both paths on the same repository
    by_repo = {}
    for i, e in git:
        by_repo.setdefault((origin[i].split("_")[0], e["n"]), []).append(e)
    for key, es in sorted(by_repo.items()):
        if len(es) == 2 and es[0]["out"]["kind"] == es[1]["out"]["kind"] == "ok" and docset(es[0]["out"]["docs"]) != docset(es[1]["out"]["docs"]):
            report("C14:paths-differ", {"repository": show_repo(es[0]),
                                        es[0]["ran"]: [show_doc(d) for d in es[0]["out"]["docs"]],
                                        es[1]["ran"]: [show_doc(d) for d in es[1]["out"]["docs"]]})
    for sig, n in sorted(seen.items()):
        ctx.log("signature %s: %d occurrence(s)" % (sig, n))

    # ------------------------------------------------------------------ evidence
    ran = {}
    for _, e in git:
        ran[(e["want"], e["ran"])] = ran.get((e["want"], e["ran"]), 0) + 1
    ctx.log("requested/ran: %s" % {"%s/%s" % k: v for k, v in sorted(ran.items())})
    cat_evidence = sum(v for (w, r), v in ran.items() if w == "catfile" and r == "catfile")
    gogit_evidence = sum(v for (w, r), v in ran.items() if w == "gogit" and r == "gogit")
    silently = sum(v for (w, r), v in ran.items() if w == "catfile" and r not in ("catfile", "none"))
    if silently:
        ctx.notes.append("%d cat-file runs fell back to go-git and are not counted as cat-file evidence" % silently)
    if cat_evidence == 0 or gogit_evidence == 0:
        raise vk.Inconclusive("a blob-reading path never ran: cat-file %d, go-git %d (%s)" % (cat_evidence, gogit_evidence, ran))
    ctx.traces_validated = len(events) - len(rejected)
    nontrivial = 0
    stats = {"repos_with_multi_branch_doc": 0, "repos_with_same_path_two_versions": 0, "repos_with_ignore_effect": 0,
             "repos_with_gitlink": 0, "repos_with_skipped_doc": 0, "reader_sessions": sum(1 for e in events if e["ev"] == "cat"),
             "catfile_runs_counted": cat_evidence, "gogit_runs_counted": gogit_evidence}
    for _, e in git:
        docs = e["out"]["docs"]
        names = [text(d["name"]) for d in docs]
        multi = any(len(d["branches"]) > 1 for d in docs)
        two = len(names) != len(set(names))
        nblob = sum(1 for b in e["repo"] for x in b["entries"] if x["mode"] != "submodule")
        vis = sum(len(d["branches"]) for d in docs)
        stats["repos_with_multi_branch_doc"] += multi
        stats["repos_with_same_path_two_versions"] += two
        stats["repos_with_ignore_effect"] += vis < nblob
        stats["repos_with_gitlink"] += any(x["mode"] == "submodule" for b in e["repo"] for x in b["entries"])
        stats["repos_with_skipped_doc"] += any(d["c"] < -1 for d in docs)
        if multi and (two or vis < nblob):
            nontrivial += 1
    for key in ("repos_with_multi_branch_doc", "repos_with_same_path_two_versions", "repos_with_ignore_effect",
                "repos_with_gitlink", "repos_with_skipped_doc"):
        if stats[key] == 0 and not seen:
            raise vk.Inconclusive("vacuous: no run counted for " + key)
    for _, e in rnd.sample(git, min(2, len(git))):
        ctx.sample({"repository": show_repo(e), "path": e["ran"], "docs": [show_doc(d) for d in e["out"]["docs"]]})
    ctx.assumptions += [
        "repositories are written by `git fast-import` (git 2.39); shards are projected with index.NewSearcher + "
        "Search(Const true, Whole); skip explanations are recognised by their documented text",
        "the installed git has no `cat-file --filter`: cat-file runs carry one extra LargeFiles pattern that matches nothing, "
        "so that IndexGitRepo does not ask for a size filter; the `excluded` reply of the reader is never produced",
        "submodule recursion (Options.Submodules) and delta builds are not exercised; blobs are never missing from the repository"]
    return ctx.finish(
        evaluations=len(events), distinct_nontrivial=nontrivial,
        rule="evaluations = IndexGitRepo runs (each repository once per blob-reading path) + catfileReader sessions; "
             "non-trivial = runs with a document on several branches and (two versions of one path or something left out "
             "by an ignore file)",
        exhaustive=False,
        extra=dict(stats, repositories_enumerated_by_tlc=all_repo, reader_scripts_from_tlc=all_cat,
                   repositories_replayed=len(repo_scripts)))
