"""C24 — wire conversion is lossless and the gRPC service is total.

spec/sys/Wire.tla: JsonNorm equality of value trees (null, [], {} and an absent key are identified),
the list of query node kinds, and what a handler may answer to a request shape.
M/R: spec/sys/WireGen.tla enumerates request shapes (which optional sub-messages are nil / unset,
   invalid regexp text, corrupt bitmap bytes, to depth 3) x {Search, StreamSearch, List}; every request
   is printed as a script and given to the REAL grpc Server methods in-process.
V: Trace_Wire.tla validates (rt) every seeded value of Q / SearchOptions / SearchResult (unary, stream) /
   RepoList / ListOptions survives value -> protobuf [-> bytes -> protobuf] -> value, (call) every
   handler outcome is one the spec allows (a panic is not an action), (kinds) every node kind occurred."""
import collections
import os
import re

from lib import vk

PKG = "cmd/zoekt-webserver/grpc/server"
FILES = ["c24_wire_test.go"]
INTERNAL_KINDS = {"caseQ"}      # parser-internal, never sent (query_proto.go says so)


def drive(ctx, binp, test, out, env=None, timeout=1800):
    outp = ctx.path(out)
    e = dict(env or {})
    e["VERIF_OUT"] = outp
    rc, o = ctx.run_bin(binp, "^%s$" % test, env=e, timeout=timeout)
    with open(ctx.path("driver_%s.log" % test), "w") as fh:
        fh.write(o)
    if rc != 0 or "--- PASS: " + test not in o:
        raise vk.Inconclusive("driver %s did not complete (rc=%d):\n%s" % (test, rc, o[-3000:]))
    ctx.log("driver %s done" % test)
    return outp


def spec_kinds():
    txt = open(os.path.join(vk.VERIF, "spec", "sys", "Wire.tla")).read()
    m = re.search(r"QKinds == \{(.*?)\}", txt, re.S)
    return set(re.findall(r'"(\w+)"', m.group(1)))


def source_kinds():
    """types of package query with a String() method declared in query.go = implementations of Q."""
    txt = open(os.path.join(vk.REPO, "query", "query.go")).read()
    return set(re.findall(r"^func \(\w+ \*?(\w+)\) String\(\) string", txt, re.M)) - INTERNAL_KINDS


def culprit(e):
    if e["req"] != "ok":
        return "req-" + e["req"]
    special = [t for t in e["shape"] if t in ("nil", "unset", "br-nil-elem") or t.startswith("in-") or
               t.endswith("-bad") or t.endswith("-corrupt")]
    if special:
        return special[0] + ("+opts-nil" if e["opts"] == "nil" else "")
    return "opts-nil" if e["opts"] == "nil" else "valid"


def run(ctx):
    sk, src = spec_kinds(), source_kinds()
    if src != sk:
        raise vk.Inconclusive("query node kinds in query/query.go differ from Wire.tla QKinds: only in source %s, "
                              "only in spec %s" % (sorted(src - sk), sorted(sk - src)))
    res = ctx.model_check("WireGen", "WireGen_mc.cfg", name="tlc_gen", timeout=1800, workers=2,
                          defines={"Emit": "TRUE", "Full": ctx.pick("FALSE", "TRUE")})
    scripts = res.printed("SCRIPT")
    scripts.sort(key=lambda s: (s["method"], s["req"], s["shape"], s["opts"]))
    if len(scripts) < 500:
        raise vk.Inconclusive("too few request scripts from TLC: %d" % len(scripts))
    ctx.log("request shapes from TLC: %d" % len(scripts))
    inp = ctx.path("scripts.ndjson")
    vk.write_ndjson(inp, scripts)

    binp = ctx.go_build_test(PKG, FILES)
    t_rt = drive(ctx, binp, "TestVerif_C24_RoundTrip", "trace_rt.ndjson")
    t_call = drive(ctx, binp, "TestVerif_C24_Calls", "trace_call.ndjson", env={"VERIF_IN": inp})
    events = vk.read_ndjson(t_rt) + vk.read_ndjson(t_call)
    trace = ctx.path("trace_all.ndjson")
    vk.write_ndjson(trace, events)

    acc, rej = ctx.validate_trace("Trace_Wire", "Trace_Wire.cfg", trace, name="tlc_trace", timeout=3000)
    bad = set()
    for r in rej:
        e = events[r["line"] - 1]
        bad.add(r["line"])
        if e["ev"] == "rt":
            mode = "" if e["mode"] == "direct" else "-wire"
            if r["why"] == "lossy":
                sig = "C24:lossy%s:%s:%s" % (mode, e["typ"], ".".join(r["expected"]))
            else:
                m = re.search(r"unknown query node \*?query\.(\w+)", e["msg"])
                what = m.group(1) if m else (e["kinds"][0] if len(e["kinds"]) == 1 else "-")
                sig = "C24:%s%s:%s:%s" % (e["out"], mode, e["typ"], what)
            ctx.violation(sig, {"why": r["why"], "type": e["typ"], "mode": e["mode"], "outcome": e["out"],
                                "msg": e["msg"][:300], "kinds": e["kinds"], "path": r["expected"],
                                "before": e["before"], "after": e["after"]})
        elif e["ev"] == "call":
            if e["out"] == "panic":
                # one signature per method, function that panicked and kind of panic
                kind = ("nil-deref" if "nil pointer dereference" in e["msg"] else
                        "unknown-node" if "unknown query node" in e["msg"] else "other")
                sig = "C24:panic:%s:%s:%s" % (e["method"], e["fn"] or "-", kind)
            else:
                sig = "C24:%s:%s:%s" % (e["out"], e["method"], culprit(e))
            ctx.violation(sig, {"method": e["method"], "request": e["req"], "shape": e["shape"], "opts": e["opts"],
                                "outcome": e["out"], "code": e["code"], "msg": e["msg"], "missing_or_bad_part": culprit(e),
                                "allowed": r["expected"]})
        else:
            ctx.violation("C24:registry", {"driver": e["registry"], "spec": r["expected"]})
    ctx.traces_validated = len(events) - len(bad)

    log = open(ctx.path("tlc_trace", "tlc_%d_Trace_Wire.log" % (len(ctx.tlc_runs) - 1))).read()
    m = re.search(r'^<<"MISSING", (".*")>>$', log, re.M)
    if not m:
        raise vk.Inconclusive("the trace has no kinds event")
    missing = vk.tla_unquote(vk.tla_unquote(m.group(1)))
    if missing:
        raise vk.Inconclusive("query node kinds without any round-trip event: %s" % (missing,))

    rt = [e for e in events if e["ev"] == "rt"]
    calls = [e for e in events if e["ev"] == "call"]
    kinds = [e for e in events if e["ev"] == "kinds"][0]["counts"]
    per_type = collections.Counter("%s/%s" % (e["typ"], e["mode"]) for e in rt)
    call_out = collections.Counter("%s/%s" % (e["method"], e["out"]) for e in calls)
    nontrivial = len({(e["method"], tuple(e["shape"]), e["opts"]) for e in calls if e["req"] == "ok" and culprit(e) != "valid"}) \
        + sum(1 for e in rt if e["mode"] == "direct" and (e["typ"] != "Q" or len(e["kinds"]) > 1))
    ctx.sample({"call": {k: calls[len(calls) // 2][k] for k in ("method", "req", "shape", "opts", "out", "code")}})
    ctx.sample({"round_trip": {k: rt[len(rt) // 2][k] for k in ("typ", "mode", "kinds", "out")}})
    ctx.assumptions.append("values are rendered to trees by the driver with reflection (all fields, unexported too); "
                           "regexps are compared by their printed form; SearchResult.RepoURLs/LineFragments are handed "
                           "to FromProto by its caller (API); SearchOptions.SpanContext is declared not-on-wire in Wire.tla")
    sigs = collections.Counter(v["signature"] for v in ctx.violations)
    for sig, n in sorted(sigs.items()):
        ctx.log("violation signature %-70s x %d" % (sig, n))
    return ctx.finish(
        evaluations=len(rt) + len(calls), distinct_nontrivial=nontrivial,
        rule="evaluations = round-trip events (value -> proto [-> bytes -> proto] -> value, validated by Trace_Wire.tla) "
             "+ handler calls with TLC-enumerated request shapes; non-trivial = distinct requests with a missing or "
             "meaningless part + round-tripped values other than single-node queries",
        exhaustive=False,
        extra={"violation_signatures": dict(sigs), "request_shapes_from_tlc": len(scripts), "round_trips_per_type": dict(per_type),
               "query_kind_counts": kinds, "handler_outcomes": dict(call_out)})
