"""C13 — delta builds expose the same per-branch content as full builds.

M: spec/sys/Delta.tla model-checked (commits on 2 branches interleaved with normal and delta
   indexing runs; BranchViews / SameAsFull / Fresh / FullIsClean) in three families:
   core (one branch list, one option set), fallback (branch list / option hash / shard
   threshold vary, the code abandons the delta build), ignore (an ignore file is in play).
R: TLC prints one script per explored indexing transition (history of the representative
   state + the run); a seeded sample of the longest ones (the prefixes are validated run by
   run on the way) is materialised as a real git repository and replayed through IndexGitRepo.
V: after every run the per-branch search views and the shard structure are recorded and
   validated by Trace_Delta.tla (property on the observation, structure against DeltaOps);
   seeded random histories beyond the model's bounds go the same way."""
import json
import random

from lib import vk

PKG = "gitindex"
FILES = ["c13_delta_test.go"]

P2 = '{"a.txt", "d/b.txt"}'
P3 = '{"a.txt", "d/b.txt", "c.txt"}'
PIG = '{".sourcegraph/ignore", "d/b.txt"}'
PIG3 = '{".sourcegraph/ignore", "d/b.txt", "a.txt"}'

PROPERTY_WHYS = ("view:extra-path", "view:branch-not-indexed", "view:stale-content", "view:missing",
                 "view:duplicate", "index-error", "version", "ignored-path-indexed-by-delta")


def defs(paths, maxc, maxr, mode, emit):
    return {"Paths": paths, "MaxCommits": maxc, "MaxRuns": maxr, "CommitMode": '"%s"' % mode,
            "Emit": "TRUE" if emit else "FALSE"}


def runs_of(sc):
    return [o for o in sc["ops"] if o["op"] == "index"]


def categories(s):
    """what a history exercises between an indexing run and the DELTA request that follows it."""
    cats = set()
    r = runs_of(s)
    for prev, cur in zip(r, r[1:]):
        if not cur["delta"]:
            continue
        if prev["brs"] != cur["brs"]:
            cats.add("brs-order" if sorted(prev["brs"]) == sorted(cur["brs"]) else "brs-set")
        if prev["opt"] != cur["opt"]:
            cats.add("opt")
        if cur["thr"] > 0:
            cats.add("thr")
        if prev["brs"] == cur["brs"] and prev["opt"] == cur["opt"]:
            cats.add("plain")
    if s.get("dev"):
        cats.add("dev")
    return cats or {"none"}


def select(scripts, n, rng, want_runs):
    """the longest histories (every run inside them is validated, so their prefixes are covered
    on the way), preferring those with delta runs late; the categories (plain delta, branch
    list reordered / changed, option hash changed, shard threshold, model-predicted deviation)
    are served round-robin so that every fallback reason is replayed in every run."""
    key = lambda s: json.dumps(s["ops"], sort_keys=True)
    full = [s for s in scripts if len(runs_of(s)) >= want_runs]
    full.sort(key=key)
    rng.shuffle(full)

    def weight(s):
        r = runs_of(s)
        return sum(1 for x in r[1:] if x["delta"]) * 2 + sum(1 for o in s["ops"] if o["op"] == "commit")
    full.sort(key=weight, reverse=True)
    by_cat = {}
    for i, s in enumerate(full):
        for c in categories(s):
            by_cat.setdefault(c, []).append(i)
    chosen, taken, order = [], set(), sorted(by_cat)
    k = (2 * n) // 3
    while len(chosen) < k and any(by_cat[c] for c in order):
        for c in order:
            while by_cat[c] and by_cat[c][0] in taken:
                by_cat[c].pop(0)
            if by_cat[c] and len(chosen) < k:
                taken.add(by_cat[c][0])
                chosen.append(by_cat[c].pop(0))
    rest = [i for i in range(len(full)) if i not in taken]
    chosen += rng.sample(rest, min(n - len(chosen), len(rest)))
    return [full[i] for i in chosen]


def run(ctx):
    rng = random.Random(ctx.seed)
    T = ctx.thorough
    # ------------------------------------------------------------------ M (+ script generation)
    # the generating runs are model-checking runs (invariants and action properties are checked
    # while the scripts are printed); thorough adds deeper runs without printing
    def gen(cfg, d, **kw):
        g = ctx.tlc("Delta", cfg, timeout=14400, defines=d, **kw)
        if not g.ok:
            raise vk.Inconclusive("model %s does not satisfy its properties (%s); see %s" % (
                cfg, g.invariant or g.error or "deadlock", g.log))
        return g

    families = []
    m1 = gen("Delta_mc.cfg", defs(P2, 3, 3, "tree", True))
    families.append(("core", m1.printed("SCRIPT"), ctx.pick(50, 400), 3))
    g = gen("Delta_fallback.cfg", defs(P2, 2, 3, "atomic", True))
    families.append(("fallback", g.printed("SCRIPT"), ctx.pick(30, 200), 3))
    g = gen("Delta_ignore.cfg", defs(PIG3 if T else PIG, 3, ctx.pick(2, 3), "tree", True))
    families.append(("ignore", g.printed("SCRIPT"), ctx.pick(15, 100), ctx.pick(2, 3)))
    if T:
        m1 = ctx.model_check("Delta", "Delta_mc.cfg", timeout=14400, defines=defs(P2, 4, 3, "tree", False))
        ctx.model_check("Delta", "Delta_mc.cfg", timeout=14400, defines=defs(P3, 4, 3, "atomic", False))
        ctx.model_check("Delta", "Delta_ignore.cfg", timeout=14400, defines=defs(PIG, 4, 3, "tree", False))
        g = ctx.tlc("Delta", "Delta_mc.cfg", timeout=14400, count=False, simulate="num=400", depth=11, seed=ctx.seed,
                    defines=defs(P3, 6, 5, "atomic", True))
        if not g.ok:
            raise vk.Inconclusive("simulation failed: %s" % g.log)
        families.append(("sim3", g.printed("SCRIPT"), 300, 4))
    # the strict property must fail in the ignore family (the named deviation is reachable)
    res = ctx.tlc("Delta", "Delta_ignore_strict.cfg", timeout=1800, count=False, defines=defs(PIG, 3, 2, "tree", False))
    if res.invariant != "BranchViewsStrict":
        raise vk.Inconclusive("the ignore-file deviation is not reachable in the model (vacuous): %s" % res.log)
    # ... and hold when delta builds apply the unchanged ignore file (the proposed fix; thorough)
    if T:
        ctx.model_check("Delta", "Delta_ignore_fixed.cfg", timeout=14400, count=False, defines=defs(PIG, 3, 3, "tree", False))

    scripts = []
    fam_of = []
    total_printed = 0
    for name, scs, n, want_runs in families:
        if not scs:
            raise vk.Inconclusive("no scripts generated for family " + name)
        total_printed += len(scs)
        sel = select(scs, n, rng, want_runs)
        if len(sel) < min(n, 10):
            raise vk.Inconclusive("too few scripts for family %s: %d" % (name, len(sel)))
        ctx.log("family %s: %d scripts printed by TLC, %d replayed" % (name, len(scs), len(sel)))
        scripts += sel
        fam_of += [name] * len(sel)
    inp = ctx.path("scripts.ndjson")
    vk.write_ndjson(inp, scripts)
    ctx.sample({"script": scripts[0]["ops"]})

    # ------------------------------------------------------------------ replay + validate
    total_runs = 0
    nontrivial = set()
    conform = []
    binp = ctx.go_build_test(PKG, FILES)      # one link for both drivers
    for name, run_, env in (("replay", "^TestVerif_C13_Replay$", {"VERIF_IN": inp}),
                            ("random", "^TestVerif_C13_Random$", {})):
        trace = ctx.path("trace_%s.ndjson" % name)
        env = dict(env, VERIF_OUT=trace)
        rc, out = ctx.run_bin(binp, run_, env=env, timeout=14400)
        with open(ctx.path("driver_%s.log" % name), "w") as fh:
            fh.write(out)
        if rc != 0 or "--- PASS" not in out:
            zp = vk.zoekt_panic(out)
            if zp:
                # the real code panicked on an index that the real indexer built from the script's history
                ctx.violation("C13:panic:%s" % zp[1], {"driver": name, "panic": zp[0], "output": out[out.find("panic: "):][:2500]})
                continue
            raise vk.Inconclusive("driver %s failed:\n%s" % (name, out[-3000:]))
        ctx.log("driver %s done" % name)
        events = vk.read_ndjson(trace)
        acc, rej = ctx.validate_trace("Trace_Delta", "Trace_Delta.cfg", trace, name="tlc_" + name, timeout=14400)
        start, h = {}, -1
        for i, e in enumerate(events):
            if e["ev"] == "reset":
                h += 1
                start[h] = i
            e["_h"] = h
        nhist = h + 1
        bad_h = set()
        seen_sig = {}
        for r in rej:
            e = events[r["line"] - 1]
            hno = e["_h"]
            why = r["why"]
            hist = [{k: v for k, v in x.items() if k in ("ev", "branch", "tree", "delta", "brs", "opt", "thr")}
                    for x in events[start[hno] + 1:r["line"]]]
            detail = {"driver": name, "family": fam_of[hno] if name == "replay" else "random", "line": r["line"],
                      "why": why, "expected": r["expected"], "history": hist,
                      "observed": {k: e.get(k) for k in ("err", "full", "tried_delta", "views", "shards")}}
            if why.startswith("harness:"):
                raise vk.Inconclusive("harness problem in %s: %s" % (name, json.dumps(detail)[:2000]))
            if why.startswith("conform:"):
                conform.append(detail)
                continue
            bad_h.add(hno)
            sig = "C13:" + why
            seen_sig[sig] = seen_sig.get(sig, 0) + 1
            # report the shortest history per signature first: collect, emit below
            seen_sig.setdefault("_d_" + sig, [])
            seen_sig["_d_" + sig].append(detail)
        for sig in sorted(k for k in seen_sig if not k.startswith("_d_")):
            ds = sorted(seen_sig["_d_" + sig], key=lambda d: (len(d["history"]), d["line"]))
            d = ds[0]
            d["occurrences"] = seen_sig[sig]
            ctx.violation(sig, d)
        ctx.traces_validated += nhist - len(bad_h)
        for e in events:
            if e["ev"] != "index":
                continue
            total_runs += 1
            if e["tried_delta"] and not e["full"] and any(s["tomb"] for s in e["shards"]) and len(e["shards"]) >= 2:
                nontrivial.add(json.dumps([e["shards"], e["views"]], sort_keys=True))
        if name == "random":
            ctx.sample({"random_history": [{k: v for k, v in x.items() if k in ("ev", "branch", "tree", "delta", "brs")}
                                           for x in events[start[0] + 1:start.get(1, len(events))]][:10]})
    if conform and not ctx.violations and not ctx.known_hits:
        raise vk.Inconclusive("the code's shard structure / fallback decision differs from DeltaOps in %d runs although "
                              "every per-branch view is right (model out of date?): %s" % (
                                  len(conform), json.dumps(conform[0])[:2500]))
    if len(nontrivial) < 20 and not ctx.violations:
        raise vk.Inconclusive("vacuous: only %d distinct delta runs that tombstoned something" % len(nontrivial))
    ctx.assumptions += [
        "git CLI (2.39) builds the repositories; its ls-tree output is the source of the heads in the trace",
        "one shard per build (ShardMax is never reached); ctags disabled; no submodules",
        "ignore-file semantics limited to one literal path pattern",
    ]
    return ctx.finish(
        evaluations=total_runs, distinct_nontrivial=len(nontrivial),
        rule="evaluations = IndexGitRepo runs on real git repositories whose per-branch search views, shard "
             "structure, fallback decision and recorded versions were validated by Trace_Delta.tla; scripts = "
             "seeded sample of the longest histories among one-per-indexing-transition printed by TLC from "
             "Delta.tla (families core, fallback, ignore; thorough adds simulated longer histories over 3 paths), "
             "plus seeded random histories over up to 3 branches, 5 paths, 3 contents; non-trivial = distinct "
             "(shard structure, views) outcomes of delta runs without fallback that left a tombstone in an older "
             "shard next to at least one delta shard",
        exhaustive=False,
        extra={"scripts_printed_by_tlc": total_printed, "scripts_replayed": len(scripts),
               "model_states_core": m1.distinct})
