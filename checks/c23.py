"""C23 — tenants never see another tenant's repositories (strict enforcement).
Spec: QuerySem!VisibleTo / Trace_Search!CheckTenant: every repository name or id occurring in
any channel of a reply (Files, RepoURLs, LineFragments, sub-repository names, List.Repos,
List.ReposMap) must be visible to the requesting context (tenant k sees tenant k's live
repositories, no tenant sees nothing, the system context sees everything); file matches equal
QuerySem!Answer under that visibility.  V: compound shards mixing tenants 1..3; Search,
StreamSearch (every streamed event), List (both field modes) on shard and directory searchers."""
import os
from checks import searchsem
from lib import vk


def run(ctx):
    ctx.level = "exploration"
    searchsem.FILES.append("c23_tenant_test.go")
    runs = [("TestVerif_C23_Tenant", {"VERIF_CORPORA": ctx.pick(12, 150)})]

    def classify(sig, e, events, line, rej=None):
        if sig == "C23:leak:name" and rej:
            ch = sorted(set(rej["expected"].get("channels", [])))
            return "C23:leak:name:" + "+".join(ch)
        return sig
    total, searches, nt = searchsem.run_family(ctx, "C23", "Trace_Search_c23.cfg", runs, "c23", lambda e: False,
                                               timeout=ctx.pick(1500, 5000), classify=classify)
    events = vk.read_ndjson(os.path.join(ctx.work, "trace_TestVerif_C23_Tenant.ndjson"))
    tev = [e for e in events if e["ev"] == "tenant"]
    # non-trivial: a tenant request whose corpus holds repositories of another tenant and whose reply names something
    nontriv = sum(1 for e in tev if e["who"] in ("t1", "t2") and (e["names"] or e["ids"]))
    ctx.traces_validated += len(tev)
    x = [e for e in tev if e["names"]][0]
    ctx.sample({"who": x["who"], "op": x["op"], "query": x["qs"], "names": sorted({"".join(map(chr, n["name"])) for n in x["names"]})})
    return ctx.finish(evaluations=len(tev), distinct_nontrivial=nontriv,
                      rule="replies (search, each streamed event, list in both field modes) for contexts tenant 1, tenant 2, no tenant, "
                           "system over corpora mixing three tenants; non-trivial = replies to a tenant that name at least one repository",
                      extra={"events": total})
