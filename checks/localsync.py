"""Shared orchestration of C33 and C34 (zoekt-local-sync), one model: spec/sys/LocalSync.tla.

M: LocalSync.tla model-checked (properties quantified over every command in every reachable state).
R: TLC prints one script per explored (state, command): the history of the state, then for C33 the
   preview followed by the same command with -f, for C34 the -f command (a sync twice), each command
   step with the predicted outcome / announcement / index.  A seeded, stratified sample is replayed on
   real directories with real git repositories through the real execute(); predictions are compared.
V: everything the driver recorded (replayed scripts and seeded random longer histories over more names,
   repositories and commits) is validated by Trace_LocalSync.tla, which recomputes every expectation
   with the operators of LocalSyncOps.tla; previews must show no mutating syscall below the index
   directory (strace) and an unchanged hash+mtime snapshot."""
import concurrent.futures
import json
import random

from lib import vk

PKG = "cmd/zoekt-local-sync"
FILES = ["c33_localsync_test.go"]

# which rejection reasons belong to which property (by kind of command the event is)
PREVIEW_WHYS = {"outcome", "preview-changed", "side-effect", "unstable", "announce-stale-same-head", "announce",
                "announce-files", "wording"}
FORCE_WHYS = {"outcome", "failure-changed", "converge", "remove-exact", "announce", "announce-files", "remove-files",
              "files-untouched", "orphans", "wording"}
R_WHYS = {"outcome", "preview-changed", "failure-changed", "converge", "remove-exact", "announce",
          "announce-stale-same-head"}

CONSTS = {"Names": '{"a","b"}', "MaxRepos": 3, "MaxHead": 2, "Foreign": "TRUE"}


def defines(depth, emit, mod=1):
    d = dict(CONSTS)
    d["MaxDepth"] = depth
    d["Emit"] = '"%s"' % emit
    d["EmitMod"] = mod
    return d


# --------------------------------------------------------------------------- helpers on scripts
def recs(lst):
    return {(x["name"], x["src"], x["head"]) for x in lst}


def pairs(lst):
    return {(x["name"], x["src"]) for x in lst}


def cmd_steps(sc):
    return [s for s in sc["steps"] if s["t"] == "cmd"]


def tags(sc, pid):
    """classes used for the stratified sample and for the non-triviality count."""
    t = set()
    steps = sc["steps"]
    final = cmd_steps(sc)[-2:] if pid == "C33" else [cmd_steps(sc)[-2 if steps[-1]["c"]["op"] == "sync" else -1]]
    s = final[0]
    c, pred, pre = s["c"], s["pred"], s["pre"]
    t.add(c["op"])
    if not pred["ok"]:
        for e in pred["errs"]:
            t.add("fail:" + e)
    else:
        a = pred["ann"]
        prenames = {x["name"] for x in pre}
        if a["remove"]:
            t.add("prune" if c["op"] == "sync" else "removed")
        if any(x["name"] in prenames for x in a["index"]):
            t.add("reindex")
        if any(x["name"] not in prenames for x in a["index"]):
            t.add("index-new")
        if a["uptodate"]:
            t.add("uptodate")
        if a["remove"] and a["uptodate"]:
            t.add("prune+uptodate")
        rm = pairs(a["remove"])
        post = {x["name"]: x["head"] for x in final[-1]["pred"]["index"]}   # after the -f run
        for x in pre:
            if (x["name"], x["src"]) in rm and c["op"] == "sync" and post.get(x["name"]) == x["head"]:
                t.add("stale-same-head")
                # two ways a name can be taken over at the same head: the record's source is still
                # discovered (under another name: "renamed") or it is gone ("moved")
                postsrc = {y["src"] for y in final[-1]["pred"]["index"]}
                t.add("stale:renamed" if x["src"] in postsrc else "stale:moved")
        if not (a["remove"] or a["index"] or a["uptodate"]):
            t.add("noop")
    if c["op"] == "sync":
        if 3 in c["roots"]:
            t.add("root3")
        if len(c["roots"]) > 1:
            t.add("two-roots")
    else:
        if any(x["by"] == "src" for x in c["sels"]):
            t.add("by-src")
        if len(c["sels"]) > 1:
            t.add("multi-sel")
    for st in steps:
        if st["t"] == "env":
            a = st["a"]
            t.add("env:" + a["act"])
            if a["act"] != "foreign":
                t.add("kind:" + (a["k2"] or a["k"]))
    t.add("len:%d" % len(steps))
    return t


def nontrivial(sc, pid):
    t = tags(sc, pid)
    return "noop" not in t and not (t & {"fail:not-found"} and len(sc["steps"]) <= 2)


PRIORITY = ["stale:renamed", "stale:moved", "stale-same-head", "fail:dup-name", "fail:dup-src", "fail:not-found", "prune", "prune+uptodate", "reindex",
            "removed", "by-src", "multi-sel", "root3", "two-roots", "kind:self", "kind:bare", "kind:nest", "env:foreign",
            "env:rename", "env:move", "env:commit", "env:clone", "env:del", "uptodate", "index-new"]


def sample(scripts, pid, n, seed):
    rng = random.Random(seed * 7919 + (33 if pid == "C33" else 34))
    order = list(range(len(scripts)))
    rng.shuffle(order)
    tg = {i: tags(scripts[i], pid) for i in order}
    chosen, seen = [], set()
    quota = max(2, n // 24)

    def take(i):
        if i not in seen:
            seen.add(i)
            chosen.append(i)

    for p in PRIORITY:
        k = 0
        for i in order:
            if len(chosen) >= n or k >= (3 * quota if p.startswith("stale") else quota):
                break
            if p in tg[i]:
                if i not in seen:
                    take(i)
                k += 1
    for i in order:
        if len(chosen) >= n:
            break
        if "noop" not in tg[i]:
            take(i)
    return [scripts[i] for i in chosen]


# --------------------------------------------------------------------------- verdict helpers
def is_quiet(c, pred):
    return (not c["force"]) or (not pred["ok"])


def r_compare(step, ev):
    """python-side R comparison of one command event with the script's prediction -> why | None"""
    c, pred = step["c"], step["pred"]
    if ev["ok"] != pred["ok"] or (not ev["ok"] and ev["err"] not in pred["errs"]):
        return "outcome"
    if is_quiet(c, pred):
        if recs(ev["post"]) != recs(ev["pre"]) or ev["deleted"] or ev["created"] or ev["modified"]:
            return "failure-changed" if c["force"] else "preview-changed"
    elif recs(ev["post"]) != recs(pred["index"]):
        return "converge" if c["op"] == "sync" else "remove-exact"
    a = pred["ann"]
    if (pairs(ev["annrm"]), pairs(ev["annix"]), pairs(ev["annutd"])) != (pairs(a["remove"]), pairs(a["index"]),
                                                                         pairs(a["uptodate"])):
        return "announce"
    return None


def signature(pid, why, ev, expected):
    c = ev["c"]
    sig = "%s:%s:%s%s" % (pid, why, c["op"], "" if c["force"] else "-preview")
    if expected and not expected.get("ok", True):
        sig += ":" + "+".join(sorted(expected.get("errs", [])))
    if why == "side-effect":
        sig += ":" + (ev["muts"][0].split("(")[0] if ev["muts"] else ("snapshot" if not ev["snapeq"] else "untraced"))
    return sig


def split_histories(events):
    hs, cur = [], None
    for i, e in enumerate(events):
        if e["ev"] == "reset":
            cur = {"id": e["id"], "shard": e["shard"], "start": i, "events": []}
            hs.append(cur)
        elif cur is not None:
            cur["events"].append((i, e))
    return hs


def brief(e):
    if e["ev"] == "env":
        a = e["a"]
        return {k: v for k, v in a.items() if v not in (0, "")}
    c = e["c"]
    return {"op": c["op"], "force": c["force"], "roots": c["roots"], "sels": c["sels"]}


class Findings:
    def __init__(self, ctx, pid):
        self.ctx, self.pid = ctx, pid
        self.by_sig = {}
        self.other = {}
        self.unparsed = None

    def add(self, sig, detail, hist_len):
        cur = self.by_sig.get(sig)
        if cur is None or hist_len < cur[1]:
            self.by_sig[sig] = [detail, hist_len, (cur[2] if cur else 0) + 1]
        else:
            cur[2] += 1

    def flush(self):
        for sig in sorted(self.by_sig):
            detail, _, count = self.by_sig[sig]
            detail["occurrences"] = count
            self.ctx.violation(sig, detail)


def judge(ctx, pid, name, events, rejected, scripts_by_id, findings):
    """turn trace-spec rejections (V) and prediction mismatches (R) into violations of `pid`.
    returns (validated histories, commands, set of non-trivial history ids)"""
    hs = split_histories(events)
    rej_by_line = {r["line"]: r for r in rejected}
    validated = 0
    for h in hs:
        bad = False
        first_rej = None
        for i, e in h["events"]:
            if (i + 1) in rej_by_line:
                first_rej = (i, e, rej_by_line[i + 1])
                break
        for i, e in h["events"]:
            if e["ev"] == "cmd" and e["unparsed"] and not findings.unparsed:
                findings.unparsed = "%s: output line(s) the driver does not understand: %r" % (name, e["unparsed"][:3])
        # R: predictions of the state machine
        sc = scripts_by_id.get(h["id"]) if scripts_by_id else None
        r_first = None
        if sc is not None:
            if len(sc["steps"]) != len(h["events"]):
                raise vk.Inconclusive("%s: script %d has %d steps but %d events" % (name, h["id"], len(sc["steps"]), len(h["events"])))
            for st, (i, e) in zip(sc["steps"], h["events"]):
                if st["t"] != "cmd":
                    continue
                w = r_compare(st, e)
                if w:
                    r_first = (i, e, w)
                    break
            # R and V are computed from the same operators: they must agree on R's checks
            v_line = first_rej[0] if first_rej else None
            v_r = first_rej is not None and (set(first_rej[2]["all"]) & R_WHYS)
            if r_first and (first_rej is None or v_line > r_first[0]):
                raise vk.Inconclusive("%s: script %d: prediction mismatch (%s) not seen by the trace spec" % (name, h["id"], r_first[2]))
            if v_r and (r_first is None or r_first[0] > v_line):
                raise vk.Inconclusive("%s: script %d: trace spec rejects (%s) what the script predicted" % (name, h["id"], first_rej[2]["all"]))
        if first_rej is not None:
            i, e, r = first_rej
            if "pre-state" in r["all"]:
                raise vk.Inconclusive("%s: history %d: projected index before a command differs from the model state "
                                      "although every earlier event was accepted" % (name, h["id"]))
            force = e["c"]["force"]
            mine = set()
            for w in r["all"]:
                if w == "faithful":
                    if pid == "C33":
                        mine.add(w)
                elif force and pid == "C34" and w in FORCE_WHYS:
                    mine.add(w)
                elif not force and pid == "C33" and w in PREVIEW_WHYS:
                    mine.add(w)
            hist = [brief(x) for _, x in h["events"] if _ <= i]
            if mine:
                bad = True
                order = [r["why"]] + sorted(mine)
                why = next(w for w in order if w in mine)
                obs = {k: e[k] for k in ("ok", "err", "msg", "annrm", "annix", "annutd", "pre", "post", "deleted", "created",
                                         "modified", "orphans", "muts", "snapeq", "childsame", "passf")}
                findings.add(signature(pid, why, e, r["expected"]),
                             {"driver": name, "history_id": h["id"], "shard_limit": h["shard"], "failed_checks": r["all"],
                              "history": hist, "expected": r["expected"], "observed": obs}, len(hist))
            else:
                bad = True   # not validated, but the failed checks belong to the sibling property
                key = ",".join(sorted(r["all"]))
                findings.other[key] = findings.other.get(key, 0) + 1
        if not bad:
            validated += 1
    return validated


def count_nontrivial(pid, events):
    """measured on what ran: C33 = previews that announced work or had to fail;
    C34 = -f commands that changed the index or had to fail on duplicates / a missing selector."""
    n = 0
    kinds = {}
    for e in events:
        if e["ev"] != "cmd":
            continue
        c = e["c"]
        if pid == "C33" and not c["force"]:
            if e["annrm"] or e["annix"] or not e["ok"]:
                n += 1
                k = "fail" if not e["ok"] else ("remove" if e["annrm"] else "") + ("index" if e["annix"] else "")
                kinds[k] = kinds.get(k, 0) + 1
        if pid == "C34" and c["force"]:
            if recs(e["pre"]) != recs(e["post"]) or not e["ok"]:
                n += 1
                k = "fail:" + e["err"] if not e["ok"] else c["op"]
                kinds[k] = kinds.get(k, 0) + 1
    return n, kinds


# --------------------------------------------------------------------------- main
def run(ctx, pid):
    emit_depth = ctx.pick(3, 4)
    n_scripts = ctx.pick(56, 300)
    n_random = ctx.pick(10, 80)
    workers = ctx.pick(4, 6)

    with concurrent.futures.ThreadPoolExecutor(max_workers=4) as ex:
        f_bin = ex.submit(ctx.go_build_test, PKG, FILES)
        # M: exhaustive; properties are quantified over every command in every reachable state
        f_mc = ex.submit(ctx.model_check, "LocalSync", "LocalSync_mc.cfg", name="tlc_mc", timeout=1800, workers=4,
                         defines=defines(ctx.pick(4, 5), "none"))
        # R: one script per explored (state, command)
        # (one worker: breadth-first order, hence the printed histories, are the same in every run => --seed reproduces)
        f_emit = ex.submit(ctx.tlc, "LocalSync", "LocalSync_emit.cfg", name="tlc_emit", timeout=1800, workers=1, count=False,
                           defines=defines(emit_depth, pid, ctx.pick(1, 7)))
        # design-level statement of the named deviation (finding C33-F1); informative only
        f_strict = ex.submit(ctx.tlc, "LocalSync", "LocalSync_strict.cfg", name="tlc_strict", timeout=900, workers=2,
                             count=False, defines=defines(3, "none")) if pid == "C33" else None
        mc, res, binp = f_mc.result(), f_emit.result(), f_bin.result()
        strict = f_strict.result() if f_strict else None
    if strict is not None:
        ctx.notes.append("LocalSync_strict.cfg (preview as the code computes it): %s" % (
            "invariant %s violated at model level (finding C33-F1)" % strict.invariant if strict.invariant else "no counterexample"))
    if not res.ok:
        raise vk.Inconclusive("script generation failed: %s" % res.log)
    scripts = res.printed("SCRIPT")
    if len(scripts) < 1000:
        raise vk.Inconclusive("too few scripts generated: %d" % len(scripts))
    chosen = sample(scripts, pid, n_scripts, ctx.seed)
    rng = random.Random(ctx.seed)
    for i, sc in enumerate(chosen):
        sc["id"] = i + 1
        sc["shard"] = 300 if rng.random() < 0.5 else 0
    ctx.log("scripts from TLC: %d, replaying %d (seeded stratified sample)" % (len(scripts), len(chosen)))
    inp = ctx.path("scripts.ndjson")
    vk.write_ndjson(inp, [{"id": s["id"], "shard": s["shard"],
                           "steps": [{"t": st["t"], "a": st.get("a"), "c": st.get("c")} for st in s["steps"]]} for s in chosen])
    ctx.sample({"script": [brief({"ev": st["t"], "a": st.get("a"), "c": st.get("c")}) for st in chosen[0]["steps"]]})

    findings = Findings(ctx, pid)
    total_cmds = 0
    nontriv = 0
    kinds_all = {}
    tag_cov = {}
    for s in chosen:
        for t in tags(s, pid):
            tag_cov[t] = tag_cov.get(t, 0) + 1
    for name, run_, env, by_id in (
            ("replay", "^TestVerif_C33_Replay$", {"VERIF_IN": inp}, {s["id"]: s for s in chosen}),
            ("random", "^TestVerif_C33_Random$", {"VERIF_C33_N": n_random, "VERIF_C33_MODE": pid}, None)):
        trace = ctx.path("trace_%s.ndjson" % name)
        env = dict(env)
        env.update({"VERIF_OUT": trace, "VERIF_C33_WORKERS": workers})
        rc, out = ctx.run_bin(binp, run_, env=env, timeout=ctx.pick(900, 3600))
        with open(ctx.path("driver_%s.log" % name), "w") as fh:
            fh.write(out)
        if rc != 0:
            raise vk.Inconclusive("driver %s failed (rc=%d):\n%s" % (name, rc, out[-3000:]))
        events = vk.read_ndjson(trace)
        ctx.log("driver %s: %d events" % (name, len(events)))
        acc, rej = ctx.validate_trace("Trace_LocalSync", "Trace_LocalSync.cfg", trace, name="tlc_" + name, timeout=1800)
        validated = judge(ctx, pid, name, events, rej, by_id, findings)
        ctx.traces_validated += validated
        total_cmds += sum(1 for e in events if e["ev"] == "cmd")
        n, kinds = count_nontrivial(pid, events)
        nontriv += n
        for k, v in kinds.items():
            kinds_all[k] = kinds_all.get(k, 0) + v
        if name == "random":
            hs = split_histories(events)
            if hs:
                ctx.sample({"random_history": [brief(e) for _, e in hs[0]["events"]][:10]})
    findings.flush()
    if findings.unparsed and not ctx.violations and not ctx.known_hits:
        raise vk.Inconclusive(findings.unparsed)
    if findings.other:
        ctx.notes.append("rejections that belong to the sibling property (not counted here): %s" % json.dumps(findings.other))
    need = ["stale-same-head", "fail:dup-name", "fail:dup-src", "prune", "reindex", "root3", "kind:self", "kind:bare", "kind:nest"]
    missing = [t for t in need if not tag_cov.get(t)]
    if missing:
        raise vk.Inconclusive("sample does not cover the classes %s" % missing)
    if nontriv < ctx.pick(30, 300):
        raise vk.Inconclusive("too few non-trivial commands executed: %d" % nontriv)
    rule = ("scripts = one per (state, command) TLC explored in LocalSync.tla, seeded stratified sample replayed on real "
            "directories + git repositories, plus seeded random longer histories; evaluations = zoekt-local-sync commands "
            "executed in-process (previews once more as a child under strace) and validated by Trace_LocalSync.tla; ")
    rule += ("non-trivial = previews that announced a removal or (re)indexing, or had to fail" if pid == "C33" else
             "non-trivial = -f commands that changed the index or had to fail (duplicate name / source, unknown selector)")
    return ctx.finish(evaluations=total_cmds, distinct_nontrivial=nontriv, rule=rule, exhaustive=False,
                      extra={"scripts_from_tlc": len(scripts), "scripts_replayed": len(chosen), "classes_replayed": tag_cov,
                             "nontrivial_kinds": kinds_all, "model_states": mc.distinct})
