"""C22 — display limits return the top of the ranked result.
Spec: RankLimit!CheckDisplay is the model of the display truncator (at most D files, at most M
matches, the last file cut at the limit, everything before it untouched, position-wise the
ranked prefix) plus Geometry!CheckGeometry on the limited result (a shortened chunk must still be
whole lines covering its remaining ranges plus the requested context).
V: real Search and StreamSearch on the directory searcher for every limit value."""
import os
from checks import searchsem
from lib import vk


def run(ctx):
    ctx.level = "exploration"
    searchsem.FILES.append("c21_limits_test.go")
    runs = [("TestVerif_C22_Display", {"VERIF_CORPORA": ctx.pick(8, 100)})]
    total, searches, nt = searchsem.run_family(ctx, "C22", "Trace_Search_c22.cfg", runs, "c22", lambda e: False,
                                               timeout=ctx.pick(1500, 5000), classify=classify)
    trace = os.path.join(ctx.work, "trace_TestVerif_C22_Display.ndjson")
    events = vk.read_ndjson(trace)
    disp = [e for e in events if e["ev"] == "display"]
    nontriv = 0
    for i, e in enumerate(events):
        if e["ev"] == "display" and e["outcome"] == "ok":
            ref = events[i - e["back"]]
            if e["files"] and (len(e["files"]) < len(ref["files"]) or e["files"][-1] != ref["files"][len(e["files"]) - 1]):
                nontriv += 1
    ctx.traces_validated += len(disp)
    if disp:
        x = disp[len(disp) // 2]
        ctx.sample({"display": {k: x[k] for k in ("qs", "maxdoc", "maxmatch", "stream", "mode", "ctx")}, "files": [f["doc"] for f in x["files"]]})
    return ctx.finish(evaluations=len(disp), distinct_nontrivial=nontriv,
                      rule="searches with display limits (every MaxDocDisplayCount / MaxMatchDisplayCount up to total+1, Search and "
                           "StreamSearch, line and chunk mode, context 0..3) compared with the unlimited ranked result; non-trivial = "
                           "runs in which the limit actually cut the result",
                      extra={"events": total})


def classify(sig, e, events, line, rej=None):
    """multi-shard results are truncated statefully in arrival order before they are ranked."""
    cor = None
    for x in events[:line]:
        if x["ev"] == "corpus":
            cor = x
    nshards = len({r["shard"] for r in cor["repos"]}) if cor else 1
    if sig in ("C22:not-ranked-prefix", "C22:file-not-prefix", "C22:stopped-early") and e["ev"] == "display":
        if e.get("flush"):
            # StreamSearch with FlushWallTime: collected and ranked before the truncation.  With a document
            # limit alone the collector's truncation of partial aggregates is harmless (the top D of a union
            # is the top D of the partial top D and the rest), so the reply must be the ranked prefix.  With a
            # match limit the collector cuts matches of a file in a partial aggregate (recorded: C22-F2).
            return sig + (":stream-flush-matchlimit" if e["maxmatch"] > 0 and nshards > 1 else ":stream-flush")
        return sig + (":multi-shard" if nshards > 1 else ":single-shard")
    if sig == "C22:chunk" and e["ev"] == "display" and e["maxmatch"] > 0:
        # Shapes of the two recorded defects of limitChunkMatches (anything else stays a new violation):
        #  extra-line  (C22-F1): the shortened Content is the expected lines plus ONE more line, without
        #               that line's terminating newline (the chunk's final newline was counted as separator)
        #  eof-context (C22-F3): the unlimited chunk was clamped at the end of the file; the shortened
        #               Content ends after its last range's line plus FEWER context lines than requested
        ref = events[line - 1 - e["back"]]
        want_doc = rej["expected"].get("doc") if rej else None
        which = set(rej["expected"].get("which", [])) if rej else set()
        shapes = set()
        for f in e["files"]:
            if want_doc and f["doc"] != want_doc:
                continue
            rf = [g for g in ref["files"] if g["doc"] == f["doc"]]
            if not rf or cor is None:
                continue
            content = "".join(map(chr, cor["docs"][f["doc"] - 1]["content"]))
            lines = content.split("\n")
            terminated = content.endswith("\n")
            if terminated:
                lines = lines[:-1]
            nlines = len(lines)

            def text(lo, hi):      # lines lo..hi (1-based, inclusive) with terminators as in the file
                hi = min(hi, nlines)
                out = "".join(l + "\n" for l in lines[lo - 1:hi])
                if hi == nlines and not terminated and out:
                    out = out[:-1]
                return out
            for ci, cm in enumerate(f["cm"]):
                if which and (ci + 1) not in which:
                    continue
                got = "".join(map(chr, cm.get("content", [])))
                end = max(r[4] for r in cm["ranges"])
                exp = text(cm["sl"], end + e["ctx"])
                rcm = [x for x in rf[0]["cm"] if x["sl"] == cm["sl"] and len(x["ranges"]) > len(cm["ranges"])]
                if not rcm:
                    shapes.add("other")
                    continue
                old_end = max(r[4] for r in rcm[0]["ranges"])
                if got == exp:
                    continue
                if old_end + e["ctx"] > nlines and any(got in (text(cm["sl"], end + t), text(cm["sl"], end + t).rstrip("\n"))
                                                      or got + "\n" == text(cm["sl"], end + t)
                                                      for t in range(0, e["ctx"] + 1)):
                    shapes.add("eof-context")
                elif end + e["ctx"] + 1 <= nlines and got + "\n" == text(cm["sl"], end + e["ctx"] + 1):
                    shapes.add("extra-line")
                elif got + "\n" == exp:
                    # the right lines, but without the newline terminating the last one (the unlimited
                    # chunk reached an unterminated end of file, so no line is miscounted)
                    shapes.add("no-final-newline")
                else:
                    shapes.add("other")
        if shapes == {"eof-context"}:
            return "C22:chunk:shortened-content:eof-context"
        if shapes == {"extra-line"}:
            return "C22:chunk:shortened-content:extra-line"
        if shapes == {"no-final-newline"}:
            return "C22:chunk:shortened-content:no-final-newline"
        return "C22:chunk:shortened-content"
    return sig
