"""C09 — a written shard reads back every document and all metadata.

spec/sys/ShardViewOps.tla: the abstract view of a written shard (skip decision, stored content,
checksum, branch order, language, sub-repository, version, symbol ranges, repository description,
statistics).  spec/sys/ShardView.tla: small-scope model.
M: TLC checks the view's own properties for every document list over a tiny alphabet.
R: TLC prints one script per explored transition with the predicted view; the real ShardBuilder /
   Builder / Merge build them, the readback (public read path only) is compared with the prediction.
V: corner-case families and seeded random builds; every build/readback/symsub/tri event is
   validated by spec/trace/Trace_ShardView.tla, which recomputes the expected readback."""
import collections
import concurrent.futures
import json
import random
import re

from lib import vk

PKG = "index"
FILES = ["c09_shardview_test.go"]
MARKERS = {
    "large": "NOT-INDEXED: exceeds the maximum size limit",
    "small": "NOT-INDEXED: contains too few trigrams",
    "binary": "NOT-INDEXED: contains binary content",
    "trigrams": "NOT-INDEXED: contains too many trigrams",
}
CONFIGS = (  # (SizeMax, TrigramMax): large/small/binary reachable; trigrams reachable
    (3, 2),
    (8, 1),
)


def drive(ctx, binp, test, out, env=None, timeout=3000):
    outp = ctx.path(out)
    e = dict(env or {})
    e["VERIF_OUT"] = outp
    rc, o = ctx.run_bin(binp, "^%s$" % test, env=e, timeout=timeout)
    with open(ctx.path("driver_%s.log" % test), "w") as fh:
        fh.write(o)
    if rc != 0 or "--- PASS: " + test not in o:
        raise vk.Inconclusive("driver %s did not complete (rc=%d):\n%s" % (test, rc, o[-3000:]))
    ctx.log("driver %s done" % test)
    return outp


def slug(msg):
    m = re.sub(r"/\S+", "", msg or "")
    m = re.sub(r"[0-9]+", "N", m)
    m = re.sub(r"[^A-Za-z ]+", " ", m).strip()
    return "-".join(m.split()[:6])


def text(cps):
    return "".join(chr(c) for c in cps)


def signature(r, e, b):
    why = r["why"]
    if why.startswith("outcome:"):
        # outcome:<error|panic>:<stage>; the build path unless the stage says it
        path = "" if why.endswith(":" + b["path"]) else ":" + b["path"]
        return "C09:%s%s:%s" % (why, path, slug(e.get("msg")))
    if e["ev"] != "readback" and ":outcome:" in why:
        return "C09:%s:%s" % (why, slug(e.get("msg")))
    return "C09:%s:%s" % (why, b["path"])


def validate_raw(ctx, name, trace):
    """Trace_ShardView over one trace (parallel parts starting at build events); no verdicts here."""
    events = vk.read_ndjson(trace)
    acc, rej = ctx.validate_trace_sharded("Trace_ShardView", "Trace_ShardView.cfg", trace, header_lines=1,
                                          shards=ctx.pick(6, 8), name="tlcs_" + name, timeout=3000,
                                          group_start=lambda ln: '"ev":"build"' in ln[:200])
    return events, rej


def verdicts(ctx, name, events, rej):
    bad_builds = set()
    for r in rej:
        if not isinstance(r, dict) or "line" not in r:
            raise vk.Inconclusive("unreadable rejection from the trace spec: %r" % (r,))
        e = events[r["line"] - 1]
        b = events[r["line"] - 1 - e["back"]]
        if r["why"].startswith("driver:"):
            raise vk.Inconclusive("the driver produced a build the specification cannot judge (%s, family %s, line %d)" % (
                r["why"], b["family"], r["line"]))
        bad_builds.add(b["id"])
        detail = {"trace": name, "line": r["line"], "why": r["why"], "spec": r["expected"], "family": b["family"], "path": b["path"],
                  "opts": b["opts"], "event": e["ev"], "outcome": e.get("outcome"), "msg": e.get("msg", "")[:400],
                  "repos": [{"name": x["desc"]["name"], "via": x["via"], "branches": len(x["desc"]["branches"]),
                             "docs": [{"name": text(d["name"]), "kind": d["kind"], "size": d["size"], "branches": d["branches"][:8],
                                       "content": text(d["content"])[:120] if d["kind"] == "text" else d["content"][:60],
                                       "syms": len(d["syms"])} for d in x["docs"][:12]]} for x in b["repos"]]}
        if e["ev"] != "readback":
            detail["probe"] = {k: e[k] for k in e if k not in ("ev",)}
        ctx.violation(signature(r, e, b), detail)
    return bad_builds


def run(ctx):
    binp = ctx.go_build_test(PKG, FILES)

    # ------------------------------------------------------------ M + R (TLC), V driver in parallel
    consts = {"Alphabet": "{0, 97, 98, 233}", "MaxLen": 4, "Paths": '{"shard", "builder", "merge"}'}

    def tlc_job(kind, k, size_max, tri_max):
        d = dict(consts, SizeMax=size_max, TrigramMax=tri_max)
        if kind == "M":     # thorough: one more document, no printing
            d.update(MaxDocs=3, Emit="FALSE")
            return kind, k, ctx.model_check("ShardView", "ShardView_mc.cfg", name="tlc_m%d" % k, timeout=3000, workers=2, defines=d)
        # invariants in every state + one script per explored transition
        d.update(MaxDocs=2, Emit="TRUE")
        return kind, k, ctx.model_check("ShardView", "ShardView_mc.cfg", name="tlc_r%d" % k, timeout=3000, workers=2,
                                        defines=d, count=not ctx.thorough)

    kinds = ("M", "R") if ctx.thorough else ("R",)
    with concurrent.futures.ThreadPoolExecutor(max_workers=5) as ex:
        futs = [ex.submit(tlc_job, kind, k, s, t) for kind in kinds for k, (s, t) in enumerate(CONFIGS)]
        gen_f = ex.submit(drive, ctx, binp, "TestVerif_C09_Generated", "trace_gen.ndjson")
        results = [f.result() for f in futs]
        t_gen = gen_f.result()
    scripts = []
    for kind, k, res in results:
        if kind == "R":
            scripts += res.printed("SCRIPT")
    reasons = collections.Counter(v["reason"] for s in scripts for v in s["view"])
    if len(scripts) < 5000 or any(reasons[r] == 0 for r in list(MARKERS) + ["none"]):
        raise vk.Inconclusive("script generation is vacuous: %d scripts, reasons %s" % (len(scripts), dict(reasons)))
    ctx.log("scripts from TLC: %d, predicted reasons %s" % (len(scripts), dict(reasons)))
    rng = random.Random(ctx.seed)
    scripts.sort(key=lambda s: json.dumps(s, sort_keys=True))
    nrep = ctx.pick(400, 6000)
    chosen = scripts if len(scripts) <= nrep else rng.sample(scripts, nrep)
    for n, s in enumerate(chosen):
        s["n"] = n + 1
    inp = ctx.path("scripts.ndjson")
    vk.write_ndjson(inp, [{k: v for k, v in s.items() if k != "view"} for s in chosen])
    ctx.sample({"script": {k: chosen[len(chosen) // 2][k] for k in ("path", "sizeMax", "trigramMax", "docs")},
                "predicted": [{"name": text(v["name"]), "reason": v["reason"]} for v in chosen[len(chosen) // 2]["view"]]})

    # the generated trace is validated while the scripts are replayed
    with concurrent.futures.ThreadPoolExecutor(max_workers=2) as ex:
        gen_v = ex.submit(validate_raw, ctx, "gen", t_gen)
        t_rep = drive(ctx, binp, "TestVerif_C09_Replay", "trace_rep.ndjson", env={"VERIF_IN": inp})
        validated = {"gen": gen_v.result(), "rep": validate_raw(ctx, "rep", t_rep)}

    # ------------------------------------------------------------ V: trace validation
    total = 0
    marker_seen = collections.Counter()
    nontrivial = set()
    builds = 0
    all_bad = {}
    families = collections.Counter()
    probes = collections.Counter()
    for name in ("gen", "rep"):
        events, rej = validated[name]
        total += len(events) - 1
        all_bad[name] = verdicts(ctx, name, events, rej)
        for i, e in enumerate(events):
            if e["ev"] in ("symsub", "tri"):
                probes[e["ev"]] += 1
            if e["ev"] != "readback":
                continue
            b = events[i - e["back"]]
            builds += 1
            families[(b["family"].split("-")[0], b["path"])] += 1
            skipped = 0
            for d in e["docs"]:
                if d["kind"] == "text":
                    t = text(d["content"])
                    for r, m in MARKERS.items():
                        if t == m:
                            marker_seen[r] += 1
                            skipped += 1
            if len(e["docs"]) >= 2 or skipped:
                nontrivial.add((name, b["id"]))
            # R: predicted view of the script against the readback
            if name == "rep" and e["outcome"] == "ok":
                sc = chosen[b["script"] - 1]
                pred = sorted((text(v["name"]), text(v["content"]), tuple(v["branches"])) for v in sc["view"])
                got = sorted((text(d["name"]), text(d["content"]) if d["kind"] == "text" else "<%s>" % d["kind"], tuple(d["branches"]))
                             for d in e["docs"] if d["repo"] == "tlc/repo")
                if pred != got and b["id"] not in all_bad[name]:
                    ctx.violation("C09:replay:view:%s" % b["path"], {"script": {k: sc[k] for k in ("path", "sizeMax", "trigramMax", "docs")},
                                                                     "predicted": pred, "observed": got})
                    all_bad[name].add(b["id"])
        ctx.traces_validated += sum(1 for e in events if e["ev"] == "readback") - len(all_bad[name])
        if name == "gen":
            for e in events:
                if e["ev"] == "symsub" and e["outcome"] == "ok" and e["found"]:
                    ctx.sample({"symsub": {"pat": text(e["pat"]), "ranges": e["ranges"][:4]}})
                    break
    if any(marker_seen[r] == 0 for r in MARKERS):
        raise vk.Inconclusive("vacuous run: explanation texts read back: %s" % dict(marker_seen))
    sigs = collections.Counter(v["signature"] for v in ctx.violations)
    for sig, n in sorted(sigs.items()):
        ctx.log("violation signature %-70s x %d" % (sig, n))
    ctx.assumptions += [
        "CRC-64/ISO is computed by the Go standard library for the given content and for the explanation texts; the "
        "specification compares checksums by equality after checking the explanation texts against its own",
        "go-enry's language guess for a document given without language is an input of the specification",
        "the driver's conversion of byte offsets to rune offsets on the readback; its rune->byte conversion of the given symbol "
        "ranges is re-checked by the specification for text documents",
        "contents above 5000 bytes (10^4-rune lines) are compared by length and checksum only",
    ]
    return ctx.finish(
        evaluations=total, distinct_nontrivial=len(nontrivial),
        rule="evaluations = build/readback/symsub/tri events of real shards validated by Trace_ShardView.tla (readback only "
             "through NewSearcher List/Search, symbol searches and ReadMetadata); non-trivial = builds whose readback has at "
             "least two documents or a document stored as its explanation text",
        exhaustive=False,
        extra={"scripts_from_tlc": len(scripts), "scripts_replayed": len(chosen), "builds": builds,
               "builds_per_family_and_path": {"%s/%s" % k: v for k, v in sorted(families.items())},
               "probes": dict(probes), "explanations_read_back": dict(marker_seen), "predicted_reasons": dict(reasons),
               "violation_signatures": dict(sigs)})
