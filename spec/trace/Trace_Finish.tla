--------------------------- MODULE Trace_Finish ---------------------------
(* C12 trace validation.  One scenario = one run of the real installing operation in a      *)
(* child process under strace:                                                               *)
(*   reset {cfg, run, point}      configuration, kind of run (ref | kill | fault), point     *)
(*   mut   {op, f, res}           each file-system mutation of the index directory that      *)
(*                                happened (res ok) or was made to fail (res fail), in order  *)
(*   end   {kind, reported, view, bad}  kind done | crash | fault; what the run reported       *)
(*                                (ok | err | none) and what a fresh process that loads the    *)
(*                                surviving directory with the real searcher sees              *)
(* Every mutation must be a step FinishOps enables (order of the install protocol); the      *)
(* observed view must be the view FinishOps computes for the replayed directory; the run's   *)
(* report must be the one the model computes; and the property itself is checked on the      *)
(* observed view: it is Old or New (CrashAtomicStrict), and New if success was reported.      *)
(* Never blocks: REJECTED lines, then ACCEPTED n.                                             *)
EXTENDS FinishOps, Json

Trace == ndJsonDeserialize("trace.ndjson")

VARIABLES l, cfg, st, skip, done
vars == <<l, cfg, st, skip, done>>

NoCfg == [mode |-> "full", k |-> 0, m |-> 1, sidecar |-> FALSE, d |-> 1]

Init == l = 1 /\ cfg = NoCfg /\ st = InitSt(NoCfg) /\ skip = FALSE /\ done = FALSE

Reject(why, exp) == PrintT(<<"REJECTED", ToJson([line |-> l, why |-> why, expected |-> exp])>>)

ToSet(s) == {s[i] : i \in DOMAIN s}

\* number of documents of a class
N(c) == cfg.d
WithN(view) == {[k |-> e.c.k, i |-> e.c.i, bv |-> e.bv, pub |-> e.pub, n |-> N(e.c)] : e \in view}
\* observed view without counts, for classification
Plain(obs) == {[c |-> C(e.k, e.i), bv |-> e.bv, pub |-> e.pub] : e \in obs}

Reset == /\ l <= Len(Trace) /\ Trace[l].ev = "reset"
         /\ cfg' = Trace[l].cfg /\ st' = InitSt(Trace[l].cfg) /\ skip' = FALSE
         /\ l' = l + 1 /\ UNCHANGED done

Mut == /\ l <= Len(Trace) /\ Trace[l].ev = "mut"
       /\ LET e == Trace[l]
              a == [op |-> e.op, f |-> e.f, res |-> e.res]
          IN IF skip THEN UNCHANGED <<st, skip>>
             ELSE IF Enabled(cfg, st, a) THEN st' = Apply(cfg, st, a) /\ UNCHANGED skip
             ELSE /\ Reject("not-enabled", [op |-> e.op, f |-> e.f, res |-> e.res,
                                            renamed |-> st.renamed, pending |-> Pending(cfg, st)])
                  /\ skip' = TRUE /\ UNCHANGED st
       /\ l' = l + 1 /\ UNCHANGED <<cfg, done>>

End == /\ l <= Len(Trace) /\ Trace[l].ev = "end"
       /\ LET e == Trace[l]
              obs == ToSet(e.view)
              oldN == WithN(Old(cfg))
              newN == WithN(New(cfg))
              modelN == WithN(View(st.disk))
              shape == Shape(cfg, st, Plain(obs))
          IN \* conformance of the model with what the real loader sees
             IF ~skip /\ (obs # modelN \/ e.bad # 0)
               THEN Reject("view-mismatch", [model |-> modelN])
             \* conformance of the report
             ELSE IF ~skip /\ e.kind # "crash" /\ (~Finished(cfg, st) \/ e.reported \notin Reports(st))
               THEN Reject("report-mismatch", [finished |-> Finished(cfg, st), reported |-> Reported(st)])
             \* the property
             ELSE IF e.reported = "ok" /\ obs # newN
               THEN Reject("success-not-installed", [new |-> newN, shape |-> shape])
             ELSE IF obs \notin {oldN, newN}
               THEN Reject("non-atomic", [shape |-> IF skip THEN "unknown" ELSE shape, old |-> oldN, new |-> newN])
             ELSE IF e.kind = "done" /\ (e.reported # "ok" \/ obs # newN)
               THEN Reject("clean-run-failed", [new |-> newN])
             ELSE TRUE
       /\ l' = l + 1 /\ UNCHANGED <<cfg, st, skip, done>>

\* after a killed run: the same operation run again to completion on the surviving directory (what the
\* next indexing job does).  A recovery that reports success has installed the complete new index.
Recover == /\ l <= Len(Trace) /\ Trace[l].ev = "recover"
           /\ LET e == Trace[l]
                  obs == ToSet(e.view)
                  newN == WithN(New(cfg))
              IN IF e.reported = "ok" /\ (obs # newN \/ e.bad # 0)
                 THEN Reject("recover:success-not-installed", [new |-> newN])
                 ELSE TRUE
           /\ l' = l + 1 /\ UNCHANGED <<cfg, st, skip, done>>

Done == l = Len(Trace) + 1 /\ ~done /\ done' = TRUE /\ PrintT(<<"ACCEPTED", l - 1>>)
        /\ UNCHANGED <<l, cfg, st, skip>>

Next == Reset \/ Mut \/ End \/ Recover \/ Done
Spec == Init /\ [][Next]_vars
=============================================================================
