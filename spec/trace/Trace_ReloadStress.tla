------------------------ MODULE Trace_ReloadStress ------------------------
(* C19, trace validation of the stress runs (TestVerif_C19_Stress): real goroutines, one    *)
(* mutator (disk events, totally ordered by clk), one scanner (pub events: what each         *)
(* loader.load / loader.drop call left in shardedSearcher.shards for its keys, observed by   *)
(* the gated loader), 4..16 searchers (obs events).  Every event carries the interval        *)
(* [s0, s1] of a global atomic counter taken before and after the real call.                 *)
(*                                                                                         *)
(* The silent Scan/Replace steps of Reload.tla are the pub events; the specification checks  *)
(*   pub    what a load newly published for a file is a content version and a sidecar state the *)
(*          file had at some time during the call; a drop leaves nothing                     *)
(*   obs    a search/list sees per repository exactly one version (one shard),   *)
(*          complete (2 + ver mod 3 documents), published by a pub that may have started     *)
(*          before the search ended and was not certainly replaced before it started; a      *)
(*          repository whose shard was published before the search started and not touched   *)
(*          until it ended must be seen                                                       *)
(*   final  after the last change and two complete scans: loaded = newest-format files with  *)
(*          their sidecars (ReloadOps!Newest on the disk reconstructed from the disk events), *)
(*          ranked = loaded, search and list show exactly that                               *)
(* Evaluated at constant level (ASSUME), see CONVENTIONS "TLC performance note".             *)
EXTENDS ReloadOps, Json

CONSTANT MaxFmt
Trace == ndJsonDeserialize("trace.ndjson")
VARIABLES done
vars == <<done>>
Init == done = FALSE

Range(s) == {s[i] : i \in DOMAIN s}
Reject(l, why, exp) == PrintT(<<"REJECTED", ToJson([line |-> l, why |-> why, expected |-> exp])>>)
N == Len(Trace)
Rounds == {Trace[i].round : i \in {j \in 1..N : Trace[j].ev = "sreset"}}
IdxOf(n, ev) == {i \in 1..N : Trace[i].ev = ev /\ Trace[i].round = n}

\* ---- the disk history of a round: states after 0, 1, .. K changes
ResetOf(n) == Trace[CHOOSE i \in IdxOf(n, "sreset") : TRUE]
DiskIdx(n) == IdxOf(n, "disk")
DiskEv(n, k) == Trace[CHOOSE i \in DiskIdx(n) : Trace[i].clk = k]
ApplyDisk(s, e) ==
  LET f == <<e.r, e.f>> IN
  CASE e.c \in {"put", "replace"} -> DiskWrite(s, f)
    [] e.c = "delete"  -> DiskDelete(s, f)
    [] e.c = "sidecar" -> DiskSidecar(s, f, e.side)
RECURSIVE HistOf(_, _, _)
HistOf(n, k, acc) ==
  IF k > Cardinality(DiskIdx(n)) THEN acc
  ELSE HistOf(n, k + 1, Append(acc, ApplyDisk(acc[Len(acc)], DiskEv(n, k))))
Hist0(n) == LET r == ResetOf(n) IN <<InitSt(Range(r.repos) \X Range(r.fmts), Range(r.repos), {})>>
HistTab == [n \in Rounds |-> HistOf(n, 1, Hist0(n))] @@ <<>>
\* interval in which the state after k changes may have been current
FromTab == [n \in Rounds |-> [k \in 0..Cardinality(DiskIdx(n)) |-> IF k = 0 THEN 0 ELSE DiskEv(n, k).s0]] @@ <<>>
ToTab == [n \in Rounds |-> [k \in 0..Cardinality(DiskIdx(n)) |->
            IF k = Cardinality(DiskIdx(n)) THEN 2000000000 ELSE DiskEv(n, k + 1).s1]] @@ <<>>
Current(n, a, b) == {k \in 0..Cardinality(DiskIdx(n)) : FromTab[n][k] <= b /\ ToTab[n][k] >= a}
DiskK(n, k) == HistTab[n][k + 1].disk

\* ---- pub events of a round, flattened: one entry per (pub event, file)
PubIdx(n) == IdxOf(n, "pub")
Pubs(n) == {[i |-> i, s0 |-> Trace[i].s0, s1 |-> Trace[i].s1, kind |-> Trace[i].kind, x |-> Trace[i].files[j]] :
              <<i, j>> \in {<<i2, j2>> \in PubIdx(n) \X (1..16) : j2 <= Len(Trace[i2].files)}}
PubsTab == [n \in Rounds |-> Pubs(n)] @@ <<>>
Visible(x) == x.present /\ x.side # "tomb"
SameFile(x, y) == x.r = y.r /\ x.f = y.f
SameView(x, y) == x.present = y.present /\ x.ver = y.ver /\ x.side = y.side /\ x.smt = y.smt
\* p may be what a reader active during [a, b] found for its file
MaySee(n, p, a, b) ==
  /\ p.s0 <= b
  /\ ~\E q \in PubsTab[n] : SameFile(q.x, p.x) /\ q.s0 > p.s0 /\ q.s1 <= a /\ ~SameView(q.x, p.x)
\* p certainly was what every reader active during [a, b] found for its file
MustSee(n, p, a, b) ==
  /\ p.s1 <= a
  /\ ~\E q \in PubsTab[n] : SameFile(q.x, p.x) /\ q.s0 > p.s0 /\ q.s0 <= b

Docs(ver) == 2 + (ver - 3 * (ver \div 3))

\* ---- checks
CheckPub(e, l) ==
  \A j \in DOMAIN e.files :
    LET x == e.files[j]
        f == <<x.r, x.f>>
        cur == Current(e.round, e.s0, e.s1)
    IN IF e.kind = "drop" THEN (x.present => Reject(l, "pub:drop", x))
       ELSE IF ~x.present \/ ~x.fresh THEN TRUE    \* a failed load leaves what was there
       ELSE IF x.ir # x.r \/ x.if # x.f THEN Reject(l, "pub:key", x)
       ELSE IF ~\E k \in cur : DiskK(e.round, k)[f].ver = x.ver THEN Reject(l, "pub:version", x)
       ELSE IF ~\E k \in cur : SideView(DiskK(e.round, k)[f]) = [side |-> x.side, smt |-> x.smt] THEN Reject(l, "pub:sidecar", x)
       ELSE TRUE

IsSearch(e) == e.kind \in {"search", "stream"}
EntryOK(e, y) == IF IsSearch(e) THEN Len(y.vers) = 1 /\ y.main = 1 ELSE y.shards = 1
Justified(e, y) ==
  \E p \in PubsTab[e.round] :
     /\ p.x.r = y.r /\ Visible(p.x) /\ MaySee(e.round, p, e.s0, e.s1)
     /\ IF IsSearch(e) THEN p.x.ver = y.vers[1] ELSE p.x.smt = y.smt
Owed(e) == {p \in PubsTab[e.round] : Visible(p.x) /\ MustSee(e.round, p, e.s0, e.s1)}
CheckObs(e, l) ==
  IF e.note # "" THEN Reject(l, "obs:error", [note |-> e.note])
  ELSE IF e.crashes # 0 THEN Reject(l, "obs:crash", [crashes |-> e.crashes])
  ELSE IF e.bad # 0 THEN Reject(l, "obs:corrupt", [bad |-> e.bad])
  ELSE IF \E j \in DOMAIN e.res : ~EntryOK(e, e.res[j]) THEN Reject(l, "obs:mixed", e.res)
  ELSE IF Cardinality({e.res[j].r : j \in DOMAIN e.res}) # Len(e.res) THEN Reject(l, "obs:mixed", e.res)
  ELSE IF IsSearch(e) /\ \E j \in DOMAIN e.res : e.res[j].docs # Docs(e.res[j].vers[1]) THEN Reject(l, "obs:incomplete", e.res)
  ELSE IF \E j \in DOMAIN e.res : ~Justified(e, e.res[j])
       THEN Reject(l, "obs:unjustified", [res |-> e.res])
  ELSE IF \E p \in Owed(e) : ~\E j \in DOMAIN e.res : e.res[j].r = p.x.r
       THEN Reject(l, "obs:missing", [owed |-> {p.x : p \in Owed(e)}, res |-> e.res])
  ELSE TRUE

View(x) == [r |-> x.r, f |-> x.f, ver |-> x.ver, side |-> x.side, smt |-> x.smt]
Views(list) == {View(list[i]) : i \in DOMAIN list}
FinalDisk(n) == HistTab[n][Len(HistTab[n])].disk
DiskViews(d) == {[r |-> f[1], f |-> f[2], ver |-> d[f].ver, side |-> d[f].side,
                  smt |-> IF d[f].side = "none" THEN 0 ELSE d[f].smt] : f \in Newest(d, MaxFmt)}
FileOf(v) == <<v.r, v.f>>
CheckFinal(e, l) ==
  LET d == FinalDisk(e.round)
      L == Views(e.loaded)
      D == DiskViews(d)
      vis == {v \in L : v.side # "tomb"}
  IN IF {[r |-> e.files[j].r, f |-> e.files[j].f, ver |-> e.files[j].ver, meta |-> e.files[j].meta] : j \in DOMAIN e.files}
          # {[r |-> f[1], f |-> f[2], ver |-> d[f].ver, meta |-> d[f].side # "none"] : f \in {g \in DOMAIN d : Present(d, g)}}
       THEN Reject(l, "harness:disk", [files |-> e.files])
     ELSE IF e.note # "" THEN Reject(l, "obs:error", [note |-> e.note])
     ELSE IF e.keybad # 0 \/ Len(e.loaded) # Cardinality(L) THEN Reject(l, "final:loaded", e.loaded)
     ELSE IF {FileOf(v) : v \in D} \ {FileOf(v) : v \in L} # {} THEN Reject(l, "converge:missing", [disk |-> D, loaded |-> L])
     ELSE IF {FileOf(v) : v \in L} \ {FileOf(v) : v \in D} # {} THEN Reject(l, "converge:extra", [disk |-> D, loaded |-> L])
     ELSE IF \E v \in L, w \in D : FileOf(v) = FileOf(w) /\ v.ver # w.ver THEN Reject(l, "converge:version", [disk |-> D, loaded |-> L])
     ELSE IF L # D THEN Reject(l, "converge:stale-sidecar", [disk |-> D, loaded |-> L])
     ELSE IF Views(e.ranked) # L \/ Len(e.ranked) # Len(e.loaded) THEN Reject(l, "final:ranked", e.ranked)
     ELSE IF e.crashes # 0 \/ e.bad # 0 THEN Reject(l, "obs:crash", [crashes |-> e.crashes, bad |-> e.bad])
     ELSE IF Range(e.res) # {[r |-> v.r, vers |-> <<v.ver>>, main |-> 1, docs |-> Docs(v.ver)] : v \in vis}
       THEN Reject(l, "final:result", e.res)
     ELSE IF Range(e.vis) # {[r |-> v.r, smt |-> v.smt, shards |-> 1] : v \in vis} THEN Reject(l, "final:vis", e.vis)
     ELSE TRUE

Check(e, l) ==
  CASE e.ev = "pub"   -> CheckPub(e, l)
    [] e.ev = "obs"   -> CheckObs(e, l)
    [] e.ev = "final" -> CheckFinal(e, l)
    [] e.ev = "scan"  -> (e.note # "" => Reject(l, "scan:error", [note |-> e.note]))
    \* a start-up batch that ran for more than five seconds (it publishes what it has and goes on
    \* loading): afterwards the loaded set is the shard files on disk and every one of them is mapped
    [] e.ev = "slowload" -> /\ (e.note # "" => Reject(l, "scan:error", [note |-> e.note]))
                            /\ (e.loaded # e.want => Reject(l, "converge:slow-load", [want |-> e.want]))
                            /\ (e.unmapped # <<>> => Reject(l, "loaded-shard-unmapped", [unmapped |-> e.unmapped]))
    [] OTHER          -> TRUE

ASSUME \A i \in 1..N : LET e == Trace[i] IN Check(e, i)
Done == ~done /\ done' = TRUE /\ PrintT(<<"ACCEPTED", N>>)
Next == Done
Spec == Init /\ [][Next]_vars
=============================================================================
