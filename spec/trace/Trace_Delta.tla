--------------------------- MODULE Trace_Delta ---------------------------
(* Trace validation for C13.  Events (harness/drivers/gitindex/c13_delta_test.go):           *)
(*   reset  [id, branches, ig]            a fresh git repository and an empty index directory *)
(*   commit [branch, tree, ver]           the tree git reports for the new head of branch     *)
(*   index  [delta, brs, opt, thr, err, full, views, shards, ...]   one IndexGitRepo run and   *)
(*          what the index directory shows afterwards (per git branch the (path, content)     *)
(*          list of a branch-restricted search; per shard live documents, tombstones,         *)
(*          recorded branch versions)                                                          *)
(* The property is evaluated on the observation (views against the heads logged from git);   *)
(* the shard structure is compared with the step DeltaOps!Index takes (conformance).          *)
(* Never blocks: a rejected event is printed and the rest of that history is skipped.          *)
EXTENDS DeltaOps, Json

Trace == ndJsonDeserialize("trace.ndjson")

VARIABLES l, st, skip, done
vars == <<l, st, skip, done>>

NoSt == [branches |-> <<>>, ig |-> [path |-> "", sem |-> <<>>], heads |-> NoFn, vers |-> NoFn,
         ix |-> EmptyIx, dev |-> FALSE]

Init == l = 1 /\ st = NoSt /\ skip = FALSE /\ done = FALSE

Reject(why, exp) == PrintT(<<"REJECTED", ToJson([line |-> l, why |-> why, expected |-> exp])>>)

TreeOf(logged) == [p \in {logged[i].p : i \in DOMAIN logged} |->
                     logged[CHOOSE i \in DOMAIN logged : logged[i].p = p].c]

RECURSIVE SetSeq(_)
SetSeq(S) == IF S = {} THEN <<>> ELSE LET x == CHOOSE y \in S : TRUE IN <<x>> \o SetSeq(S \ {x})
ShowTree(t) == LET ps == SetSeq(DOMAIN t) IN [i \in DOMAIN ps |-> [p |-> ps[i], c |-> t[ps[i]]]]

\* ---------------------------------------------------------------- the property on one view
Count(docs, p) == Cardinality({i \in DOMAIN docs : docs[i].p = p})

ViewWhy(docs, want, indexed) ==
  IF \E i \in DOMAIN docs : docs[i].p \notin DOMAIN want
  THEN (IF indexed THEN "view:extra-path" ELSE "view:branch-not-indexed")
  ELSE IF \E i \in DOMAIN docs : want[docs[i].p] # docs[i].c THEN "view:stale-content"
  ELSE IF \E p \in DOMAIN want : Count(docs, p) = 0 THEN "view:missing"
  ELSE IF \E p \in DOMAIN want : Count(docs, p) > 1 THEN "view:duplicate"
  ELSE "ok"

\* observed view = the view of the model index (as bags)
SameAsModel(docs, ix, b) ==
  LET L == LiveOn(ix, b) IN
  /\ \A i \in DOMAIN docs :
       Cardinality({j \in DOMAIN docs : docs[j] = docs[i]}) =
       Cardinality({x \in L : x[2].path = docs[i].p /\ x[2].content = docs[i].c})
  /\ \A x \in L : \E i \in DOMAIN docs : docs[i].p = x[2].path /\ docs[i].c = x[2].content

\* ---------------------------------------------------------------- conformance of the shards
ObsShard(s) == [docs |-> {[path |-> s.docs[i].p, content |-> s.docs[i].c, brs |-> ToSet(s.docs[i].brs)]
                          : i \in DOMAIN s.docs},
                tomb |-> ToSet(s.tomb)]
LiveShard(s) == [docs |-> {d \in s.docs : d.path \notin s.tomb}, tomb |-> s.tomb]

ShardsConform(obs, shards) ==
  /\ Len(obs) = Len(shards)
  /\ \A i \in DOMAIN obs :
       /\ ObsShard(obs[i]) = LiveShard(shards[i])
       /\ Cardinality(ObsShard(obs[i]).docs) = Len(obs[i].docs)

VersionsOK(obs, brs, vers) ==
  \A i \in DOMAIN obs :
     /\ Len(obs[i].brs) = Len(brs)
     /\ \A k \in DOMAIN obs[i].brs : (k \in DOMAIN brs => obs[i].brs[k].n = brs[k] /\ obs[i].brs[k].v = vers[brs[k]])

ShowShards(shards) ==
  [i \in DOMAIN shards |->
     [docs |-> SetSeq({[p |-> d.path, c |-> d.content, brs |-> SetSeq(d.brs)] : d \in LiveShard(shards[i]).docs}),
      tomb |-> SetSeq(shards[i].tomb)]]

-----------------------------------------------------------------------------
Reset == /\ l <= Len(Trace) /\ Trace[l].ev = "reset"
         /\ st' = [NoSt EXCEPT !.branches = Trace[l].branches, !.ig = Trace[l].ig,
                               !.heads = [b \in ToSet(Trace[l].branches) |-> NoFn],
                               !.vers = [b \in ToSet(Trace[l].branches) |-> 1]]
         /\ skip' = FALSE /\ l' = l + 1 /\ UNCHANGED done

Skip == /\ l <= Len(Trace) /\ Trace[l].ev # "reset" /\ skip
        /\ l' = l + 1 /\ UNCHANGED <<st, skip, done>>

Commit == /\ l <= Len(Trace) /\ Trace[l].ev = "commit" /\ ~skip
          /\ LET e == Trace[l] IN
             /\ st' = [st EXCEPT !.heads[e.branch] = TreeOf(e.tree), !.vers[e.branch] = e.ver]
             /\ IF e.ver # st.vers[e.branch] + 1 THEN Reject("harness:commit-number", [ver |-> st.vers[e.branch] + 1]) /\ skip' = TRUE
                ELSE skip' = FALSE
          /\ l' = l + 1 /\ UNCHANGED done

\* The structure may follow the code as it is (delta builds do not consult the ignore file) or
\* the proposed fix (they do); the property is evaluated on the views either way.
IndexEv ==
  /\ l <= Len(Trace) /\ Trace[l].ev = "index" /\ ~skip
  /\ LET e    == Trace[l]
         req  == [delta |-> e.delta, brs |-> e.brs, opt |-> e.opt, thr |-> e.thr]
         full == IsFull(st.ig, st.ix, st.heads, req)
         nixA == Index(st.ig, FALSE, st.ix, st.heads, st.vers, req)
         nixB == Index(st.ig, TRUE, st.ix, st.heads, st.vers, req)
         useB == ~ShardsConform(e.shards, nixA.shards) /\ ShardsConform(e.shards, nixB.shards)
         nix  == IF useB THEN nixB ELSE nixA
         devN == IF full THEN FALSE ELSE st.dev \/ DeltaIgnoreDeviates(st.ig, useB, st.ix, st.heads, req)
         B    == ToSet(st.branches)
         vb(b) == e.views[CHOOSE i \in DOMAIN e.views : e.views[i].b = b].docs
         want(b) == IF b \in ToSet(req.brs) THEN Visible(st.ig, st.heads[b]) ELSE NoFn
         why(b) == ViewWhy(vb(b), want(b), b \in ToSet(req.brs))
         bad  == {b \in B : why(b) # "ok"}
     IN /\ st' = [st EXCEPT !.ix = nix, !.dev = devN]
        /\ IF e.err # "" THEN Reject("index-error", [err |-> e.err, fallback |-> FallbackReason(st.ig, st.ix, st.heads, req)]) /\ skip' = TRUE
           ELSE IF {e.views[i].b : i \in DOMAIN e.views} # B \/ Len(e.views) # Cardinality(B)
           THEN Reject("harness:views", [branches |-> st.branches]) /\ skip' = TRUE
           ELSE IF bad # {} THEN
                LET b == CHOOSE x \in bad : TRUE IN
                IF devN /\ \A x \in B : SameAsModel(vb(x), nix, x)
                THEN Reject("ignored-path-indexed-by-delta", [branch |-> b, want |-> ShowTree(want(b)), kind |-> why(b)]) /\ skip' = FALSE
                ELSE Reject(why(b), [branch |-> b, want |-> ShowTree(want(b)),
                                     fallback |-> FallbackReason(st.ig, st.ix, st.heads, req)]) /\ skip' = TRUE
           ELSE IF ~VersionsOK(e.shards, req.brs, st.vers)
           THEN Reject("version", [brs |-> req.brs, vers |-> [i \in DOMAIN req.brs |-> st.vers[req.brs[i]]]]) /\ skip' = TRUE
           ELSE IF e.full # full
           THEN Reject("conform:fallback", [full |-> full, reason |-> FallbackReason(st.ig, st.ix, st.heads, req)]) /\ skip' = TRUE
           ELSE IF ~ShardsConform(e.shards, nix.shards)
           THEN Reject("conform:shards", [shards |-> ShowShards(nix.shards)]) /\ skip' = TRUE
           ELSE skip' = FALSE
  /\ l' = l + 1 /\ UNCHANGED done

Done == l = Len(Trace) + 1 /\ ~done /\ done' = TRUE /\ PrintT(<<"ACCEPTED", l - 1>>)
        /\ UNCHANGED <<l, st, skip>>

Next == Reset \/ Skip \/ Commit \/ IndexEv \/ Done
Spec == Init /\ [][Next]_vars
=============================================================================
