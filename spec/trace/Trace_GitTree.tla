--------------------------- MODULE Trace_GitTree ---------------------------
(* C14: every recorded run of the real gitindex.IndexGitRepo (go-git path and cat-file path)  *)
(* must have produced exactly the documents GitTreeOps prescribes for the logged repository,   *)
(* and every recorded session with the real catfileReader must reply as CatNext/CatRead say.   *)
(* Evaluated at constant level.                                                                *)
EXTENDS GitTreeOps, Json

Trace == ndJsonDeserialize("trace.ndjson")

VARIABLES done
vars == <<done>>
Init == done = FALSE

Reject(l, why, exp) == PrintT(<<"REJECTED", ToJson([line |-> l, why |-> why, expected |-> exp])>>)

RECURSIVE SeqOfSet(_)
SeqOfSet(S) == IF S = {} THEN <<>> ELSE LET x == CHOOSE y \in S : TRUE IN <<x>> \o SeqOfSet(S \ {x})
ShowDocs(ds) == LET s == SeqOfSet(ds)
                IN [i \in 1..Len(s) |-> [name |-> s[i].name, c |-> s[i].c, t |-> s[i].t, branches |-> SeqOfSet(s[i].branches)]]

\* why observed and expected differ: a (name, branch) is not covered, covered by something that
\* should not exist, or only the content shown differs
NB(ds) == UNION {{<<d.name, b>> : b \in d.branches} : d \in ds}
Diff(obs, exp) ==
  LET o == {ObsDoc(obs[i]) : i \in 1..Len(obs)} IN
  IF NB(exp) \ NB(o) # {} THEN "missing"
  ELSE IF NB(o) \ NB(exp) # {} \/ Len(obs) > Cardinality(exp) THEN "extra"
  ELSE IF {[name |-> d.name, branches |-> d.branches] : d \in o} # {[name |-> d.name, branches |-> d.branches] : d \in exp}
       THEN "branches"
  ELSE "content"

CheckGit(e, l) ==
  LET exp  == GitDocs(e.repo, e.sizemax, e.large)
      show == [docs |-> ShowDocs(exp), fates |-> GitFates(e.repo)]
  IN IF e.out.kind # "ok" THEN Reject(l, e.out.kind, show)
     ELSE GitDocsMatch(e.out.docs, exp) \/ Reject(l, Diff(e.out.docs, exp), show)

RECURSIVE CatRun(_, _, _, _, _)
CatRun(ids, ops, i, st, acc) ==
  IF i > Len(ops) THEN acc
  ELSE LET o == ops[i]
           r == IF o.op = "next" THEN CatNext(ids, st) ELSE CatRead(ids, st, o.k)
           x == IF o.op = "next" THEN [kind |-> r.reply.kind, size |-> r.reply.size, n |-> 0, from |-> 0, err |-> ""]
                ELSE [kind |-> "read", size |-> 0, n |-> r.reply.n, from |-> r.reply.from, err |-> r.reply.err]
       IN CatRun(ids, ops, i + 1, r.st, Append(acc, x))

CheckCat(e, l) ==
  LET exp == CatRun(e.ids, e.ops, 1, CatInit, <<>>)
      obs == [i \in 1..Len(e.replies) |-> [kind |-> e.replies[i].kind, size |-> e.replies[i].size, n |-> e.replies[i].n,
                                           from |-> e.replies[i].from, err |-> e.replies[i].err]]
  IN IF obs # exp THEN Reject(l, "catfile:reply", [docs |-> exp, fates |-> <<>>])
     ELSE (\A i \in 1..Len(e.replies) : e.replies[i].dataok) \/ Reject(l, "catfile:data", [docs |-> exp, fates |-> <<>>])

\* contentSlab.alloc: a slice of exactly the requested length and capacity, disjoint from the others
CheckSlab(e, l) ==
  (e.lens = e.sizes /\ e.caps = e.sizes /\ \A i \in 1..Len(e.intact) : e.intact[i])
  \/ Reject(l, "slab", [docs |-> e.sizes, fates |-> <<>>])

ASSUME \A i \in 1..Len(Trace) : LET e == Trace[i] IN
          CASE e.ev = "git" -> CheckGit(e, i)
            [] e.ev = "cat" -> CheckCat(e, i)
            [] e.ev = "slab" -> CheckSlab(e, i)
            [] OTHER -> TRUE
Done == ~done /\ done' = TRUE /\ PrintT(<<"ACCEPTED", Len(Trace)>>)
Next == Done
Spec == Init /\ [][Next]_vars
=============================================================================
