------------------------- MODULE Trace_DirArchive -------------------------
(* C15: every recorded run of the real directory indexer (cmd/zoekt-index indexArg) and of   *)
(* the real archive indexer (internal/archive Index) must have an outcome the specification  *)
(* allows: the documents of DirArchiveOps, recomputed here from the logged scenario.         *)
(* `glob` events put the ignore-file dialect of Glob.tla to the real ignore.Matcher.         *)
(* Evaluated at constant level.                                                              *)
EXTENDS DirArchiveOps, Json

Trace == ndJsonDeserialize("trace.ndjson")

VARIABLES done
vars == <<done>>
Init == done = FALSE

Reject(l, why, exp) == PrintT(<<"REJECTED", ToJson([line |-> l, why |-> why, expected |-> exp])>>)

Proj(docs) == [i \in 1..Len(docs) |-> [name |-> docs[i].name, c |-> docs[i].c, t |-> docs[i].t]]
Names(docs) == {docs[i].name : i \in 1..Len(docs)}
NameCount(docs, n) == Cardinality({i \in 1..Len(docs) : docs[i].name = n})

\* why two document bags differ: a name is missing, a name is extra, or only contents differ
Diff(obs, exp) ==
  IF \E n \in Names(exp) : NameCount(obs, n) < NameCount(exp, n) THEN "missing"
  ELSE IF \E n \in Names(obs) : NameCount(obs, n) > NameCount(exp, n) THEN "extra"
  ELSE "content"

CheckDir(e, l) ==
  LET ign   == {e.ignoredirs[i] : i \in 1..Len(e.ignoredirs)}
      exp   == DirDocs(e.entries, ign, e.sizemax)
      show  == [docs |-> exp, fates |-> DirFates(e.entries, ign)]
      obs   == Proj(e.out.docs)
  IN IF e.out.kind # "ok" THEN Reject(l, e.out.kind, show)
     ELSE BagEq(obs, exp) \/ Reject(l, Diff(obs, exp), show)

CheckArchive(e, l) ==
  LET exp   == ArchDocs(e.members, e.strip, e.sizemax)
      show  == [docs |-> exp, fates |-> [i \in 1..Len(e.members) |-> ArchFate(e.members[i], e.strip)]]
      obs   == Proj(e.out.docs)
  IN IF e.out.kind \notin {"ok", "error"} THEN Reject(l, e.out.kind, show)
     ELSE ArchOutcomeOK([kind |-> e.out.kind, docs |-> obs], exp, e.members, e.cut)
          \/ Reject(l, IF e.out.kind = "error" THEN "error" ELSE Diff(obs, exp), show)

CheckGlob(e, l) ==
  IF e.err # "" THEN Reject(l, "glob:error", [docs |-> <<>>, fates |-> <<>>])
  ELSE LET pats == ParseIgnore(e.text)
           exp  == [k \in 1..Len(e.paths) |-> Ignored(pats, e.paths[k])]
       IN exp = e.match \/ Reject(l, "glob", [docs |-> <<>>, fates |-> exp])

ASSUME \A i \in 1..Len(Trace) : LET e == Trace[i] IN
          CASE e.ev = "dir" -> CheckDir(e, i)
            [] e.ev = "archive" -> CheckArchive(e, i)
            [] e.ev = "glob" -> CheckGlob(e, i)
            [] OTHER -> TRUE
Done == ~done /\ done' = TRUE /\ PrintT(<<"ACCEPTED", Len(Trace)>>)
Next == Done
Spec == Init /\ [][Next]_vars
=============================================================================
