------------------------- MODULE Trace_ShardView -------------------------
(* C09 trace validation.  Events (ndjson, written by the driver c09_shardview_test.go):      *)
(*   markers   line 1: the driver's rendering of the explanation texts with their checksum  *)
(*   build     options, repository descriptions and documents as given to the real builder  *)
(*   readback  what List / Search(Const true, Whole) / symbol search / ReadMetadata return   *)
(*   symsub    sym:<text of one symbol> searched through the trigram index                   *)
(*   tri       a substring searched through the trigram index                                *)
(* Every event after a build names it by `back` (lines back).  The expected readback is      *)
(* recomputed from the build event with ShardViewOps; nothing is compared with itself.       *)
(* Never blocks: REJECTED lines are printed, ACCEPTED at the end.  Verdicts are evaluated at *)
(* constant level (ASSUME), see CONVENTIONS "TLC performance note".                          *)
EXTENDS ShardViewOps, Json

Trace == ndJsonDeserialize("trace.ndjson")

VARIABLES done
vars == <<done>>

Reject(i, why, exp) == PrintT(<<"REJECTED", ToJson([line |-> i, why |-> why, expected |-> exp])>>)

\* checksum of each explanation text -- only if the driver's text is the specification's text
MarkerOK == Trace[1].ev = "markers" /\
            \A r \in Reasons : \E k \in 1..Len(Trace[1].list) : Trace[1].list[k].reason = r /\ Trace[1].list[k].text = Marker(r)
MarkSum == [r \in Reasons |-> LET L == Trace[1].list IN L[CHOOSE k \in 1..Len(L) : L[k].reason = r].crc]

ViaOf(b, ri) == b.repos[ri].via

\* the byte offsets given to the builder are the byte offsets of the rune offsets (text only)
SymsWellFormed(d) ==
  d.kind # "text" \/ Len(d.syms) = 0 \/
  LET boff == BOffSeq(d.content) IN
  \A k \in 1..Len(d.syms) : LET y == d.syms[k] IN
     /\ 0 <= y.s /\ y.s <= y.e /\ y.e <= Len(d.content)
     /\ y.bs = boff[y.s + 1] /\ y.be = boff[y.e + 1]

Pairs(b) == [ri \in 1..Len(b.repos) |-> [di \in 1..Len(b.repos[ri].docs) |-> <<ri, di>>]]
RECURSIVE Flat(_, _)
Flat(ss, k) == IF k = 0 THEN <<>> ELSE Flat(ss, k - 1) \o ss[k]
AllDocs(b) == Flat(Pairs(b), Len(b.repos))       \* sequence of <<repo index, doc index>>

\* per build event: what the shard holds / what must be read back for every document, computed
\* once (tables forced with Tab; TLC would re-evaluate a lazy function at every use)
BuildLines == {i \in 1..Len(Trace) : Trace[i].ev = "build"}
StoredTab == Tab([i \in BuildLines |->
               LET b == Trace[i] ps == AllDocs(b)
               IN Tab([k \in 1..Len(ps) |-> Stored(b.repos[ps[k][1]].docs[ps[k][2]], b.opts, ViaOf(b, ps[k][1]), MarkSum)])])
ExpTab == Tab([i \in BuildLines |->
               LET b == Trace[i] ps == AllDocs(b)
               IN Tab([k \in 1..Len(ps) |-> ExpDoc(b.repos[ps[k][1]].desc, b.repos[ps[k][1]].docs[ps[k][2]], b.opts, ViaOf(b, ps[k][1]), MarkSum)])])
\* position of document <<ri, di>> in AllDocs(b)
PosOf(b, ri, di) == Sum([q \in 1..(ri - 1) |-> Len(b.repos[q].docs)]) + di

Proj(r) == [repo |-> r.repo, name |-> r.name, kind |-> r.kind, content |-> r.content, clen |-> r.clen,
            chash |-> r.chash, sum |-> r.sum, branches |-> r.branches, lang |-> r.lang, subname |-> r.subname,
            subpath |-> r.subpath, version |-> r.version, syms |-> r.syms, symerr |-> r.symerr]
KeyOf(x) == <<x.repo, x.name, x.branches>>

\* which field distinguishes expected x from observed y (same key)
FieldWhy(x, y) ==
  IF x.kind # y.kind \/ x.content # y.content \/ x.clen # y.clen THEN "content"
  ELSE IF x.sum # y.sum \/ x.chash # y.chash THEN "checksum"
  ELSE IF x.lang # y.lang THEN "language"
  ELSE IF x.subname # y.subname \/ x.subpath # y.subpath THEN "subrepo"
  ELSE IF x.version # y.version THEN "version"
  ELSE IF x.syms # y.syms \/ x.symerr # y.symerr THEN "symbols"
  ELSE "count"

DocsWhy(exp, got) ==
  LET E == SeqToSet(exp) G == SeqToSet(got)
      EK == {KeyOf(x) : x \in E} GK == {KeyOf(x) : x \in G}
  IN IF EK \ GK # {} THEN [why |-> "missing", key |-> CHOOSE k \in EK \ GK : TRUE]
     ELSE IF GK \ EK # {} THEN [why |-> "extra", key |-> CHOOSE k \in GK \ EK : TRUE]
     ELSE IF E \ G # {} THEN
        LET x == CHOOSE x \in E \ G : TRUE
            ys == {y \in G \ E : KeyOf(y) = KeyOf(x)}
        IN IF ys = {} THEN [why |-> "count", key |-> KeyOf(x)]
           ELSE [why |-> FieldWhy(x, CHOOSE y \in ys : TRUE), key |-> KeyOf(x)]
     ELSE IF G \ E # {} THEN [why |-> "count", key |-> KeyOf(CHOOSE y \in G \ E : TRUE)]
     ELSE [why |-> "count", key |-> KeyOf(CHOOSE x \in E : Count(exp, x) # Count(got, x))]

\* ------------------------------------------------------------------ repositories and statistics
Entries(r, src, name) == SelectSeq(r.repos, LAMBDA x : x.src = src /\ x.desc.name = name)

RepoStats(b, bl, ri) ==
  LET R == b.repos[ri]
      st == [di \in 1..Len(R.docs) |-> StoredTab[bl][PosOf(b, ri, di)]]
      I == [di \in 1..Len(R.docs) |-> BranchIdx(R.desc, R.docs[di])]
  IN [docs |-> Len(R.docs),
      cbytes |-> Sum([di \in 1..Len(R.docs) |-> st[di].size + ByteLen(R.docs[di].name)]),
      nl |-> Sum([di \in 1..Len(R.docs) |-> st[di].nl]),
      nldef |-> Sum([di \in 1..Len(R.docs) |-> IF 1 \in I[di] THEN st[di].nl ELSE 0]),
      nlother |-> Sum([di \in 1..Len(R.docs) |-> Cardinality(I[di] \ {1}) * st[di].nl])]

CheckRepo(b, bl, r, ri, i) ==
  LET R == b.repos[ri]
      exp == ExpRepo(R.desc, R.via, b.opts)
      copies == IF b.path = "merge" THEN 1 ELSE r.nshards
      L == Entries(r, "list", R.desc.name)
      M == Entries(r, "meta", R.desc.name)
      bad == {k \in 1..Len(L) : L[k].desc # exp}
      badM == {k \in 1..Len(M) : M[k].desc # exp}
      diff(d) == {f \in DOMAIN exp : exp[f] # d[f]}
      stats == RepoStats(b, bl, ri)
      tot(f) == Sum([k \in 1..Len(L) |-> L[k][f]])
  IN /\ (Len(L) # copies => Reject(i, "repo:listed-count", [repo |-> R.desc.name, expected |-> copies, got |-> Len(L)]))
     /\ (Len(M) # copies => Reject(i, "repo:metadata-count", [repo |-> R.desc.name, expected |-> copies, got |-> Len(M)]))
     /\ (bad # {} => LET d == L[CHOOSE k \in bad : TRUE].desc f == CHOOSE f \in diff(d) : TRUE
                     IN Reject(i, "repo:list:" \o f, [repo |-> R.desc.name, expected |-> exp[f], got |-> d[f]]))
     /\ (badM # {} => LET d == M[CHOOSE k \in badM : TRUE].desc f == CHOOSE f \in diff(d) : TRUE
                      IN Reject(i, "repo:metadata:" \o f, [repo |-> R.desc.name, expected |-> exp[f], got |-> d[f]]))
     /\ (Len(L) = copies /\ copies = r.nshards =>
           \A f \in {"docs", "cbytes", "nl", "nldef", "nlother"} :
              tot(f) # stats[f] => Reject(i, "stats:" \o f, [repo |-> R.desc.name, expected |-> stats[f], got |-> tot(f)]))

CheckMeta(b, bl, r, i) ==
  LET fmt == IF b.path = "merge" THEN 17 ELSE 16
      ps == AllDocs(b)
      expLangs == {ExpTab[bl][k].lang : k \in 1..Len(ps)}
      expAscii == \A k \in 1..Len(ps) : StoredTab[bl][k].ascii /\ IsAscii(b.repos[ps[k][1]].docs[ps[k][2]].name)
  IN /\ (Len(r.meta) # r.nshards => Reject(i, "meta:count", [expected |-> r.nshards]))
     /\ \A k \in 1..Len(r.meta) : LET m == r.meta[k] IN
          /\ (m.formatVersion # fmt => Reject(i, "meta:formatVersion", [expected |-> fmt, got |-> m.formatVersion]))
          /\ (m.idlen = 0 => Reject(i, "meta:id", [expected |-> "non-empty shard id"]))
          /\ (r.nshards = 1 /\ (SeqToSet(m.langs) # expLangs \/ Len(m.langs) # Cardinality(expLangs))
                => Reject(i, "meta:languages", [expected |-> expLangs, got |-> m.langs]))
          /\ (r.nshards = 1 /\ m.plainASCII # expAscii => Reject(i, "meta:plainASCII", [expected |-> expAscii, got |-> m.plainASCII]))

\* ------------------------------------------------------------------ events
Undecided(bl) == \E k \in DOMAIN StoredTab[bl] : StoredTab[bl][k].reason = "undecided"
IllFormed(b) == \E ri \in 1..Len(b.repos) : \E di \in 1..Len(b.repos[ri].docs) : ~SymsWellFormed(b.repos[ri].docs[di])

CheckReadback(b, bl, r, i) ==
  IF ~MarkerOK THEN Reject(i, "driver:markers", [expected |-> [x \in Reasons |-> Marker(x)]])
  ELSE IF Undecided(bl) THEN Reject(i, "driver:undecided", [id |-> b.id])
  ELSE IF IllFormed(b) THEN Reject(i, "driver:symbol-offsets", [id |-> b.id])
  ELSE IF r.outcome # "ok" THEN Reject(i, "outcome:" \o r.outcome, [msg |-> r.msg])
  ELSE
    LET exp == ExpTab[bl]
        got == [k \in 1..Len(r.docs) |-> Proj(r.docs[k])]
        idOf(name) == LET k == CHOOSE k \in 1..Len(b.repos) : b.repos[k].desc.name = name IN b.repos[k].desc.id
        badId == {k \in 1..Len(r.docs) : (\E q \in 1..Len(b.repos) : b.repos[q].desc.name = r.docs[k].repo) /\ r.docs[k].repoid # idOf(r.docs[k].repo)}
        badSum == {k \in 1..Len(r.docs) : r.docs[k].sum # r.docs[k].chash}
    IN /\ (~SameBag(exp, got) => LET w == DocsWhy(exp, got) IN Reject(i, "docs:" \o w.why, [key |-> w.key]))
       /\ (badSum # {} => Reject(i, "docs:checksum-of-other-content", [name |-> r.docs[CHOOSE k \in badSum : TRUE].name]))
       /\ (badId # {} => Reject(i, "docs:repository-id", [name |-> r.docs[CHOOSE k \in badId : TRUE].name]))
       /\ \A ri \in 1..Len(b.repos) : CheckRepo(b, bl, r, ri, i)
       /\ CheckMeta(b, bl, r, i)

Inside(x, y) == y.s <= x.s /\ x.e <= y.e
CheckSymSub(b, bl, e, i) ==
  LET st == StoredTab[bl][PosOf(b, e.ri, e.di)]
  IN IF e.outcome # "ok" THEN Reject(i, "symsub:outcome:" \o e.outcome, [msg |-> e.msg])
     ELSE IF st.reason # "none" THEN (e.found => Reject(i, "symsub:skipped-document-has-symbols", [reason |-> st.reason]))
     ELSE LET y == st.syms[e.k]
              boff == BOffSeq(st.content)
              want == [s |-> y.s, e |-> y.e, bs |-> y.bs, be |-> y.be]
              stray == {k \in 1..Len(e.ranges) : ~\E q \in 1..Len(st.syms) : Inside(e.ranges[k], st.syms[q])}
              wrongOff == {k \in 1..Len(e.ranges) : LET x == e.ranges[k] IN
                              x.s < 0 \/ x.e - x.s # Len(e.pat) \/ x.e > Len(st.content)
                              \/ (x.s >= 0 /\ x.e <= Len(st.content) /\ (boff[x.s + 1] # x.bs \/ SubSeq(st.content, x.s + 1, x.e) # e.pat))}
          IN /\ (~e.found => Reject(i, "symsub:document-not-found", [sym |-> want]))
             /\ (e.found /\ want \notin SeqToSet(e.ranges) => Reject(i, "symsub:symbol-not-reported", [sym |-> want, got |-> e.ranges]))
             /\ (wrongOff # {} => Reject(i, "symsub:offsets", [got |-> e.ranges[CHOOSE k \in wrongOff : TRUE]]))
             /\ (wrongOff = {} /\ stray # {} => Reject(i, "symsub:outside-symbols", [got |-> e.ranges[CHOOSE k \in stray : TRUE]]))

CheckTri(b, bl, e, i) ==
  LET ps == AllDocs(b)
      opaque == \E k \in 1..Len(ps) : StoredTab[bl][k].kind # "text"
      hay(k) == IF e.fileName THEN b.repos[ps[k][1]].docs[ps[k][2]].name ELSE StoredTab[bl][k].content
      hits == SelectSeq([k \in 1..Len(ps) |-> k], LAMBDA k : Occurs(e.pat, hay(k)))
      exp == [q \in 1..Len(hits) |-> LET x == ExpTab[bl][hits[q]] IN [repo |-> x.repo, name |-> x.name, branches |-> x.branches, sum |-> x.sum]]
  IN IF opaque THEN Reject(i, "driver:tri-on-uninterpreted-content", [id |-> b.id])
     ELSE IF e.outcome # "ok" THEN Reject(i, "tri:outcome:" \o e.outcome, [msg |-> e.msg])
     ELSE (~SameBag(exp, e.files) =>
             Reject(i, IF Len(e.files) < Len(exp) THEN "tri:missing" ELSE IF Len(e.files) > Len(exp) THEN "tri:extra" ELSE "tri:other",
                    [pat |-> e.pat, expected |-> Len(exp), got |-> Len(e.files)]))

VerdictAt(i) ==
  LET e == Trace[i] IN
  CASE e.ev = "readback" -> CheckReadback(Trace[i - e.back], i - e.back, e, i)
    [] e.ev = "symsub"   -> CheckSymSub(Trace[i - e.back], i - e.back, e, i)
    [] e.ev = "tri"      -> CheckTri(Trace[i - e.back], i - e.back, e, i)
    [] OTHER -> TRUE

ASSUME \A i \in 1..Len(Trace) : VerdictAt(i)

Init == done = FALSE
Done == ~done /\ done' = TRUE /\ PrintT(<<"ACCEPTED", Len(Trace)>>)
Next == Done
Spec == Init /\ [][Next]_vars
=============================================================================
