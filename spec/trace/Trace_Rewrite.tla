--------------------------- MODULE Trace_Rewrite ---------------------------
(* C05: validation of recorded query rewrites.  Every event                                 *)
(*     [ev |-> "rewrite", kind, before, after, atoms, outcome, back]                         *)
(* holds the real tree handed to a rewrite and the real tree it returned, projected to the   *)
(* nodes of RewriteSem (and/or/not/const/type/boost/scope/atom).  The specification          *)
(* quantifies over ALL corpora by quantifying over all truth assignments:                    *)
(*                                                                                           *)
(*   * an atom that the documentation makes constant has that value (Degenerate): empty      *)
(*     substring / empty-match regexp / empty branch pattern hold for every document; a      *)
(*     BranchesRepos without any id, an empty RepoIDs, RepoSet, FileNameSet for none;        *)
(*   * a substring / regexp atom with pattern p is "p occurs in the file name" and/or "p     *)
(*     occurs in the content", two independent variables per pattern shared by the           *)
(*     file-only, content-only and unrestricted atoms over p (unrestricted = either);        *)
(*   * every other atom is one variable per document, except repository-level atoms (Repo,   *)
(*     RepoRegexp, RepoSet, RepoIDs, RawConfig, Meta) which have one value per repository;   *)
(*   * for a rewrite that used a shard's metadata (back > 0: the "shard" event that many     *)
(*     lines back) the repository-level atoms are EVALUATED on each live repository of that  *)
(*     shard from the logged metadata, and BranchesRepos / Language are variables only       *)
(*     where the metadata allows them to hold (id listed and branch present; language        *)
(*     present in the shard);                                                                *)
(*   * when type:repo occurs there are two documents in the repository.                      *)
(*                                                                                           *)
(* before and after must agree under every assignment (and for every live repository), and   *)
(* the result must have the structure the rewrite promises.  Never blocks.                   *)
EXTENDS RewriteSem, TLC, Json

Trace == ndJsonDeserialize("trace.ndjson")

FoldOrbits == Trace[1].orbits
OrbSet == {FoldOrbits[j] : j \in 1..Len(FoldOrbits)}
CanonTab == LET rs == UNION {{o[k] : k \in 1..Len(o)} : o \in OrbSet}
            IN [r \in rs |-> LET o == CHOOSE o \in OrbSet : \E k \in 1..Len(o) : o[k] = r IN o[1]]
OrbitTab == [c \in {o[1] : o \in OrbSet} |->
               LET o == CHOOSE o \in OrbSet : o[1] = c IN {o[k] : k \in 1..Len(o)}]
R == INSTANCE Regex WITH Canon <- CanonTab, Orbit <- OrbitTab

VARIABLES done
vars == <<done>>
Init == done = FALSE

Reject(i, why, exp) == PrintT(<<"REJECTED", ToJson([line |-> i, why |-> why, expected |-> exp])>>)

MaxBits == 12

-----------------------------------------------------------------------------
\* atoms whose value does not depend on the corpus
Degenerate(a) ==
  CASE a.t = "substr" /\ Len(a.pat) = 0 -> "T"
    [] a.t = "regex" /\ a.re.op = "empty" -> "T"
    [] a.t = "branch" /\ Len(a.pat) = 0 -> "T"
    [] a.t = "branchesrepos" /\ (\A k \in 1..Len(a.br) : Len(a.br[k].ids) = 0) -> "F"
    [] a.t = "repoids" /\ Len(a.ids) = 0 -> "F"
    [] a.t = "reposet" /\ a.n = 0 -> "F"
    [] a.t = "filenameset" /\ Len(a.names) = 0 -> "F"
    [] OTHER -> "V"

InName(a) == a.fn \/ ~a.ct
InContent(a) == a.ct \/ ~a.fn
Textual(a) == a.t \in {"substr", "regex"}
RepoLevel(a) == a.t \in {"repo", "reporegexp", "reposet", "repoids", "rawconfig", "meta"}

RawConfigOk(f, r) == /\ (f[1] => r.public) /\ (f[2] => ~r.public)
                     /\ (f[3] => r.fork) /\ (f[4] => ~r.fork)
                     /\ (f[5] => r.archived) /\ (f[6] => ~r.archived)

\* a repository-level atom on a repository described by a shard event
RepoVal(a, r) ==
  CASE a.t \in {"repo", "reporegexp"} -> R!Matches(a.re, r.name, FALSE)
    [] a.t = "reposet"   -> r.name \in ToSet(a.names)
    [] a.t = "repoids"   -> r.id \in ToSet(a.ids)
    [] a.t = "rawconfig" -> RawConfigOk(a.flags, r)
    [] a.t = "meta"      -> \E k \in 1..Len(r.meta) : r.meta[k].k = a.s /\ R!Matches(a.re, r.meta[k].v, FALSE)

\* can a document-dependent atom hold at all for a document of repository r in shard sh
Possible(a, sh, r) ==
  CASE a.t = "branchesrepos" -> \E k \in 1..Len(a.br) : r.id \in ToSet(a.br[k].ids) /\ a.br[k].branch \in ToSet(r.branches)
    [] a.t = "lang" -> a.s \in ToSet(sh.langs)
    [] OTHER -> TRUE

\* variables: <<number, tag, document>>; tag 1 = pattern in file name, 2 = pattern in content,
\* 0 = other atom (per document), 3 = repository-level atom (document 0)
VarsOfAtom(a, shardMode, docs) ==
  IF Degenerate(a) # "V" THEN {}
  ELSE IF Textual(a) THEN {<<a.base, 1, d>> : d \in {d \in docs : InName(a)}} \cup {<<a.base, 2, d>> : d \in {d \in docs : InContent(a)}}
  ELSE IF RepoLevel(a) THEN (IF shardMode THEN {} ELSE {<<a.id, 3, 0>>})
  ELSE {<<a.id, 0, d>> : d \in docs}

AtomVal(a, v, d, repoVal, possible, shardMode) ==
  LET g == Degenerate(a) IN
  IF g = "T" THEN TRUE
  ELSE IF g = "F" THEN FALSE
  ELSE IF Textual(a) THEN (InName(a) /\ <<a.base, 1, d>> \in v) \/ (InContent(a) /\ <<a.base, 2, d>> \in v)
  ELSE IF RepoLevel(a) THEN (IF shardMode THEN repoVal ELSE <<a.id, 3, 0>> \in v)
  ELSE possible /\ <<a.id, 0, d>> \in v

Structured(kind) == kind \in {"simplify", "shard", "parse"}

CheckRewrite(e, i) ==
  IF e.outcome # "ok" THEN Reject(i, "outcome:" \o e.outcome, [outcome |-> "ok"])
  ELSE
  LET shardMode == e.back > 0
      sh == IF shardMode THEN Trace[i - e.back] ELSE [repos |-> <<>>, langs |-> <<>>]
      used == AtomsOf(e.before) \cup AtomsOf(e.after)
      docs == IF HasTypeRepo(e.before) \/ HasTypeRepo(e.after) THEN {1, 2} ELSE {1}
      V == UNION {VarsOfAtom(e.atoms[a], shardMode, docs) : a \in used}
      live == IF shardMode THEN {k \in 1..Len(sh.repos) : ~sh.repos[k].tomb} ELSE {0}
      \* tables per (atom, repository), outside the quantification over assignments
      rv == [a \in used |-> [k \in live |->
               IF shardMode /\ RepoLevel(e.atoms[a]) /\ Degenerate(e.atoms[a]) = "V"
               THEN RepoVal(e.atoms[a], sh.repos[k]) ELSE FALSE] @@ <<>>] @@ <<>>
      ps == [a \in used |-> [k \in live |->
               IF shardMode THEN Possible(e.atoms[a], sh, sh.repos[k]) ELSE TRUE] @@ <<>>] @@ <<>>
      Differs(k, v) ==
        LET val == [a \in used |-> [d \in docs |-> AtomVal(e.atoms[a], v, d, rv[a][k], ps[a][k], shardMode)]]
        IN Ev(e.before, val, docs, 1) # Ev(e.after, val, docs, 1)
      BeforeAt(k, v) ==
        LET val == [a \in used |-> [d \in docs |-> AtomVal(e.atoms[a], v, d, rv[a][k], ps[a][k], shardMode)]]
        IN Ev(e.before, val, docs, 1)
      textualAfter == {a \in AtomsOf(e.after) : Textual(e.atoms[a])}
  IN IF Cardinality(V) > MaxBits THEN Reject(i, "budget", [bits |-> Cardinality(V)])
     ELSE
     /\ (\E k \in live : \E v \in SUBSET V : Differs(k, v)) =>
           LET w == CHOOSE w \in live \X SUBSET V : Differs(w[1], w[2])
           IN Reject(i, "equiv", [repo |-> IF w[1] = 0 THEN <<>> ELSE sh.repos[w[1]].name,
                                  holds |-> w[2], before |-> BeforeAt(w[1], w[2]), after |-> ~BeforeAt(w[1], w[2])])
     /\ (Structured(e.kind) /\ NestedSame(e.after) => Reject(i, "structure:nested", [kind |-> e.kind]))
     /\ (Structured(e.kind) /\ SingleChild(e.after) => Reject(i, "structure:single-child", [kind |-> e.kind]))
     /\ (Structured(e.kind) /\ ConstUnderAndOr(e.after) => Reject(i, "structure:const-under-andor", [kind |-> e.kind]))
     /\ (e.kind = "expand" /\ (\E a \in textualAfter : e.atoms[a].fn = e.atoms[a].ct)
           => Reject(i, "structure:unexpanded", [kind |-> e.kind]))
     /\ (e.kind \in {"casescope", "parse", "simplify", "shard"} /\ HasKind(e.after, "scope")
           => Reject(i, "structure:scope-left", [kind |-> e.kind]))

\* evaluated at constant level (ASSUME): TLC caches LET definitions only outside actions
ASSUME \A i \in 2..Len(Trace) : LET e == Trace[i] IN (e.ev = "rewrite" => CheckRewrite(e, i))

Done == ~done /\ done' = TRUE /\ PrintT(<<"ACCEPTED", Len(Trace)>>)
Next == Done
Spec == Init /\ [][Next]_vars
=============================================================================
