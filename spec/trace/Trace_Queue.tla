--------------------------- MODULE Trace_Queue ---------------------------
(* Trace validation for C30: every recorded call on the real Queue must be the step the   *)
(* specification (QueueOps) takes from the current abstract state, with the logged reply  *)
(* and the logged projection of the real state.  Never blocks: an event the spec does not *)
(* allow is printed as REJECTED and the rest of that history is skipped.                  *)
EXTENDS QueueOps, Json

Trace == ndJsonDeserialize("trace.ndjson")

VARIABLES l, st, skip, done
vars == <<l, st, skip, done>>

Init == l = 1 /\ st = InitSt("zero") /\ skip = FALSE /\ done = FALSE

Reject(why, exp) == PrintT(<<"REJECTED", ToJson([line |-> l, why |-> why, expected |-> exp])>>)

ItemsMatch(items, logged) ==
  /\ {logged[k].id : k \in DOMAIN logged} = DOMAIN items
  /\ \A k \in DOMAIN logged :
       LET e == logged[k] IN
       e.id \in DOMAIN items =>
         LET m == items[e.id] IN
         /\ e.rid = e.id
         /\ e.oid = m.oid /\ e.ver = m.ver /\ e.indexed = m.indexed /\ e.failed = m.failed
         /\ e.onHeap = m.onHeap /\ e.blocked = m.blocked

ReplyMatch(o, reply, logged) ==
  CASE o.op = "pop"    -> logged.ok = reply.ok /\ logged.oid = reply.oid /\ logged.ver = reply.ver
    [] o.op = "bump"   -> logged = reply
    [] o.op = "remove" -> ToSet(logged) = reply
    [] OTHER           -> TRUE

Show(items) == [i \in DOMAIN items |-> items[i]]

Reset == /\ l <= Len(Trace) /\ Trace[l].ev = "reset"
         /\ st' = InitSt(Trace[l].mode) /\ skip' = FALSE /\ l' = l + 1 /\ UNCHANGED done

Skip == /\ l <= Len(Trace) /\ Trace[l].ev = "op" /\ skip
        /\ l' = l + 1 /\ UNCHANGED <<st, skip, done>>

Op == /\ l <= Len(Trace) /\ Trace[l].ev = "op" /\ ~skip
      /\ LET e == Trace[l]
             r == Apply(st, e.o)
             okReply == ReplyMatch(e.o, r.reply, e.reply)
             okState == ItemsMatch(r.st.items, e.items) /\ e.len = Cardinality(Heap(r.st.items))
             dev == e.o.op = "remove" /\ SkipDeviates(st, ToSet(e.o.ids))
         IN /\ st' = r.st
            /\ IF ~okReply THEN Reject("reply", [reply |-> r.reply]) /\ skip' = TRUE
               ELSE IF ~okState THEN Reject("state", [items |-> Show(r.st.items)]) /\ skip' = TRUE
               ELSE IF dev THEN Reject("same-size-skip", [tracked |-> DOMAIN st.items]) /\ skip' = FALSE
               ELSE skip' = FALSE
      /\ l' = l + 1 /\ UNCHANGED done

Done == l = Len(Trace) + 1 /\ ~done /\ done' = TRUE /\ PrintT(<<"ACCEPTED", l - 1>>)
        /\ UNCHANGED <<l, st, skip>>

Next == Reset \/ Skip \/ Op \/ Done
Spec == Init /\ [][Next]_vars
=============================================================================
