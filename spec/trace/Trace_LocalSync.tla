------------------------- MODULE Trace_LocalSync -------------------------
(* Trace validation for C33 / C34: every recorded zoekt-local-sync command, run on real    *)
(* directories with real git repositories, must be the step LocalSyncOps takes from the    *)
(* current abstract state: outcome, announcement (parsed output), projected index          *)
(* directory, files touched; for previews additionally: no mutating system call below the  *)
(* index directory (strace), snapshot unchanged; and the observed preview announcement     *)
(* must be what the observed -f run of the same command then did.                          *)
(* Never blocks: an event the specification does not allow is printed as REJECTED (with     *)
(* every failed check) and the rest of that history is skipped.                             *)
EXTENDS LocalSyncOps, Json

Trace == ndJsonDeserialize("trace.ndjson")

VARIABLES l, repos, index, pv, skip, done
vars == <<l, repos, index, pv, skip, done>>

NoPv == [valid |-> FALSE]

Init == l = 1 /\ repos = {} /\ index = {} /\ pv = NoPv /\ skip = FALSE /\ done = FALSE

Recs(S)  == {[name |-> x.name, src |-> x.src, head |-> x.head] : x \in S}
Pairs(S) == {[name |-> x.name, src |-> x.src] : x \in S}
ObsAnn(e) == [remove |-> Pairs(ToSet(e.annrm)), index |-> Pairs(ToSet(e.annix)), uptodate |-> Pairs(ToSet(e.annutd))]
FilesOf(S) == UNION {ToSet(x.files) : x \in S}
Show(S) == [x \in S |-> TRUE]

\* names of the checks that fail for command event e in abstract state (repos, index)
Failed(e, rp, ix, p) ==
  LET c     == e.c
      exp   == Run(rp, ix, c)
      pre   == ToSet(e.pre)
      post  == ToSet(e.post)
      ann   == ObsAnn(e)
      diff  == ToSet(e.deleted) \cup ToSet(e.created) \cup ToSet(e.modified)
      touchedNames == {x.name : x \in exp.ann.remove \cup exp.ann.index}
      d     == Delta(Recs(pre), Recs(post))
      quiet == ~c.force \/ ~exp.ok      \* nothing may change
  IN
  (IF Recs(pre) # ix THEN {"pre-state"} ELSE {})
  \cup (IF e.ok # exp.ok \/ (~e.ok /\ e.err \notin exp.errs) THEN {"outcome"} ELSE {})
  \cup (IF quiet /\ (Recs(post) # Recs(pre) \/ diff # {})
        THEN {IF c.force THEN "failure-changed" ELSE "preview-changed"} ELSE {})
  \cup (IF ~quiet /\ Recs(post) # exp.index
        THEN {IF c.op = "sync" THEN "converge" ELSE "remove-exact"} ELSE {})
  \cup (IF ann # exp.ann
        THEN {IF c.op = "sync" /\ ~c.force /\ exp.ok /\ StaleSameHead(ix, Disc(rp, c.roots))
                 /\ ann = CodePreviewSync(ix, Disc(rp, c.roots))
              THEN "announce-stale-same-head" ELSE "announce"} ELSE {})
  \cup (IF {x.file : x \in ToSet(e.annrm)} # FilesOf({x \in pre : Key(x) \in exp.ann.remove})
        THEN {"announce-files"} ELSE {})
  \cup (IF ~quiet /\ (FilesOf({x \in pre : x.name \notin touchedNames}) \cap diff # {}
                      \/ FilesOf({x \in post : x.name \notin touchedNames}) \cap diff # {})
        THEN {"files-untouched"} ELSE {})
  \cup (IF ~quiet /\ c.op = "remove" /\ ToSet(e.deleted) # FilesOf({x \in pre : Key(x) \in exp.ann.remove})
        THEN {"remove-files"} ELSE {})
  \cup (IF e.orphans # <<>> THEN {"orphans"} ELSE {})
  \cup (IF ~c.force /\ (~e.straced \/ e.muts # <<>> \/ ~e.snapeq) THEN {"side-effect"} ELSE {})
  \cup (IF ~e.childsame THEN {"unstable"} ELSE {})
  \cup (IF e.passf # (~c.force /\ e.ok) \/ ~e.verbsok THEN {"wording"} ELSE {})
  \cup (IF c.force /\ p.valid /\ p.c = [c EXCEPT !.force = FALSE]
           /\ ~( /\ p.ok = e.ok
                 /\ p.ann = ann
                 /\ p.files = {x.file : x \in ToSet(e.annrm)}
                 /\ e.ok => IF c.op = "sync" THEN p.ann = d
                            ELSE p.ann.remove = d.remove /\ d.index = {} /\ p.files = ToSet(e.deleted) )
        THEN {"faithful"} ELSE {})

Order == <<"pre-state", "outcome", "preview-changed", "failure-changed", "side-effect", "unstable", "converge",
           "remove-exact", "announce-stale-same-head", "announce", "announce-files", "remove-files",
           "files-untouched", "orphans", "wording", "faithful">>
First(F) == Order[CHOOSE i \in DOMAIN Order : Order[i] \in F /\ \A j \in 1..(i - 1) : Order[j] \notin F]

Reset == /\ l <= Len(Trace) /\ Trace[l].ev = "reset"
         /\ repos' = {} /\ index' = {} /\ pv' = NoPv /\ skip' = FALSE /\ l' = l + 1 /\ UNCHANGED done

Skip == /\ l <= Len(Trace) /\ Trace[l].ev # "reset" /\ skip
        /\ l' = l + 1 /\ UNCHANGED <<repos, index, pv, skip, done>>

Env == /\ l <= Len(Trace) /\ Trace[l].ev = "env" /\ ~skip
       /\ LET s == EnvApply(repos, index, Trace[l].a) IN repos' = s.repos /\ index' = s.index
       /\ pv' = NoPv /\ l' = l + 1 /\ UNCHANGED <<skip, done>>

Cmd == /\ l <= Len(Trace) /\ Trace[l].ev = "cmd" /\ ~skip
       /\ LET e   == Trace[l]
              exp == Run(repos, index, e.c)
              F   == Failed(e, repos, index, pv)
          IN /\ index' = exp.index
             /\ IF F = {} THEN skip' = FALSE
                ELSE /\ skip' = TRUE
                     /\ PrintT(<<"REJECTED", ToJson([line |-> l, why |-> First(F), all |-> F,
                                  expected |-> [ok |-> exp.ok, errs |-> exp.errs, ann |-> exp.ann, index |-> exp.index]])>>)
             /\ pv' = IF ~e.c.force
                      THEN [valid |-> TRUE, c |-> e.c, ok |-> e.ok, ann |-> ObsAnn(e), files |-> {x.file : x \in ToSet(e.annrm)}]
                      ELSE NoPv
       /\ l' = l + 1 /\ UNCHANGED <<repos, done>>

Done == l = Len(Trace) + 1 /\ ~done /\ done' = TRUE /\ PrintT(<<"ACCEPTED", l - 1>>)
        /\ UNCHANGED <<l, repos, index, pv, skip>>

Next == Reset \/ Skip \/ Env \/ Cmd \/ Done
Spec == Init /\ [][Next]_vars
=============================================================================
