--------------------------- MODULE Trace_ZoektSeq ---------------------------
(* Trace validation for the system-level check (SYS).  Every line is one step executed on     *)
(* the real code: the operation, the projected directory and the searcher's view BEFORE       *)
(* (= what was observed after the preceding operation of that history) and AFTER.             *)
(* For every step:                                                                            *)
(*   diverge  the observed after-state must be one of ZoektSeqOps!Apply(observed before-      *)
(*            state, operation): recomputed from the observed predecessor with the operators  *)
(*            the state machine ZoektSeq uses, not taken from a prediction (the code as it    *)
(*            is, or with the patch proposed in NOTES/SYS.md)                                 *)
(*   view     what the real directory searcher lists / finds must be what the projected       *)
(*            directory implies (nothing from *.tmp or the trash, tombstones respected)       *)
(*   clause   the clauses of the statement (ZoektSeqOps!Viol) hold on the observed pair       *)
(*   junk / failed   files the model has no place for; an operation that reported an error    *)
(* Never blocks: everything is evaluated in an ASSUME over the constant Trace and printed as  *)
(* REJECTED lines; the state machine only reports that the whole trace was read.              *)
EXTENDS ZoektSeqOps, Json

Trace == ndJsonDeserialize("trace.ndjson")

VARIABLES done
vars == <<done>>
Init == done = FALSE

AllRepos == {1, 2, 3}

Reject(l, why, exp) == PrintT(<<"REJECTED", ToJson([line |-> l, why |-> why, expected |-> exp])>>)

ToFile(f) == [l |-> f.l, k |-> f.k, nm |-> f.nm, mt |-> f.mt, mf |-> f.mf,
              mem |-> [p \in DOMAIN f.mem |-> [id |-> f.mem[p].id, ver |-> f.mem[p].ver, tb |-> f.mem[p].tb]],
              raw |-> [p \in DOMAIN f.raw |-> [id |-> f.raw[p].id, ver |-> f.raw[p].ver, cv |-> f.raw[p].cv]]]
ToState(x) == [d |-> {ToFile(x.d[i]) : i \in DOMAIN x.d}, tmp |-> x.tmp,
               A |-> {x.a[i] : i \in DOMAIN x.a}, clk |-> x.clk, last |-> x.last]
ToVis(x) == {[id |-> x.vis[i].id, n |-> x.vis[i].n, lv |-> x.vis[i].lv, docs |-> x.vis[i].docs,
              cv |-> {x.vis[i].cv[j] : j \in DOMAIN x.vis[i].cv}] : i \in DOMAIN x.vis}

Out(s) == [d |-> SetToSeq(s.d), tmp |-> s.tmp, a |-> SetToSortSeq(s.A, LAMBDA x, y : x < y),
           clk |-> s.clk, last |-> s.last]

Shaped(x) == \A i \in DOMAIN x.d : Len(x.d[i].mem) = Len(x.d[i].raw)

Check(e, l) ==
  LET pre   == ToState(e.pre)
      post  == ToState(e.post)
      o     == [op |-> e.op, r |-> e.r, v |-> e.v, min |-> e.min]
      exp   == Apply(pre, o, FALSE)
      fixed == Apply(pre, o, TRUE)
      vpre  == ToVis(e.pre)
      vpost == ToVis(e.post)
      viol  == Viol(pre, o, post, vpre, vpost, AllRepos, FALSE)
  IN IF e.junk # <<>> \/ ~Shaped(e.pre) \/ ~Shaped(e.post) THEN Reject(l, "junk", e.junk)
     ELSE /\ (e.failed # "" => Reject(l, "failed", e.failed))
          /\ (post \notin exp \cup fixed => Reject(l, "diverge", SetToSeq({Out(s) : s \in exp})))
          /\ (~ViewOK(vpost, post.d) => Reject(l, "view", SetToSeq(ViewOf(post.d))))
          /\ (~ViewOK(vpre, pre.d) => Reject(l, "view-before", SetToSeq(ViewOf(pre.d))))
          /\ (viol # {} => Reject(l, "clause", SetToSeq(viol)))

\* evaluated at constant level (ASSUME): TLC caches LET definitions only outside actions
ASSUME \A i \in 1..Len(Trace) : LET e == Trace[i] IN Check(e, i)
Done == ~done /\ done' = TRUE /\ PrintT(<<"ACCEPTED", Len(Trace)>>)
Next == Done
Spec == Init /\ [][Next]_vars
=============================================================================
