------------------------- MODULE Trace_Tombstone -------------------------
(* Trace validation for C17.  Events (harness/drivers/index/c17_tombstone_test.go):       *)
(*   corpus  the directory that was built (kind, shards, queries); all flags clear         *)
(*   snap    definition of observation snapshot n: for every searcher (at = 0 directory    *)
(*           searcher, k = shard searcher of shard k, both freshly loaded) and every query  *)
(*           all output channels (Files, RepoURLs, LineFragments, List in both field modes) *)
(*   reset   the compound shard is pristine again (sidecar removed)                        *)
(*   step    SetTombstone/UnsetTombstone(id) on shard `shard`: what it reported, whether a  *)
(*           failing rename was injected, and the snapshot observed after reloading         *)
(* A step must be one of the specification's actions: Do (reported ok, flags = ApplyOp) or, *)
(* only when a fault was injected, RenameFails (reported err, flags unchanged); the         *)
(* snapshot must be what TombstoneOps allows for the resulting flags.  Never blocks.        *)
EXTENDS TombstoneOps, Json

Trace == ndJsonDeserialize("trace.ndjson")

VARIABLES l, cx, queries, snaps, cache, skip, done
vars == <<l, cx, queries, snaps, cache, skip, done>>

NoCx == [D |-> <<>>, kind |-> "compound", tomb |-> <<>>]

Init == /\ l = 1 /\ cx = NoCx /\ queries = <<>> /\ snaps = <<>> /\ cache = <<>>
        /\ skip = TRUE /\ done = FALSE

Reject(why, exp) == PrintT(<<"REJECTED", ToJson([line |-> l, why |-> why, expected |-> exp])>>)
RejectAll(whys, exp) == \A w \in whys : Reject(w, exp)

\* judgement of snapshot n under the flags t (memoised per scenario)
Key(t, n) == <<t, n>>
Judge(c, n) == IF n = 0 THEN {}
               ELSE IF n \notin DOMAIN snaps THEN {"unknown-snapshot"}
               ELSE IF Key(c.tomb, n) \in DOMAIN cache THEN cache[Key(c.tomb, n)]
               ELSE SnapWhys(snaps[n], queries, c) \cup
                    {"error:" \o snaps[n][i].err : i \in {i \in DOMAIN snaps[n] : snaps[n][i].err # ""}}
Memo(c, n, w) == IF n = 0 \/ Key(c.tomb, n) \in DOMAIN cache THEN cache
                 ELSE cache @@ (Key(c.tomb, n) :> w)

LeakWhys == {"leak:" \o ch \o tag : ch \in {"Files", "Files.path", "RepoURLs", "LineFragments", "List.Repos", "List.ReposMap"},
                                        tag \in {":dir", ":shard"}}

Expect(c) == [tombstoned |-> c.tomb, live |-> [k \in DOMAIN c.D |-> LiveOf(c, k)]]

Corpus == /\ l <= Len(Trace) /\ Trace[l].ev = "corpus"
          /\ cx' = [D |-> Trace[l].shards, kind |-> Trace[l].kind,
                    tomb |-> [k \in DOMAIN Trace[l].shards |-> {}]]
          /\ queries' = Trace[l].queries /\ snaps' = <<>> /\ cache' = <<>> /\ skip' = FALSE
          /\ l' = l + 1 /\ UNCHANGED done

Snap == /\ l <= Len(Trace) /\ Trace[l].ev = "snap"
        /\ snaps' = snaps @@ (Trace[l].n :> Trace[l].entries)
        /\ l' = l + 1 /\ UNCHANGED <<cx, queries, cache, skip, done>>

Reset == /\ l <= Len(Trace) /\ Trace[l].ev = "reset"
         /\ LET c == [cx EXCEPT !.tomb = [k \in DOMAIN cx.D |-> {}]]
                w == Judge(c, Trace[l].snap) \cup (IF Trace[l].leftovers # 0 THEN {"leftover-files"} ELSE {})
            IN /\ cx' = c /\ cache' = Memo(c, Trace[l].snap, Judge(c, Trace[l].snap))
               /\ RejectAll({"reset:" \o x : x \in w}, Expect(c))
               /\ skip' = (w # {})
         /\ l' = l + 1 /\ UNCHANGED <<queries, snaps, done>>

SkipStep == /\ l <= Len(Trace) /\ Trace[l].ev = "step" /\ skip
            /\ l' = l + 1 /\ UNCHANGED <<cx, queries, snaps, cache, skip, done>>

\* The flags a step left behind are read off the listing of the constant-true query (always
\* query 1) by the freshly loaded searcher of the shard operated on.
ListedLive(n, k) ==
  IF n \notin DOMAIN snaps THEN {-1}
  ELSE LET es == {i \in DOMAIN snaps[n] : snaps[n][i].at = k /\ snaps[n][i].q = 1 /\ ~snaps[n][i].skip}
       IN IF es = {} \/ queries[1].k # "true" THEN {-1}
          ELSE UNION {ToSet(snaps[n][i].repos) : i \in es}

Step == /\ l <= Len(Trace) /\ Trace[l].ev = "step" /\ ~skip
        /\ LET e       == Trace[l]
               before  == cx.tomb[e.shard]
               applied == ApplyOp(before, RepoIds(cx.D[e.shard]), e.op, e.id)
               cDo     == [cx EXCEPT !.tomb[e.shard] = applied]      \* action Do
               cFail   == cx                                         \* action RenameFails
               ok      == e.reported = "ok"
               cSel    == IF ok THEN cDo ELSE cFail                  \* the action the report selects
               cAlt    == IF ok THEN cFail ELSE cDo
               seen    == ListedLive(e.snap, e.shard)
               isSel   == seen = LiveOf(cSel, e.shard)
               isAlt   == ~isSel /\ seen = LiveOf(cAlt, e.shard)
               cNew    == IF isAlt THEN cAlt ELSE cSel
               w       == Judge(cNew, e.snap)
               files   == (IF e.leftovers # 0 THEN {"leftover-files"} ELSE {})
                          \cup (IF ok /\ ~e.fault /\ ~e.sidecar THEN {"no-sidecar-after-ok"} ELSE {})
               opn     == ":" \o e.op
           IN /\ cache' = Memo(cNew, e.snap, w)
              /\ IF ~ok /\ ~e.fault
                 THEN Reject("spurious-error" \o opn, Expect(cDo)) /\ skip' = TRUE /\ cx' = cx
                 ELSE IF e.fault /\ e.injected = 0
                 THEN Reject("harness:no-injection", Expect(cSel)) /\ skip' = TRUE /\ cx' = cx
                 ELSE IF ~isSel /\ ~isAlt
                 THEN \* neither action: the flags are not what any step of the specification leaves
                      /\ Reject("flags" \o opn, Expect(cSel)) /\ skip' = TRUE /\ cx' = cx
                 ELSE /\ cx' = cNew
                      \* report and effect disagree (OkMeansEffect / ErrMeansNoChange)
                      /\ (isAlt => Reject((IF ok THEN "ok-without-effect" ELSE "error-with-effect") \o opn
                                            \o (IF e.fault THEN ":rename-failed" ELSE ""), Expect(cSel)))
                      /\ RejectAll({x \o opn : x \in files}, Expect(cNew))
                      /\ RejectAll(w, Expect(cNew))
                      \* leaks do not put the flags in doubt; anything else ends the scenario
                      /\ skip' = (w \ LeakWhys # {} \/ files # {})
        /\ l' = l + 1 /\ UNCHANGED <<queries, snaps, done>>

Done == l = Len(Trace) + 1 /\ ~done /\ done' = TRUE /\ PrintT(<<"ACCEPTED", l - 1>>)
        /\ UNCHANGED <<l, cx, queries, snaps, cache, skip>>

Next == Corpus \/ Snap \/ Reset \/ SkipStep \/ Step \/ Done
Spec == Init /\ [][Next]_vars
=============================================================================
