--------------------------- MODULE Trace_MergeExplode ---------------------------
(* C35 trace validation.  One scenario = one run of the real zoekt-merge-index main() in a  *)
(* child process under strace:                                                               *)
(*   reset {cfg, run, point}                                                                 *)
(*   mut   {op, f, res}      mutations of the index directory in order (res ok), plus the     *)
(*                           one operation that was made to fail (res fail; also a failing    *)
(*                           open of an input)                                                *)
(*   end   {kind, reported, view, files, bad}   kind done | crash | fault; exit status         *)
(*                           (ok | err | none); what a fresh process loading the directory     *)
(*                           with the real searcher sees (per repository: in how many shards   *)
(*                           it is visible); the files left                                     *)
(* Checked: every mutation is a step MergeExplodeOps enables; files, view and report are the  *)
(* ones the model computes; and the property on the observation itself: no repository is      *)
(* visible twice, and a success report means targets in place, sources gone, every            *)
(* repository visible exactly once.                                                            *)
EXTENDS MergeExplodeOps, Json

Trace == ndJsonDeserialize("trace.ndjson")

VARIABLES l, cfg, st, skip, done
vars == <<l, cfg, st, skip, done>>

NoCfg == [op |-> "merge", n |-> 1, sidecars |-> {}, tomb |-> {}, resimple |-> FALSE]
ToSet(s) == {s[i] : i \in DOMAIN s}
CfgOf(c) == [op |-> c.op, n |-> c.n, sidecars |-> ToSet(c.sidecars), tomb |-> ToSet(c.tomb), resimple |-> c.resimple]

Init == l = 1 /\ cfg = NoCfg /\ st = InitSt(NoCfg) /\ skip = FALSE /\ done = FALSE

Reject(why, exp) == PrintT(<<"REJECTED", ToJson([line |-> l, why |-> why, expected |-> exp])>>)

Reset == /\ l <= Len(Trace) /\ Trace[l].ev = "reset"
         /\ cfg' = CfgOf(Trace[l].cfg) /\ st' = InitSt(CfgOf(Trace[l].cfg)) /\ skip' = FALSE
         /\ l' = l + 1 /\ UNCHANGED done

Mut == /\ l <= Len(Trace) /\ Trace[l].ev = "mut"
       /\ LET e == Trace[l]
              a == [op |-> e.op, f |-> e.f, res |-> e.res]
          IN IF skip THEN UNCHANGED <<st, skip>>
             ELSE IF Enabled(cfg, st, a) THEN st' = Apply(cfg, st, a) /\ UNCHANGED skip
             ELSE /\ Reject("not-enabled", [op |-> e.op, f |-> e.f, res |-> e.res, ndel |-> st.ndel,
                                            staged |-> st.staged])
                  /\ skip' = TRUE /\ UNCHANGED st
       /\ l' = l + 1 /\ UNCHANGED <<cfg, done>>

End == /\ l <= Len(Trace) /\ Trace[l].ev = "end"
       /\ LET e == Trace[l]
              obs == ToSet(e.view)
              files == ToSet(e.files)
              model == View(cfg, st.disk)
          IN IF ~skip /\ files # DOMAIN st.disk
               THEN Reject("files-mismatch", [model |-> DOMAIN st.disk])
             ELSE IF ~skip /\ (obs # model \/ e.bad # 0)
               THEN Reject("view-mismatch", [model |-> model])
             ELSE IF ~skip /\ e.kind # "crash" /\ (~Finished(cfg, st) \/ e.reported \notin Reports(st))
               THEN Reject("report-mismatch", [finished |-> Finished(cfg, st), reported |-> Reported(st)])
             ELSE IF ~NoDuplicate(obs)
               THEN Reject("duplicate-repo", [view |-> obs])
             ELSE IF e.reported = "ok" /\ ~Complete(cfg, files, obs)
               THEN Reject("success-not-done", [shape |-> IF skip THEN "unknown" ELSE SuccessShape(cfg, st),
                                                 full |-> FullView(cfg), targets |-> Outs(cfg), sources |-> Sources(cfg)])
             ELSE IF e.kind = "done" /\ e.reported # "ok"
               THEN Reject("clean-run-failed", [full |-> FullView(cfg)])
             ELSE TRUE
       /\ l' = l + 1 /\ UNCHANGED <<cfg, st, skip, done>>

Done == l = Len(Trace) + 1 /\ ~done /\ done' = TRUE /\ PrintT(<<"ACCEPTED", l - 1>>)
        /\ UNCHANGED <<l, cfg, st, skip>>

Next == Reset \/ Mut \/ End \/ Done
Spec == Init /\ [][Next]_vars
=============================================================================
