------------------------- MODULE Trace_Containment -------------------------
(* C11 trace validation.  Line 1: `baseline` = the fixed operations (searches and listings)  *)
(* over the directory holding only the healthy shards, each with the projection of its       *)
(* result onto the healthy repositories.  Every `fault` event: one damaged shard file (or    *)
(* sidecar) placed next to the healthy shards, a fresh directory searcher in a supervised     *)
(* child process, the same operations; the parent turns exit status / signal / watchdog into *)
(* proc = died | hang | oom.                                                                  *)
(* Allowed (ContainmentOps): proc = alive; the damaged shard LoadOk or LoadErr; every         *)
(* operation Ok or CrashContained -- a crash only if the damaged shard is served -- and in    *)
(* every operation the results attributed to the healthy shards equal the baseline.           *)
(* Never blocks: REJECTED lines, ACCEPTED at the end.                                          *)
EXTENDS ContainmentOps, Json

Trace == ndJsonDeserialize("trace.ndjson")
Base == Trace[1]

VARIABLES l, done
vars == <<l, done>>
Init == l = 2 /\ done = FALSE

Reject(why, exp) == PrintT(<<"REJECTED", ToJson([line |-> l, why |-> why, expected |-> exp])>>)

ClassOf(e) == [target |-> e.target, section |-> e.section, part |-> e.part, pos |-> e.pos, mut |-> e.mut]

\* first reason the event is not a behaviour of the specification ("ok" if it is)
Why(e) ==
  IF e.family = "class" /\ ClassOf(e) \notin FaultClasses THEN "driver:unknown-class"
  ELSE IF e.proc \notin ProcOutcomes THEN "proc:" \o e.proc
  ELSE IF e.load \notin LoadOutcomes THEN "load:" \o e.load
  ELSE IF Len(e.ops) # Len(Base.ops) THEN "ops:incomplete"
  ELSE IF \E k \in 1..Len(e.ops) : e.ops[k].outcome \notin OpOutcomes
       THEN LET k == CHOOSE k \in 1..Len(e.ops) : e.ops[k].outcome \notin OpOutcomes
            IN e.ops[k].op \o ":" \o e.ops[k].outcome
  ELSE IF \E k \in 1..Len(e.ops) : e.ops[k].outcome = "crash" /\ e.load # "ok"
       THEN "crash-without-served-victim"
  ELSE IF \E k \in 1..Len(e.ops) : e.ops[k].healthy # Base.ops[k].healthy
       THEN LET k == CHOOSE k \in 1..Len(e.ops) : e.ops[k].healthy # Base.ops[k].healthy
            IN "affected:" \o e.ops[k].op
  ELSE "ok"

Fault == /\ l <= Len(Trace) /\ Trace[l].ev = "fault"
         /\ LET w == Why(Trace[l]) IN w # "ok" => Reject(w, [proc |-> "alive", load |-> LoadOutcomes, ops |-> OpOutcomes])
         /\ l' = l + 1 /\ UNCHANGED done

Done == l = Len(Trace) + 1 /\ ~done /\ done' = TRUE /\ PrintT(<<"ACCEPTED", l - 1>>) /\ UNCHANGED l

Next == Fault \/ Done
Spec == Init /\ [][Next]_vars
=============================================================================
