--------------------------- MODULE Trace_Search ---------------------------
(* Validation of recorded searches against QuerySem (C01; C02/C03 add range and geometry   *)
(* conditions, selected by the constant Check).                                             *)
EXTENDS Integers, Sequences, FiniteSets, TLC, Json

CONSTANT Check      \* set of strings: which families of conditions to evaluate

Trace == ndJsonDeserialize("trace.ndjson")

FoldOrbits == Trace[1].orbits
OrbSet == {FoldOrbits[j] : j \in 1..Len(FoldOrbits)}
CanonTab == LET rs == UNION {{o[k] : k \in 1..Len(o)} : o \in OrbSet}
            IN [r \in rs |-> LET o == CHOOSE o \in OrbSet : \E k \in 1..Len(o) : o[k] = r IN o[1]]
OrbitTab == [c \in {o[1] : o \in OrbSet} |->
               LET o == CHOOSE o \in OrbSet : o[1] = c IN {o[k] : k \in 1..Len(o)}]

S == INSTANCE QuerySem WITH Canon <- CanonTab, Orbit <- OrbitTab
G == INSTANCE Geometry WITH Canon <- CanonTab, Orbit <- OrbitTab
RL == INSTANCE RankLimit

VARIABLES l, cur, done
vars == <<l, cur, done>>
Init == l = 2 /\ cur = 0 /\ done = FALSE

Reject(i, why, exp) == PrintT(<<"REJECTED", ToJson([line |-> i, why |-> why, expected |-> exp])>>)

SeqToSet(s) == {s[i] : i \in 1..Len(s)}

CheckFiles(e, C, i) ==
  LET exp == S!Answer(e.q, C, e.kind, e.shard)
      got == {e.files[k].doc : k \in 1..Len(e.files)}
  IN /\ (got # exp => Reject(i, "c01:files", [missing |-> exp \ got, extra |-> got \ exp]))
     /\ (Len(e.files) # Cardinality(got) => Reject(i, "c01:duplicate", [missing |-> {}, extra |-> got]))
     /\ \A k \in 1..Len(e.files) :
          LET f == e.files[k] IN
          (f.doc \in exp /\ f.doc > 0) =>
             (~S!BranchesAdmissible(SeqToSet(f.branches), e.q, f.doc, C, e.kind)
                => Reject(i, "c01:branches", [doc |-> f.doc, sels |-> S!BranchSels(e.q, f.doc, C, e.kind)]))

CheckEvent(e, C, i) ==
  IF e.outcome # "ok" THEN Reject(i, "c01:outcome:" \o e.outcome, [outcome |-> "ok"])
  ELSE /\ ("c01" \in Check => CheckFiles(e, C, i))
       /\ ("c02" \in Check => G!CheckRanges(e, C, i))
       /\ ("c03" \in Check => G!CheckGeometry(e, C, i))

\* C23: a search / stream event / listing made for a context.  Every repository named anywhere
\* in the reply must be visible to that context and live; file matches must be exactly the
\* specification's answer under that context's visibility.
CheckTenant(e, C, i) ==
  LET Cw == C @@ [who |-> e.who]
      visNames == {C.repos[k].name : k \in {k \in 1..Len(C.repos) : S!VisibleTo(e.who, C.repos[k]) /\ ~C.repos[k].tomb}}
      visIds == {C.repos[k].id : k \in {k \in 1..Len(C.repos) : S!VisibleTo(e.who, C.repos[k]) /\ ~C.repos[k].tomb}}
      leakedNames == {e.names[k].name : k \in {k \in 1..Len(e.names) : e.names[k].name \notin visNames}}
      leakedIds == SeqToSet(e.ids) \ visIds
      leakChannels == {e.names[k].channel : k \in {k \in 1..Len(e.names) : e.names[k].name \notin visNames}}
  IN IF e.outcome # "ok" THEN Reject(i, "c23:outcome:" \o e.outcome, [outcome |-> "ok"])
     ELSE /\ (leakedNames # {} => Reject(i, "c23:leak:name", [names |-> leakedNames, channels |-> leakChannels]))
          /\ (leakedIds # {} => Reject(i, "c23:leak:id", [ids |-> leakedIds]))
          /\ (e.op = "search" =>
                LET exp == S!Answer(e.q, Cw, e.kind, e.shard)
                    got == {e.files[k].doc : k \in 1..Len(e.files)}
                IN got # exp => Reject(i, "c23:files", [missing |-> exp \ got, extra |-> got \ exp]))

\* C18: shard pre-selection and filter rewriting (selectRepoSet).  A shard that is dropped must
\* have an empty answer for the query; on every kept shard the rewritten query must select the
\* same documents as the original one.
CheckSelect(e, C, i) ==
  LET dropped == SeqToSet(e.all) \ SeqToSet(e.kept)
      lost == {s \in dropped : S!Answer(e.q, C, "shard", s) # {}}
      changed == {s \in SeqToSet(e.kept) : S!Answer(e.rq, C, "shard", s) # S!Answer(e.q, C, "shard", s)}
  IN /\ (lost # {} => Reject(i, "c18:dropped-shard-has-results", [shards |-> lost]))
     /\ (changed # {} => Reject(i, "c18:rewrite-changes-answer", [shards |-> changed]))

\* Listing: each repository once; a listed repository has a live matching document (or the query
\* is TRUE); statistics are summed over the shards holding the repository.
CheckList(e, C, i) ==
  LET names == [k \in 1..Len(e.repos) |-> e.repos[k].name]
      live == {k \in 1..Len(C.repos) : ~C.repos[k].tomb}
      expected == IF e.q.t = "const" /\ e.q.b THEN {C.repos[k].name : k \in live}
                  ELSE S!ListedNames(e.q, C, "dir")
      \* shards (repository entries) of a name that contribute to the listing
      entries(n) == {k \in live : C.repos[k].name = n /\
                        ((e.q.t = "const" /\ e.q.b) \/
                         \E j \in 1..Len(C.docs) : C.docs[j].repo = k /\ S!Live(C, C.docs[j]) /\ S!Holds(e.q, j, C, "dir"))}
      docsOf(n) == Cardinality({j \in 1..Len(C.docs) : C.docs[j].repo \in entries(n)})
      wrongStats == {k \in 1..Len(e.repos) : e.repos[k].name \in expected /\
                        (e.repos[k].shards # Cardinality(entries(e.repos[k].name)) \/ e.repos[k].documents # docsOf(e.repos[k].name))}
  IN IF e.outcome # "ok" THEN Reject(i, "c18:list:outcome", [names |-> {}])
     ELSE /\ (Cardinality(SeqToSet(names)) # Len(names) => Reject(i, "c18:list:duplicate", [names |-> SeqToSet(names)]))
          /\ (SeqToSet(names) # expected => Reject(i, "c18:list:repos", [missing |-> expected \ SeqToSet(names), extra |-> SeqToSet(names) \ expected]))
          /\ (wrongStats # {} => Reject(i, "c18:list:stats", [which |-> wrongStats]))

\* Every event is evaluated in an ASSUME, i.e. at constant level after TLC has processed the
\* constant definitions: TLC caches LET definitions only outside actions (measured: 100x), and
\* the oracle relies on that.  The state machine below only reports that the whole trace was
\* examined.
CorpusOf == [i \in 1..Len(Trace) |->
               IF \E j \in 1..i : Trace[j].ev = "corpus"
               THEN CHOOSE j \in 1..i : Trace[j].ev = "corpus" /\ \A k \in (j + 1)..i : Trace[k].ev # "corpus"
               ELSE 0] @@ <<>>
VerdictAt(i) == LET e == Trace[i]
                    C == Trace[CorpusOf[i]]
                IN CASE e.ev = "search"  -> CheckEvent(e, C, i)
                     [] e.ev = "limited" -> ("c21" \in Check =>
                                               /\ RL!CheckLimited(e, Trace[i - e.back], S!Answer(e.q, C, e.kind, e.shard), i)
                                               /\ (e.outcome = "ok" => G!CheckRanges(e, C, i)))
                     [] e.ev = "display" -> ("c22" \in Check =>
                                               /\ RL!CheckDisplay(e, Trace[i - e.back], i)
                                               /\ (e.outcome = "ok" => G!CheckGeometry(e, C, i)))
                     [] e.ev = "rank"    -> ("c29" \in Check => RL!CheckRank(e, C, i))
                     [] e.ev = "tenant"  -> ("c23" \in Check => CheckTenant(e, C, i))
                     [] e.ev = "select"  -> ("c18" \in Check => CheckSelect(e, C, i))
                     [] e.ev = "list"    -> ("c18" \in Check => CheckList(e, C, i))
                     [] OTHER -> TRUE
ASSUME \A i \in 1..Len(Trace) : VerdictAt(i)

Done == ~done /\ done' = TRUE /\ PrintT(<<"ACCEPTED", Len(Trace)>>) /\ UNCHANGED <<l, cur>>
Next == Done
Spec == Init /\ [][Next]_vars
=============================================================================
