--------------------------- MODULE Trace_Stream ---------------------------
(* Trace validation for C25.  A scenario is                                                *)
(*   reset  (names = zoekt.Stats fields by reflection)                                     *)
(*   send*  one producer event given to the real samplingSender(gRPCChunkSender(stream)),  *)
(*          with the messages the fake stream received during that call                    *)
(*   flush  sampler.Flush() with the messages it caused                                    *)
(*   ref?   (end-to-end scenarios) the non-streaming Search result for the same request    *)
(* From the logged producer events the spec recomputes, with the operators of StreamOps    *)
(* that Stream.tla is model-checked with, which messages the pipeline delivers, and it     *)
(* evaluates the property itself on the observed messages:                                 *)
(*   files       delivered ids are the produced ids, each once, in order                   *)
(*   stats-lost / stats-dup   per counter: sum delivered = sum produced after the flush    *)
(*   budget      a message with >= 2 files holds less than Budget bytes of files           *)
(*   overhead    message size is explained by its files (+ bounded header)                 *)
(*   conform     observed messages # messages of the model (reported separately)           *)
(* Never blocks; after a conformance mismatch the rest of the scenario is only checked     *)
(* against the property-level predicates.                                                  *)
EXTENDS StreamOps, Json

CONSTANTS SampleEvery, Budget

Trace == ndJsonDeserialize("trace.ndjson")

VARIABLES l, nm, sm, skipConf, owed, filesBad, prodSum, delSum, delSet, nDel, acc, done
vars == <<l, nm, sm, skipConf, owed, filesBad, prodSum, delSum, delSet, nDel, acc, done>>

Init == /\ l = 1 /\ nm = <<>> /\ sm = SamplerInit(<<>>) /\ skipConf = FALSE /\ owed = <<>>
        /\ filesBad = FALSE /\ prodSum = <<>> /\ delSum = <<>> /\ delSet = {} /\ nDel = 0
        /\ acc = FALSE /\ done = FALSE

Reject(why, exp) ==
  PrintT(<<"REJECTED", ToJson([line |-> l, sc |-> Trace[l].sc, why |-> why, expected |-> exp])>>)

Names(I) == {nm[i] : i \in I}
Obs(e) == [k \in 1..Len(e.msgs) |-> [files |-> e.msgs[k].files, stats |-> e.msgs[k].stats, hs |-> e.msgs[k].hs]]
Shape(msgs) == [k \in 1..Len(msgs) |-> [nfiles |-> Len(msgs[k].files), hs |-> msgs[k].hs]]
FirstDiff(a, b) ==
  LET n == IF Len(a) < Len(b) THEN Len(a) ELSE Len(b)
      D == {k \in 1..n : a[k] # b[k]}
  IN IF D = {} THEN n + 1 ELSE CHOOSE k \in D : \A j \in D : k <= j
ToSet(s) == {s[i] : i \in DOMAIN s}
Plus(a, b) == [i \in DOMAIN a |-> a[i] + b[i]]

Reset == /\ l <= Len(Trace) /\ Trace[l].ev = "reset"
         /\ nm' = Trace[l].names /\ sm' = SamplerInit(Trace[l].names) /\ skipConf' = FALSE
         /\ owed' = <<>> /\ filesBad' = FALSE
         /\ prodSum' = ZeroStats(Trace[l].names) /\ delSum' = ZeroStats(Trace[l].names)
         /\ delSet' = {} /\ nDel' = 0 /\ acc' = Trace[l].acc
         /\ l' = l + 1 /\ UNCHANGED done

\* one producer event or the final flush
Step ==
  /\ l <= Len(Trace) /\ Trace[l].ev \in {"send", "flush"}
  /\ LET e     == Trace[l]
         isFl  == e.ev = "flush"
         model == IF isFl THEN [sm |-> sm, msgs |-> PipeFlush(sm, Budget, nm)]
                  ELSE PipeSend(sm, Result(e.files, e.stats), SampleEvery, Budget, nm)
         obs   == Obs(e)
         confOK == obs = model.msgs
         q     == owed \o FileIds(e.files)
         d     == MsgFileIds(obs)
         fOK   == IsPrefix(d, q)
         rest  == IF fOK THEN SubSeq(q, Len(d) + 1, Len(q)) ELSE <<>>
         ps    == Plus(prodSum, e.stats)
         ds    == Plus(delSum, SumStats(obs, nm))
         overB == {k \in DOMAIN obs : ~MsgWithinBudget(obs[k], Budget)}
         overH == {k \in DOMAIN obs :
                     e.msgs[k].size > SumSizes(obs[k].files) + 6 * Len(obs[k].files) + 1024}
         lost  == {i \in CounterIdx(nm) : ds[i] < ps[i]}
         dup   == {i \in CounterIdx(nm) : ds[i] > ps[i]}
         fd    == FirstDiff(obs, model.msgs)
     IN /\ sm' = model.sm
        /\ prodSum' = ps /\ delSum' = ds
        /\ owed' = rest
        /\ nDel' = nDel + Len(d)
        /\ delSet' = IF acc THEN delSet \cup ToSet(d) ELSE delSet
        \* property: files once, in order
        /\ IF ~filesBad /\ ~fOK
           THEN /\ Reject("files", [produced_pending |-> q, delivered |-> d])
                /\ filesBad' = TRUE
           ELSE IF ~filesBad /\ isFl /\ Len(rest) > 0
           THEN /\ Reject("files", [produced_pending |-> q, delivered |-> d])
                /\ filesBad' = TRUE
           ELSE filesBad' = filesBad
        \* property: size budget
        /\ (overB # {} => Reject("budget", [msgs |-> overB,
                                             bytes |-> [k \in overB |-> SumSizes(obs[k].files)],
                                             nfiles |-> [k \in overB |-> Len(obs[k].files)]]))
        /\ (overH # {} => Reject("overhead", [msgs |-> overH,
                                               size |-> [k \in overH |-> e.msgs[k].size],
                                               files_bytes |-> [k \in overH |-> SumSizes(obs[k].files)]]))
        \* property: every counter conserved once the stream is complete
        /\ (isFl /\ lost # {} => Reject("stats-lost", [fields |-> Names(lost),
                    dropped |-> Names({i \in lost : ds[i] = 0}),
                    produced |-> [i \in lost |-> ps[i]], delivered |-> [i \in lost |-> ds[i]]]))
        /\ (isFl /\ dup # {} => Reject("stats-dup", [fields |-> Names(dup),
                    produced |-> [i \in dup |-> ps[i]], delivered |-> [i \in dup |-> ds[i]]]))
        \* conformance with the model of the pipeline
        /\ IF ~skipConf /\ ~confOK
           THEN /\ Reject("conform", [shape |-> Shape(model.msgs), observed_shape |-> Shape(obs),
                                      first_diff |-> fd,
                                      msg |-> IF fd <= Len(model.msgs) THEN model.msgs[fd].stats ELSE <<>>])
                /\ skipConf' = TRUE
           ELSE skipConf' = skipConf
  /\ l' = l + 1 /\ UNCHANGED <<nm, acc, done>>

\* end-to-end: the same request answered by the non-streaming Search
Ref ==
  /\ l <= Len(Trace) /\ Trace[l].ev = "ref"
  /\ LET e   == Trace[l]
         bad == {i \in DOMAIN nm : e.cmp[i] = 1 /\ delSum[i] # e.stats[i]}
     IN /\ (bad # {} => Reject("e2e-stats", [fields |-> Names(bad),
                    search |-> [i \in bad |-> e.stats[i]], streamed |-> [i \in bad |-> delSum[i]]]))
        /\ (~(ToSet(e.files) = delSet /\ Len(e.files) = nDel) =>
              Reject("e2e-files", [search |-> e.files, streamed |-> delSet, streamed_count |-> nDel]))
  /\ l' = l + 1 /\ UNCHANGED <<nm, sm, skipConf, owed, filesBad, prodSum, delSum, delSet, nDel, acc, done>>

Done == l = Len(Trace) + 1 /\ ~done /\ done' = TRUE /\ PrintT(<<"ACCEPTED", l - 1>>)
        /\ UNCHANGED <<l, nm, sm, skipConf, owed, filesBad, prodSum, delSum, delSet, nDel, acc>>

Next == Reset \/ Step \/ Ref \/ Done
Spec == Init /\ [][Next]_vars
=============================================================================
