--------------------------- MODULE Trace_Reload ---------------------------
(* C19, trace validation of the replayed schedules (TestVerif_C19_Replay).                 *)
(* Every script starts with a `reset` event; every `step` event is one command of the mode  *)
(* "macro" of Reload.tla executed on the real watcher / loader / shardedSearcher, with the  *)
(* projection of the real state after it.  The specification applies the same command with  *)
(* the operators of ReloadOps to its own state and compares.  It tracks a SET of candidate  *)
(* states: the change detector of the code as it is (Fix = FALSE) and of the proposed patch  *)
(* (Fix = TRUE), drop-before-load and the proposed coupled drop (FixGap) are all admissible  *)
(* implementations; what decides is the property,                                            *)
(* evaluated on the observation:                                                            *)
(*   conformance  loaded map, ranked slice, List(true), search result = its snapshot,        *)
(*                complete; nothing unmapped that is loaded or referenced by a snapshot      *)
(*   converge     in a quiet state (scanner idle, a whole scan after the last change) the    *)
(*                loaded map is the newest-format files with their sidecars                  *)
(*   gap          a search gated between drop and load misses a repository that is on disk   *)
(* Never blocks: an event the specification does not allow is printed as REJECTED and the    *)
(* rest of the script is skipped.                                                            *)
EXTENDS ReloadOps, Json

CONSTANT MaxFmt
Trace == ndJsonDeserialize("trace.ndjson")

VARIABLES l, sts, gap, skip, done
vars == <<l, sts, gap, skip, done>>

Range(s) == {s[i] : i \in DOMAIN s}
Reject(why, exp) == PrintT(<<"REJECTED", ToJson([line |-> l, why |-> why, expected |-> exp])>>)

View(x) == [r |-> x.r, f |-> x.f, ver |-> x.ver, side |-> x.side, smt |-> x.smt]
Views(list) == {View(list[i]) : i \in DOMAIN list}
InstViews(S) == {View(i) : i \in S}
DiskViews(s) == {[r |-> f[1], f |-> f[2], ver |-> s.disk[f].ver, side |-> s.disk[f].side,
                  smt |-> IF s.disk[f].side = "none" THEN 0 ELSE s.disk[f].smt] : f \in Newest(s.disk, MaxFmt)}

Docs(ver) == 2 + (ver - 3 * (ver \div 3))
ResultOf(S) == {[r |-> i.r, vers |-> <<i.ver>>, main |-> 1, docs |-> Docs(i.ver)] : i \in {j \in S : j.side # "tomb"}}
VisOf(S) == {[r |-> i.r, smt |-> i.smt, shards |-> 1] : i \in {j \in S : j.side # "tomb"}}

F(e) == <<e.r, e.f>>
Enabled(s, e) ==
  CASE e.c = "put"       -> F(e) \in FilesOf(s) /\ ~Present(s.disk, F(e))
    [] e.c = "replace"   -> F(e) \in FilesOf(s) /\ Present(s.disk, F(e))
    [] e.c = "delete"    -> F(e) \in FilesOf(s) /\ Present(s.disk, F(e))
    [] e.c = "sidecar"   -> F(e) \in FilesOf(s) /\ Present(s.disk, F(e)) /\ e.side \in {"none", "tomb", "live"}
    [] e.c = "scanbegin" -> s.scan.pc = "idle"
    [] e.c = "scandrop"  -> s.scan.pc = "drop"
    [] e.c = "scanload"  -> s.scan.pc = "load"
    [] e.c = "snap"      -> e.p \in DOMAIN s.srch /\ s.srch[e.p].pc # "run"
    [] e.c = "read"      -> e.p \in DOMAIN s.srch /\ s.srch[e.p].pc = "run"
    [] e.c = "finish"    -> e.p \in DOMAIN s.srch /\ s.srch[e.p].pc = "run"
    [] e.c = "gc"        -> TRUE
    [] OTHER             -> FALSE

Do(s, e, fx) ==
  LET fix == fx[1]
      fixGap == fx[2]
  IN
  CASE e.c \in {"put", "replace"} -> DiskWrite(s, F(e))
    [] e.c = "delete"    -> DiskDelete(s, F(e))
    [] e.c = "sidecar"   -> DiskSidecar(s, F(e), e.side)
    [] e.c = "scanbegin" -> ScanBegin(s, MaxFmt, fix)
    [] e.c = "scandrop"  -> IF fixGap THEN ScanDropNoop(s) ELSE ScanDrop(s)
    [] e.c = "scanload"  -> IF fixGap THEN ScanEndG(LoadAll(ScanDropG(s)), fix) ELSE ScanEnd(LoadAll(s), fix)
    [] e.c = "snap"      -> Snapshot(s, e.p)
    [] e.c = "read"      -> ReadAll(s, e.p)
    [] e.c = "finish"    -> SearchAll(s, e.p)
    [] e.c = "gc"        -> s
\* afterwards everything the collector may have closed by now counts as (possibly) closed
After(s, e, fx) == GCAll(Do(s, e, fx), TRUE)

\* -------- conformance of one observation with one candidate state (s0 before, s after)
Count(list, v) == Cardinality({i \in DOMAIN list : View(list[i]) = v})
UnmappedBad(s, e) == {v \in Views(e.unmapped) : Count(e.unmapped, v) > Cardinality({i \in s.closed : View(i) = v})}
UnmappedWhy(s, e) ==
  LET v == CHOOSE x \in UnmappedBad(s, e) : TRUE IN
  IF \E p \in DOMAIN s.srch : v \in InstViews(s.srch[p].snap) THEN "closed-while-referenced"
  ELSE IF v \in InstViews(s.ranked) THEN "closed-while-loaded"
  ELSE "closed-not-replaced"

Mismatch(s0, s, e) ==
  IF e.keybad # 0 \/ Len(e.loaded) # Cardinality(Views(e.loaded)) \/ Views(e.loaded) # InstViews({s.shards[f] : f \in Loaded(s)})
    THEN "loaded"
  ELSE IF Len(e.ranked) # Cardinality(Views(e.ranked)) \/ Views(e.ranked) # InstViews(s.ranked) THEN "ranked"
  ELSE IF UnmappedBad(s, e) # {} THEN UnmappedWhy(s, e)
  ELSE IF e.crashes # 0 \/ e.bad # 0 THEN "crash"
  ELSE IF e.c = "finish" /\ Range(e.res) # ResultOf(s0.srch[e.p].snap) THEN "result"
  ELSE IF e.c = "finish" /\ Len(e.res) # Cardinality(Range(e.res)) THEN "result"
  ELSE IF Range(e.vis) # VisOf(s.ranked) \/ Len(e.vis) # Cardinality(Range(e.vis)) THEN "vis"
  ELSE "ok"

\* -------- the property on the observation
FileOf(v) == <<v.r, v.f>>
ConvergeWhy(s, e) ==
  LET L == Views(e.loaded)
      D == DiskViews(s)
      lf == {FileOf(v) : v \in L}
      df == {FileOf(v) : v \in D}
  IN
  IF L = D THEN "ok"
  ELSE IF df \ lf # {} THEN "converge:missing"
  ELSE IF lf \ df # {} THEN "converge:extra"
  ELSE IF \E v \in L, w \in D : FileOf(v) = FileOf(w) /\ v.ver # w.ver THEN "converge:version"
  ELSE "converge:stale-sidecar"

GapNow(s) == {r \in GapRepos(s) : \E g \in Newest(s.disk, MaxFmt) : g[1] = r}

Show(s) == [loaded |-> InstViews({s.shards[f] : f \in Loaded(s)}), ranked |-> InstViews(s.ranked),
            disk |-> DiskViews(s), closable |-> InstViews(s.closed), scan |-> s.scan.pc]

-----------------------------------------------------------------------------
Init == l = 1 /\ sts = {} /\ gap = <<>> /\ skip = TRUE /\ done = FALSE

Reset == /\ l <= Len(Trace) /\ Trace[l].ev = "reset"
         /\ LET e == Trace[l] IN
            /\ sts' = {InitSt(Range(e.repos) \X Range(e.fmts), Range(e.repos), 1..e.procs)}
            /\ gap' = [p \in 1..e.procs |-> {}]
         /\ skip' = FALSE /\ l' = l + 1 /\ UNCHANGED done

Other == /\ l <= Len(Trace) /\ Trace[l].ev \notin {"reset", "step", "abort"}
         /\ l' = l + 1 /\ UNCHANGED <<sts, gap, skip, done>>

Skip == /\ l <= Len(Trace) /\ Trace[l].ev \in {"step", "abort"} /\ skip
        /\ l' = l + 1 /\ UNCHANGED <<sts, gap, skip, done>>

Abort == /\ l <= Len(Trace) /\ Trace[l].ev = "abort" /\ ~skip
         /\ Reject("closed-while-referenced", [why |-> Trace[l].why])
         /\ skip' = TRUE /\ l' = l + 1 /\ UNCHANGED <<sts, gap, done>>

Cands(e) == {<<s, After(s, e, fx)>> : s \in sts, fx \in BOOLEAN \X BOOLEAN}
Good(e) == {c \in Cands(e) : Mismatch(c[1], c[2], e) = "ok"}

Step == /\ l <= Len(Trace) /\ Trace[l].ev = "step" /\ ~skip
        /\ LET e == Trace[l] IN
           IF \E s \in sts : ~Enabled(s, e)
           THEN Reject("not-enabled", [c |-> e.c]) /\ skip' = TRUE /\ UNCHANGED <<sts, gap>>
           ELSE IF Good(e) = {}
           THEN /\ LET bc == CHOOSE x \in Cands(e) : TRUE IN Reject(Mismatch(bc[1], bc[2], e), Show(bc[2]))
                /\ skip' = TRUE /\ UNCHANGED <<sts, gap>>
           ELSE LET ns == {x[2] : x \in Good(e)}
                    s1 == CHOOSE x \in ns : TRUE
                    cw == IF Quiet(s1) THEN ConvergeWhy(s1, e) ELSE "ok"
                IN /\ sts' = ns
                   /\ gap' = IF e.c = "snap" THEN [gap EXCEPT ![e.p] = {r \in GapNow(s1) : \A x \in ns : r \in GapNow(x)}] ELSE gap
                   /\ IF cw # "ok" THEN Reject(cw, Show(s1)) /\ skip' = TRUE
                      ELSE IF e.c = "finish" /\ gap[e.p] # {}
                      THEN Reject("search:repo-gap", [repos |-> gap[e.p]]) /\ skip' = FALSE
                      ELSE skip' = FALSE
        /\ l' = l + 1 /\ UNCHANGED done

Done == l = Len(Trace) + 1 /\ ~done /\ done' = TRUE /\ PrintT(<<"ACCEPTED", l - 1>>)
        /\ UNCHANGED <<l, sts, gap, skip>>

Next == Reset \/ Other \/ Skip \/ Abort \/ Step \/ Done
Spec == Init /\ [][Next]_vars
=============================================================================
