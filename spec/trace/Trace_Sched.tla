--------------------------- MODULE Trace_Sched ---------------------------
(* Trace validation for C20, two kinds of recorded runs of the real multiScheduler:         *)
(*                                                                                         *)
(* (R) gated schedules: ev = "step".  The driver issued one command (process p calls        *)
(*     Acquire / Yield within its slice / Yield after its slice / Release, or p's context   *)
(*     is cancelled), waited until every process goroutine was parked, and logged what it   *)
(*     saw: per process new/wait/idle/done/dead, the last return value, and how many        *)
(*     tokens TryAcquire could still take from each semaphore.  The observation must be     *)
(*     the projection of a state in Settle(Do(state, command), FALSE): the general          *)
(*     semantics of SchedOps (any waiter may be served) -- the operators the model checker  *)
(*     explored.                                                                            *)
(*                                                                                         *)
(* (V) stress with real timers: ev in {"hold","unhold","fail","final"} ordered by an        *)
(*     atomic sequence number.  "hold" is taken after the call that acquired returned and   *)
(*     "unhold" before the call that may release starts, so every recorded interval lies    *)
(*     inside the real holding interval: more than cap overlapping recorded intervals is a  *)
(*     real excess.  "fail" = Acquire/Yield returned an error (ctx must be done), "final" = *)
(*     free tokens after everybody finished (must be all).                                  *)
(*                                                                                         *)
(* Never blocks: what the spec does not allow is printed as REJECTED.                       *)
EXTENDS SchedOps, Json

Trace == ndJsonDeserialize("trace.ndjson")

VARIABLES l, cur, skip, done, caps, holding, lastSeq
vars == <<l, cur, skip, done, caps, holding, lastSeq>>
\* cur      (R) set of model states consistent with what was observed so far
\* holding  (V) set of [g, sem]: recorded holding intervals that are open

Init == /\ l = 1 /\ cur = {} /\ skip = FALSE /\ done = FALSE
        /\ caps = [I |-> 0, B |-> 0] /\ holding = {} /\ lastSeq = 0

Reject(why, who, exp) ==
  PrintT(<<"REJECTED", ToJson([line |-> l, why |-> why, who |-> who, expected |-> exp])>>)

Reset == /\ l <= Len(Trace) /\ Trace[l].ev = "reset"
         /\ cur' = {InitSt(Trace[l].procs, Trace[l].capI, Trace[l].capB)} /\ skip' = FALSE
         /\ caps' = [I |-> Trace[l].capI, B |-> Trace[l].capB] /\ holding' = {} /\ lastSeq' = 0
         /\ l' = l + 1 /\ UNCHANGED done

Note == /\ l <= Len(Trace) /\ Trace[l].ev = "note"
        /\ l' = l + 1 /\ UNCHANGED <<cur, skip, done, caps, holding, lastSeq>>

Skip == /\ l <= Len(Trace) /\ Trace[l].ev = "step" /\ skip
        /\ l' = l + 1 /\ UNCHANGED <<cur, skip, done, caps, holding, lastSeq>>

-----------------------------------------------------------------------------
\* (R)
\* why an observation is outside the admissible set A; who = offending process (0: none)
Diagnose(e, A) ==
  LET PS == DOMAIN e.ph
      rtn == {p \in PS : e.ph[p] # "wait" /\ \A s \in A : Phase(s, p) = "wait"}
      stk == {p \in PS : e.ph[p] = "wait" /\ \A s \in A : Phase(s, p) # "wait"}
      val == {p \in PS : e.ph[p] # "wait" /\ \A s \in A : Phase(s, p) # "wait" => s.ret[p] # e.ret[p]}
      phs == {p \in PS : \A s \in A : Phase(s, p) # e.ph[p]}
      okp == {s \in A : Proj(s).ph = e.ph /\ Proj(s).ret = e.ret}
      pick(S) == CHOOSE p \in S : TRUE
  IN IF rtn # {} THEN [why |-> "return", who |-> pick(rtn)]          \* returned where it must block
     ELSE IF stk # {} THEN [why |-> "stuck", who |-> pick(stk)]      \* parked where it must return
     ELSE IF val # {} THEN [why |-> "value", who |-> pick(val)]      \* wrong return value
     ELSE IF phs # {} THEN [why |-> "phase", who |-> pick(phs)]
     ELSE IF okp # {} /\ \A s \in okp : Free(s, "I") > e.freeI THEN [why |-> "occupancy-I-high", who |-> 0]
     ELSE IF okp # {} /\ \A s \in okp : Free(s, "I") < e.freeI THEN [why |-> "occupancy-I-low", who |-> 0]
     ELSE IF okp # {} /\ \A s \in okp : Free(s, "B") > e.freeB THEN [why |-> "occupancy-B-high", who |-> 0]
     ELSE IF okp # {} /\ \A s \in okp : Free(s, "B") < e.freeB THEN [why |-> "occupancy-B-low", who |-> 0]
     ELSE [why |-> "state", who |-> 0]

Step ==
  /\ l <= Len(Trace) /\ Trace[l].ev = "step" /\ ~skip
  /\ LET e == Trace[l]
         can == \A s \in cur : Can(s, e.c, e.p)
         A == UNION {Settle(Do(s, e.c, e.p), FALSE) : s \in cur}
         M == {s \in A : Proj(s) = [ph |-> e.ph, ret |-> e.ret, freeI |-> e.freeI, freeB |-> e.freeB]}
     IN IF cur = {} \/ ~can
        THEN Reject("driver", e.p, "command not applicable") /\ skip' = TRUE /\ cur' = cur
        ELSE IF M = {}
        THEN LET d == Diagnose(e, A) IN
             Reject(d.why, d.who, {Proj(s) : s \in A}) /\ skip' = TRUE /\ cur' = cur
        ELSE skip' = FALSE /\ cur' = M
  /\ l' = l + 1 /\ UNCHANGED <<done, caps, holding, lastSeq>>

-----------------------------------------------------------------------------
\* (V)
IsEv(x) == x \in {"hold", "unhold", "fail", "final"}

Event ==
  /\ l <= Len(Trace) /\ IsEv(Trace[l].ev)
  /\ LET e == Trace[l]
         me == [g |-> e.g, sem |-> e.sem]
         ordered == e.seq > lastSeq
     IN
     /\ lastSeq' = e.seq
     /\ CASE e.ev = "hold" ->
               LET n == Cardinality({h \in holding : h.sem = e.sem}) IN
               /\ holding' = holding \cup {me}
               /\ IF ~ordered THEN Reject("order", e.g, lastSeq)
                  ELSE IF \E h \in holding : h.g = e.g THEN Reject("hold-twice", e.g, holding)
                  ELSE IF n + 1 > caps[e.sem] THEN Reject("over-capacity", e.g, [sem |-> e.sem, holders |-> n + 1, cap |-> caps[e.sem]])
                  ELSE TRUE
          [] e.ev = "unhold" ->
               /\ holding' = holding \ {me}
               /\ IF ~ordered THEN Reject("order", e.g, lastSeq)
                  ELSE IF me \notin holding THEN Reject("unhold-unmatched", e.g, holding)
                  ELSE TRUE
          [] e.ev = "fail" ->           \* e.sem = the call ("acq" / "yield"), e.n = 1 iff ctx was done
               /\ holding' = holding
               /\ IF ~ordered THEN Reject("order", e.g, lastSeq)
                  ELSE IF e.n # 1 THEN Reject("fail-ctx-live", e.g, e.sem)
                  ELSE TRUE
          [] e.ev = "final" ->          \* e.sem = semaphore, e.n = free tokens
               /\ holding' = holding
               /\ IF holding # {} THEN Reject("final-open", 0, holding)
                  ELSE IF e.n # caps[e.sem] THEN Reject("leak", 0, [sem |-> e.sem, free |-> e.n, cap |-> caps[e.sem]])
                  ELSE TRUE
  /\ l' = l + 1 /\ UNCHANGED <<cur, skip, done, caps>>

Done == l = Len(Trace) + 1 /\ ~done /\ done' = TRUE /\ PrintT(<<"ACCEPTED", l - 1>>)
        /\ UNCHANGED <<l, cur, skip, caps, holding, lastSeq>>

Next == Reset \/ Note \/ Skip \/ Step \/ Event \/ Done
Spec == Init /\ [][Next]_vars
=============================================================================
