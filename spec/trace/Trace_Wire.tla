--------------------------- MODULE Trace_Wire ---------------------------
(* Trace validation for C24 (Wire.tla / WireGen.tla are the oracle).                       *)
(*   rt   : a value before and after value -> protobuf message [-> bytes -> message] ->     *)
(*          value, both rendered as trees.  Allowed: the conversion completes (out = "ok")  *)
(*          and Lossless(typ, before, after).                                               *)
(*   call : a request shape given to the real gRPC handler, with what the handler did.      *)
(*          Allowed: Allowed(req, shape) of WireGen.tla; a panic is not an action.          *)
(*   kinds: the node kinds the driver generated; every kind of QKinds must have occurred.   *)
(* Never blocks: events the specification does not allow are printed as REJECTED.           *)
EXTENDS Wire

Trace == ndJsonDeserialize("trace.ndjson")

VARIABLES l, seen, done
tvars == <<l, seen, done>>

TInit == l = 1 /\ done = FALSE /\ seen = {}

Reject(why, exp) == PrintT(<<"REJECTED", ToJson([line |-> l, why |-> why, expected |-> exp])>>)

Rt == /\ l <= Len(Trace) /\ Trace[l].ev = "rt"
      /\ LET e == Trace[l] IN
         /\ IF e.out # "ok" THEN Reject("outcome", <<"ok">>)
            ELSE IF ~Lossless(e.typ, e.before, e.after)
                 THEN Reject("lossy", Diff(Canon(e.typ, e.before), Canon(e.typ, e.after)))
            ELSE TRUE
         /\ seen' = seen \cup {e.kinds[i] : i \in DOMAIN e.kinds}
      /\ l' = l + 1 /\ UNCHANGED done

Call == /\ l <= Len(Trace) /\ Trace[l].ev = "call"
        /\ LET e == Trace[l]
               a == Allowed(e.req, e.shape)
           IN IF e.out \notin a THEN Reject("outcome", [allowed |-> a, class |-> Class(e.shape)]) ELSE TRUE
        /\ l' = l + 1 /\ UNCHANGED <<seen, done>>

\* the driver's registry of kinds must be the specification's, and all of them must have been generated
Kinds == /\ l <= Len(Trace) /\ Trace[l].ev = "kinds"
         /\ LET e == Trace[l]
                reg == {e.registry[i] : i \in DOMAIN e.registry}
            IN /\ (reg # QKinds => Reject("registry", QKinds))
               /\ PrintT(<<"MISSING", ToJson(QKinds \ seen)>>)
         /\ l' = l + 1 /\ UNCHANGED <<seen, done>>

Done == /\ l = Len(Trace) + 1 /\ ~done /\ done' = TRUE
        /\ PrintT(<<"ACCEPTED", l - 1>>)
        /\ UNCHANGED <<l, seen>>

TNext == Rt \/ Call \/ Kinds \/ Done
TSpec == TInit /\ [][TNext]_tvars
=============================================================================
