--------------------------- MODULE Trace_Ctags ---------------------------
(* C37: every recorded conversion of the real tagsToSections.Convert (content, ctags entries  *)
(* -> ranges, each tagged with the number k of the entry it came from) must have the          *)
(* properties of CtagsOps, the dropped entries must be the ones the fold drops, and            *)
(* ShardBuilder.Add(content, ranges) must have succeeded.  Evaluated at constant level.        *)
EXTENDS CtagsOps, Json

Trace == ndJsonDeserialize("trace.ndjson")

VARIABLES done
vars == <<done>>
Init == done = FALSE

Reject(l, why, exp) == PrintT(<<"REJECTED", ToJson([line |-> l, why |-> why, expected |-> exp])>>)

Check(e, l) ==
  LET c    == e.content
      exp  == Convert(c, e.entries)
      out  == e.out
      show == [ranges |-> exp.acc, fate |-> exp.why]
  IN IF e.panic # "" THEN Reject(l, "panic", show)
     ELSE
     /\ (~Sorted(out) => Reject(l, "sorted", show))
     /\ (Sorted(out) /\ ~NonOverlap(out) => Reject(l, "overlap", show))
     /\ (~Inside(out, ByteLen(c)) => Reject(l, "inside", show))
     /\ (~KnownEntries(out, e.entries) => Reject(l, "entries", show))
     /\ (KnownEntries(out, e.entries) /\ Inside(out, ByteLen(c)) /\ ~AllNameOnLine(c, out, e.entries)
           => Reject(l, "name", show))
     /\ (KnownEntries(out, e.entries) /\ ~DroppedExactly(out, exp.why) => Reject(l, "dropped", show))
     /\ (~e.meta => Reject(l, "meta", show))
     /\ (e.add # "" => Reject(l, "add", show))

ASSUME \A i \in 1..Len(Trace) : LET e == Trace[i] IN
            /\ (e.ev = "convert" => Check(e, i))
            /\ (e.ev = "shard" /\ e.err # "" => Reject(i, "shard", [ranges |-> <<>>, fate |-> <<>>]))
Done == ~done /\ done' = TRUE /\ PrintT(<<"ACCEPTED", Len(Trace)>>)
Next == Done
Spec == Init /\ [][Next]_vars
=============================================================================
