--------------------------- MODULE Trace_HtmlSkel ---------------------------
(* C36: every page served by the web UI, tokenised with golang.org/x/net/html by the driver, *)
(* must be a word of the page-structure automaton of its template (HtmlSkel), with payload     *)
(* values only in data slots and rendered verbatim, and must have the skeleton of its benign   *)
(* twin (the same request over the same corpus with inert values).                             *)
EXTENDS HtmlSkel, Json, TLC

CONSTANT Stride   \* 0: validate pages; n > 0: sensitivity of the expressions at every n-th position
Trace == ndJsonDeserialize("trace.ndjson")
VARIABLES done
vars == <<done>>
Init == done = FALSE

Reject(l, why, exp) == PrintT(<<"REJECTED", ToJson([line |-> l, why |-> why, expected |-> exp])>>)

PageOf == [i \in {Trace[j].id : j \in 1..Len(Trace)} |-> CHOOSE j \in 1..Len(Trace) : Trace[j].id = i] @@ <<>>

Lower(c) == IF c >= 65 /\ c <= 90 THEN c + 32 ELSE c
\* leading control characters and spaces are ignored by browsers when they look for the scheme; so are
\* tab / newline anywhere inside it
RECURSIVE Clean(_)
Clean(s) == IF s = <<>> THEN <<>>
            ELSE IF Head(s) \in {9, 10, 13} THEN Clean(Tail(s))
            ELSE <<Lower(Head(s))>> \o Clean(Tail(s))
RECURSIVE TrimLead(_)
TrimLead(s) == IF s # <<>> /\ Head(s) <= 32 THEN TrimLead(Tail(s)) ELSE s
StartsWith(s, p) == Len(s) >= Len(p) /\ SubSeq(s, 1, Len(p)) = p
BadSchemes == {<<106, 97, 118, 97, 115, 99, 114, 105, 112, 116, 58>>,   \* javascript:
               <<118, 98, 115, 99, 114, 105, 112, 116, 58>>,            \* vbscript:
               <<100, 97, 116, 97, 58>>}                                \* data:
BadURL(v) == \E p \in BadSchemes : StartsWith(Clean(TrimLead(v)), p)

Skel(toks) == [i \in DOMAIN toks |-> <<toks[i].k, toks[i].tag, toks[i].an>>]
Js(toks) == [i \in DOMAIN toks |-> toks[i].js]

Check(e, l) ==
  IF e.ev # "page" THEN TRUE
  ELSE IF e.status = 200 /\ ~e.html THEN Reject(l, "not-html", [path |-> e.path])
  ELSE IF e.status # 200 /\ (e.status # 418 \/ e.html \/ ~e.nosniff) THEN Reject(l, "error-page", [status |-> e.status])
  ELSE IF e.status # 200 /\ e.tfail THEN Reject(l, "render-failed", [head |-> e.head])
  ELSE IF e.status # 200 /\ e.kind \in {"corpus", "solo"} THEN Reject(l, "render-failed", [head |-> e.head])
  ELSE IF e.status # 200 THEN
       \* a request value may be an invalid query, but then for the benign twin as well, or only for the payload
       (e.variant = "benign" /\ Trace[PageOf[e.twin]].status = 200 => Reject(l, "twin-status", [head |-> e.head]))
  ELSE
    \* every clause is judged on its own (a page may be reported for several reasons): a change of the
    \* page structure must not hide that a planted value is interpreted
    LET tw == Trace[PageOf[e.twin]] IN
    /\ (~Accepts(e.tmpl, e.toks) => Reject(l, "structure", [tmpl |-> e.tmpl, at |-> Furthest(e.tmpl, e.toks)]))
    \* ("solo" requests match inside the planted values: the highlighting splits them, only the structure is judged)
    /\ (e.kind # "solo" /\ (\E i \in DOMAIN e.toks : e.toks[i].bad # 0)
          => Reject(l, "not-verbatim", [tok |-> CHOOSE i \in DOMAIN e.toks : e.toks[i].bad # 0]))
    /\ ((\E i \in DOMAIN e.toks : \E j \in DOMAIN e.toks[i].url : BadURL(e.toks[i].url[j][2]))
          => Reject(l, "url-scheme", [tok |-> CHOOSE i \in DOMAIN e.toks : \E j \in DOMAIN e.toks[i].url : BadURL(e.toks[i].url[j][2])]))
    /\ (e.variant = "payload" /\ e.twin # e.id /\ tw.status = 200 /\ Skel(e.toks) # Skel(tw.toks)
          => Reject(l, "twin-structure", [twin |-> e.twin]))
    /\ (e.variant = "payload" /\ e.twin # e.id /\ tw.status = 200 /\ Skel(e.toks) = Skel(tw.toks) /\ Js(e.toks) # Js(tw.toks)
          => Reject(l, "twin-js", [twin |-> e.twin]))

\* ---- sensitivity (specification level): no single injected token is absorbed by an expression
XTok(tag, an) == [k |-> "S", tag |-> tag, an |-> an, ad |-> <<>>, cls |-> "", bad |-> 0, js |-> ""]
Ins(toks, i, x) == SubSeq(toks, 1, i - 1) \o <<x>> \o SubSeq(toks, i, Len(toks))
AddAttr(toks, i) == [toks EXCEPT ![i] = [@ EXCEPT !.an = Append(@, "onmouseover")]]
Sens(e, l) ==
  IF ~Accepts(e.tmpl, e.toks) THEN Reject(l, "structure", [tmpl |-> e.tmpl, at |-> Furthest(e.tmpl, e.toks)])
  ELSE \A i \in {j \in 1..(Len(e.toks) + 1) : j % Stride = 1 % Stride} :
         /\ (Accepts(e.tmpl, Ins(e.toks, i, XTok("script", <<>>))) => Reject(l, "absorbs-script", [at |-> i]))
         /\ (Accepts(e.tmpl, Ins(e.toks, i, XTok("img", <<"onerror", "src">>))) => Reject(l, "absorbs-img", [at |-> i]))
         /\ (i <= Len(e.toks) /\ e.toks[i].k = "S" /\ Accepts(e.tmpl, AddAttr(e.toks, i)) => Reject(l, "absorbs-attribute", [at |-> i]))

ASSUME \A i \in 1..Len(Trace) : LET e == Trace[i] IN IF Stride = 0 THEN Check(e, i) ELSE Sens(e, i)
Done == ~done /\ done' = TRUE /\ PrintT(<<"ACCEPTED", Len(Trace)>>)
Next == Done
Spec == Init /\ [][Next]_vars
=============================================================================
