-------------------------- MODULE Trace_QueryLang --------------------------
(* C06.  Validation of recorded parses against the documented query language.               *)
(* Trace: line 1 = case-fold orbits + upper-case letters of the alphabets, lines 2..3 = the  *)
(* two corpora, then one "ql" event per derivation group:                                    *)
(*   vals    value table: [v = value text of a leaf, re = AST of regexp/syntax for it]        *)
(*   vars    spellings: [d = derivation tree, gaps, str = the string given to query.Parse,    *)
(*           out = ok|error|panic, pi = index into parsed]                                    *)
(*   parsed  the distinct results of query.Parse (corpus.FromZoekt(q).JSON()) with the files  *)
(*           the real directory searcher returned for them on corpus 1 and 2                  *)
(* Per spelling: the derivation is a well-formed derivation of the documented grammar, the     *)
(* leaf values are the documented values of the written texts, str is its yield, the parse    *)
(* succeeded, and on both corpora Answer(parsed) = Answer(Meaning(derivation)).  Per parsed    *)
(* tree: the real search returned exactly Answer(parsed).                                      *)
EXTENDS Integers, Sequences, FiniteSets, TLC, Json

CONSTANT RegexField     \* reading of the regex: row of the field table, see QueryLangSem

Trace == ndJsonDeserialize("trace.ndjson")

FoldOrbits == Trace[1].orbits
OrbSet == {FoldOrbits[j] : j \in 1..Len(FoldOrbits)}
CanonTab == LET rs == UNION {{o[k] : k \in 1..Len(o)} : o \in OrbSet}
            IN [r \in rs |-> LET o == CHOOSE o \in OrbSet : \E k \in 1..Len(o) : o[k] = r IN o[1]]
OrbitTab == [c \in {o[1] : o \in OrbSet} |->
               LET o == CHOOSE o \in OrbSet : o[1] = c IN {o[k] : k \in 1..Len(o)}]
UpperSet == {Trace[1].upper[k] : k \in 1..Len(Trace[1].upper)}

S == INSTANCE QuerySem WITH Canon <- CanonTab, Orbit <- OrbitTab
QL == INSTANCE QueryLangSem WITH Upper <- UpperSet, RegexField <- RegexField

VARIABLES done
vars == <<done>>
Init == done = FALSE

Corp == <<Trace[2], Trace[3]>>
NC == 2
Ans(q, c) == S!Answer(q, Corp[c], "dir", 0)
Force(f) == f @@ <<>>
SeqToSet(s) == {s[i] : i \in 1..Len(s)}

Reject(i, why, exp) == PrintT(<<"REJECTED", ToJson([line |-> i, why |-> why, expected |-> exp])>>)

CheckVar(e, i, j, wfj, mans, pa) ==
  LET v == e.vars[j]
      toks == QL!ToksQ(v.d)
      leaves == QL!LeavesQ(v.d)
      badval == {k \in 1..Len(leaves) :
                   ~(leaves[k].val.vi \in 1..Len(e.vals) /\ QL!TextValue(leaves[k].val) = e.vals[leaves[k].val.vi].v)}
  IN IF ~wfj THEN Reject(i, "gen:ill-formed", [id |-> e.id, var |-> j])
     ELSE IF badval # {} THEN Reject(i, "gen:value", [id |-> e.id, var |-> j, leaves |-> badval])
     ELSE IF ~QL!GapsOK(toks, v.gaps) THEN Reject(i, "gen:gaps", [id |-> e.id, var |-> j])
     ELSE IF QL!Assemble(toks, v.gaps) # v.str
          THEN Reject(i, "gen:yield", [id |-> e.id, var |-> j, yield |-> QL!Assemble(toks, v.gaps)])
     ELSE IF v.out # "ok" THEN Reject(i, "outcome:" \o v.out, [id |-> e.id, var |-> j])
     ELSE IF v.pi \notin 1..Len(e.parsed) THEN Reject(i, "gen:parsed-index", [id |-> e.id, var |-> j])
     ELSE \A c \in 1..NC :
            pa[v.pi][c] # mans[c] =>
              Reject(i, "answer", [id |-> e.id, var |-> j, corpus |-> c,
                                   missing |-> mans[c] \ pa[v.pi][c], extra |-> pa[v.pi][c] \ mans[c]])

CheckEngine(e, i, k, pak) ==
  \A c \in 1..NC :
    LET p == e.parsed[k] IN
    IF p.so[c] = "skip" THEN TRUE
    ELSE IF p.so[c] # "ok" THEN Reject(i, "engine:" \o p.so[c], [id |-> e.id, parsed |-> k, corpus |-> c])
    ELSE LET got == SeqToSet(p.files[c]) IN
         /\ (Len(p.files[c]) # Cardinality(got) =>
               Reject(i, "engine:duplicate", [id |-> e.id, parsed |-> k, corpus |-> c]))
         /\ (got # pak[c] =>
               Reject(i, "engine:files", [id |-> e.id, parsed |-> k, corpus |-> c,
                                          missing |-> pak[c] \ got, extra |-> got \ pak[c]]))

CheckQL(e, i) ==
  LET nv == Len(e.vars)
      np == Len(e.parsed)
      pa == Force([k \in 1..np |-> [c \in 1..NC |-> Ans(e.parsed[k].q, c)]])
      wf == Force([j \in 1..nv |-> QL!WellFormed(e.vars[j].d)])
      m  == Force([j \in 1..nv |-> IF wf[j] THEN QL!Meaning(e.vars[j].d, e.vals) ELSE QL!Const(FALSE)])
      \* spellings with the same meaning tree share one evaluation
      rep == Force([j \in 1..nv |-> CHOOSE k \in 1..j : m[k] = m[j] /\ \A x \in 1..(k - 1) : m[x] # m[j]])
      ma == Force([j \in 1..nv |-> IF rep[j] = j THEN [c \in 1..NC |-> Ans(m[j], c)] ELSE <<>>])
  IN /\ \A j \in 1..nv : CheckVar(e, i, j, wf[j], ma[rep[j]], pa)
     /\ \A k \in 1..np : CheckEngine(e, i, k, pa[k])
     /\ PrintT(<<"ANS", ToJson([id |-> e.id, a |-> [j \in 1..nv |-> ma[rep[j]]], r |-> rep])>>)

VerdictAt(i) == LET e == Trace[i] IN
                CASE e.ev = "ql" -> CheckQL(e, i)
                  [] OTHER -> TRUE
ASSUME Trace[1].ev = "fold" /\ Trace[2].ev = "corpus" /\ Trace[3].ev = "corpus"
ASSUME \A i \in 1..Len(Trace) : VerdictAt(i)

Done == ~done /\ done' = TRUE /\ PrintT(<<"ACCEPTED", Len(Trace)>>)
Next == Done
Spec == Init /\ [][Next]_vars
=============================================================================
