--------------------------- MODULE Trace_Cleanup ---------------------------
(* Trace validation for C32.  The driver materialises a directory ("init"), runs the real    *)
(* cleanup ("cleanup": parameters + projection of the directory afterwards), and may save /  *)
(* reload the directory ("save"/"load") to try several second cleanups.  For every cleanup   *)
(* the observed (before, after) pair must satisfy the four clauses of the statement          *)
(* (CleanupOps!Viol) and `after` must be the directory the specification computes from       *)
(* `before` with the same pure operators the state machine uses (the code as it is, or the   *)
(* proposed patch).  Never blocks: a cleanup the spec does not allow is printed as REJECTED. *)
EXTENDS CleanupOps, Json

Trace == ndJsonDeserialize("trace.ndjson")

VARIABLES l, cur, saved, done
vars == <<l, cur, saved, done>>

Empty == [d |-> {}, tmp |-> 0]
Init == l = 1 /\ cur = Empty /\ saved = Empty /\ done = FALSE

Reject(why, exp) == PrintT(<<"REJECTED", ToJson([line |-> l, why |-> why, expected |-> exp])>>)

ToDir(s) == {[l |-> x.l, f |-> x.f, mt |-> x.mt, mf |-> x.mf,
              mem |-> {[id |-> e.id, nm |-> e.nm, tb |-> e.tb] : e \in ToSet(x.mem)}] : x \in ToSet(s)}

Materialised == /\ l <= Len(Trace) /\ Trace[l].ev = "init"
                /\ LET e == Trace[l] IN
                   /\ cur' = [d |-> ToDir(e.dir), tmp |-> e.tmp]
                   /\ (e.junk # <<>> => Reject("junk", e.junk))
                /\ saved' = Empty /\ l' = l + 1 /\ UNCHANGED done

Save == l <= Len(Trace) /\ Trace[l].ev = "save" /\ saved' = cur /\ l' = l + 1 /\ UNCHANGED <<cur, done>>
Load == l <= Len(Trace) /\ Trace[l].ev = "load" /\ cur' = saved /\ l' = l + 1 /\ UNCHANGED <<saved, done>>

CleanupEv ==
  /\ l <= Len(Trace) /\ Trace[l].ev = "cleanup"
  /\ LET e    == Trace[l]
         A    == ToSet(e.a)
         post == [d |-> ToDir(e.dir), tmp |-> e.tmp]
         v    == Viol(cur.d, post.d, A, e.now)
         code == Run(cur.d, cur.tmp, A, e.now, e.m, FALSE, "asc")
         pat  == Run(cur.d, cur.tmp, A, e.now, e.m, TRUE, "asc")
     IN /\ cur' = post
        /\ IF e.junk # <<>> THEN Reject("junk", e.junk)
           ELSE IF v # {} THEN Reject("viol", v)
           ELSE IF post # code /\ post # pat THEN Reject("diverge", [code |-> code, patched |-> pat])
           ELSE TRUE
  /\ l' = l + 1 /\ UNCHANGED <<saved, done>>

Done == l = Len(Trace) + 1 /\ ~done /\ done' = TRUE /\ PrintT(<<"ACCEPTED", l - 1>>)
        /\ UNCHANGED <<l, cur, saved>>

Next == Materialised \/ Save \/ Load \/ CleanupEv \/ Done
Spec == Init /\ [][Next]_vars
=============================================================================
