------------------------ MODULE Trace_MergeContent ------------------------
(* Trace validation for C16 (driver: .../zoekt-merge-index/c16_content_test.go).         *)
(* Events:                                                                                  *)
(*   base   a freshly built directory of simple shards: corpus (id, number of documents,   *)
(*          priority per repository) and the observed state; what is seen here is the       *)
(*          reference content / metadata of every repository                                *)
(*   reset  observed state of a directory derived from the last base by operations that    *)
(*          are not in this trace (replay of a script prefix); content is still judged     *)
(*   op     merge(shards) / explode(shard) / tomb(shard,id) / untomb(shard,id) through the *)
(*          index package or the zoekt-merge-index entry points: what it reported and the  *)
(*          state observed afterwards                                                       *)
(* observed state = shards (file, compound, err, repos [id, tomb] from the shard metadata), *)
(*   content (per repository visible to a search: documents with whole content, branches,  *)
(*   language, sub-repository, version, checksum, symbols; answers of the fixed query set), *)
(*   list (per listed repository the List metadata), err (driver could not observe).       *)
(* Judgement: the new structure must be one MergeContentOps.After allows; every visible    *)
(* repository must have exactly its reference content; the listed repositories must be the *)
(* live ones, with reference metadata except the fields in Recomputed.  Never blocks.      *)
EXTENDS MergeContentOps, Json

Trace == ndJsonDeserialize("trace.ndjson")

VARIABLES l, cur, files, known, klist, prevc, prevl, nd, pr, skip, done
vars == <<l, cur, files, known, klist, prevc, prevl, nd, pr, skip, done>>

\* List fields the builder legitimately recomputes when it rewrites a shard: format
\* version (16 simple / 17 compound), index time, shard id, the shard-wide language table and
\* plain-ASCII flag, and the repository's share of the shard's memory
Recomputed == {"iformat", "itime", "iid", "langmap", "plainascii", "ibytes"}
Compared   == <<"repo", "docs", "cbytes", "shards", "nl", "dnl", "onl", "ifeature", "iminreader",
                "zversion", "mapsyms", "mapbranches">>
DocFields  == <<"name", "content", "branches", "lang", "sub", "version", "sum", "syms">>

Init == /\ l = 1 /\ cur = {} /\ files = <<>> /\ known = <<>> /\ klist = <<>> /\ prevc = <<>> /\ prevl = <<>> /\ nd = <<>> /\ pr = <<>>
        /\ skip = TRUE /\ done = FALSE

Reject(why, exp) == PrintT(<<"REJECTED", ToJson([line |-> l, why |-> why, expected |-> exp])>>)
RejectAll(ws, exp) == \A w \in ws : Reject(w, exp)

Abs(s) == [compound |-> s.compound, repos |-> s.repos]
AbsDir(st) == {Abs(st.shards[i]) : i \in DOMAIN st.shards}
FileMap(st) == [f \in {st.shards[i].file : i \in DOMAIN st.shards} |->
                  LET i == CHOOSE i \in DOMAIN st.shards : st.shards[i].file = f IN st.shards[i]]
ById(seq) == [i \in {seq[k].id : k \in DOMAIN seq} |-> LET k == CHOOSE k \in DOMAIN seq : seq[k].id = i IN seq[k]]

FirstDiff(fields, a, b) ==
  LET ds == {k \in DOMAIN fields : a[fields[k]] # b[fields[k]]}
  IN IF ds = {} THEN "" ELSE fields[CHOOSE k \in ds : \A j \in ds : k <= j]

DocDiff(a, b) ==
  IF Len(a.docs) # Len(b.docs) THEN "ndocs"
  ELSE LET ds == {k \in DOMAIN DocFields :
                    [i \in DOMAIN a.docs |-> a.docs[i][DocFields[k]]] # [i \in DOMAIN b.docs |-> b.docs[i][DocFields[k]]]}
       IN IF ds # {} THEN DocFields[CHOOSE k \in ds : \A j \in ds : k <= j]
          ELSE IF a.answers # b.answers THEN "answers" ELSE ""

\* reasons the observed content / listing is not the reference one for directory D; a
\* difference that was already there in the previous observation (pc, pl) is not reported again
ContentWhys(st, D, kn, kl, pc, pl) ==
  LET c       == ById(st.content)
      li      == ById(st.list)
      listed  == Listed(D)
      expC    == listed \cap DOMAIN kn
  IN (IF st.err # "" THEN {"observe:" \o st.err} ELSE {})
     \cup (IF Len(st.content) # Cardinality(DOMAIN c) \/ Len(st.list) # Cardinality(DOMAIN li) THEN {"duplicate-repository"} ELSE {})
     \cup {"content-leak" : i \in DOMAIN c \ listed}
     \cup {"content-missing" : i \in expC \ DOMAIN c}
     \cup {"content-unexpected" : i \in (DOMAIN c \cap listed) \ expC}
     \cup {"content:" \o DocDiff(kn[i], c[i])
           : i \in {i \in expC \cap DOMAIN c : c[i] # kn[i] /\ (i \notin DOMAIN pc \/ pc[i] # c[i])}}
     \cup {"list-leak" : i \in DOMAIN li \ listed}
     \cup {"list-missing" : i \in listed \ DOMAIN li}
     \cup {"list:" \o FirstDiff(Compared, kl[i], li[i])
           : i \in {i \in listed \cap DOMAIN li \cap DOMAIN kl :
                      /\ FirstDiff(Compared, kl[i], li[i]) # ""
                      /\ (i \notin DOMAIN pl \/ FirstDiff(Compared, pl[i], li[i]) # "")}}

Expect(D) == [dir |-> D, listed |-> Listed(D), searchable |-> Searchable(D, nd)]

Base == /\ l <= Len(Trace) /\ Trace[l].ev = "base"
        /\ LET e  == Trace[l]
               st == e.state
               D  == AbsDir(st)
               c  == ById(e.corpus)
               ok == /\ st.err = "" /\ e.leftovers = <<>>
                     /\ Cardinality(D) = Len(st.shards)
                     /\ \A sh \in D : ~sh.compound /\ Len(sh.repos) = 1 /\ ~sh.repos[1].tomb
                     /\ {sh.repos[1].id : sh \in D} = DOMAIN c
                     /\ {st.list[i].id : i \in DOMAIN st.list} = DOMAIN c
                     /\ \A i \in DOMAIN st.list : st.list[i].docs = c[st.list[i].id].nd
           IN /\ nd' = [i \in DOMAIN c |-> c[i].nd] /\ pr' = [i \in DOMAIN c |-> c[i].pr]
              /\ cur' = D /\ files' = FileMap(st)
              /\ known' = ById(st.content) /\ klist' = ById(st.list)
              /\ prevc' = ById(st.content) /\ prevl' = ById(st.list)
              /\ skip' = ~ok
              /\ (~ok => Reject("harness:base", [state |-> st.shards, err |-> st.err]))
        /\ l' = l + 1 /\ UNCHANGED done

Reset == /\ l <= Len(Trace) /\ Trace[l].ev = "reset"
         /\ LET st == Trace[l].state
                D  == AbsDir(st)
                w  == ContentWhys(st, D, known, klist, <<>>, <<>>)
                        \cup (IF Trace[l].leftovers # <<>> THEN {"leftover-files"} ELSE {})
            IN /\ cur' = D /\ files' = FileMap(st)
               /\ prevc' = ById(st.content) /\ prevl' = ById(st.list)
               /\ RejectAll({x \o ":prefix" : x \in w}, Expect(D))
               /\ skip' = (known = <<>>)
         /\ l' = l + 1 /\ UNCHANGED <<known, klist, nd, pr, done>>

SkipOp == /\ l <= Len(Trace) /\ Trace[l].ev = "op" /\ skip
          /\ l' = l + 1 /\ UNCHANGED <<cur, files, known, klist, prevc, prevl, nd, pr, skip, done>>

Op == /\ l <= Len(Trace) /\ Trace[l].ev = "op" /\ ~skip
      /\ LET e     == Trace[l]
             st    == e.state
             D     == AbsDir(st)
             names == IF e.op = "merge" THEN ToSet(e.shards) ELSE {e.shard}
             bad   == names \ DOMAIN files # {}
             ins   == {files[f] : f \in names \cap DOMAIN files}
             broken == \E s \in ins : s.err # ""                 \* an input that cannot be opened
             o     == IF e.op = "merge" THEN [op |-> "merge", shards |-> {Abs(s) : s \in ins}]
                      ELSE IF e.op = "explode" THEN [op |-> "explode", shard |-> Abs(files[e.shard])]
                      ELSE [op |-> e.op, shard |-> Abs(files[e.shard]), id |-> e.id]
             okRep == e.reported = "ok"
             tag   == ":" \o e.op \o ":" \o e.via
             \* an operation on a shard that cannot be opened fails and changes nothing, except
             \* Explode of a compound shard without repositories, which removes it
             expD  == IF broken /\ ~(e.op = "explode" /\ files[e.shard].err = "empty") THEN {cur}
                      ELSE IF broken THEN {cur \ {Abs(files[e.shard])}}
                      ELSE After(cur, o, nd, pr)
             expOk == ~broken \/ (e.op = "explode" /\ files[e.shard].err = "empty")
             \* Compound shards without repositories are garbage that cannot be told apart (their
             \* file name is the hash of the live repository names, so a new one may or may not
             \* replace an old one): the set of shards WITH repositories must be an allowed one,
             \* and the number of repository-less shards may grow by one only when the operation
             \* produces one, and shrinks by one when such a shard is exploded.
             ne(d)  == {sh \in d : sh.repos # <<>>}
             nEmp(m) == Cardinality({f \in DOMAIN m : m[f].repos = <<>>})
             eB    == nEmp(files)
             eA    == nEmp(FileMap(st))
             makesE == e.op = "merge" /\ ~broken /\ \E m \in MergeResults(o.shards, nd, pr) : m.repos = <<>>
             okE   == IF e.op = "explode" /\ files[e.shard].repos = <<>> THEN eA = eB - (IF okRep THEN 1 ELSE 0)
                      ELSE IF makesE THEN eA \in {eB, eB + 1}
                      ELSE eA = eB
             nNE   == Cardinality({i \in DOMAIN st.shards : st.shards[i].repos # <<>>})
             wS    == (IF okRep # expOk THEN {IF okRep THEN "unexpected-success" \o tag ELSE "op-error" \o tag} ELSE {})
                      \cup (IF ne(D) \notin {ne(d) : d \in expD} \/ Cardinality(ne(D)) # nNE \/ ~okE
                            THEN {"structure" \o tag} ELSE {})
                      \cup (IF e.leftovers # <<>> THEN {"leftover-files" \o tag} ELSE {})
             wC    == ContentWhys(st, D, known, klist, prevc, prevl)
         IN IF bad THEN /\ Reject(IF e.reported = "not run" THEN "prefix-diverged" ELSE "harness:unknown-shard",
                                  [files |-> DOMAIN files]) /\ skip' = TRUE
                        /\ UNCHANGED <<cur, files, prevc, prevl>>
            ELSE /\ RejectAll(wS, [before |-> cur, allowed |-> expD, observed |-> D])
                 /\ RejectAll({x \o tag : x \in wC}, Expect(D))
                 /\ cur' = D /\ files' = FileMap(st)
                 /\ prevc' = ById(st.content) /\ prevl' = ById(st.list)
                 /\ skip' = FALSE
      /\ l' = l + 1 /\ UNCHANGED <<known, klist, nd, pr, done>>

Done == l = Len(Trace) + 1 /\ ~done /\ done' = TRUE /\ PrintT(<<"ACCEPTED", l - 1>>)
        /\ UNCHANGED <<l, cur, files, known, klist, prevc, prevl, nd, pr, skip>>

Next == Base \/ Reset \/ SkipOp \/ Op \/ Done
Spec == Init /\ [][Next]_vars
=============================================================================
