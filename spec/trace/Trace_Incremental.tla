--------------------------- MODULE Trace_Incremental ---------------------------
(* Trace validation for C38 (driver: cmd/zoekt-sourcegraph-indexserver/c38_incremental_test). *)
(*   corpus [docs]                  what the specification is told about the probe corpus     *)
(*   base   [base, cfg, view]       configuration A and the view of the index built from it   *)
(*   probe  [base, fields, vars, fault, cfg, state, skip, build_err, view, merged]             *)
(*          request B (A with the named fields changed) against A's index: the state the real *)
(*          Options.IndexState computed, IncrementalSkipIndexing, the view of an index BUILT  *)
(*          from B in a second directory, and for meta-mismatch the result of the real        *)
(*          mergeMeta on a copy of A's index                                                   *)
(* view = [docs, metas] through the public read path; docs = (name, indexed/skipped, content   *)
(* digest, branches, language, symbol digest, symbol kinds), metas = repository metadata.     *)
(* The property is evaluated on the observed views: "content-affecting" is what changed the   *)
(* view of the real build.  Classification and the builder model of IncrementalOps are        *)
(* compared with the code as conformance.                                                      *)
EXTENDS IncrementalOps, Json

Trace == ndJsonDeserialize("trace.ndjson")

VARIABLES done
vars == <<done>>
Init == done = FALSE

Reject(l, why, exp) == PrintT(<<"REJECTED", ToJson([line |-> l, why |-> why, expected |-> exp])>>)

Corpus == Trace[1].docs
BaseIdx == {i \in DOMAIN Trace : Trace[i].ev = "base"}
BaseOf(name) == Trace[CHOOSE i \in BaseIdx : Trace[i].base = name]

MetaFields == {"Name", "ID", "TenantID", "Branches", "URL", "CommitURLTemplate", "FileURLTemplate",
               "LineFragmentTemplate", "RawConfig", "Metadata", "HasSymbols"}
\* ma = metadata of the index that stays, mb = metadata of an index built from the request.
\* RawConfig and Metadata are key/value maps a request may describe partially (MergeMutable
\* only looks at the request's keys; index/builder_test.go TestIncrementalSkipIndexing expects
\* "equal" for a request without any RawConfig): every pair of the request must be there.
SubsetFields == {"RawConfig", "Metadata"}
MetaDiff(ma, mb) ==
  IF Len(ma) = 1 /\ Len(mb) = 1
  THEN {f \in MetaFields \ SubsetFields : ma[1][f] # mb[1][f]}
       \cup {f \in SubsetFields : ~(ToSet(mb[1][f]) \subseteq ToSet(ma[1][f]))}
  ELSE IF ma = mb THEN {} ELSE {"(several metadata records)"}

\* ---------------------------------------------------------------- builder model against the view
DocOf(name) == Corpus[CHOOSE i \in DOMAIN Corpus : Corpus[i].n = name]
KindOf(parser) == CASE parser = "universal" -> "function" [] parser = "scip" -> "method" [] OTHER -> ""

\* corpus documents a build with c contains: those with at least one branch position in range
Present(c) == {i \in DOMAIN Corpus : \E j \in DOMAIN Corpus[i].br : Corpus[i].br[j] < Len(c.Branches)}

ViewConforms(c, docs) ==
  /\ {docs[i].n : i \in DOMAIN docs} = {Corpus[i].n : i \in Present(c)}
  /\ Len(docs) = Cardinality(Present(c))
  /\ \A i \in DOMAIN docs :
       (\E j \in DOMAIN Corpus : Corpus[j].n = docs[i].n) =>
          LET dv == DocView(c, DocOf(docs[i].n)) IN
          /\ (docs[i].k = "indexed") = (dv.reason = "none")
          /\ docs[i].sk = KindOf(dv.parser)

ModelDocs(c) == [i \in Present(c) |-> [n |-> Corpus[i].n, v |-> DocView(c, Corpus[i])]]

-----------------------------------------------------------------------------
CheckBase(e, l) ==
  ~ViewConforms(e.cfg, e.view.docs) => Reject(l, "conform:view", [model |-> ModelDocs(e.cfg)])

CheckProbe(e, l) ==
  LET A   == BaseOf(e.base)
      a   == A.cfg
      b   == e.cfg
      va  == A.view
      vb  == e.view
      exp == Classify(FALSE, e.fault, a, b)      \* the code today
      expF == Classify(TRUE, e.fault, a, b)      \* with the proposed fix (either is accepted)
      D   == Diff(a, b)
      built == e.build_err = ""
      skipping == e.state \in {"equal", "meta-mismatch"}
      mdiff == MetaDiff(va.metas, vb.metas)
      \* fields of the metadata view the metadata path is expected to bring to B's values
      mleft == MetaDiff(e.merged.view.metas, vb.metas)
  IN
  \* ------------------------------------------------ the property, on observations
  /\ (e.skip # (e.state = "equal") => Reject(l, "skip-without-equal", [state |-> e.state]))
  /\ ((skipping /\ e.fault # "none") => Reject(l, "skip-on-damaged-index", [state |-> exp]))
  /\ ((skipping /\ e.fault = "none" /\ a.Branches # b.Branches) =>
        Reject(l, "skip-but-branches-differ", [state |-> exp]))
  /\ ((skipping /\ e.fault = "none" /\ built /\ va.docs # vb.docs) =>
        Reject(l, IF e.state = "equal" THEN "equal-but-content-differs" ELSE "meta-but-content-differs",
               [state |-> exp, diff |-> D]))
  /\ ((e.state = "equal" /\ e.fault = "none" /\ built /\ va.docs = vb.docs /\ mdiff # {}) =>
        Reject(l, "equal-but-metadata-differs", [state |-> exp, diff |-> D, view_fields |-> mdiff]))
  /\ ((e.state = "meta-mismatch" /\ e.fault = "none") =>
        /\ (e.merged.err # "" => Reject(l, "meta-merge-failed", [err |-> e.merged.err]))
        /\ ((e.merged.err = "" /\ (~e.merged.shards_unchanged \/ e.merged.view.docs # va.docs)) =>
              Reject(l, "meta-changed-content", [diff |-> D]))
        /\ ((e.merged.err = "" /\ built /\ mleft # {}) =>
              Reject(l, "meta-not-applied", [diff |-> D, view_fields |-> mleft]))
        /\ ((e.merged.err = "" /\ e.merged.state_after # "equal") =>
              Reject(l, "meta-not-converged", [state_after |-> e.merged.state_after])))
  /\ ((~skipping /\ e.fault = "none" /\ D # {} /\ D \subseteq MutableFields /\ MutableChange(FALSE, a, b)) =>
        Reject(l, "reindex-for-metadata-only", [state |-> exp, diff |-> D]))
  /\ ((e.fault = "none" /\ ~skipping /\ e.state \notin {"option-mismatch", "content-mismatch", "missing"}) =>
        Reject(l, "unexpected-state", [state |-> exp]))
  \* ------------------------------------------------ conformance with IncrementalOps
  /\ ((e.state # exp /\ e.state # expF) => Reject(l, "conform:state", [state |-> exp, fixed |-> expF, diff |-> D]))
  /\ (built # Buildable(b) => Reject(l, "conform:buildable", [buildable |-> Buildable(b)]))
  /\ ((built /\ ~ViewConforms(b, vb.docs)) => Reject(l, "conform:view", [model |-> ModelDocs(b)]))

Check(e, l) ==
  CASE e.ev = "corpus" -> (l # 1 => Reject(l, "harness:corpus-not-first", [x |-> l]))
    [] e.ev = "base"   -> CheckBase(e, l)
    [] e.ev = "probe"  -> CheckProbe(e, l)
    [] OTHER -> Reject(l, "harness:unknown-event", [ev |-> e.ev])

\* evaluated at constant level (ASSUME): TLC caches LET definitions only outside actions
ASSUME \A i \in 1..Len(Trace) : LET e == Trace[i] IN Check(e, i)
Done == ~done /\ done' = TRUE /\ PrintT(<<"ACCEPTED", Len(Trace)>>)
Next == Done
Spec == Init /\ [][Next]_vars
=============================================================================
