------------------------- MODULE Trace_Threshold -------------------------
(* C28 on large documents.  The property is relational: for every search, the result under   *)
(* any setting of ZOEKT_RE2_THRESHOLD_BYTES is the result with RE2 disabled.  The trace is the *)
(* concatenation of the recordings of one process per setting (the variable is read once per  *)
(* process); an event = one search: query number, setting, outcome, and per returned file its  *)
(* name, the number of ranges, a checksum over all ranges and the first / last ranges.         *)
EXTENDS Integers, Sequences, FiniteSets, TLC, Json

Trace == ndJsonDeserialize("trace.ndjson")

Baseline(qi) == CHOOSE j \in 1..Len(Trace) : Trace[j].qi = qi /\ Trace[j].threshold = "-1"
HasBaseline(qi) == \E j \in 1..Len(Trace) : Trace[j].qi = qi /\ Trace[j].threshold = "-1"

Reject(l, why, exp) == PrintT(<<"REJECTED", ToJson([line |-> l, why |-> why, expected |-> exp])>>)

Check(e, l) ==
  IF e.outcome # "ok" THEN Reject(l, "outcome:" \o e.outcome, [files |-> <<>>])
  ELSE IF ~HasBaseline(e.qi) THEN Reject(l, "no-baseline", [files |-> <<>>])
  ELSE LET b == Trace[Baseline(e.qi)] IN
       IF b.outcome # "ok" THEN TRUE           \* reported at the baseline's own line
       ELSE IF [k \in 1..Len(e.files) |-> e.files[k].name] # [k \in 1..Len(b.files) |-> b.files[k].name]
            THEN Reject(l, "files", [files |-> b.files])
       ELSE IF e.files # b.files THEN Reject(l, "ranges", [files |-> b.files])
       ELSE TRUE

ASSUME \A i \in 1..Len(Trace) : Check(Trace[i], i)

VARIABLE done
Init == done = FALSE
Next == ~done /\ done' = TRUE /\ PrintT(<<"ACCEPTED", Len(Trace)>>)
Spec == Init /\ [][Next]_done
=============================================================================
