--------------------------- MODULE Trace_Codec ---------------------------
(* Trace validation for C26 (Codec.tla is the oracle).                                    *)
(*   rt : value v, the REAL encoder's bytes, the REAL decoder's answer on those bytes.    *)
(*        Allowed: bytes are an encoding of v by the specification (parsed with the       *)
(*        spec's decoder they give v, re-encoded in that item order they give the same    *)
(*        bytes: this pins the format) and the real decoder answers a value equal to v.   *)
(*   g  : input bytes (script from CodecGen.tla or seeded random) and the outcome of the  *)
(*        REAL decoder in a supervised child process.  Allowed: the answers of            *)
(*        Outcome(typ, inp); panic / hang / oom / died are not actions of the spec.       *)
(* Never blocks: events the specification does not allow are printed as REJECTED.         *)
EXTENDS Codec

Trace == ndJsonDeserialize("trace.ndjson")

VARIABLES l, cnt, done
vars == <<l, cnt, done>>

Init == l = 1 /\ done = FALSE
        /\ cnt = [rt |-> 0, value |-> 0, error |-> 0, any |-> 0]

Reject(why, exp) == PrintT(<<"REJECTED", ToJson([line |-> l, why |-> why, expected |-> exp])>>)

\* the logged abstract value as the specification's item sequence
Val(typ, v) == IF typ = "BranchesRepos" THEN [i \in DOMAIN v |-> [b |-> v[i].b, r |-> v[i].r]] ELSE v
Ids(typ, v) == IF typ = "BranchesRepos" THEN [i \in DOMAIN v |-> v[i].ids] ELSE <<>>

RtWhy(e) ==
  IF e.encout # "ok" THEN "encode"
  ELSE IF ~IsEncodingOf(e.typ, e.bytes, Val(e.typ, e.v)) THEN "bytes"
  ELSE IF e.out # "value" THEN "outcome"
  ELSE IF ~(SameValue(e.typ, Val(e.typ, e.dec), Val(e.typ, e.v)) /\ Ids(e.typ, e.dec) = Ids(e.typ, e.v))
       THEN "value"
  ELSE "ok"

Rt == /\ l <= Len(Trace) /\ Trace[l].ev = "rt"
      /\ LET e == Trace[l]
             w == RtWhy(e)
         IN /\ (w # "ok" => Reject(w, "round trip"))
            /\ cnt' = [cnt EXCEPT !.rt = @ + 1]
      /\ l' = l + 1 /\ UNCHANGED done

G == /\ l <= Len(Trace) /\ Trace[l].ev = "g"
     /\ LET e == Trace[l]
            o == Outcome(e.typ, e.inp)
        IN /\ IF e.out \notin {"value", "error"} THEN Reject("outcome", o.k)
              ELSE IF o.k = "error" /\ e.out = "value" THEN Reject("accepted", o.why)
              ELSE IF o.k = "value" /\ e.out = "error" THEN Reject("refused", o.v)
              ELSE IF o.k = "value" /\ e.out = "value" /\ ~SameValue(e.typ, Val(e.typ, e.dec), o.v)
                   THEN Reject("value", o.v)
              ELSE TRUE
           /\ cnt' = [cnt EXCEPT ![o.k] = @ + 1]
     /\ l' = l + 1 /\ UNCHANGED done

Done == /\ l = Len(Trace) + 1 /\ ~done /\ done' = TRUE
        /\ PrintT(<<"STATS", ToJson(cnt)>>)
        /\ PrintT(<<"ACCEPTED", l - 1>>)
        /\ UNCHANGED <<l, cnt>>

Next == Rt \/ G \/ Done
Spec == Init /\ [][Next]_vars
=============================================================================
