---------------------------- MODULE Trace_Total ----------------------------
(* C07: totality of query parsing, API query decoding and of everything a parsed query is   *)
(* handed to.  The trace is a sequence of groups: one "input" event followed by its "op"     *)
(* events (nops of them), each op with the outcome the supervised real code produced.        *)
(*                                                                                           *)
(* The specification has exactly these actions:                                              *)
(*   Parse(s)        -> "ok" (a query) | "error"                                             *)
(*   Print(q)        -> "ok"                         String()                                *)
(*   ToProto(q)      -> "ok"                         query.QToProto                          *)
(*   FromProto(p)    -> "ok" | "error"               query.QFromProto                        *)
(*   Search / List   -> "ok" | "error"               on a directory searcher and on a bare   *)
(*                                                   shard searcher                          *)
(*   JsonSearch / JsonList(body) -> "ok" with status 200 | "error" with status 400/405/500   *)
(* and this protocol: an input of kind "query" is parsed first; if parsing yields a query,   *)
(* EVERY one of print, toProto, search-dir, search-shard, list-dir, list-shard is performed  *)
(* on it, and fromProto on the result of toProto; if it yields an error nothing else is.     *)
(* "panic", "crash" (a panic contained by the sharded searcher: Stats.Crashes), "hang",      *)
(* "oom", "stackoverflow", "died", "nilquery", "nilresult", "badreply" are not outcomes of   *)
(* any action: a trace containing one is not a behaviour of this specification.  Never       *)
(* blocks: every offending event is printed as REJECTED.                                     *)
EXTENDS Integers, Sequences, FiniteSets, TLC, Json

Trace == ndJsonDeserialize("trace.ndjson")

VARIABLES done
vars == <<done>>
Init == done = FALSE

Reject(i, why, exp) == PrintT(<<"REJECTED", ToJson([line |-> i, why |-> why, expected |-> exp])>>)

Allowed(op) == IF op \in {"print", "toProto"} THEN {"ok"} ELSE {"ok", "error"}
AfterParse == {"print", "toProto", "search-dir", "search-shard", "list-dir", "list-shard"}
StatusOk(op, outcome, status) ==
  IF op \in {"jsonSearch", "jsonList"}
  THEN (outcome = "ok" => status = 200) /\ (outcome = "error" => status \in {400, 405, 500})
  ELSE TRUE

\* outcomes after which the supervised process is gone: the rest of the group cannot follow
Fatal == {"hang", "oom", "stackoverflow", "died", "stalled"}

CheckOp(e, i) ==
  /\ (e.outcome \notin Allowed(e.op) => Reject(i, "outcome", [op |-> e.op, allowed |-> Allowed(e.op)]))
  /\ (e.outcome \in Allowed(e.op) /\ ~StatusOk(e.op, e.outcome, e.status) => Reject(i, "status", [op |-> e.op, allowed |-> Allowed(e.op)]))
  /\ (e.back < 1 \/ e.back >= i \/ Trace[i - e.back].ev # "input" \/ Trace[i - e.back].id # e.id \/ e.back > Trace[i - e.back].nops
        => Reject(i, "protocol:stray-op", [op |-> e.op, allowed |-> {}]))

CheckInput(e, i) ==
  LET ops == [k \in 1..e.nops |-> Trace[i + k]]
      names == {ops[k].op : k \in 1..e.nops}
      fatal == \E k \in 1..e.nops : ops[k].outcome \in Fatal
      outOf(name) == LET k == CHOOSE k \in 1..e.nops : ops[k].op = name IN ops[k].outcome
      expected ==
        CASE e.kind = "query" ->
               IF e.nops >= 1 /\ ops[1].op = "parse" /\ ops[1].outcome = "ok"
               THEN {"parse"} \cup AfterParse \cup (IF "toProto" \in names /\ outOf("toProto") = "ok" THEN {"fromProto"} ELSE {})
               ELSE {"parse"}
          [] e.kind = "json-search" -> {"jsonSearch"}
          [] e.kind = "json-list" -> {"jsonList"}
          [] e.kind = "proto" -> {"fromProto"}
  IN /\ ((i + e.nops > Len(Trace) \/ (\E k \in 1..e.nops : i + k <= Len(Trace) /\ Trace[i + k].ev # "op"))
           => Reject(i, "protocol:group", [kind |-> e.kind, nops |-> e.nops]))
     /\ (i + e.nops <= Len(Trace) /\ (\A k \in 1..e.nops : Trace[i + k].ev = "op") =>
           /\ (e.kind = "query" /\ (e.nops = 0 \/ ops[1].op # "parse") => Reject(i, "protocol:parse-first", [expected |-> expected]))
           /\ (~fatal /\ names # expected => Reject(i, "protocol:incomplete", [expected |-> expected, missing |-> expected \ names, extra |-> names \ expected]))
           /\ (Cardinality(names) # e.nops => Reject(i, "protocol:duplicate-op", [expected |-> expected])))

\* evaluated at constant level (ASSUME): TLC caches LET definitions only outside actions
ASSUME \A i \in 1..Len(Trace) :
         LET e == Trace[i] IN
         CASE e.ev = "input" -> CheckInput(e, i)
           [] e.ev = "op" -> CheckOp(e, i)
           [] OTHER -> TRUE

Done == ~done /\ done' = TRUE /\ PrintT(<<"ACCEPTED", Len(Trace)>>)
Next == Done
Spec == Init /\ [][Next]_vars
=============================================================================
