--------------------------- MODULE Trace_Regex ---------------------------
(* C27: for every pattern the real engine's first match on every subject — for the pattern, *)
(* for its printed-and-reparsed form and for its optimised form — must be the match the     *)
(* leftmost-first semantics of Regex.tla assigns to the ORIGINAL syntax tree.               *)
EXTENDS Integers, Sequences, FiniteSets, TLC, Json

Trace == ndJsonDeserialize("trace.ndjson")

FoldOrbits == Trace[1].orbits
CanonTab == LET rs == UNION {{o[k] : k \in 1..Len(o)} : o \in {FoldOrbits[j] : j \in 1..Len(FoldOrbits)}}
            IN [r \in rs |-> LET o == CHOOSE o \in {FoldOrbits[j] : j \in 1..Len(FoldOrbits)} : \E k \in 1..Len(o) : o[k] = r
                             IN o[1]]
OrbitTab == [c \in {FoldOrbits[j][1] : j \in 1..Len(FoldOrbits)} |->
               LET o == CHOOSE o \in {FoldOrbits[j] : j \in 1..Len(FoldOrbits)} : o[1] = c IN {o[k] : k \in 1..Len(o)}]

R == INSTANCE Regex WITH Canon <- CanonTab, Orbit <- OrbitTab

Subjects == Trace[2].list

VARIABLES done
vars == <<done>>
Init == done = FALSE

Reject(l, why, exp) == PrintT(<<"REJECTED", ToJson([line |-> l, why |-> why, expected |-> exp])>>)

\* expected first match per subject as <<start, end>> or <<-1, -1>>
Expected(ast) == [k \in 1..Len(Subjects) |->
                    LET m == R!FindFirst(ast, Subjects[k], FALSE) IN IF m = <<>> THEN <<-1, -1>> ELSE m]
ExpectedAll(ast) == [k \in 1..Len(Subjects) |-> R!FindAll(ast, Subjects[k], FALSE)]

FirstDiff(a, b) == IF Len(a) # Len(b) THEN 0
                   ELSE IF \E k \in 1..Len(a) : a[k] # b[k] THEN CHOOSE k \in 1..Len(a) : a[k] # b[k] /\ \A j \in 1..(k - 1) : a[j] = b[j]
                   ELSE -1

Check(e, l) ==
  LET exp == Expected(e.ast)
      d0 == FirstDiff(exp, e.r0)
      da == FirstDiff(ExpectedAll(e.ast), e.all0)
      d1 == IF e.print_ok THEN FirstDiff(exp, e.r1) ELSE -1
      d2 == IF e.opt_ok THEN FirstDiff(exp, e.r2) ELSE -1
  IN /\ (d0 # -1 => Reject(l, "oracle:first", [subject |-> d0, exp |-> IF d0 > 0 THEN exp[d0] ELSE <<>>]))
     /\ (da # -1 => Reject(l, "oracle:all", [subject |-> da, exp |-> IF da > 0 THEN ExpectedAll(e.ast)[da] ELSE <<>>]))
     /\ (~e.print_ok => Reject(l, "print:invalid", [subject |-> 0, exp |-> <<>>]))
     /\ (~e.opt_ok => Reject(l, "optimize:invalid", [subject |-> 0, exp |-> <<>>]))
     /\ (d1 # -1 => Reject(l, "print:language", [subject |-> d1, exp |-> IF d1 > 0 THEN exp[d1] ELSE <<>>]))
     /\ (d2 # -1 => Reject(l, "optimize:language", [subject |-> d2, exp |-> IF d2 > 0 THEN exp[d2] ELSE <<>>]))

\* evaluated at constant level (ASSUME): TLC caches LET definitions only outside actions
ASSUME \A i \in 3..Len(Trace) : LET e == Trace[i] IN Check(e, i)
Done == ~done /\ done' = TRUE /\ PrintT(<<"ACCEPTED", Len(Trace)>>)
Next == Done
Spec == Init /\ [][Next]_vars
=============================================================================
