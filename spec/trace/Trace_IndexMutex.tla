------------------------ MODULE Trace_IndexMutex ------------------------
(* Trace validation for C31, two kinds of recorded runs of the real indexMutex:           *)
(*                                                                                       *)
(* (R) gated schedules: ev = "step".  The driver issued one command (a goroutine calls    *)
(*     With(n,f)/Global(f), or a running f is allowed to return), waited until every      *)
(*     goroutine was parked, and logged what it saw: per goroutine idle/wait/body, the    *)
(*     last return value, the keys of m.running, and (when everybody is idle) whether     *)
(*     indexMu can be write-locked.  The observation must be the projection of a state    *)
(*     in Settle(command(state), FALSE): the general read/write-lock semantics of         *)
(*     IndexMutexOps -- the same operators the model checker explored.                    *)
(*                                                                                       *)
(* (V) stress: ev in {"cstart","enter","exit","cend"} ordered by an atomic sequence       *)
(*     number that "enter"/"exit" take *inside* f.  Mutual exclusion and "returned true   *)
(*     iff f ran" are evaluated over that order.                                          *)
(*                                                                                       *)
(* Never blocks: what the spec does not allow is printed as REJECTED.                     *)
EXTENDS IndexMutexOps, Json

Trace == ndJsonDeserialize("trace.ndjson")

VARIABLES l, cur, skip, done, active, open, lastEnd, lastSeq
vars == <<l, cur, skip, done, active, open, lastEnd, lastSeq>>
\* cur     (R) set of model states consistent with what was observed so far
\* active  (V) set of [g, k, n]: f's currently running    open: calls in progress
\* lastEnd (V) name -> seq of the last return of a With(name) call whose f ran

Init == /\ l = 1 /\ cur = {} /\ skip = FALSE /\ done = FALSE
        /\ active = {} /\ open = {} /\ lastEnd = <<>> /\ lastSeq = 0

Reject(why, who, exp) ==
  PrintT(<<"REJECTED", ToJson([line |-> l, why |-> why, who |-> who, expected |-> exp])>>)

ToSet(s) == {s[i] : i \in DOMAIN s}

Reset == /\ l <= Len(Trace) /\ Trace[l].ev = "reset"
         /\ cur' = {InitSt(Trace[l].procs)} /\ skip' = FALSE
         /\ active' = {} /\ open' = {} /\ lastEnd' = <<>> /\ lastSeq' = 0
         /\ l' = l + 1 /\ UNCHANGED done

\* informational events (a schedule that left the predicted path)
Note == /\ l <= Len(Trace) /\ Trace[l].ev = "note"
        /\ l' = l + 1 /\ UNCHANGED <<cur, skip, done, active, open, lastEnd, lastSeq>>

Skip == /\ l <= Len(Trace) /\ Trace[l].ev = "step" /\ skip
        /\ l' = l + 1 /\ UNCHANGED <<cur, skip, done, active, open, lastEnd, lastSeq>>

-----------------------------------------------------------------------------
\* (R)
AllIdle(e) == \A p \in DOMAIN e.ph : e.ph[p] = "idle"

\* why an observation is outside the admissible set A; who = offending goroutine (0: none)
Diagnose(e, A) ==
  LET PS == DOMAIN e.ph
      ent == {p \in PS : e.ph[p] = "body" /\ \A s \in A : Phase(s, p) # "body"}
      rtn == {p \in PS : e.ph[p] = "idle" /\ \A s \in A : Phase(s, p) # "idle"}
      val == {p \in PS : e.ph[p] = "idle" /\ \A s \in A : Phase(s, p) = "idle" => s.ret[p] # e.ret[p]}
      stk == {p \in PS : e.ph[p] = "wait" /\ \A s \in A : Phase(s, p) # "wait"}
      pick(S) == CHOOSE p \in S : TRUE
  IN IF ent # {} THEN [why |-> "enter", who |-> pick(ent)]
     ELSE IF rtn # {} THEN [why |-> "return", who |-> pick(rtn)]
     ELSE IF val # {} THEN [why |-> "value", who |-> pick(val)]
     ELSE IF stk # {} THEN [why |-> "stuck", who |-> pick(stk)]
     ELSE [why |-> "state", who |-> 0]

Step ==
  /\ l <= Len(Trace) /\ Trace[l].ev = "step" /\ ~skip
  /\ LET e == Trace[l]
         o == [k |-> e.k, n |-> e.n]
         can == \A s \in cur : IF e.c = "start" THEN CanStart(s, e.p) ELSE CanExit(s, e.p)
         A == UNION {Settle(IF e.c = "start" THEN Start(s, e.p, o) ELSE Exit(s, e.p), FALSE) : s \in cur}
         \* goroutine phases and return values decide; m.running is compared afterwards
         M == {s \in A : Proj(s).ph = e.ph /\ Proj(s).ret = e.ret}
     IN IF cur = {} \/ ~can
        THEN Reject("driver", e.p, "command not applicable") /\ skip' = TRUE /\ cur' = cur
        ELSE IF M = {}
        THEN LET d == Diagnose(e, A) IN
             Reject(d.why, d.who, {Proj(s) : s \in A}) /\ skip' = TRUE /\ cur' = cur
        ELSE IF AllIdle(e) /\ e.probe # "free"
        THEN Reject("leak", e.p, "indexMu can be locked when nothing runs") /\ skip' = TRUE /\ cur' = M
        ELSE IF \A s \in M : s.running # ToSet(e.running)
        THEN Reject("running", 0, {s.running : s \in M}) /\ skip' = FALSE /\ cur' = M
        ELSE skip' = FALSE /\ cur' = M
  /\ l' = l + 1 /\ UNCHANGED <<done, active, open, lastEnd, lastSeq>>

-----------------------------------------------------------------------------
\* (V)
IsEv(x) == x \in {"cstart", "enter", "exit", "cend"}
Get(f, k, d) == IF k \in DOMAIN f THEN f[k] ELSE d

Event ==
  /\ l <= Len(Trace) /\ IsEv(Trace[l].ev)
  /\ LET e == Trace[l]
         me == [g |-> e.g, k |-> e.k, n |-> e.n]
         ordered == e.seq > lastSeq
     IN
     /\ lastSeq' = e.seq
     /\ CASE e.ev = "cstart" ->
               /\ open' = open \cup {[g |-> e.g, k |-> e.k, n |-> e.n, c0 |-> e.seq]}
               /\ UNCHANGED <<active, lastEnd>>
               /\ (~ordered => Reject("order", e.g, lastSeq))
          [] e.ev = "enter" ->
               LET clash == IF e.k = "global" THEN active
                            ELSE {a \in active : a.k = "global" \/ a.n = e.n}
               IN /\ active' = active \cup {me}
                  /\ UNCHANGED <<open, lastEnd>>
                  /\ IF ~ordered THEN Reject("order", e.g, lastSeq)
                     ELSE IF clash # {} THEN Reject("overlap", e.g, clash)
                     ELSE TRUE
          [] e.ev = "exit" ->
               /\ active' = active \ {me}
               /\ UNCHANGED <<open, lastEnd>>
               /\ IF ~ordered THEN Reject("order", e.g, lastSeq)
                  ELSE IF me \notin active THEN Reject("exit-unmatched", e.g, active)
                  ELSE TRUE
          [] e.ev = "cend" ->
               LET mine == {c \in open : c.g = e.g}
                   c0 == IF mine = {} THEN 0 ELSE (CHOOSE c \in mine : TRUE).c0
                   others == {c \in open : c.g # e.g /\ c.k = "with" /\ c.n = e.n}
                   okRet == IF e.k = "global" THEN e.ret = "void" /\ e.ran
                            ELSE (e.ret = "true" /\ e.ran) \/ (e.ret = "false" /\ ~e.ran)
                   \* a skip needs a concurrent call for the same name
                   busy == e.ret = "false" => (others # {} \/ Get(lastEnd, e.n, 0) > c0)
               IN /\ open' = open \ mine
                  /\ active' = active
                  /\ lastEnd' = IF e.k = "with" /\ e.ran
                                THEN [x \in DOMAIN lastEnd \cup {e.n} |-> IF x = e.n THEN e.seq ELSE lastEnd[x]]
                                ELSE lastEnd
                  /\ IF ~ordered THEN Reject("order", e.g, lastSeq)
                     ELSE IF mine = {} THEN Reject("cend-unmatched", e.g, open)
                     ELSE IF ~okRet THEN Reject("value", e.g, [ran |-> e.ran])
                     ELSE IF ~busy THEN Reject("skip-not-busy", e.g, [c0 |-> c0])
                     ELSE IF me \in active THEN Reject("return-in-body", e.g, active)
                     ELSE TRUE
  /\ l' = l + 1 /\ UNCHANGED <<cur, skip, done>>

\* (callers) a global operation (Server.merge) that was started while an index job held its repository
\* lock: mutual exclusion means it worked on the directory as the job left it -- the shards it handed
\* to the merge command (saw) are the candidates of that directory (want, computed afterwards with
\* the same selection functions); a view taken before the lock was held is a stale one
Caller == /\ l <= Len(Trace) /\ Trace[l].ev = "caller"
          /\ (Trace[l].saw # Trace[l].want => Reject("stale-view", 0, [want |-> Trace[l].want]))
          /\ l' = l + 1 /\ UNCHANGED <<cur, skip, done, active, open, lastEnd, lastSeq>>

Done == l = Len(Trace) + 1 /\ ~done /\ done' = TRUE /\ PrintT(<<"ACCEPTED", l - 1>>)
        /\ UNCHANGED <<l, cur, skip, active, open, lastEnd, lastSeq>>

Next == Reset \/ Note \/ Skip \/ Step \/ Event \/ Caller \/ Done
Spec == Init /\ [][Next]_vars
=============================================================================
