----------------------------- MODULE Queue -----------------------------
(* State machine of the indexing queue for model checking and for generating replay     *)
(* scripts (one per explored transition).  C30.                                          *)
EXTENDS QueueOps, Json

CONSTANTS Ids,       \* repository ids, e.g. {1,2,3}
          Vers,      \* option versions, e.g. {1,2}
          Mode,      \* "zero" | "hour"
          MaxDepth,  \* bound on history length
          Emit       \* TRUE: print one replay script per explored transition

VARIABLES st, hist, enq, deq, lastRemove

vars == <<st, hist, enq, deq, lastRemove>>

\* sequences of distinct ids: every subset in increasing order plus the reversed pairs
RECURSIVE SeqOf(_)
SeqOf(S) == IF S = {} THEN <<>>
            ELSE LET m == CHOOSE x \in S : \A y \in S : x <= y IN <<m>> \o SeqOf(S \ {m})
Rev(s) == [i \in 1..Len(s) |-> s[Len(s) + 1 - i]]
IdSeqs == {SeqOf(S) : S \in SUBSET Ids} \cup {Rev(SeqOf(S)) : S \in SUBSET Ids}

Ops == [op : {"add"}, id : Ids, ver : Vers]
       \cup {[op |-> "pop"]}
       \cup [op : {"bump"}, ids : IdSeqs]
       \cup [op : {"set"}, id : Ids, ver : Vers, ok : BOOLEAN]
       \cup [op : {"remove"}, ids : {SeqOf(S) : S \in SUBSET Ids}]

Init == /\ st = InitSt(Mode)
        /\ hist = <<>>
        /\ enq = [i \in Ids |-> 0]
        /\ deq = [i \in Ids |-> 0]
        /\ lastRemove = [valid |-> FALSE, S |-> {}]

OnHeap(s, i) == i \in DOMAIN s.items /\ s.items[i].onHeap

Step(o) ==
  LET r == Apply(st, o) IN
  /\ st' = r.st
  /\ hist' = Append(hist, o)
  /\ enq' = [i \in Ids |-> IF ~OnHeap(st, i) /\ OnHeap(r.st, i) THEN enq[i] + 1 ELSE enq[i]]
  /\ deq' = [i \in Ids |-> IF OnHeap(st, i) /\ ~OnHeap(r.st, i) THEN deq[i] + 1 ELSE deq[i]]
  /\ lastRemove' = IF o.op = "remove" THEN [valid |-> TRUE, S |-> ToSet(o.ids)]
                   ELSE [valid |-> FALSE, S |-> {}]
  /\ (Emit => PrintT(<<"SCRIPT", ToJson([mode |-> Mode, ops |-> hist'])>>))

Next == Len(hist) < MaxDepth /\ \E o \in Ops : Step(o)

Spec == Init /\ [][Next]_vars

view == <<Norm(st.items), lastRemove>>

-----------------------------------------------------------------------------
TypeOK == /\ DOMAIN st.items \subseteq Ids
          /\ \A i \in DOMAIN st.items : st.items[i].oid \in {0, i}

\* a repository backing off is never waiting to be indexed
BackoffHonoured == \A i \in DOMAIN st.items : st.items[i].blocked => ~st.items[i].onHeap

\* each enqueue is consumed at most once: what went on the heap either is still there or
\* left it exactly once (pop, failure, removal)
OncePerEnqueue == \A i \in Ids : enq[i] - deq[i] = (IF OnHeap(st, i) THEN 1 ELSE 0)

\* heap sequence numbers are distinct, so the pop order is a total order (FIFO tiebreak)
DistinctSeq == \A i, j \in Heap(st.items) : i # j => st.items[i].seq # st.items[j].seq

\* the popped element is minimal: no other waiting element should have gone first
PopIsMinimal ==
  LET r == DoPop(st) IN
  r.reply.ok => \A j \in Heap(r.st.items) :
      LET m == CHOOSE i \in Heap(st.items) : ~OnHeap(r.st, i) IN
      /\ ~Less(st.items[j], st.items[m])

\* after being told which repositories exist the queue tracks exactly those (it never starts
\* tracking one by being told, so: tracked \subseteq S) -- except in the documented same-size
\* heuristic (known finding C30-F2), which the model reproduces as the code does.
KF_C30_F2 == lastRemove.valid /\ Cardinality(lastRemove.S) = Cardinality(DOMAIN st.items)
TrackedExact == lastRemove.valid => (DOMAIN st.items \subseteq lastRemove.S \/ KF_C30_F2)
\* the strict form: violated exactly by the heuristic
TrackedExactStrict == lastRemove.valid => DOMAIN st.items \subseteq lastRemove.S
=============================================================================
