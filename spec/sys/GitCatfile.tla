---------------------------- MODULE GitCatfile ----------------------------
(* C14, streaming part.  State machine of gitindex.catfileReader: `Next` announces the next   *)
(* requested object (size, or missing), `Read(k)` is io.ReadFull with a k-byte buffer on the   *)
(* current object; unread content is discarded by the following Next.  TLC prints one replay   *)
(* script (history + predicted replies) per explored transition.                               *)
EXTENDS GitTreeOps, Json

CONSTANTS MaxDepth, Emit

\* the requested objects: sizes around the reader's 512 KiB buffer, empty blobs, missing ids
Ids == << [missing |-> FALSE, size |-> 5], [missing |-> TRUE, size |-> 0], [missing |-> FALSE, size |-> 0],
          [missing |-> FALSE, size |-> 600000], [missing |-> FALSE, size |-> 3], [missing |-> TRUE, size |-> 0],
          [missing |-> FALSE, size |-> 524288] >>
ReadSizes == {1, 4, 5, 100, 524288, 600000, 700000}
Ops == {[op |-> "next", k |-> 0]} \cup [op : {"read"}, k : ReadSizes]

VARIABLES st, hist, replies
vars == <<st, hist, replies>>
Init == st = CatInit /\ hist = <<>> /\ replies = <<>>

Norm(r, o) == IF o.op = "next" THEN [kind |-> r.kind, size |-> r.size, n |-> 0, from |-> 0, err |-> ""]
              ELSE [kind |-> "read", size |-> 0, n |-> r.n, from |-> r.from, err |-> r.err]
Step(o) == LET r == IF o.op = "next" THEN CatNext(Ids, st) ELSE CatRead(Ids, st, o.k) IN
           /\ st' = r.st /\ hist' = Append(hist, o) /\ replies' = Append(replies, Norm(r.reply, o))
           /\ (Emit => PrintT(<<"SCRIPT", ToJson([ids |-> Ids, ops |-> hist', expect |-> replies'])>>))
Next == Len(hist) < MaxDepth /\ \E o \in Ops : Step(o)
Spec == Init /\ [][Next]_vars
view == <<st, Len(hist)>>

TypeOK == st.idx \in 0..Len(Ids) /\ st.rem >= 0 /\ st.off >= 0
\* never more bytes delivered for an object than it has; a missing object delivers nothing
Bounded == st.idx > 0 => st.off + st.rem = (IF Ids[st.idx].missing THEN 0 ELSE Ids[st.idx].size)
=============================================================================
