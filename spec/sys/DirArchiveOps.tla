------------------------- MODULE DirArchiveOps -------------------------
(* C15 (and the document part of C14).  Pure operators: which documents the directory       *)
(* indexer (cmd/zoekt-index) and the archive indexer (internal/archive) must produce.        *)
(*                                                                                          *)
(* content descriptor  cd = [cid, size, nul, lit, text]                                      *)
(*     lit = FALSE : synthetic content number cid (cid 0 is the empty content) of `size`     *)
(*                   bytes, containing a NUL byte iff nul                                    *)
(*     lit = TRUE  : the literal text `text` (ignore files, symlink targets)                 *)
(* document            [name : Text, c : Int, t : Text]                                      *)
(*     c >= 0 : content number c      c = -1 : the literal text t                            *)
(*     c = -2 / -3 / -4 : not indexed, with the explanation too large / binary / too small   *)
EXTENDS Glob, Text

TooLarge == -2
Binary == -3
TooSmall == -4

CdSize(cd) == IF cd.lit THEN ByteLen(cd.text) ELSE cd.size

\* what a document with this content shows (index.Builder.Add: size limit first, then the
\* "probably not source text" checks; an empty file is an ordinary document)
Eff(cd, sizeMax, largeOK) ==
  LET sz == CdSize(cd) IN
  IF sz > sizeMax /\ ~largeOK THEN [c |-> TooLarge, t |-> <<>>]
  ELSE IF sz = 0 THEN [c |-> 0, t |-> <<>>]
  ELSE IF sz < 3 THEN [c |-> TooSmall, t |-> <<>>]
  ELSE IF ~cd.lit /\ cd.nul THEN [c |-> Binary, t |-> <<>>]
  ELSE IF cd.lit THEN [c |-> -1, t |-> cd.text]
  ELSE [c |-> cd.cid, t |-> <<>>]

Doc(name, e) == [name |-> name, c |-> e.c, t |-> e.t]

RangeOf(s) == {s[i] : i \in 1..Len(s)}
Count(s, x) == Cardinality({i \in 1..Len(s) : s[i] = x})
BagEq(a, b) == Len(a) = Len(b) /\ \A x \in RangeOf(a) \cup RangeOf(b) : Count(a, x) = Count(b, x)
SubBag(a, b) == \A x \in RangeOf(a) : Count(a, x) <= Count(b, x)

-----------------------------------------------------------------------------
(* Directory.  entries : sequence of [path, kind \in {"file","dir","symlink"}, cd];          *)
(* paths are relative to the root, '/'-separated, parents are directories of the tree.       *)
SgDir == <<46, 115, 111, 117, 114, 99, 101, 103, 114, 97, 112, 104>>                 \* .sourcegraph
SgIgnore == SgDir \o <<47, 105, 103, 110, 111, 114, 101>>                             \* .sourcegraph/ignore

EntryAt(entries, p) == IF \E i \in 1..Len(entries) : entries[i].path = p
                       THEN entries[CHOOSE i \in 1..Len(entries) : entries[i].path = p]
                       ELSE [path |-> p, kind |-> "none"]

\* the ignore patterns in force: the root's .sourcegraph/ignore, only when it is a regular
\* file inside a real directory (symlinks are not followed)
DirPatterns(entries) ==
  IF EntryAt(entries, SgDir).kind = "dir" /\ EntryAt(entries, SgIgnore).kind = "file"
  THEN LET cd == EntryAt(entries, SgIgnore).cd IN IF cd.lit THEN ParseIgnore(cd.text) ELSE <<>>
  ELSE <<>>

\* why an entry yields no document, or "doc"
DirFate(entries, pats, ignoreDirs, e) ==
  IF \E a \in Ancestors(e.path) : Base(a) \in ignoreDirs THEN "ignoredir"
  ELSE IF e.kind = "dir" THEN "notfile"
  ELSE IF Ignored(pats, e.path) \/ \E a \in Ancestors(e.path) : Ignored(pats, a) THEN "ignorefile"
  ELSE "doc"

DirFates(entries, ignoreDirs) ==
  LET pats == DirPatterns(entries)
  IN [i \in 1..Len(entries) |-> DirFate(entries, pats, ignoreDirs, entries[i])]

DirDocs(entries, ignoreDirs, sizeMax) ==
  LET f == DirFates(entries, ignoreDirs)
      RECURSIVE G(_, _)
      G(i, acc) == IF i > Len(entries) THEN acc
                   ELSE G(i + 1, IF f[i] = "doc"
                                 THEN Append(acc, Doc(entries[i].path, Eff(entries[i].cd, sizeMax, FALSE)))
                                 ELSE acc)
  IN G(1, <<>>)

-----------------------------------------------------------------------------
(* Archive.  members : sequence of [name, kind \in {"reg","dir","symlink","other"}, cd]      *)
\* remove `count` leading path elements; a name with fewer elements becomes empty
RECURSIVE StripComponents(_, _)
StripComponents(name, count) ==
  IF count = 0 \/ name = <<>> THEN name
  ELSE LET sl == {j \in 1..Len(name) : name[j] = Slash}
       IN IF sl = {} THEN <<>>
          ELSE StripComponents(SubSeq(name, (CHOOSE j \in sl : \A x \in sl : j <= x) + 1, Len(name)), count - 1)

ArchFate(m, strip) == IF m.kind # "reg" THEN "notfile"
                      ELSE IF StripComponents(m.name, strip) = <<>> THEN "stripped"
                      ELSE "doc"

ArchDocs(members, strip, sizeMax) ==
  LET RECURSIVE G(_, _)
      G(i, acc) == IF i > Len(members) THEN acc
                   ELSE G(i + 1, IF ArchFate(members[i], strip) = "doc"
                                 THEN Append(acc, Doc(StripComponents(members[i].name, strip),
                                                      Eff(members[i].cd, sizeMax, FALSE)))
                                 ELSE acc)
  IN G(1, <<>>)

HasRegular(members) == \E i \in 1..Len(members) : members[i].kind = "reg"

-----------------------------------------------------------------------------
(* Outcomes.  The alphabet is {ok(docs), error}: "panic" and "died" are no outcomes.         *)
\* directory: always ok with exactly the expected documents
DirOutcomeOK(out, expected) == out.kind = "ok" /\ BagEq(out.docs, expected)
\* archive: ok with exactly the expected documents; an archive without any regular member
\* may also be refused; a truncated archive may be refused or yield part of the documents
ArchOutcomeOK(out, expected, members, cut) ==
  \/ out.kind = "ok" /\ BagEq(out.docs, expected)
  \/ out.kind = "error" /\ (~HasRegular(members) \/ cut)
  \/ out.kind = "ok" /\ cut /\ SubBag(out.docs, expected)
=============================================================================
