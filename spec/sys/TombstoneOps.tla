--------------------------- MODULE TombstoneOps ---------------------------
(* Pure operators for C17: what a search / a listing over an index directory may show    *)
(* when repositories and file paths are tombstoned, and the sequential meaning of         *)
(* index.SetTombstone / index.UnsetTombstone (index/tombstones.go) on one shard.          *)
(*                                                                                         *)
(* Directory  D    : sequence of shards                                                    *)
(* shard           : [repos |-> sequence of repository entries] (order = order in shard)   *)
(* repository entry: [id, docs, ft, changed]                                               *)
(*     docs    sequence of [name, words]  (content = the words, one per line; words and    *)
(*             names are chosen so that none is a substring of another)                    *)
(*     ft      file names tombstoned for this entry in this shard (sidecar FileTombstones)  *)
(*     changed (kind "delta") paths this build marked changed-or-removed: the builder      *)
(*             must tombstone them in every OLDER shard of the same repository             *)
(* tomb            : sequence (per shard) of the set of tombstoned repository ids          *)
(* context   cx    : [D, kind, tomb]                                                       *)
(*                                                                                         *)
(* Query node: [k, w, s, c]   k in true false sub fname repo ids set and or not trepo      *)
(*     sub   content contains word w        fname  file name is w                          *)
(*     repo / ids / set: repository-level atoms (name regexp / RepoIDs / RepoSet), the     *)
(*             repositories selected are the ids in s                                      *)
(*     trepo type:repo(c[1]) -- only understood by the directory searcher                  *)
EXTENDS Integers, Sequences, FiniteSets, TLC

ToSet(s) == {s[i] : i \in DOMAIN s}

RepoIds(sh) == {sh.repos[r].id : r \in DOMAIN sh.repos}
LiveOf(cx, k) == RepoIds(cx.D[k]) \ cx.tomb[k]
AllLive(cx) == UNION {LiveOf(cx, k) : k \in DOMAIN cx.D}

\* file tombstones in force for entry r of shard k
FTOf(cx, k, r) ==
  ToSet(cx.D[k].repos[r].ft) \cup
  (IF cx.kind = "delta"
   THEN UNION {UNION {IF cx.D[j].repos[x].id = cx.D[k].repos[r].id
                      THEN ToSet(cx.D[j].repos[x].changed) ELSE {} : x \in DOMAIN cx.D[j].repos}
               : j \in (k + 1)..Len(cx.D)}
   ELSE {})

\* documents of shard k a search may show (Appendix A.17)
VisDocs(cx, k) ==
  UNION {IF cx.D[k].repos[r].id \in cx.tomb[k] THEN {}
         ELSE {[id |-> cx.D[k].repos[r].id, name |-> cx.D[k].repos[r].docs[i].name,
                words |-> ToSet(cx.D[k].repos[r].docs[i].words)]
               : i \in {i \in DOMAIN cx.D[k].repos[r].docs :
                          cx.D[k].repos[r].docs[i].name \notin FTOf(cx, k, r)}}
         : r \in DOMAIN cx.D[k].repos}

RepoAtom(q) == q.k \in {"repo", "ids", "set"}

RECURSIVE SetToSeq(_)
SetToSeq(S) == IF S = {} THEN <<>>
               ELSE LET m == CHOOSE x \in S : \A y \in S : x <= y IN <<m>> \o SetToSeq(S \ {m})

\* does document d satisfy q (q without type:repo nodes, see Resolve)
RECURSIVE Match(_, _)
Match(q, d) ==
  CASE q.k = "true"  -> TRUE
    [] q.k = "false" -> FALSE
    [] q.k = "sub"   -> q.w \in d.words
    [] q.k = "fname" -> q.w = d.name
    [] RepoAtom(q)   -> d.id \in ToSet(q.s)
    [] q.k = "and"   -> \A i \in DOMAIN q.c : Match(q.c[i], d)
    [] q.k = "or"    -> \E i \in DOMAIN q.c : Match(q.c[i], d)
    [] q.k = "not"   -> ~Match(q.c[1], d)

\* constant folding against the live repositories (index/eval.go simplify + query.Simplify):
\* "T" every live repository satisfies, "F" none, "U" undecided
FoldSet(S, live) == IF Cardinality(S \cap live) = Cardinality(live) THEN "T"
                    ELSE IF S \cap live # {} THEN "U" ELSE "F"
RECURSIVE Fold(_, _)
Fold(q, live) ==
  CASE q.k = "true"  -> "T"
    [] q.k = "false" -> "F"
    [] q.k \in {"sub", "fname"} -> "U"
    [] RepoAtom(q)   -> FoldSet(ToSet(q.s), live)
    [] q.k = "and"   -> LET fs == {Fold(q.c[i], live) : i \in DOMAIN q.c}
                        IN IF "F" \in fs THEN "F" ELSE IF "U" \in fs THEN "U" ELSE "T"
    [] q.k = "or"    -> LET fs == {Fold(q.c[i], live) : i \in DOMAIN q.c}
                        IN IF "T" \in fs THEN "T" ELSE IF "U" \in fs THEN "U" ELSE "F"
    [] q.k = "not"   -> LET f == Fold(q.c[1], live)
                        IN IF f = "T" THEN "F" ELSE IF f = "F" THEN "T" ELSE "U"

\* files a search over shard k returns (q resolved)
AnswerR(q, k, cx) == {<<d.id, d.name>> : d \in {d \in VisDocs(cx, k) : Match(q, d)}}

\* repositories List(q) over shard k returns (Appendix A.16; q resolved)
ListAnswerR(q, k, cx) ==
  LET f == Fold(q, LiveOf(cx, k))
  IN IF f = "T" THEN LiveOf(cx, k)
     ELSE IF f = "F" THEN {}
     ELSE {d.id : d \in {d \in VisDocs(cx, k) : Match(q, d)}}

\* type:repo(c) is evaluated first by the directory searcher: a List of c over all shards,
\* the node becomes the set of repositories listed (search/eval.go typeRepoSearcher)
RECURSIVE Resolve(_, _)
Resolve(q, cx) ==
  IF q.k = "trepo"
  THEN LET c == Resolve(q.c[1], cx)
       IN [k |-> "set", w |-> "", c |-> <<>>,
           s |-> SetToSeq(UNION {ListAnswerR(c, k, cx) : k \in DOMAIN cx.D})]
  ELSE IF q.k \in {"and", "or", "not"}
  THEN [q EXCEPT !.c = [i \in DOMAIN q.c |-> Resolve(q.c[i], cx)]]
  ELSE q

Answer(q, k, cx)     == AnswerR(Resolve(q, cx), k, cx)
ListAnswer(q, k, cx) == ListAnswerR(Resolve(q, cx), k, cx)
DirAnswer(q, cx) == LET r == Resolve(q, cx) IN UNION {AnswerR(r, k, cx) : k \in DOMAIN cx.D}
DirList(q, cx)   == LET r == Resolve(q, cx) IN UNION {ListAnswerR(r, k, cx) : k \in DOMAIN cx.D}

\* every (id, name) hidden in shard k: of a tombstoned repository or a tombstoned path
AllDocs(cx, k) == UNION {{<<cx.D[k].repos[r].id, cx.D[k].repos[r].docs[i].name>>
                          : i \in DOMAIN cx.D[k].repos[r].docs} : r \in DOMAIN cx.D[k].repos}

-----------------------------------------------------------------------------
\* SetTombstone / UnsetTombstone on one shard: read the metadata in force (sidecar if
\* present, else embedded), change the flag of every entry with this id, write the
\* sidecar through a temporary file + rename.  An unknown id changes no flag.
ApplyOp(t, ids, op, id) ==
  IF op = "set" THEN t \cup ({id} \cap ids)
  ELSE IF op = "unset" THEN t \ {id}
  ELSE t

-----------------------------------------------------------------------------
\* Judging one observation entry e (one searcher, one query, all output channels):
\*   e.at = 0 directory searcher, k > 0 shard searcher of shard k;  e.skip: not asked
\* returns the set of reasons it is not what the specification allows (empty = fine).
IdSet(s) == ToSet(s)
EntryWhys(e, q, cx) ==
  IF e.skip THEN {}
  ELSE
  LET dir   == e.at = 0
      tag   == IF dir THEN ":dir" ELSE ":shard"
      live  == IF dir THEN AllLive(cx) ELSE LiveOf(cx, e.at)
      expF  == IF dir THEN DirAnswer(q, cx) ELSE Answer(q, e.at, cx)
      expL  == IF dir THEN DirList(q, cx) ELSE ListAnswer(q, e.at, cx)
      obsF  == {<<e.files[i].r, e.files[i].f>> : i \in DOMAIN e.files}
      fids  == {e.files[i].r : i \in DOMAIN e.files} \cup {e.files[i].n : i \in DOMAIN e.files}
      known == IF dir THEN UNION {AllDocs(cx, k) : k \in DOMAIN cx.D} ELSE AllDocs(cx, e.at)
      fileLeakRepo == fids \ live # {}
      fileLeakPath == ~fileLeakRepo /\ (obsF \ expF) \cap known # {}
      filesBad == obsF # expF \/ Cardinality(obsF) # Len(e.files)
                  \/ \E i \in DOMAIN e.files : e.files[i].r # e.files[i].n
      chan(name, ids, lower, upper) ==
        IF ids \ upper # {} THEN {"leak:" \o name \o tag}
        ELSE IF ~(lower \subseteq ids) THEN {"answer:" \o name \o tag} ELSE {}
      exact(name, ids) ==
        IF ids \ live # {} THEN {"leak:" \o name \o tag}
        ELSE IF ids # expL THEN {"answer:" \o name \o tag} ELSE {}
  IN (IF fileLeakRepo THEN {"leak:Files" \o tag}
      ELSE IF fileLeakPath THEN {"leak:Files.path" \o tag}
      ELSE IF filesBad THEN {"answer:Files" \o tag} ELSE {})
     \cup chan("RepoURLs", IdSet(e.urls), {x[1] : x \in expF}, live)
     \cup chan("LineFragments", IdSet(e.frags), {x[1] : x \in expF}, live)
     \cup exact("List.Repos", IdSet(e.repos) \cup IdSet(e.rnames))
     \cup exact("List.ReposMap", IdSet(e.rmap))
     \cup (IF (e.n1 # Cardinality(expL) \/ e.n2 # Cardinality(expL)
               \/ Len(e.repos) # Cardinality(IdSet(e.repos)))
              /\ IdSet(e.repos) = expL /\ IdSet(e.rmap) = expL
           THEN {"answer:List.Stats" \o tag} ELSE {})

\* a snapshot is a sequence of entries; queries is the scenario's query list
SnapWhys(snap, queries, cx) == UNION {EntryWhys(snap[i], queries[snap[i].q], cx) : i \in DOMAIN snap}
=============================================================================
