----------------------------- MODULE Cursor -----------------------------
(* C04: search results do not depend on earlier searches.  Model of the per-shard cache of  *)
(* document-level match trees (index/docmatchtreecache.go, newMatchTree case *query.Meta):  *)
(* a cached node holds an immutable predicate; every search iterates with a cursor          *)
(* (firstDone, docID).  With SharedCursor = TRUE the cursor lives in the cached node (the    *)
(* defect C04-F1: a second search starts where the first one stopped); with FALSE each       *)
(* search gets its own cursor (the repaired code).                                           *)
EXTENDS Integers, Sequences, FiniteSets, TLC, Json

CONSTANTS NDocs,        \* documents 1..NDocs
          Keys,         \* query keys (Meta atoms)
          Pred,         \* function Keys -> SUBSET 1..NDocs : documents satisfying the atom
          CacheSize,    \* 0 = cache disabled
          MaxDepth,
          SharedCursor, \* BOOLEAN
          Emit

\* the abstract corpus used for model checking and script generation (the driver's corpus has
\* the same shape: three metadata atoms over a compound shard of three repositories)
KeysDef == {"k1", "k2", "k3"}
PredDef == [k1 |-> {1, 3}, k2 |-> {2, 3, 4}, k3 |-> {}]

VARIABLES cache,   \* function: cached key -> cursor [firstDone, docID]
          last,    \* result of the last search: [key, files]
          hist

vars == <<cache, last, hist>>

Init == cache = <<>> /\ last = [key |-> "none", files |-> {}] /\ hist = <<>>

Fresh == [firstDone |-> FALSE, docID |-> 0]

\* iterate nextDoc/prepare from a cursor: documents visited
RECURSIVE Iterate(_, _, _)
Iterate(k, cur, acc) ==
  LET start == IF cur.firstDone THEN cur.docID + 1 ELSE 1
      cand == {d \in start..NDocs : d \in Pred[k]}
  IN IF cand = {} THEN [files |-> acc, cur |-> cur]
     ELSE LET d == CHOOSE x \in cand : \A y \in cand : x <= y
          IN Iterate(k, [firstDone |-> TRUE, docID |-> d], acc \cup {d})

Evict(c) == IF Cardinality(DOMAIN c) > CacheSize
            THEN {[x \in (DOMAIN c) \ {v} |-> c[x]] : v \in DOMAIN c}   \* random eviction
            ELSE {c}

Search(k) ==
  LET hit == k \in DOMAIN cache
      cur0 == IF hit /\ SharedCursor THEN cache[k] ELSE Fresh
      r == Iterate(k, cur0, {})
      stored == IF SharedCursor THEN r.cur ELSE Fresh
      c1 == IF hit THEN [cache EXCEPT ![k] = stored]
            ELSE IF CacheSize = 0 THEN cache
            ELSE (k :> stored) @@ cache
  IN /\ cache' \in Evict(c1)
     /\ last' = [key |-> k, files |-> r.files]
     /\ hist' = Append(hist, k)
     /\ (Emit => PrintT(<<"SCRIPT", ToJson([cache |-> CacheSize, keys |-> hist'])>>))

Next == Len(hist) < MaxDepth /\ \E k \in Keys : Search(k)
Spec == Init /\ [][Next]_vars

view == <<cache, last>>

\* what a search returns does not depend on history
HistoryIndependent == last.key \in Keys => last.files = Pred[last.key]
=============================================================================
