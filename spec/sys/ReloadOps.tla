--------------------------- MODULE ReloadOps ---------------------------
(* C19.  Pure operators: shard reloading of the directory searcher                        *)
(*   search/watcher.go  DirectoryWatcher.scan, versionFromPath (newest format selection)   *)
(*   search/shards.go   loader.load / loader.drop, shardedSearcher.replace / getLoaded,    *)
(*                      streamSearch (snapshot, KeepAlive), finalizer of a replaced shard   *)
(*   index/read.go      sidecar <shard>.meta overrides the repository metadata at load      *)
(*                                                                                         *)
(* A file is <<repo, fmt>>: the shard  <repo>_v<fmt>.00000.zoekt  (fmt = index format       *)
(* version in the NAME; the watcher looks at nothing else).                                *)
(* st = [disk, clk, nver, seen, shards, ranked, scan, srch, closed, fin, nload, dirty]     *)
(*   disk   : file -> [ver, mt, side, smt]   ver = 0: absent; mt = mtime of the shard file;*)
(*            side in {"none","tomb","live"} = no .meta / .meta with Tombstone / without;  *)
(*            smt = mtime of the .meta                                                     *)
(*   seen   : file -> stamp       DirectoryWatcher.timestamps (NoStamp = not tracked)      *)
(*   shards : file -> instance    shardedSearcher.shards (id = 0: none)                    *)
(*   ranked : set of instances    shardedSearcher.ranked, the immutable slice searches load *)
(*   scan   : the (single) scanning goroutine                                              *)
(*   srch   : process -> [pc, snap, todo, held, got]                                       *)
(*   fin    : instances with a finalizer (replaced), closed : instances unmapped           *)
EXTENDS Integers, FiniteSets, Sequences, TLC

Absent == [ver |-> 0, mt |-> 0, side |-> "none", smt |-> 0]
NoStamp == <<0, 0>>
NoInst == [r |-> "", f |-> 0, ver |-> 0, side |-> "none", smt |-> 0, id |-> 0]
DirtyStamp == <<-1, 0>>     \* proposed patch: "reload at the next scan", still tracked
IdleScan == [pc |-> "idle", toDrop |-> {}, toLoad |-> {}, dropped |-> {}, pend |-> {}, did |-> {}, touched |-> {}]
IdleSrch == [pc |-> "idle", snap |-> {}, todo |-> {}, held |-> {}, got |-> {}]

FilesOf(st) == DOMAIN st.disk
Present(disk, f) == disk[f].ver # 0
MaxOf(S) == IF S = {} THEN 0 ELSE CHOOSE x \in S : \A y \in S : y <= x

\* watcher.go scan, first loop: names with a version above both format constants are skipped,
\* per repository name the highest remaining version wins
Latest(disk, maxFmt, r) == MaxOf({f[2] : f \in {g \in DOMAIN disk : g[1] = r /\ Present(disk, g) /\ g[2] <= maxFmt}})
Newest(disk, maxFmt) == {f \in DOMAIN disk : Present(disk, f) /\ f[2] <= maxFmt /\ f[2] = Latest(disk, maxFmt, f[1])}

\* the change detector.  code: one time per file = the later of shard and sidecar mtime.
\* fix = TRUE (proposed patch): the pair of both mtimes.
Stamp(d, fix) == IF fix THEN <<d.mt, IF d.side # "none" THEN d.smt ELSE 0>>
                 ELSE <<IF d.side # "none" /\ d.smt > d.mt THEN d.smt ELSE d.mt, 0>>

\* what loading a file yields: content version + the sidecar applied (index/read.go parseMetadata)
SideView(d) == [side |-> d.side, smt |-> IF d.side = "none" THEN 0 ELSE d.smt]
ViewOfDisk(d) == [ver |-> d.ver] @@ SideView(d)
ViewOfInst(i) == [ver |-> i.ver, side |-> i.side, smt |-> i.smt]
MkInst(f, d, id) == [r |-> f[1], f |-> f[2], ver |-> d.ver, side |-> d.side,
                     smt |-> IF d.side = "none" THEN 0 ELSE d.smt, id |-> id]
FileOfInst(i) == <<i.r, i.f>>

Loaded(st) == {f \in FilesOf(st) : st.shards[f].id # 0}
LoadedView(st) == [f \in Loaded(st) |-> ViewOfInst(st.shards[f])]
Expected(st, maxFmt) == [f \in Newest(st.disk, maxFmt) |-> ViewOfDisk(st.disk[f])]

InitSt(files, repos, procs) ==
  [disk |-> [f \in files |-> Absent], clk |-> 0, nver |-> [r \in repos |-> 0],
   seen |-> [f \in files |-> NoStamp], shards |-> [f \in files |-> NoInst], ranked |-> {},
   scan |-> IdleScan, srch |-> [p \in procs |-> IdleSrch], closed |-> {}, fin |-> {},
   nload |-> 0, dirty |-> FALSE]

-----------------------------------------------------------------------------
\* directory changes (the environment).  Every change gets a fresh, later mtime (clk).
Tick(st) == [st EXCEPT !.clk = @ + 1, !.dirty = TRUE]
\* files changed while a scan is running (only to state the residual of the proposed patch)
Touch(st, f) == IF st.scan.pc = "idle" THEN st ELSE [st EXCEPT !.scan = [@ EXCEPT !.touched = @ \cup {f}]]

\* create / replace by rename: the sidecar of the file stays (the builder removes a stale .meta
\* only after the rename, as a separate step)
DiskWrite(st, f) ==
  LET s == Touch(Tick(st), f) IN
  [s EXCEPT !.nver[f[1]] = @ + 1,
            !.disk[f] = [@ EXCEPT !.ver = st.nver[f[1]] + 1, !.mt = s.clk]]
DiskDelete(st, f) == [Touch(Tick(st), f) EXCEPT !.disk[f] = Absent]
DiskSidecar(st, f, side) ==
  LET s == Touch(Tick(st), f) IN
  [s EXCEPT !.disk[f] = [@ EXCEPT !.side = side, !.smt = IF side = "none" THEN 0 ELSE s.clk]]

-----------------------------------------------------------------------------
\* shardedSearcher.replace: one critical section (mu); new map entries, finalizer on every
\* replaced instance, then ONE atomic store of the new ranked slice.  m : file -> instance.
Replace(st, m) ==
  IF DOMAIN m = {} THEN st ELSE
  LET sh == [f \in FilesOf(st) |-> IF f \in DOMAIN m THEN m[f] ELSE st.shards[f]]
      old == {st.shards[f] : f \in DOMAIN m} \ {NoInst}
  IN [st EXCEPT !.shards = sh, !.fin = @ \cup old,
                !.ranked = {sh[f] : f \in FilesOf(st)} \ {NoInst}]

\* scan(): glob + stat + plan, timestamps updated before anything is loaded
ScanBegin(st, maxFmt, fix) ==
  LET nw == Newest(st.disk, maxFmt)
      ts == [f \in FilesOf(st) |-> IF f \in nw THEN Stamp(st.disk[f], fix) ELSE NoStamp]
      toLoad == {f \in nw : st.seen[f] # ts[f]}
      toDrop == {f \in FilesOf(st) : st.seen[f] # NoStamp /\ f \notin nw}
  IN [st EXCEPT !.seen = ts, !.dirty = FALSE,
                !.scan = [pc |-> "drop", toDrop |-> toDrop, toLoad |-> toLoad, dropped |-> {}, pend |-> {}, did |-> toLoad, touched |-> {}]]

\* loader.drop: one replace with nil for every dropped key -- BEFORE anything is loaded
ScanDrop(st) ==
  LET s == Replace(st, [f \in st.scan.toDrop |-> NoInst])
  IN [s EXCEPT !.scan = [@ EXCEPT !.pc = "load", !.dropped = st.scan.toDrop, !.toDrop = {}]]

\* proposed patch for the drop-before-load gap (fixGap): a dropped file whose repository is also
\* loaded by this scan ("coupled") is dropped in the same replace call that publishes the load
Coupled(st) == {f \in st.scan.toDrop : \E g \in st.scan.toLoad \cup {<<i.r, i.f>> : i \in st.scan.pend} : g[1] = f[1]}
ScanDropG(st) ==
  LET pure == st.scan.toDrop \ Coupled(st)
      s == Replace(st, [f \in pure |-> NoInst])
  IN [s EXCEPT !.scan = [@ EXCEPT !.pc = "load", !.dropped = pure, !.toDrop = @ \ pure]]
\* the driver's view of the patched scanner: nothing happens before the single reload call
ScanDropNoop(st) == [st EXCEPT !.scan = [@ EXCEPT !.pc = "load"]]

\* loadShard(f): opens whatever is there now; a vanished file is an error that is only logged
ScanLoad(st, f) ==
  LET sc == [st.scan EXCEPT !.toLoad = @ \ {f}] IN
  IF Present(st.disk, f)
  THEN [st EXCEPT !.nload = @ + 1, !.scan = [sc EXCEPT !.pend = @ \cup {MkInst(f, st.disk[f], st.nload + 1)}]]
  ELSE [st EXCEPT !.scan = sc]

\* publishLoaded: replace with everything loaded so far
Publish(st) ==
  LET s == Replace(st, [f \in {FileOfInst(i) : i \in st.scan.pend} |->
                          CHOOSE i \in st.scan.pend : FileOfInst(i) = f])
  IN [s EXCEPT !.scan = [@ EXCEPT !.pend = {}]]
\* proposed patch (fix): stat every loaded file again; a stamp that moved while loading is forgotten
Restat(st, fix) ==
  IF ~fix THEN st
  ELSE [st EXCEPT !.seen = [f \in FilesOf(st) |->
          IF f \in st.scan.did /\ (~Present(st.disk, f) \/ Stamp(st.disk[f], fix) # st.seen[f])
          THEN DirtyStamp ELSE st.seen[f]]]
ScanEnd(st, fix) == [Restat(Publish(st), fix) EXCEPT !.scan = IdleScan]
PublishG(st, final) ==
  LET now == IF final THEN st.scan.toDrop ELSE {f \in st.scan.toDrop : \E i \in st.scan.pend : i.r = f[1]}
      s == Replace(st, [f \in {FileOfInst(i) : i \in st.scan.pend} \cup now |->
                          IF f \in now THEN NoInst ELSE CHOOSE i \in st.scan.pend : FileOfInst(i) = f])
  IN [s EXCEPT !.scan = [@ EXCEPT !.pend = {}, !.toDrop = @ \ now]]
ScanEndG(st, fix) == [Restat(PublishG(st, TRUE), fix) EXCEPT !.scan = IdleScan]

RECURSIVE LoadAll(_)
LoadAll(st) == IF st.scan.toLoad = {} THEN st
               ELSE LoadAll(ScanLoad(st, CHOOSE f \in st.scan.toLoad : TRUE))

-----------------------------------------------------------------------------
\* a search: getLoaded = one atomic load of ranked; the slice stays referenced until done()
\* (runtime.KeepAlive(shards)); results point into the mappings until copyFiles, before done().
Snapshot(st, p) == [st EXCEPT !.srch[p] = [pc |-> "run", snap |-> st.ranked, todo |-> st.ranked, held |-> {}, got |-> {}]]
ReadShard(st, p, i) == [st EXCEPT !.srch[p] = [@ EXCEPT !.todo = @ \ {i}, !.held = @ \cup {i}, !.got = @ \cup {i}]]
\* streamSearch has returned: every shard was read, the results still point into the mappings,
\* only the done closure (KeepAlive) references the slice
ReadAll(st, p) == [st EXCEPT !.srch[p] = [@ EXCEPT !.todo = {}, !.held = @ \cup st.srch[p].todo, !.got = @ \cup st.srch[p].todo]]
SearchDone(st, p) == [st EXCEPT !.srch[p] = [@ EXCEPT !.pc = "done", !.snap = {}, !.todo = {}, !.held = {}]]
SearchAll(st, p) == [st EXCEPT !.srch[p] = [@ EXCEPT !.pc = "done", !.got = st.srch[p].snap, !.snap = {}, !.todo = {}, !.held = {}]]

\* what the garbage collector can still reach from a search.  keepAlive = FALSE is the model
\* mutant "done() does not keep the slice alive": only the shards not yet handed out are referenced.
Reach(st, p, keepAlive) == IF keepAlive THEN st.srch[p].snap ELSE st.srch[p].todo
Reachable(st, keepAlive) == st.ranked \cup st.scan.pend \cup UNION {Reach(st, p, keepAlive) : p \in DOMAIN st.srch}
Closable(st, keepAlive) == (st.fin \ st.closed) \ Reachable(st, keepAlive)
Finalize(st, i) == [st EXCEPT !.closed = @ \cup {i}]
GCAll(st, keepAlive) == [st EXCEPT !.closed = @ \cup Closable(st, keepAlive)]
\* the mappings a running search may still read
InUse(st) == UNION {st.srch[p].todo \cup st.srch[p].held : p \in DOMAIN st.srch}

-----------------------------------------------------------------------------
\* properties
ReposOf(S) == {i.r : i \in S}
OnePerRepo(S) == \A i, j \in S : i.r = j.r => i = j
ReadsOnlySnapshot(st) == \A p \in DOMAIN st.srch : st.srch[p].pc = "run" => st.srch[p].got \subseteq st.srch[p].snap
NoReadAfterClose(st) == InUse(st) \cap st.closed = {}
OneVersionPerRepo(st) == OnePerRepo(st.ranked) /\ \A p \in DOMAIN st.srch : OnePerRepo(st.srch[p].snap)
RankedIsShards(st) == st.ranked = {st.shards[f] : f \in FilesOf(st)} \ {NoInst}
ClosedWereReplaced(st) == st.closed \subseteq st.fin /\ st.closed \cap st.ranked = {}

\* a sidecar change the code's change detector cannot see: same content version loaded, sidecar
\* differs, stamp unchanged (the .meta was not newer than the shard when it was removed)
StaleSidecar(st, f, fix) ==
  /\ st.shards[f].id # 0 /\ Present(st.disk, f)
  /\ st.shards[f].ver = st.disk[f].ver
  /\ ViewOfInst(st.shards[f]) # ViewOfDisk(st.disk[f])
  /\ Stamp(st.disk[f], fix) = st.seen[f]
Quiet(st) == st.scan.pc = "idle" /\ ~st.dirty
ConvergedStrict(st, maxFmt) == Quiet(st) => LoadedView(st) = Expected(st, maxFmt)
Converged(st, maxFmt, fix) ==
  Quiet(st) => /\ Loaded(st) = Newest(st.disk, maxFmt)
               /\ \A f \in Loaded(st) : \/ ViewOfInst(st.shards[f]) = ViewOfDisk(st.disk[f])
                                        \/ StaleSidecar(st, f, fix)

\* drop-before-load: a repository whose files are both dropped and loaded by one scan (format
\* upgrade / downgrade) is in no shard list between the two replace calls
GapRepos(st) == {r \in {f[1] : f \in st.scan.dropped} :
                   /\ st.scan.pc = "load"
                   /\ \E g \in st.scan.toLoad \cup {FileOfInst(i) : i \in st.scan.pend} : g[1] = r
                   /\ r \notin ReposOf(st.ranked)}
NoUpgradeGap(st) == GapRepos(st) = {}
=============================================================================
