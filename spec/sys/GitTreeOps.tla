--------------------------- MODULE GitTreeOps ---------------------------
(* C14.  Pure operators: the documents that indexing a Git repository at a list of branches  *)
(* must produce (gitindex.IndexGitRepo), and the sequential meaning of the streaming          *)
(* `git cat-file --batch` reader (gitindex/catfile.go).                                       *)
(*                                                                                            *)
(* A blob is identified by its content: content descriptors `cd` as in DirArchiveOps          *)
(* (synthetic content number, or literal text for ignore files and symlink targets).          *)
(* tree   : sequence of entries [path, mode \in {"regular","exec","symlink","submodule"}, cd] *)
(* repo   : sequence of [branch, entries]  -- the indexed branches in indexing order           *)
(* doc    : [name, c, t, branches (set of branch names)]                                      *)
EXTENDS DirArchiveOps

BlobModes == {"regular", "exec", "symlink"}

EntryAtTree(entries) ==
  IF \E i \in 1..Len(entries) : entries[i].path = SgIgnore
  THEN entries[CHOOSE i \in 1..Len(entries) : entries[i].path = SgIgnore]
  ELSE [path |-> SgIgnore, mode |-> "none"]

\* the ignore patterns of a branch: its own .sourcegraph/ignore blob
TreePatterns(entries) ==
  LET e == EntryAtTree(entries) IN IF e.mode \in {"regular", "exec"} /\ e.cd.lit THEN ParseIgnore(e.cd.text) ELSE <<>>
\* (path, content) is visible on a branch: a blob entry that the branch's ignore file keeps
Visible(entries, pats, path, cd) ==
  \E i \in 1..Len(entries) : /\ entries[i].path = path /\ entries[i].cd = cd
                             /\ entries[i].mode \in BlobModes
                             /\ ~Ignored(pats, path)

\* a large file is still indexed when a LargeFiles pattern names it
LargeOK(large, path) == \E i \in 1..Len(large) : GlobMatch(ParsePattern(large[i]), path)

GitDocs(repo, sizeMax, large) ==
  LET pats == [b \in 1..Len(repo) |-> TreePatterns(repo[b].entries)]
      keys == UNION {{<<repo[b].entries[i].path, repo[b].entries[i].cd>> :
                        i \in {j \in 1..Len(repo[b].entries) :
                                 Visible(repo[b].entries, pats[b], repo[b].entries[j].path, repo[b].entries[j].cd)}}
                     : b \in 1..Len(repo)}
      doc(k) == LET e == Eff(k[2], sizeMax, LargeOK(large, k[1]))
                IN [name |-> k[1], c |-> e.c, t |-> e.t,
                    branches |-> {repo[b].branch : b \in {x \in 1..Len(repo) : Visible(repo[x].entries, pats[x], k[1], k[2])}}]
  IN {doc(k) : k \in keys}

\* why an entry of a branch yields no document on that branch, or "doc"
GitFate(entries, pats, e) == IF e.mode \notin BlobModes THEN "submodule"
                             ELSE IF Ignored(pats, e.path) THEN "ignorefile" ELSE "doc"
GitFates(repo) == [b \in 1..Len(repo) |->
                     LET pats == TreePatterns(repo[b].entries)
                     IN [i \in 1..Len(repo[b].entries) |-> GitFate(repo[b].entries, pats, repo[b].entries[i])]]

\* observed documents (a sequence, branches as a sequence) against the expected set: every
\* expected document exactly once, nothing else ((path, content) pairs are distinct documents
\* even when they show the same skip explanation)
ObsDoc(d) == [name |-> d.name, c |-> d.c, t |-> d.t, branches |-> {d.branches[i] : i \in 1..Len(d.branches)}]
GitDocsMatch(obs, expected) ==
  LET o == [i \in 1..Len(obs) |-> ObsDoc(obs[i])]
      \* expected documents may coincide after Eff (two too-large versions of a path on the same
      \* branches cannot: a branch has one version of a path), so a set is a faithful bag
  IN /\ Len(o) = Cardinality(expected)
     /\ {o[i] : i \in 1..Len(o)} = expected

-----------------------------------------------------------------------------
(* Streaming reader.  ids : sequence of [missing : BOOLEAN, size : Nat]; state [idx, rem]:   *)
(* idx entries have been announced by Next, rem content bytes of the current one are unread. *)
CatInit == [idx |-> 0, rem |-> 0, off |-> 0]
CatNext(ids, st) ==
  IF st.idx = Len(ids) THEN [st |-> st, reply |-> [kind |-> "eof", size |-> 0]]
  ELSE LET e == ids[st.idx + 1] IN
       IF e.missing THEN [st |-> [idx |-> st.idx + 1, rem |-> 0, off |-> 0], reply |-> [kind |-> "missing", size |-> 0]]
       ELSE [st |-> [idx |-> st.idx + 1, rem |-> e.size, off |-> 0], reply |-> [kind |-> "blob", size |-> e.size]]
\* io.ReadFull(reader, buffer of k bytes), k >= 1
CatRead(ids, st, k) ==
  LET n == IF k <= st.rem THEN k ELSE st.rem
  IN [st |-> [idx |-> st.idx, rem |-> st.rem - n, off |-> st.off + n],
      reply |-> [n |-> n, from |-> st.off,
                 err |-> IF n = k THEN "" ELSE IF n = 0 THEN "EOF" ELSE "unexpected EOF"]]
=============================================================================
