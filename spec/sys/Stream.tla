----------------------------- MODULE Stream -----------------------------
(* C25: state machine of the streaming sender pipeline exactly as StreamSearch composes   *)
(* it:  producer -> samplingSender -> gRPCChunkSender(chunk.SendAll) -> client, then      *)
(* sampler.Flush().  All calls are synchronous (one goroutine), so one producer event is  *)
(* followed by the nested send before the next event.  Used for model checking and for    *)
(* generating producer-event scripts (one per explored Produce transition).               *)
EXTENDS StreamOps, Json

CONSTANTS SampleEvery,  \* the sampler forwards on every SampleEvery-th stats-only event (code: 100)
          Budget,       \* chunker budget in size units (code: 1 MiB)
          Sizes,        \* file size classes in units, e.g. {1, 2, 4} with Budget = 4
          MaxFiles,     \* files per event
          MaxEvents,    \* producer events per behaviour
          StatKinds,    \* subset of {"z","c","r","d","a"}
          Emit

\* three-field stand-in for zoekt.Stats: one counter and the two non-additive fields
nm == <<"MatchCount", "Duration", "FlushReason">>
KindStats(k) == CASE k = "z" -> <<0, 0, 0>>     \* zero
                  [] k = "c" -> <<1, 0, 0>>     \* counters only
                  [] k = "r" -> <<0, 0, 1>>     \* only a flush reason: Zero() is TRUE
                  [] k = "d" -> <<0, 1, 0>>     \* only a duration: Zero() is TRUE
                  [] k = "a" -> <<1, 1, 1>>

VARIABLES sm,        \* samplingSender: [agg, cnt]
          pc,        \* "idle" | "chunk" (a result is inside gRPCChunkSender) | "done"
          pend,      \* results handed to gRPCChunkSender, not yet sent (0 or 1)
          final,     \* Flush() has been called
          out,       \* delivered messages
          produced,  \* producer events (results) so far
          hist       \* the same as script: <<[files |-> <<sizes>>, k |-> kind]>>
vars == <<sm, pc, pend, final, out, produced, hist>>

FileSeqs == UNION {[1..n -> Sizes] : n \in 1..MaxFiles}

Init == /\ sm = SamplerInit(nm) /\ pc = "idle" /\ pend = <<>> /\ final = FALSE
        /\ out = <<>> /\ produced = <<>> /\ hist = <<>>

NextId == Len(MsgFileIds(produced)) + 1

\* producer sends ev to the sampler (which may hand a result to the chunk sender)
Produce(sz, k) ==
  /\ pc = "idle" /\ ~final /\ Len(produced) < MaxEvents
  /\ LET ev == Result([i \in 1..Len(sz) |-> <<NextId + i - 1, sz[i]>>], KindStats(k))
         r  == SamplerSend(sm, ev, SampleEvery, nm)
     IN /\ sm' = r.sm
        /\ pend' = r.fwd
        /\ pc' = IF Len(r.fwd) = 0 THEN "idle" ELSE "chunk"
        /\ produced' = Append(produced, ev)
  /\ hist' = Append(hist, [files |-> sz, k |-> k])
  /\ UNCHANGED <<out, final>>
  /\ (Emit => PrintT(<<"SCRIPT", ToJson([events |-> hist'])>>))

ProduceStatsOnly == \E k \in StatKinds : Produce(<<>>, k)
ProduceFiles     == \E sz \in FileSeqs, k \in StatKinds : Produce(sz, k)

\* gRPCChunkSender + chunk.SendAll deliver the pending result
ChunkSendStep ==
  /\ pc = "chunk"
  /\ out' = out \o ChunkSend(pend[1], Budget, nm)
  /\ pend' = <<>>
  /\ pc' = IF final THEN "done" ELSE "idle"
  /\ UNCHANGED <<sm, final, produced, hist>>

\* StreamSearch returned without error: sampler.Flush()
FinalFlush ==
  /\ pc = "idle" /\ ~final
  /\ final' = TRUE
  /\ pend' = SamplerFlush(sm, nm)
  /\ pc' = IF Len(pend') = 0 THEN "done" ELSE "chunk"
  /\ UNCHANGED <<sm, out, produced, hist>>

Next == ProduceStatsOnly \/ ProduceFiles \/ ChunkSendStep \/ FinalFlush
Spec == Init /\ [][Next]_vars

-----------------------------------------------------------------------------
ProducedSum == SumStats(produced, nm)
DeliveredSum == SumStats(out, nm)
PendSum == SumStats(pend, nm)

\* every produced file is delivered exactly once, in the order produced (files are never
\* held back by the sampler: between events everything produced has been delivered)
FilesOK == MsgFileIds(out) \o MsgFileIds(pend) = MsgFileIds(produced)
FilesOnceInOrder == FilesOK

\* counters are neither lost nor duplicated on the way ...
StatsAccounted == \A i \in CounterIdx(nm) :
   ProducedSum[i] = DeliveredSum[i] + PendSum[i] + (IF final THEN 0 ELSE sm.agg[i])
\* ... and after the final flush the client has received all of them
StatsConserved == pc = "done" => \A i \in CounterIdx(nm) : ProducedSum[i] = DeliveredSum[i]

BudgetOK == \A k \in DOMAIN out : MsgWithinBudget(out[k], Budget)
WithinBudget == BudgetOK

StatsFirstOK == \A k \in DOMAIN out : ~out[k].hs => out[k].stats = ZeroStats(nm)
StatsOnFirstChunkOnly == StatsFirstOK

\* the client never sees a file before... no reordering across messages is implied by
\* FilesOnceInOrder.  Sanity of the bounded model:
TypeOK == /\ pc \in {"idle", "chunk", "done"} /\ Len(pend) <= 1
          /\ (pc = "chunk") = (Len(pend) = 1)
          /\ sm.cnt \in 0..(SampleEvery - 1)

\* histories only matter through these summaries (the invariants are functions of the view)
view == <<pc, sm, final, Len(produced),
          [k \in DOMAIN pend |-> [sizes |-> [i \in DOMAIN pend[k].files |-> pend[k].files[i][2]],
                                  stats |-> pend[k].stats]],
          [i \in DOMAIN nm |-> ProducedSum[i] - DeliveredSum[i]],
          FilesOK, BudgetOK, StatsFirstOK>>
=============================================================================
