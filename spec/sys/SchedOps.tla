---------------------------- MODULE SchedOps ----------------------------
(* Pure operators for C20: the steps of multiScheduler.Acquire, process.Yield and           *)
(* process.Release (search/sched.go) on top of golang.org/x/sync/semaphore.Weighted        *)
(* (weight 1 everywhere), over a state record                                               *)
(*   s = [cap, cur, q, pc, held, timer, cancelled, granted, ret]                            *)
(*   cap.I / cap.B   capacities of semInteractive / semBatch                                *)
(*   cur.I / cur.B   tokens handed out (Weighted.cur)                                       *)
(*   q.I / q.B       waiter queues (sequences of processes, front first)                    *)
(*   pc[p]  "new"   Acquire not called yet                                                  *)
(*          "a0"    in Acquire, about to semInteractive.Acquire(ctx)                        *)
(*          "aw"    parked in semInteractive's queue                                        *)
(*          "idle"  owns a *process, no call in progress                                    *)
(*          "y0"    in Yield: looks at the time slice                                       *)
(*          "y1"    in yieldFunc: releases what it holds (interactive)                      *)
(*          "y2"    in yieldFunc: about to semBatch.Acquire(ctx)                            *)
(*          "yw"    parked in semBatch's queue                                              *)
(*          "r0"    in Release                                                              *)
(*          "done"  Release returned        "dead"  Acquire returned an error               *)
(*   held[p]    the closure variable sem: "none" | "I" | "B"                                *)
(*   timer[p]   "run" slice not used up | "exp" used up | "nil" yieldTimer = nil (yielded)  *)
(*   cancelled[p]  p's context is done                                                      *)
(*   granted[p]    a Release handed p a token (closed its ready channel); p has not run yet *)
(*   ret[p]        result of p's last finished call: "none" | "ok" | "err" | "void"         *)
(*                                                                                         *)
(* fifo = TRUE : notifyWaiters serves the front of the queue (the implementation).          *)
(* fifo = FALSE: any waiter may be served (all the property needs).  Used for verdicts.     *)
EXTENDS Integers, Sequences, FiniteSets, TLC

Sems == {"I", "B"}
Waiting == {"aw", "yw"}
SemOf(pc) == IF pc \in {"a0", "aw"} THEN "I" ELSE "B"

InitSt(N, capI, capB) ==
  [cap |-> [I |-> capI, B |-> capB], cur |-> [I |-> 0, B |-> 0], q |-> [I |-> <<>>, B |-> <<>>],
   pc |-> [p \in 1..N |-> "new"], held |-> [p \in 1..N |-> "none"], timer |-> [p \in 1..N |-> "run"],
   cancelled |-> [p \in 1..N |-> FALSE], granted |-> [p \in 1..N |-> FALSE],
   ret |-> [p \in 1..N |-> "none"]]

Procs(s) == DOMAIN s.pc
Remove(seq, x) == SelectSeq(seq, LAMBDA y : y # x)
ToSet(seq) == {seq[i] : i \in DOMAIN seq}

\* Weighted.notifyWaiters: hand free tokens to waiters.  Set of resulting states.
RECURSIVE Notify(_, _, _)
Notify(s, m, fifo) ==
  IF s.q[m] = <<>> \/ s.cur[m] >= s.cap[m] THEN {s}
  ELSE LET cands == IF fifo THEN {Head(s.q[m])} ELSE ToSet(s.q[m])
       IN UNION {Notify([s EXCEPT !.cur[m] = @ + 1, !.q[m] = Remove(@, w), !.granted[w] = TRUE], m, fifo)
                 : w \in cands}

\* Weighted.Release(1)
Rel(s, m, fifo) == Notify([s EXCEPT !.cur[m] = @ - 1], m, fifo)

\* the call of p returns
Return(s, p, pc, ret) == [s EXCEPT !.pc[p] = pc, !.ret[p] = ret]

\* sema.Acquire(ctx) entered by p (pc a0 / y2) on semaphore m
Enter(s, p, m) ==
  IF s.cancelled[p]                  \* "ctx becoming done has happened before": fail even if free
  THEN Return(s, p, IF m = "I" THEN "dead" ELSE "idle", "err")
  ELSE IF s.cur[m] < s.cap[m] /\ s.q[m] = <<>>
  THEN IF m = "I"
       THEN Return([s EXCEPT !.cur[m] = @ + 1, !.held[p] = "I", !.timer[p] = "run"], p, "idle", "ok")
       ELSE Return([s EXCEPT !.cur[m] = @ + 1, !.held[p] = "B", !.timer[p] = "nil"], p, "idle", "ok")
  ELSE [s EXCEPT !.q[m] = Append(@, p), !.pc[p] = IF m = "I" THEN "aw" ELSE "yw"]

\* a parked waiter runs again: its context is done and/or it was handed a token
Wake(s, p, m, fifo) ==
  IF s.cancelled[p]
  THEN LET back == IF m = "I" THEN "dead" ELSE "idle" IN
       IF s.granted[p]               \* got the token after/while being cancelled: puts it back
       THEN {Return(t, p, back, "err") : t \in Rel([s EXCEPT !.granted[p] = FALSE], m, fifo)}
       ELSE {Return(t, p, back, "err") : t \in Notify([s EXCEPT !.q[m] = Remove(@, p)], m, fifo)}
  ELSE IF s.granted[p]
  THEN IF m = "I"
       THEN {Return([s EXCEPT !.granted[p] = FALSE, !.held[p] = "I", !.timer[p] = "run"], p, "idle", "ok")}
       ELSE {Return([s EXCEPT !.granted[p] = FALSE, !.held[p] = "B", !.timer[p] = "nil"], p, "idle", "ok")}
  ELSE {}

\* the internal steps process p can take (set of successor states; {} = blocked / nothing to do)
StepP(s, p, fifo) ==
  LET pc == s.pc[p] IN
  CASE pc = "a0" -> {Enter(s, p, "I")}
    [] pc = "aw" -> Wake(s, p, "I", fifo)
    [] pc = "y0" -> IF s.timer[p] = "exp" THEN {[s EXCEPT !.pc[p] = "y1"]}
                    ELSE {Return(s, p, "idle", "ok")}        \* already yielded, or slice not used up
    [] pc = "y1" -> IF s.held[p] = "none" THEN {[s EXCEPT !.pc[p] = "y2"]}
                    ELSE {[t EXCEPT !.pc[p] = "y2"] : t \in Rel([s EXCEPT !.held[p] = "none"], s.held[p], fifo)}
    [] pc = "y2" -> {Enter(s, p, "B")}
    [] pc = "yw" -> Wake(s, p, "B", fifo)
    [] pc = "r0" -> IF s.held[p] = "none" THEN {Return(s, p, "done", "void")}
                    ELSE {Return(t, p, "done", "void") : t \in Rel([s EXCEPT !.held[p] = "none"], s.held[p], fifo)}
    [] OTHER -> {}

Succs(s, fifo) == UNION {StepP(s, p, fifo) : p \in Procs(s)}
Quiescent(s, fifo) == Succs(s, fifo) = {}

\* the environment's commands: c in {"acq", "yield", "yieldx", "release", "cancel"}
\* yieldx = the time slice is used up (the timer fired), then Yield
Can(s, c, p) ==
  CASE c = "acq"     -> s.pc[p] = "new"
    [] c = "yield"   -> s.pc[p] = "idle"
    [] c = "yieldx"  -> s.pc[p] = "idle"
    [] c = "release" -> s.pc[p] = "idle"
    [] c = "cancel"  -> ~s.cancelled[p] /\ s.pc[p] \notin {"done", "dead"}
    [] OTHER -> FALSE

Do(s, c, p) ==
  CASE c = "acq"     -> [s EXCEPT !.pc[p] = "a0", !.ret[p] = "none"]
    [] c = "yield"   -> [s EXCEPT !.pc[p] = "y0", !.ret[p] = "none"]
    [] c = "yieldx"  -> [s EXCEPT !.pc[p] = "y0", !.ret[p] = "none",
                                  !.timer[p] = IF @ = "nil" THEN "nil" ELSE "exp"]
    [] c = "release" -> [s EXCEPT !.pc[p] = "r0", !.ret[p] = "none"]
    [] c = "cancel"  -> [s EXCEPT !.cancelled[p] = TRUE]

\* all quiescent states reachable by internal steps only
RECURSIVE Reach(_, _)
Reach(S, fifo) == LET T == S \cup UNION {Succs(t, fifo) : t \in S} IN IF T = S THEN S ELSE Reach(T, fifo)
Settle(s, fifo) == {t \in Reach({s}, fifo) : Quiescent(t, fifo)}

\* what the driver can see at a quiescent point: who is parked in a call, what was returned,
\* and how many tokens TryAcquire can still get from each semaphore
Phase(s, p) == LET pc == s.pc[p] IN
               IF pc \in {"new", "idle", "done", "dead"} THEN pc ELSE "wait"
Free(s, m) == IF s.q[m] # <<>> THEN 0 ELSE s.cap[m] - s.cur[m]
Proj(s) == [ph |-> [p \in Procs(s) |-> Phase(s, p)], ret |-> s.ret, freeI |-> Free(s, "I"), freeB |-> Free(s, "B")]

-----------------------------------------------------------------------------
\* the statement
Holders(s, m) == {p \in Procs(s) : s.held[p] = m}
Handed(s, m) == {p \in Procs(s) : s.granted[p] /\ s.pc[p] \in Waiting /\ SemOf(s.pc[p]) = m}

\* at most the configured number of searches hold a slot
Bounded(s) == \A m \in Sems : Cardinality(Holders(s, m)) <= s.cap[m] /\ s.cur[m] <= s.cap[m] /\ s.cur[m] >= 0
\* every token is accounted for by exactly one holder: acquired slots are released exactly once
Conserved(s) == \A m \in Sems : s.cur[m] = Cardinality(Holders(s, m)) + Cardinality(Handed(s, m))
\* a process that is finished, failed or not started holds nothing; nor does one whose Yield failed
HoldsNothingWhenOver(s) ==
  \A p \in Procs(s) : /\ s.pc[p] \in {"new", "done", "dead"} => s.held[p] = "none"
                      /\ (s.pc[p] = "idle" /\ s.ret[p] = "err") => s.held[p] = "none"
\* an acquisition fails only when its context is done
FailsOnlyIfDone(s) == \A p \in Procs(s) : s.ret[p] = "err" => s.cancelled[p]
\* nobody is left parked while a slot is free, or after being cancelled
NoLostWakeup(s, fifo) ==
  Quiescent(s, fifo) => \A p \in Procs(s) :
     s.pc[p] \in Waiting => (~s.cancelled[p] /\ ~s.granted[p] /\ s.cur[SemOf(s.pc[p])] = s.cap[SemOf(s.pc[p])])
QueuesOK(s) == \A m \in Sems : \A i \in DOMAIN s.q[m] :
                 s.pc[s.q[m][i]] \in Waiting /\ SemOf(s.pc[s.q[m][i]]) = m /\ ~s.granted[s.q[m][i]]
=============================================================================
