---------------------------- MODULE QueryLang ----------------------------
(* C07.  The query language of doc/query_syntax.md as a grammar over TOKENS, used to        *)
(* generate inputs for the totality check of the parser and everything behind it.           *)
(*                                                                                           *)
(*   query       = conjunction , { "or" , conjunction }                                      *)
(*   conjunction = expression , { expression }                                               *)
(*   expression  = [ "-" ] , ( grouping | text | field )                                     *)
(*   grouping    = "(" , query , ")"                                                         *)
(*   field       = prefix , value        (table of fields below)                             *)
(*                                                                                           *)
(* Families of inputs (variable fam, chosen from the constant set Families):                                               *)
(*   "grammar"  leftmost derivations of the EBNF with at most MaxLenGrammar tokens, groupings *)
(*              nested at most MaxDepth deep, over a small representative token alphabet     *)
(*   "fields"   every field prefix with every value class (documented values, plain /        *)
(*              quoted / escaped / regexp text, and the damaged ones: empty, unknown         *)
(*              keyword, broken regexp, lone quote, lone backslash) in five contexts         *)
(*   "damage"   EVERY sequence of at most MaxLenDamage tokens over the damage alphabet: this *)
(*              contains every derivation of that length with a token deleted, duplicated    *)
(*              or swapped, unbalanced parentheses and quotes, dangling or / - / \           *)
(*   "json"     request bodies of the JSON search / list API: every combination of a class   *)
(*              of Q, of RepoIDs and of Opts (absent, null, well-typed values, wrong types,  *)
(*              out-of-range and huge values); the driver spells the classes as JSON text    *)
(* A sentence is printed as a script [toks, wf] where wf says whether the token sequence     *)
(* is a sentence of the documented grammar (recogniser WellFormed, checked against the       *)
(* derivations by invariant DerivedAreWellFormed).                                           *)
EXTENDS Integers, Sequences, FiniteSets, TLC, Json

CONSTANTS Families,      \* subset of {"grammar", "fields", "damage", "json"}
          MaxLenGrammar, \* tokens per derivation
          MaxLenDamage,  \* tokens per damaged sequence
          MaxDepth,      \* nesting of groupings in derivations
          Emit

VARIABLES fam, form, done
vars == <<fam, form, done>>
Family == fam
MaxLen == IF fam = "grammar" THEN MaxLenGrammar ELSE MaxLenDamage

-----------------------------------------------------------------------------
\* token alphabets
GrammarLeaves == {"foo", "f:x", "case:yes", "type:repo", "lang:go", "-"}
DamageAlphabet == {"a", "f:x", "case:no", "type:file", "(", ")", "or", "-", "\"", "\\"}

Prefixes == {"archived:", "case:", "content:", "c:", "file:", "f:", "fork:", "lang:", "public:", "regex:",
             "repo:", "r:", "sym:", "branch:", "b:", "type:", "t:", "meta.k:", "meta.", ""}
Values == {"yes", "no", "auto", "filematch", "filename", "file", "repo",      \* documented keywords
           "foo", "Foo", "a.*b", "\"a b\"", "a\\.b", "go", "HEAD",            \* text classes
           \* regexp syntax classes: a class that matches nothing, negated / named / Unicode classes,
           \* flags, repeats (lazy, counted, over the limit), empty alternative, anchors, escapes
           "[^\\s\\S]", "[^a]", "[[:alpha:]]", "\\pL", "\\P{Any}", "(?i)Ab", "(?s).", "a{2,3}", "a{1001}", "a*?", "a|",
           "^$", "\\bA\\B", "\\x{10FFFF}", "\\Qa.b\\E", "(?P<n>a)", "\\C", "\\z",
           "", "maybe", "(", "[a", "*", "\"", "\\", "\"a", "a\\", "()", "(a b", "a)", ":", "k:v:w", "-x", "or"}   \* damaged
FieldTokens == {p \o v : p \in Prefixes, v \in Values}
Contexts(t) == {<<t>>, <<"-", t>>, <<"(", t, ")">>, <<t, "a">>, <<"a", "or", t>>}

-----------------------------------------------------------------------------
\* recogniser of the documented grammar on token sequences (fields and text are single tokens)
IsOperand(t) == t \notin {"(", ")", "or", "-", "\"", "\\"}

RECURSIVE ParseQ(_, _), ParseC(_, _), ParseE(_, _)
\* each returns the set of positions after a successful parse starting at position i
ParseE(s, i) == IF i > Len(s) THEN {}
                ELSE IF s[i] = "-" THEN (IF i + 1 > Len(s) \/ s[i + 1] = "-" THEN {} ELSE ParseE(s, i + 1))
                ELSE IF s[i] = "(" THEN {j + 1 : j \in {j \in ParseQ(s, i + 1) : j <= Len(s) /\ s[j] = ")"}}
                ELSE IF IsOperand(s[i]) THEN {i + 1} ELSE {}
ParseC(s, i) == LET first == ParseE(s, i) IN first \cup UNION {ParseC(s, j) : j \in first}
ParseQ(s, i) == LET first == ParseC(s, i)
                IN first \cup UNION {ParseQ(s, j + 1) : j \in {j \in first : j <= Len(s) /\ s[j] = "or"}}
WellFormed(s) == Len(s) > 0 /\ (Len(s) + 1) \in ParseQ(s, 1)

-----------------------------------------------------------------------------
\* grammar family: sentential forms over nonterminals "<Q>", "<C>", "<E>"
NT == {"<Q>", "<C>", "<E>"}
FirstNT(f) == IF \E i \in 1..Len(f) : f[i] \in NT
              THEN CHOOSE i \in 1..Len(f) : f[i] \in NT /\ \A j \in 1..(i - 1) : f[j] \notin NT ELSE 0
Replace(f, i, toks) == SubSeq(f, 1, i - 1) \o toks \o SubSeq(f, i + 1, Len(f))
\* nesting depth of position i = number of unclosed "(" before it
DepthAt(f, i) == Cardinality({j \in 1..(i - 1) : f[j] = "("}) - Cardinality({j \in 1..(i - 1) : f[j] = ")"})

Derive ==
  LET i == FirstNT(form) IN
  /\ i # 0
  /\ \/ form[i] = "<Q>" /\ form' \in {Replace(form, i, <<"<C>">>), Replace(form, i, <<"<C>", "or", "<Q>">>)}
     \/ form[i] = "<C>" /\ form' \in {Replace(form, i, <<"<E>">>), Replace(form, i, <<"<E>", "<C>">>)}
     \/ form[i] = "<E>" /\ \/ \E l \in GrammarLeaves \ {"-"} : form' = Replace(form, i, <<l>>)
                           \/ (IF i = 1 THEN TRUE ELSE form[i - 1] # "-") /\ form' = Replace(form, i, <<"-", "<E>">>)
                           \/ DepthAt(form, i) < MaxDepth /\ form' = Replace(form, i, <<"(", "<Q>", ")">>)
  /\ Len(form') <= MaxLen
  /\ UNCHANGED <<fam, done>>

\* damage family: any token appended
Extend == /\ Len(form) < MaxLen
          /\ \E t \in DamageAlphabet : form' = Append(form, t)
          /\ UNCHANGED <<fam, done>>

\* json family: the shapes of a request body
QClasses == {"absent", "null", "empty", "word", "field", "broken", "number", "array", "object", "long"}
IdClasses == {"absent", "null", "empty", "one", "many", "string", "negative", "overflow", "object", "nested"}
OptClasses == {"absent", "null", "empty", "display", "negative", "hugectx", "string", "array", "walltime",
               "wrongtype", "estimate", "bm25", "chunk", "unknown"}
JsonShapes == [q : QClasses, ids : IdClasses, opts : OptClasses, handler : {"search", "list"}]

\* fields family: one state per (field token, context)
FieldSentences == UNION {Contexts(t) : t \in FieldTokens}

Init == /\ done = FALSE
        /\ fam \in Families
        /\ CASE fam = "grammar" -> form = <<"<Q>">>
             [] fam = "damage"  -> form = <<>>
             [] fam = "fields"  -> form \in FieldSentences
             [] fam = "json"    -> form \in {<<x>> : x \in JsonShapes}

Sentence == IF Family = "json" THEN TRUE ELSE Len(form) > 0 /\ FirstNT(form) = 0

Finish == /\ Sentence /\ ~done /\ done' = TRUE /\ UNCHANGED <<fam, form>>
          /\ (Emit => IF Family = "json" THEN PrintT(<<"SCRIPT", ToJson([shape |-> form[1], family |-> Family])>>)
                       ELSE PrintT(<<"SCRIPT", ToJson([toks |-> form, wf |-> WellFormed(form), family |-> Family])>>))

Next == \/ (Family = "grammar" /\ Derive)
        \/ (Family = "damage" /\ ~done /\ Extend)
        \/ Finish
Spec == Init /\ [][Next]_vars

-----------------------------------------------------------------------------
\* every derivation of the grammar is recognised; the damage family contains both kinds
DerivedAreWellFormed == (Family = "grammar" /\ Sentence) => WellFormed(form)
TypeOK == done \in BOOLEAN /\ fam \in Families /\ Len(form) <= MaxLen + 2
=============================================================================
