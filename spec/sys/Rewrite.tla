----------------------------- MODULE Rewrite -----------------------------
(* C05.  The input space of the query rewrites as a derivation system, and the model-level  *)
(* sanity of the oracle.                                                                     *)
(*                                                                                           *)
(* A state is a query tree under construction in prefix form: a sequence of tokens          *)
(* [k, n] (kind, arity) where k = "hole" marks a not yet derived sub-tree (n = its depth).   *)
(* Next expands the LEFTMOST hole (every tree has exactly one derivation), so breadth-first  *)
(* search enumerates every tree with depth <= MaxDepth, fan-out <= MaxFan and at most        *)
(* MaxNodes nodes exactly once, and -simulate samples the trees beyond MaxNodes.  A complete *)
(* tree is printed as a replay script (R-style input generation): the drivers instantiate    *)
(* the leaf classes with real atoms and run the real rewrites on it.                         *)
(*                                                                                           *)
(* Leaf classes: "a", "b" two atoms; "T", "F" constants; "dT" an atom that holds for every   *)
(* document (empty substring / empty regexp / empty branch pattern), "dF" an atom that holds *)
(* for none (empty RepoSet, RepoIDs, FileNameSet, BranchesRepos without ids); "and"/"or"     *)
(* with arity 0 are the empty conjunction / disjunction.                                     *)
(*                                                                                           *)
(* Invariant Sound: for every complete tree the reference normal form of RewriteSem selects  *)
(* the same documents under EVERY valuation of the atoms (two documents of one repository    *)
(* when type:repo occurs) and is Normal -- i.e. what the trace specification demands of the  *)
(* implementation is satisfiable and Ev / Normal / the degenerate atoms are consistent.      *)
EXTENDS RewriteSem, TLC, Json

CONSTANTS MaxDepth, MaxFan, MaxNodes, Emit

VARIABLES form, done
vars == <<form, done>>

Leaves == {"a", "b", "T", "F", "dT", "dF"}
Unary == {"not", "tfn", "tfm", "trepo", "boost"}
Nary == {"and", "or"}

Tok(k, n) == [k |-> k, n |-> n]
Holes(d, m) == [j \in 1..m |-> Tok("hole", d)]

HoleAt(f) == IF \E i \in 1..Len(f) : f[i].k = "hole"
             THEN CHOOSE i \in 1..Len(f) : f[i].k = "hole" /\ \A j \in 1..(i - 1) : f[j].k # "hole"
             ELSE 0
Complete(f) == HoleAt(f) = 0
Replace(f, i, toks) == SubSeq(f, 1, i - 1) \o toks \o SubSeq(f, i + 1, Len(f))

Init == form = <<Tok("hole", 0)>> /\ done = FALSE

Expand ==
  LET i == HoleAt(form)
      d == form[i].n
  IN /\ i # 0
     /\ \/ \E l \in Leaves : form' = Replace(form, i, <<Tok(l, 0)>>)
        \/ \E o \in Nary : form' = Replace(form, i, <<Tok(o, 0)>>)
        \/ d < MaxDepth /\ \E u \in Unary : form' = Replace(form, i, <<Tok(u, 1)>> \o Holes(d + 1, 1))
        \/ d < MaxDepth /\ \E o \in Nary, m \in 1..MaxFan : form' = Replace(form, i, <<Tok(o, m)>> \o Holes(d + 1, m))
     /\ Len(form') <= MaxNodes
     /\ UNCHANGED done

Finish == /\ Complete(form) /\ ~done /\ done' = TRUE /\ UNCHANGED form
          /\ (Emit => PrintT(<<"SCRIPT", ToJson(form)>>))

Next == Expand \/ Finish
Spec == Init /\ [][Next]_vars

-----------------------------------------------------------------------------
\* prefix form -> tree
LeafNode(k) == CASE k = "a" -> AtomN(1) [] k = "b" -> AtomN(2) [] k = "dT" -> AtomN(3) [] k = "dF" -> AtomN(4)
                 [] k = "T" -> ConstN(TRUE) [] k = "F" -> ConstN(FALSE)
                 [] k = "and" -> Nd("and", <<>>, FALSE, "", 0) [] k = "or" -> Nd("or", <<>>, FALSE, "", 0)
Mk(k, kids) == CASE k = "not" -> Nd("not", kids, FALSE, "", 0)
                 [] k = "boost" -> Nd("boost", kids, FALSE, "", 0)
                 [] k = "tfn" -> Nd("type", kids, FALSE, "filename", 0)
                 [] k = "tfm" -> Nd("type", kids, FALSE, "filematch", 0)
                 [] k = "trepo" -> Nd("type", kids, FALSE, "repo", 0)
                 [] k \in Nary -> Nd(k, kids, FALSE, "", 0)

RECURSIVE ParseAt(_, _), ParseKids(_, _, _, _)
ParseAt(f, i) == IF f[i].n = 0 THEN [node |-> LeafNode(f[i].k), next |-> i + 1]
                 ELSE LET r == ParseKids(f, i + 1, f[i].n, <<>>)
                      IN [node |-> Mk(f[i].k, r.nodes), next |-> r.next]
ParseKids(f, i, m, acc) == IF m = 0 THEN [nodes |-> acc, next |-> i]
                           ELSE LET r == ParseAt(f, i) IN ParseKids(f, r.next, m - 1, Append(acc, r.node))
TreeOf(f) == ParseAt(f, 1).node

\* the meaning of the leaf classes: a, b free; dT always, dF never
Deg == <<"V", "V", "T", "F">>
ValOf(v, docs) == [a \in 1..4 |-> [d \in docs |-> CASE a = 3 -> TRUE [] a = 4 -> FALSE [] OTHER -> <<a, d>> \in v]]

EquivAll(t1, t2) ==
  LET docs == IF HasTypeRepo(t1) \/ HasTypeRepo(t2) THEN {1, 2} ELSE {1}
  IN \A v \in SUBSET ({1, 2} \X docs) : Ev(t1, ValOf(v, docs), docs, 1) = Ev(t2, ValOf(v, docs), docs, 1)

Sound == Complete(form) =>
           LET t == TreeOf(form) nf == Fold(t, Deg)
           IN Normal(nf) /\ EquivAll(t, nf) /\ (nf.t = "const" \/ ~HasKind(nf, "const"))

\* non-vacuity of the oracle (checked as invariants that must FAIL in the self-test configs):
\* Ev distinguishes trees -- dropping a negation or swapping and/or is visible.
TypeOK == /\ done \in BOOLEAN
          /\ \A i \in 1..Len(form) : form[i].k \in Leaves \cup Unary \cup Nary \cup {"hole"}
=============================================================================
