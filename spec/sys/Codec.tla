------------------------------- MODULE Codec -------------------------------
(* C26.  Byte-exact specification of the three compact binary encodings of zoekt        *)
(*   FileNameSet   (query/marshal.go: stringSetEncode / stringSetDecode)                 *)
(*   BranchesRepos (query/marshal.go: branchesReposEncode / branchesReposDecode)         *)
(*   ReposMap      (marshal.go:       reposMapEncode / reposMapDecode, versions 1 and 2) *)
(*                                                                                       *)
(* A byte string is a sequence over 0..255.  A 64-bit number ("n64") is the tuple of its *)
(* 8 little-endian bytes (TLC integers have 32 bits).  A roaring bitmap is an opaque     *)
(* blob: its serialisation is produced by the library; c26_blobs.ndjson lists blobs the  *)
(* library accepts (ok) and blobs it refuses (~ok) -- an input of the specification.     *)
(*                                                                                       *)
(* Enc: Tokens*(items) is the encoding as a sequence of labelled fields; Flatten gives   *)
(* the bytes (map iteration order = order of `items`).                                   *)
(* Dec: Parse*(bytes) reads the fields in order and stops at the first failure;          *)
(* Outcome(typ, bytes) is what a decoder may answer:                                     *)
(*   "value"  bytes are exactly an encoding of the value (canonical, nothing left over)  *)
(*   "error"  the specification can decide that bytes are no encoding: unknown version,  *)
(*            input ends inside a field or before all announced items were read, a count *)
(*            larger than the number of remaining bytes, a blob the library refuses      *)
(*   "any"    value or error (left-over bytes, non-minimal varints, duplicate keys, ...) *)
(* A decoder never does anything else (panic, not returning, unbounded allocation are    *)
(* not in the alphabet).                                                                 *)
EXTENDS Integers, Sequences, FiniteSets, TLC, Json

BlobRows  == ndJsonDeserialize("c26_blobs.ndjson")
GoodBlobs == {BlobRows[i].bytes : i \in {j \in DOMAIN BlobRows : BlobRows[j].ok}}
BadBlobs  == {BlobRows[i].bytes : i \in {j \in DOMAIN BlobRows : ~BlobRows[j].ok}}
BlobNamed(n) == BlobRows[CHOOSE i \in DOMAIN BlobRows : BlobRows[i].name = n].bytes

-----------------------------------------------------------------------------
(* 64-bit numbers *)
Pow2   == <<1, 2, 4, 8, 16, 32, 64, 128>>
Pow256 == <<1, 256, 65536, 16777216>>
Zero64 == <<0, 0, 0, 0, 0, 0, 0, 0>>
Big    == 2147483647

FromInt(n)  == [i \in 1..8 |-> IF i <= 4 THEN (n \div Pow256[i]) % 256 ELSE 0]
IsSmall(x)  == x[5] = 0 /\ x[6] = 0 /\ x[7] = 0 /\ x[8] = 0 /\ x[4] < 128
ToInt(x)    == x[1] + 256 * x[2] + 65536 * x[3] + 16777216 * x[4]
\* the number as an integer when below 2^31, otherwise "more than any input has bytes"
Clip(x)     == IF IsSmall(x) THEN ToInt(x) ELSE Big
FitsU32(x)  == x[5] = 0 /\ x[6] = 0 /\ x[7] = 0 /\ x[8] = 0

Two31   == <<0, 0, 0, 128, 0, 0, 0, 0>>
Two62   == <<0, 0, 0, 0, 0, 0, 0, 64>>
Two63   == <<0, 0, 0, 0, 0, 0, 0, 128>>
Max64   == <<255, 255, 255, 255, 255, 255, 255, 255>>

\* bit k (0..63) of x
Bit(x, k) == (x[(k \div 8) + 1] \div Pow2[(k % 8) + 1]) % 2
\* 7-bit group j (0..9) of x
Group(x, j) == LET B(t) == IF 7 * j + t <= 63 THEN Bit(x, 7 * j + t) * Pow2[t + 1] ELSE 0
               IN B(0) + B(1) + B(2) + B(3) + B(4) + B(5) + B(6)
NGroups(x) == LET nz == {j \in 0..9 : Group(x, j) # 0}
              IN IF nz = {} THEN 1 ELSE 1 + (CHOOSE j \in nz : \A i \in nz : i <= j)

\* unsigned LEB128 ("uvarint" of encoding/binary), minimal length
UvarintEnc(x) == LET n == NGroups(x)
                 IN [j \in 1..n |-> Group(x, j - 1) + (IF j < n THEN 128 ELSE 0)]
Uv(n) == IF n < 128 THEN <<n>> ELSE UvarintEnc(FromInt(n))

\* value of the 7-bit groups g (little endian)
FromGroups(g) ==
  LET BitG(k) == LET j == (k \div 7) + 1
                 IN IF j > Len(g) THEN 0 ELSE (g[j] \div Pow2[(k % 7) + 1]) % 2
      Byte(i) == LET o == 8 * (i - 1)
                 IN BitG(o) + 2 * BitG(o + 1) + 4 * BitG(o + 2) + 8 * BitG(o + 3) + 16 * BitG(o + 4)
                    + 32 * BitG(o + 5) + 64 * BitG(o + 6) + 128 * BitG(o + 7)
  IN [i \in 1..8 |-> Byte(i)]

-----------------------------------------------------------------------------
(* readers: result [st, val, next, canon]; st = "ok" | "trunc" (input ends) | "other" *)
\* index of the last byte of the uvarint whose n-th byte is at q; 0: input ends first,
\* -1: does not fit 64 bits
RECURSIVE UvEnd(_, _, _)
UvEnd(b, q, n) ==
  IF q > Len(b) THEN 0
  ELSE IF b[q] < 128 THEN (IF n = 10 /\ b[q] > 1 THEN -1 ELSE q)
  ELSE IF n = 10 THEN -1 ELSE UvEnd(b, q + 1, n + 1)

ReadUv(b, p) ==
  LET q == UvEnd(b, p, 1) IN
  IF q = 0 THEN [st |-> "trunc", val |-> Zero64, next |-> p, canon |-> FALSE]
  ELSE IF q = -1 THEN [st |-> "other", val |-> Zero64, next |-> p, canon |-> FALSE]
  ELSE IF q = p THEN [st |-> "ok", val |-> FromInt(b[p]), next |-> p + 1, canon |-> TRUE]
  ELSE [st |-> "ok", val |-> FromGroups([j \in 1..(q - p + 1) |-> b[p + j - 1] % 128]),
        next |-> q + 1, canon |-> b[q] # 0]

\* length-prefixed byte string
ReadBytes(b, p) ==
  LET u == ReadUv(b, p) IN
  IF u.st # "ok" THEN [st |-> u.st, val |-> <<>>, next |-> p, canon |-> FALSE]
  ELSE LET n == Clip(u.val) IN
       IF n > Len(b) - u.next + 1 THEN [st |-> "trunc", val |-> <<>>, next |-> p, canon |-> FALSE]
       ELSE [st |-> "ok", val |-> SubSeq(b, u.next, u.next + n - 1), next |-> u.next + n,
             canon |-> u.canon]

Fail(st, items, p) == [st |-> st, items |-> items, next |-> p, canon |-> FALSE]

Distinct(s) == \A i, j \in DOMAIN s : i # j => s[i] # s[j]
SeqToSet(s) == {s[i] : i \in DOMAIN s}

RECURSIVE Flatten(_)
Flatten(toks) == IF toks = <<>> THEN <<>> ELSE Head(toks).b \o Flatten(Tail(toks))
RECURSIVE CatAll(_)
CatAll(ss) == IF ss = <<>> THEN <<>> ELSE Head(ss) \o CatAll(Tail(ss))

Tok(k, b) == [k |-> k, b |-> b]
StrToks(s) == <<Tok("len", Uv(Len(s))), Tok("data", s)>>

-----------------------------------------------------------------------------
(* FileNameSet:  byte(1)  uvarint(n)  n * ( uvarint(len) bytes )         items: byte strings *)
TokensFNS(items) ==
  <<Tok("ver", <<1>>), Tok("count", Uv(Len(items)))>>
  \o CatAll([i \in DOMAIN items |-> StrToks(items[i])])

RECURSIVE ReadStrs(_, _, _, _, _)
ReadStrs(b, p, n, acc, canon) ==
  IF n = 0 THEN [st |-> "ok", items |-> acc, next |-> p, canon |-> canon]
  ELSE LET s == ReadBytes(b, p) IN
       IF s.st # "ok" THEN Fail(s.st, acc, p)
       ELSE ReadStrs(b, s.next, n - 1, Append(acc, s.val), canon /\ s.canon)

ParseFNS(b) ==
  IF Len(b) < 1 THEN Fail("trunc", <<>>, 1)
  ELSE IF b[1] # 1 THEN Fail("version", <<>>, 1)
  ELSE LET c == ReadUv(b, 2) IN
       IF c.st # "ok" THEN Fail(c.st, <<>>, 2)
       ELSE ReadStrs(b, c.next, Clip(c.val), <<>>, c.canon)

-----------------------------------------------------------------------------
(* BranchesRepos:  byte(1)  uvarint(n)  n * ( str(branch)  uvarint(len) blob )              *)
(* items: [b |-> branch bytes, r |-> blob]                                                   *)
TokensBR(items) ==
  <<Tok("ver", <<1>>), Tok("count", Uv(Len(items)))>>
  \o CatAll([i \in DOMAIN items |->
       StrToks(items[i].b) \o <<Tok("bloblen", Uv(Len(items[i].r))), Tok("blob", items[i].r)>>])

\* known = TRUE: blobs are classified with the library table (refused blob = failure, unknown
\* blob = undecidable); FALSE: blobs are taken as they are (used for round trips, where the
\* blob is the library's own serialisation of the value)
RECURSIVE ReadBRs(_, _, _, _, _, _)
ReadBRs(b, p, n, acc, canon, known) ==
  IF n = 0 THEN [st |-> "ok", items |-> acc, next |-> p, canon |-> canon]
  ELSE LET s == ReadBytes(b, p) IN
       IF s.st # "ok" THEN Fail(s.st, acc, p)
       ELSE LET r == ReadBytes(b, s.next) IN
            IF r.st # "ok" THEN Fail(r.st, acc, s.next)
            ELSE IF known /\ r.val \in BadBlobs THEN Fail("badblob", acc, s.next)
            ELSE IF known /\ r.val \notin GoodBlobs THEN Fail("other", acc, s.next)
            ELSE ReadBRs(b, r.next, n - 1, Append(acc, [b |-> s.val, r |-> r.val]),
                         canon /\ s.canon /\ r.canon, known)

ParseBR(b, known) ==
  IF Len(b) < 1 THEN Fail("trunc", <<>>, 1)
  ELSE IF b[1] # 1 THEN Fail("version", <<>>, 1)
  ELSE LET c == ReadUv(b, 2) IN
       IF c.st # "ok" THEN Fail(c.st, <<>>, 2)
       ELSE ReadBRs(b, c.next, Clip(c.val), <<>>, c.canon, known)

-----------------------------------------------------------------------------
(* ReposMap:  byte(ver)  uvarint(n)  uvarint(total branches)                                *)
(*            n * ( uvarint(id) byte(hasSymbols) [ver 2: uvarint(indexTime)] uvarint(nb)    *)
(*                  nb * ( str(name) str(version) ) )                                       *)
(* the nil map is the empty byte string.  items: [id, sym, t, br], br: seq of [n, v]        *)
BranchToks(br) == CatAll([i \in DOMAIN br |-> StrToks(br[i].n) \o StrToks(br[i].v)])
RECURSIVE SumBr(_)
SumBr(items) == IF items = <<>> THEN 0 ELSE Len(Head(items).br) + SumBr(Tail(items))

TokensRM(items, ver) ==
  <<Tok("ver", <<ver>>), Tok("count", Uv(Len(items))), Tok("total", Uv(SumBr(items)))>>
  \o CatAll([i \in DOMAIN items |->
       <<Tok("id", UvarintEnc(items[i].id)), Tok("sym", <<IF items[i].sym THEN 1 ELSE 0>>)>>
       \o (IF ver = 2 THEN <<Tok("time", UvarintEnc(items[i].t))>> ELSE <<>>)
       \o <<Tok("bcount", Uv(Len(items[i].br)))>> \o BranchToks(items[i].br)])

RECURSIVE ReadBranches(_, _, _, _, _)
ReadBranches(b, p, n, acc, canon) ==
  IF n = 0 THEN [st |-> "ok", items |-> acc, next |-> p, canon |-> canon]
  ELSE LET s == ReadBytes(b, p) IN
       IF s.st # "ok" THEN Fail(s.st, acc, p)
       ELSE LET r == ReadBytes(b, s.next) IN
            IF r.st # "ok" THEN Fail(r.st, acc, s.next)
            ELSE ReadBranches(b, r.next, n - 1, Append(acc, [n |-> s.val, v |-> r.val]),
                              canon /\ s.canon /\ r.canon)

RECURSIVE ReadEntries(_, _, _, _, _, _)
ReadEntries(b, p, n, ver, acc, canon) ==
  IF n = 0 THEN [st |-> "ok", items |-> acc, next |-> p, canon |-> canon]
  ELSE LET id == ReadUv(b, p) IN
       IF id.st # "ok" THEN Fail(id.st, acc, p)
       ELSE IF id.next > Len(b) THEN Fail("trunc", acc, p)
       ELSE LET sym == b[id.next]
                tm  == IF ver = 2 THEN ReadUv(b, id.next + 1)
                       ELSE [st |-> "ok", val |-> Zero64, next |-> id.next + 1, canon |-> TRUE]
            IN IF tm.st # "ok" THEN Fail(tm.st, acc, p)
               ELSE LET nb == ReadUv(b, tm.next) IN
                    IF nb.st # "ok" THEN Fail(nb.st, acc, p)
                    ELSE LET br == ReadBranches(b, nb.next, Clip(nb.val), <<>>, TRUE) IN
                         IF br.st # "ok" THEN Fail(br.st, acc, p)
                         ELSE ReadEntries(b, br.next, n - 1, ver,
                                Append(acc, [id |-> id.val, sym |-> (sym = 1), t |-> tm.val,
                                             br |-> br.items]),
                                canon /\ id.canon /\ FitsU32(id.val) /\ sym \in {0, 1}
                                      /\ tm.canon /\ nb.canon /\ br.canon)

\* result has the additional fields ver, total
ParseRM(b) ==
  LET F(st) == Fail(st, <<>>, 1) @@ [ver |-> 0, total |-> 0] IN
  IF Len(b) < 1 THEN [st |-> "ok", items |-> <<>>, next |-> 1, canon |-> TRUE, ver |-> 0, total |-> 0]
  ELSE IF b[1] \notin {1, 2} THEN F("version")
  ELSE LET c == ReadUv(b, 2) IN
       IF c.st # "ok" THEN F(c.st)
       ELSE LET t == ReadUv(b, c.next) IN
            IF t.st # "ok" THEN F(t.st)
            \* every branch takes at least two bytes: a total beyond the rest is no encoding
            ELSE IF Clip(t.val) > Len(b) - t.next + 1 THEN F("trunc")
            ELSE LET r == ReadEntries(b, t.next, Clip(c.val), b[1], <<>>, c.canon /\ t.canon)
                 IN r @@ [ver |-> b[1], total |-> Clip(t.val)]

RMIds(items) == [i \in DOMAIN items |-> items[i].id]

-----------------------------------------------------------------------------
Types == {"FileNameSet", "BranchesRepos", "ReposMap"}

Parse(typ, b) ==
  CASE typ = "FileNameSet"   -> ParseFNS(b)
    [] typ = "BranchesRepos" -> ParseBR(b, TRUE)
    [] typ = "ReposMap"      -> ParseRM(b)

\* is the successful parse r of all of b the parse of a canonical encoding?
Canonical(typ, b, r) ==
  /\ r.st = "ok" /\ r.next = Len(b) + 1 /\ r.canon
  /\ CASE typ = "FileNameSet"   -> Distinct(r.items)
       [] typ = "BranchesRepos" -> TRUE
       [] typ = "ReposMap"      -> Distinct(RMIds(r.items)) /\ r.total = SumBr(r.items)

Outcome(typ, b) ==
  LET r == Parse(typ, b) IN
  IF r.st \in {"trunc", "version", "badblob"} THEN [k |-> "error", why |-> r.st, v |-> <<>>]
  ELSE IF Canonical(typ, b, r) THEN [k |-> "value", why |-> "ok", v |-> r.items]
  ELSE [k |-> "any", why |-> r.st, v |-> <<>>]

\* equality of values: FileNameSet and ReposMap are unordered, BranchesRepos is a list
SameValue(typ, a, b) ==
  IF typ = "BranchesRepos" THEN a = b
  ELSE Len(a) = Len(b) /\ SeqToSet(a) = SeqToSet(b)

Encode(typ, items, ver) ==
  CASE typ = "FileNameSet"   -> Flatten(TokensFNS(items))
    [] typ = "BranchesRepos" -> Flatten(TokensBR(items))
    [] typ = "ReposMap"      -> Flatten(TokensRM(items, ver))

\* `bytes` is what the current encoder may produce for the value `v` (items in some order)
IsEncodingOf(typ, bytes, v) ==
  IF typ = "ReposMap" /\ bytes = <<>> THEN v = <<>>
  ELSE LET r == CASE typ = "FileNameSet"   -> ParseFNS(bytes)
                  [] typ = "BranchesRepos" -> ParseBR(bytes, FALSE)
                  [] typ = "ReposMap"      -> ParseRM(bytes)
       IN /\ Canonical(typ, bytes, r)
          /\ SameValue(typ, r.items, v)
          /\ Encode(typ, r.items, 2) = bytes       \* byte-exact, current version
=============================================================================
