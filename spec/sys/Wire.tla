------------------------------- MODULE Wire -------------------------------
(* C24.  Wire conversion (Go value <-> protobuf message) is lossless up to the           *)
(* representation of empty collections, and the gRPC service is total.                    *)
(*                                                                                       *)
(* Values are JSON-like trees rendered by the driver with reflection (every field of      *)
(* every struct, exported or not).  A node is a record                                    *)
(*    [t, sk, sv, ck, cv]    t = "o" object | "a" array | "n" null                        *)
(*       sk, sv : keys / renderings of the scalar members ("i:5", "s:abc", "f:<bits>")    *)
(*       ck, cv : keys / nodes of the composite members                                   *)
(* (an array has either scalar elements (sv) or composite elements (cv); keys of an       *)
(* object are emitted in sorted order; array keys are not used).                          *)
(*                                                                                       *)
(* Norm identifies null, [], {} and an absent key:  a member of an object whose normal    *)
(* form is null is dropped, an object / array without members is null.  Scalars are       *)
(* never dropped ("" and 0 are values).  Lossless:  Norm(before) = Norm(after).           *)
EXTENDS Integers, Sequences, FiniteSets, TLC, Json

NullNode == [t |-> "n", sk |-> <<>>, sv |-> <<>>, ck |-> <<>>, cv |-> <<>>]

\* the subsequence of s at the indices in keep (ascending)
RECURSIVE Pick(_, _, _)
Pick(s, keep, i) == IF i > Len(s) THEN <<>>
                    ELSE IF i \in keep THEN <<s[i]>> \o Pick(s, keep, i + 1)
                    ELSE Pick(s, keep, i + 1)

\* (written with one pass per member list: TLC re-evaluates function expressions on every
\* application, LET definitions only once)
RECURSIVE Norm(_), NormSeq(_, _), NormObj(_, _, _)
NormSeq(cv, i) == IF i > Len(cv) THEN <<>> ELSE <<Norm(cv[i])>> \o NormSeq(cv, i + 1)
NormObj(ck, cv, i) ==
  IF i > Len(cv) THEN [k |-> <<>>, v |-> <<>>]
  ELSE LET c == Norm(cv[i])
           r == NormObj(ck, cv, i + 1)
       IN IF c.t = "n" THEN r ELSE [k |-> <<ck[i]>> \o r.k, v |-> <<c>> \o r.v]
Norm(n) ==
  IF n.t = "n" THEN NullNode
  ELSE IF n.t = "a"
       THEN IF Len(n.sv) = 0 /\ Len(n.cv) = 0 THEN NullNode
            ELSE [t |-> "a", sk |-> <<>>, sv |-> n.sv, ck |-> <<>>, cv |-> NormSeq(n.cv, 1)]
  ELSE LET r == NormObj(n.ck, n.cv, 1)
       IN IF Len(n.sk) = 0 /\ Len(r.k) = 0 THEN NullNode
          ELSE [t |-> "o", sk |-> n.sk, sv |-> n.sv, ck |-> r.k, cv |-> r.v]

\* members that are not carried by the wire format by design (declared, not discovered):
\* SearchOptions.SpanContext is transported by the tracing interceptors, not by the message.
NotOnWire(typ) == IF typ = "SearchOptions" THEN {"SpanContext"} ELSE {}

Without(n, keys) ==
  IF n.t # "o" THEN n
  ELSE LET keepS == {i \in DOMAIN n.sk : n.sk[i] \notin keys}
           keepC == {i \in DOMAIN n.ck : n.ck[i] \notin keys}
       IN [t |-> "o", sk |-> Pick(n.sk, keepS, 1), sv |-> Pick(n.sv, keepS, 1),
           ck |-> Pick(n.ck, keepC, 1), cv |-> Pick(n.cv, keepC, 1)]

Canon(typ, n) == Norm(Without(n, NotOnWire(typ)))

Lossless(typ, before, after) == Canon(typ, before) = Canon(typ, after)

\* where two normal forms differ: the path of keys to a first difference ("[]" = an array element)
Child(n, k) == IF \E i \in DOMAIN n.ck : n.ck[i] = k
               THEN n.cv[CHOOSE i \in DOMAIN n.ck : n.ck[i] = k] ELSE NullNode
Scalar(n, k) == IF \E i \in DOMAIN n.sk : n.sk[i] = k
                THEN n.sv[CHOOSE i \in DOMAIN n.sk : n.sk[i] = k] ELSE "absent"
Range(s) == {s[i] : i \in DOMAIN s}

RECURSIVE Diff(_, _)
Diff(a, b) ==
  IF a = b THEN <<>>
  ELSE IF a.t # b.t THEN <<"(" \o a.t \o "/" \o b.t \o ")">>
  ELSE IF a.t = "a"
       THEN IF a.sv # b.sv THEN <<"[]">>
            ELSE IF Len(a.cv) # Len(b.cv) THEN <<"[len]">>
            ELSE LET i == CHOOSE j \in DOMAIN a.cv : a.cv[j] # b.cv[j] IN <<"[]">> \o Diff(a.cv[i], b.cv[i])
  ELSE LET sks == Range(a.sk) \cup Range(b.sk)
           cks == Range(a.ck) \cup Range(b.ck)
       IN IF \E k \in sks : Scalar(a, k) # Scalar(b, k)
          THEN <<CHOOSE k \in sks : Scalar(a, k) # Scalar(b, k)>>
          ELSE LET k == CHOOSE x \in cks : Child(a, x) # Child(b, x) IN <<k>> \o Diff(Child(a, k), Child(b, k))

-----------------------------------------------------------------------------
(* the query node kinds that have to survive the wire (caseQ is internal to the parser) *)
QKinds == {"RawConfig", "Regexp", "Symbol", "Language", "Const", "Repo", "RepoRegexp", "BranchesRepos",
           "RepoIDs", "RepoSet", "FileNameSet", "Type", "Substring", "And", "Or", "Not", "Branch", "Boost",
           "Meta"}
ValueTypes == {"Q", "SearchOptions", "SearchResult", "SearchResultStream", "RepoList", "ListOptions"}

(* totality: what a handler may do with a request *)
Methods  == {"Search", "StreamSearch", "List"}
Outcomes == {"response", "error"}

(* Query shapes: token sequences in prefix notation (see WireGen.tla).                      *)
(*   leaf tokens   valid nodes, nodes that cannot be given a meaning (invalid regexp text,   *)
(*                 corrupt bitmap bytes), missing parts ("nil": no Q message, "unset": oneof *)
(*                 unset, "in-<kind>": oneof case set but its message nil, "br-nil-elem")    *)
ValidLeaves == {"const", "substr", "regexp", "repo", "reporegexp", "repoids", "br", "reposet", "filenameset",
                "language", "branch", "rawconfig", "meta"}
BadLeaves   == {"regexp-bad", "repo-bad", "reporegexp-bad", "meta-bad", "repoids-corrupt", "br-corrupt"}
InnerNil    == {"in-rawconfig", "in-regexp", "in-symbol", "in-language", "in-repo", "in-reporegexp",
                "in-branchesrepos", "in-repoids", "in-reposet", "in-filenameset", "in-type", "in-substring",
                "in-and", "in-or", "in-not", "in-branch", "in-boost", "in-meta"}
MissingLeaves == {"nil", "unset", "br-nil-elem"} \cup InnerNil
Leaves == ValidLeaves \cup BadLeaves \cup MissingLeaves
Unary  == {"not", "type", "boost", "symbol"}

Tokens(s) == {s[i] : i \in DOMAIN s}
\* a symbol query is only defined around a content pattern (index/matchtree.go refuses the rest)
SymbolOK(s) == \A i \in DOMAIN s : s[i] = "symbol" => i < Len(s) /\ s[i + 1] \in {"substr", "regexp", "regexp-bad"}
\* "partial": some part is missing; "bad": nothing missing, something cannot be given a meaning;
\* "undefined": all parts present and well-formed but the combination has no meaning for the searcher;
\* "valid": the rest
Class(s) == IF Tokens(s) \cap MissingLeaves # {} THEN "partial"
            ELSE IF Tokens(s) \cap BadLeaves # {} THEN "bad"
            ELSE IF ~SymbolOK(s) THEN "undefined" ELSE "valid"

\* what the handler may answer
Allowed(req, s) ==
  IF req # "ok" THEN Outcomes
  ELSE CASE Class(s) = "valid"   -> {"response"}
         [] Class(s) = "bad"     -> {"error"}
         [] Class(s) \in {"partial", "undefined"} -> Outcomes

=============================================================================
