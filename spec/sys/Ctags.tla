----------------------------- MODULE Ctags -----------------------------
(* C37.  State machine of tagsToSections.Convert: the conversion is a fold over the ctags   *)
(* entries, one `Feed` step per entry.  TLC enumerates every entry list up to MaxEntries     *)
(* for each small content (the history stays in the state on purpose: states = entry lists), *)
(* checks the output properties in every state and prints one replay script per list.        *)
EXTENDS CtagsOps, Json

CONSTANTS Contents,    \* subset of 1..3: which of the small contents below
          MaxEntries,  \* bound on the entry list
          Emit         \* TRUE: print one replay script per explored transition

\* "abc ab" / "ab"            : ab is a prefix of abc, both start at byte 0 of line 1
ContentA == <<97, 98, 99, 32, 97, 98, 10, 97, 98, 10>>
\* "éab" / "" / "abc"         : 2-byte rune before the names, empty line, last line unterminated
ContentB == <<233, 97, 98, 10, 10, 97, 98, 99>>
\* "" / "ab abc"              : empty first line, names side by side
ContentC == <<10, 97, 98, 32, 97, 98, 99, 10>>
Cont == <<ContentA, ContentB, ContentC>>

\* the empty name, a name that is a prefix of the next one, and that one
Names == {<<>>, <<97, 98>>, <<97, 98, 99>>}

NL   == [i \in 1..3 |-> NLSeq(Cont[i])] @@ <<>>
BOff == [i \in 1..3 |-> BOffSeq(Cont[i])] @@ <<>>
N    == [i \in 1..3 |-> NumLines(Cont[i], NL[i])] @@ <<>>
Entries(i) == [line : 0..(N[i] + 1), name : Names]

VARIABLES ci, hist, st
vars == <<ci, hist, st>>

Init == ci \in Contents /\ hist = <<>> /\ st = [acc |-> <<>>, why |-> <<>>]

Feed(ent) ==
  /\ hist' = Append(hist, ent)
  /\ st' = FoldStep(Cont[ci], NL[ci], BOff[ci], st, Len(hist) + 1, ent)
  /\ UNCHANGED ci
  /\ (Emit => PrintT(<<"SCRIPT", ToJson([content |-> Cont[ci], entries |-> hist',
                                          expect |-> st'.acc, why |-> st'.why])>>))

Next == Len(hist) < MaxEntries /\ \E ent \in Entries(ci) : Feed(ent)
Spec == Init /\ [][Next]_vars

-----------------------------------------------------------------------------
TypeOK == Len(st.why) = Len(hist)
\* the properties of the statement, in every state of the fold
AcceptedByBuilder == Acceptable(st.acc, ByteLen(Cont[ci]))
RangesAreNames    == KnownEntries(st.acc, hist) /\ AllNameOnLine(Cont[ci], st.acc, hist)
DropsExact        == DroppedExactly(st.acc, st.why)
\* the fold is the whole conversion
FoldIsConvert     == st = Convert(Cont[ci], hist)
\* ends are sorted as well, so "insert after the ranges that end at or before the new start"
\* (CtagsOps!FoldStep) is "insert at the sorted position" (the backwards scan of `overlaps`)
EndsSorted == \A i \in 1..(Len(st.acc) - 1) : st.acc[i].e <= st.acc[i + 1].e
\* an entry is dropped for overlap only if placing it would break the builder's requirement
OverlapDropsNeeded ==
  \A k \in 1..Len(hist) : st.why[k] = "overlap" =>
     LET pl == Place(Cont[ci], NL[ci], BOff[ci], hist[k])
     IN \E i \in 1..Len(st.acc) : st.acc[i].k < k /\ Conflict(pl.s, pl.e, st.acc[i])
=============================================================================
