----------------------------- MODULE Delta -----------------------------
(* C13: commits on several branches interleaved with normal and delta indexing runs.        *)
(* After every run a search restricted to a branch must show exactly the branch's head tree. *)
(* Model checking (M) and generation of replay scripts (R): one script per explored indexing *)
(* transition = history of the representative state + the run.                               *)
EXTENDS DeltaOps, Json

CONSTANTS Branches,     \* git branches, e.g. {"main","rel"} (not "b1": go-git resolves hex-like names as abbreviated object ids)
          Paths,        \* e.g. {"a.txt","d/b.txt"}
          Contents,     \* content ids, e.g. {1,2}
          BranchLists,  \* branch lists an indexing run may ask for (sequences over Branches)
          Opts,         \* option hashes an indexing run may ask for
          Thrs,         \* DeltaShardNumberFallbackThreshold values
          MaxCommits, MaxRuns,
          CommitMode,   \* "tree": a commit may install any tree; "atomic": one path changed,
                        \*         a rename, or taking over the other branch's tree
          Ig,           \* ignore configuration [path, sem]
          RespectIgnore,\* FALSE: delta builds as the code is; TRUE: with the proposed fix
          Emit

\* values for the structured constants (cfg files can only write sets of simple values)
BL_One == {<<"main", "rel">>}
BL_Var == {<<"main", "rel">>, <<"rel", "main">>, <<"main">>}
Ig_None == [path |-> "", sem |-> <<>>]
\* ignore file content 1 = a comment (excludes nothing), content 2 = "d/" (excludes d/b.txt)
Ig_Dir == [path |-> ".sourcegraph/ignore", sem |-> << <<>>, <<"d/b.txt">> >>]

VARIABLES heads, vers, ix, nc, nr, dev, hist
vars == <<heads, vers, ix, nc, nr, dev, hist>>

Trees == UNION {[S -> Contents] : S \in SUBSET Paths}

RECURSIVE SetSeq(_)
SetSeq(S) == IF S = {} THEN <<>> ELSE LET x == CHOOSE y \in S : TRUE IN <<x>> \o SetSeq(S \ {x})
TreeSeq(t) == LET ps == SetSeq(DOMAIN t) IN [i \in DOMAIN ps |-> [p |-> ps[i], c |-> t[ps[i]]]]

Init == /\ heads = [b \in Branches |-> NoFn]
        /\ vers = [b \in Branches |-> 1]
        /\ ix = EmptyIx
        /\ nc = 0 /\ nr = 0 /\ dev = FALSE /\ hist = <<>>

\* rename p -> q: p disappears, q gets p's content (q may have existed)
IsRename(old, new) ==
  \E p \in DOMAIN old : \E q \in Paths \ {p} :
     new = [x \in (DOMAIN old \ {p}) \cup {q} |-> IF x = q THEN old[p] ELSE old[x]]

Atomic(b, new) ==
  \/ Cardinality(Changed(heads[b], new)) = 1
  \/ IsRename(heads[b], new)
  \/ \E b2 \in Branches \ {b} : new = heads[b2]

Commit(b, t) ==
  /\ nc < MaxCommits
  /\ t # heads[b]
  /\ (CommitMode = "atomic" => Atomic(b, t))
  /\ heads' = [heads EXCEPT ![b] = t]
  /\ vers' = [vers EXCEPT ![b] = @ + 1]
  /\ nc' = nc + 1
  /\ hist' = Append(hist, [op |-> "commit", branch |-> b, tree |-> TreeSeq(t)])
  /\ UNCHANGED <<ix, nr, dev>>

Reqs == [delta : BOOLEAN, brs : BranchLists, opt : Opts, thr : Thrs]

IndexRun(req) ==
  /\ nr < MaxRuns
  /\ ix' = Index(Ig, RespectIgnore, ix, heads, vers, req)
  /\ dev' = IF IsFull(Ig, ix, heads, req) THEN FALSE
            ELSE dev \/ DeltaIgnoreDeviates(Ig, RespectIgnore, ix, heads, req)
  /\ nr' = nr + 1
  /\ hist' = Append(hist, [op |-> "index", delta |-> req.delta, brs |-> req.brs, opt |-> req.opt,
                           thr |-> req.thr])
  /\ UNCHANGED <<heads, vers, nc>>
  \* where requests vary (fallback family) only histories ending in a delta request are printed
  /\ ((Emit /\ (req.delta \/ Cardinality(Reqs) = 2)) =>
        PrintT(<<"SCRIPT", ToJson([branches |-> SetSeq(Branches), ig |-> Ig, ops |-> hist', dev |-> dev'])>>))

Next == \/ \E b \in Branches : \E t \in Trees : Commit(b, t)
        \/ \E req \in Reqs : IndexRun(req)

Spec == Init /\ [][Next]_vars

\* versions and history are not part of the abstract state
view == <<heads, ix.shards, ix.brs, ix.trees, ix.opt, nc, nr, dev>>

-----------------------------------------------------------------------------
TypeOK == /\ \A b \in Branches : heads[b] \in Trees
          /\ DOMAIN ix.trees = ToSet(ix.brs)
          /\ \A i \in DOMAIN ix.shards : ix.shards[i].tomb \subseteq Paths

\* the property, with the named deviation (delta builds do not consult an unchanged ignore file)
BranchViews == dev \/ \A b \in Branches : ViewOK(Ig, ix, b)
\* the strict form (violated exactly by the deviation; identical when Ig.path = "")
BranchViewsStrict == \A b \in Branches : ViewOK(Ig, ix, b)

\* right after a run the index describes the heads; the recorded versions are the head commits
Fresh == [][nr' = nr + 1 =>
             /\ \A b \in ToSet(ix'.brs) : (ix'.trees[b] = heads[b] /\ ix'.vers[b] = vers[b])
             /\ (dev' \/ \A b \in Branches : ViewOK(Ig, ix', b))]_vars

\* the same per-branch view a fresh normal build gives
SameAsFull ==
  dev \/ ix.shards = <<>> \/
  \A b \in Branches :
     LET full == [ix EXCEPT !.shards = <<FullShard(Ig, ix.trees, ix.brs)>>]
     IN {<<x[2].path, x[2].content>> : x \in LiveOn(ix, b)} = {<<x[2].path, x[2].content>> : x \in LiveOn(full, b)}

\* a normal build leaves one shard without tombstones
FullIsClean == [][(nr' = nr + 1 /\ ~hist'[Len(hist')].delta) => Len(ix'.shards) = 1 /\ ix'.shards[1].tomb = {}]_vars
=============================================================================
