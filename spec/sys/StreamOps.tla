--------------------------- MODULE StreamOps ---------------------------
(* Pure operators: the sequential meaning of the gRPC streaming sender pipeline (C25)     *)
(*   samplingSender   cmd/zoekt-webserver/grpc/server/sampling.go                         *)
(*   gRPCChunkSender  cmd/zoekt-webserver/grpc/server/server.go                           *)
(*   chunk.Chunker    grpc/chunk/chunker.go                                               *)
(*   Stats.Add/Zero   api.go                                                              *)
(*                                                                                        *)
(* Stats is a tuple of integers; `nm` is the tuple of field names in the same order (the  *)
(* driver enumerates zoekt.Stats by reflection, the model uses a three-field stand-in).   *)
(* A file is <<id, size>> (size = proto.Size of the FileMatch); a result (what a          *)
(* zoekt.Sender receives) is [files, stats]; a delivered message is [files, stats, hs]    *)
(* (hs: the message carries a Stats sub-message).                                         *)
EXTENDS Integers, Sequences, FiniteSets, TLC

\* Fields of zoekt.Stats that are not additive counters.  Stats.Add keeps the receiver's
\* Duration (wall clock of one non-streaming search, never summed) and the first non-zero
\* FlushReason (sticky).  Every other field -- also one added in the future -- is a counter.
NonAdditive == {"Duration", "FlushReason"}
CounterIdx(nm) == {i \in DOMAIN nm : nm[i] \notin NonAdditive}

ZeroStats(nm) == [i \in DOMAIN nm |-> 0]

\* zoekt.Stats.Add: receiver a, argument b
AddStats(a, b, nm) ==
  [i \in DOMAIN nm |->
     IF nm[i] = "Duration" THEN a[i]
     ELSE IF nm[i] = "FlushReason" THEN (IF a[i] = 0 THEN b[i] ELSE a[i])
     ELSE a[i] + b[i]]

\* zoekt.Stats.Zero: no counter is positive
IsZero(s, nm) == \A i \in CounterIdx(nm) : ~(s[i] > 0)

Result(files, stats) == [files |-> files, stats |-> stats]

-----------------------------------------------------------------------------
(* samplingSender: state sm = [agg, cnt]  (cnt is aggCount modulo N: only that matters)  *)
SamplerInit(nm) == [agg |-> ZeroStats(nm), cnt |-> 0]

\* Send(ev): new state and the results handed to the next sender (0 or 1)
SamplerSend(sm, ev, N, nm) ==
  IF Len(ev.files) = 0
  THEN LET agg2 == AddStats(sm.agg, ev.stats, nm)
           c2   == (sm.cnt + 1) % N
       IN IF c2 = 0 /\ ~IsZero(agg2, nm)
          THEN [sm |-> [agg |-> ZeroStats(nm), cnt |-> c2], fwd |-> <<Result(<<>>, agg2)>>]
          ELSE [sm |-> [agg |-> agg2, cnt |-> c2], fwd |-> <<>>]
  ELSE IF ~IsZero(sm.agg, nm)
       THEN [sm  |-> [agg |-> ZeroStats(nm), cnt |-> sm.cnt],
             fwd |-> <<Result(ev.files, AddStats(ev.stats, sm.agg, nm))>>]
       ELSE [sm |-> sm, fwd |-> <<ev>>]

\* Flush(): what is handed on after the producer has finished
SamplerFlush(sm, nm) == IF ~IsZero(sm.agg, nm) THEN <<Result(<<>>, sm.agg)>> ELSE <<>>

-----------------------------------------------------------------------------
(* chunk.SendAll: buffer items while  size(item) + size(buffer) < B ; otherwise send the  *)
(* buffer first -- also when it is still empty (first file alone reaches the budget).     *)
\* (index based: the chunk being filled is files[start..k-1], sz its size)
RECURSIVE ChunkFrom(_, _, _, _, _)
ChunkFrom(files, k, start, sz, B) ==
  IF k > Len(files) THEN (IF start = k THEN <<>> ELSE <<SubSeq(files, start, k - 1)>>)
  ELSE LET isz == files[k][2] IN
       IF isz + sz >= B
       THEN <<SubSeq(files, start, k - 1)>> \o ChunkFrom(files, k + 1, k, isz, B)
       ELSE ChunkFrom(files, k + 1, start, sz + isz, B)

Chunks(files, B) == ChunkFrom(files, 1, 1, 0, B)

\* gRPCChunkSender: stats-only result -> one message; otherwise one message per chunk with
\* the stats on the first one only
ChunkSend(res, B, nm) ==
  IF Len(res.files) = 0
  THEN <<[files |-> <<>>, stats |-> res.stats, hs |-> TRUE]>>
  ELSE LET ch == Chunks(res.files, B)
       IN [i \in 1..Len(ch) |-> [files |-> ch[i],
                                  stats |-> IF i = 1 THEN res.stats ELSE ZeroStats(nm),
                                  hs    |-> i = 1]]

RECURSIVE ChunkSendAll(_, _, _)
ChunkSendAll(fwd, B, nm) ==
  IF Len(fwd) = 0 THEN <<>> ELSE ChunkSend(Head(fwd), B, nm) \o ChunkSendAll(Tail(fwd), B, nm)

\* the whole pipeline for one producer event / for the final flush
PipeSend(sm, ev, N, B, nm) ==
  LET r == SamplerSend(sm, ev, N, nm) IN [sm |-> r.sm, msgs |-> ChunkSendAll(r.fwd, B, nm)]
PipeFlush(sm, B, nm) == ChunkSendAll(SamplerFlush(sm, nm), B, nm)

-----------------------------------------------------------------------------
(* what the property talks about *)
RECURSIVE SumSizesFrom(_, _)
SumSizesFrom(files, k) == IF k > Len(files) THEN 0 ELSE files[k][2] + SumSizesFrom(files, k + 1)
SumSizes(files) == SumSizesFrom(files, 1)

FileIds(files) == [i \in 1..Len(files) |-> files[i][1]]

RECURSIVE MsgFileIds(_)
MsgFileIds(msgs) == IF Len(msgs) = 0 THEN <<>> ELSE FileIds(Head(msgs).files) \o MsgFileIds(Tail(msgs))

RECURSIVE SumStats(_, _)
SumStats(xs, nm) ==   \* plain component-wise sum over a sequence of records with .stats
  IF Len(xs) = 0 THEN ZeroStats(nm)
  ELSE LET r == SumStats(Tail(xs), nm) IN [i \in DOMAIN nm |-> Head(xs).stats[i] + r[i]]

\* a message is within the budget unless it holds a single file (or none)
MsgWithinBudget(m, B) == Len(m.files) >= 2 => SumSizes(m.files) < B

IsPrefix(p, s) == Len(p) <= Len(s) /\ \A i \in DOMAIN p : p[i] = s[i]
=============================================================================
