--------------------------- MODULE DeltaOps ---------------------------
(* Pure operators for C13: what gitindex.IndexGitRepo leaves in the index directory for a   *)
(* normal build and for a delta build (gitindex/index.go: prepareNormalBuild,                 *)
(* prepareDeltaBuild; index/builder.go: Builder.Finish, IsDelta branch), and what a search    *)
(* restricted to one branch may then show (index/eval.go: FileTombstones).                    *)
(*                                                                                             *)
(* tree   : function  path -> content id (>= 1); a path not in the domain is absent           *)
(* heads  : function  git branch -> tree of its head commit                                   *)
(* vers   : function  git branch -> number of its head commit (stands for the commit hash)    *)
(* index  ix = [shards, brs, trees, vers, opt]                                                *)
(*   shards : sequence (shard number order) of [docs, tomb]                                   *)
(*            docs : set of [path, content, brs]  one document per (path, blob) with the set  *)
(*                   of branches it is on;  tomb : set of paths hidden in this shard          *)
(*   brs    : sequence of branch names the index was built for (order matters to the code)    *)
(*   trees  : branch -> tree that was indexed (the tree of Repository.Branches[i].Version)    *)
(*   vers   : branch -> version recorded in the shard metadata                                *)
(*   opt    : the option hash recorded (Repository.IndexOptions)                              *)
(* request req = [delta, brs, opt, thr]   thr = DeltaShardNumberFallbackThreshold (0 = off)   *)
(* ignore  ig  = [path, sem]  path of the ignore file ("" = none in play), sem[c] = sequence  *)
(*            of the paths an ignore file with content c excludes                             *)
EXTENDS Integers, Sequences, FiniteSets, TLC

ToSet(s) == {s[i] : i \in DOMAIN s}
NoFn == [x \in {} |-> 0]
At(t, p) == IF p \in DOMAIN t THEN t[p] ELSE 0

EmptyIx == [shards |-> <<>>, brs |-> <<>>, trees |-> NoFn, vers |-> NoFn, opt |-> 0]

\* ---------------------------------------------------------------- ignore file (normal builds)
Ignored(ig, t, p) ==
  /\ ig.path \in DOMAIN t
  /\ t[ig.path] \in DOMAIN ig.sem
  /\ p \in ToSet(ig.sem[t[ig.path]])

\* what a normal build indexes of a tree = what the statement calls the branch's content
Visible(ig, t) == [p \in {q \in DOMAIN t : ~Ignored(ig, t, q)} |-> t[p]]

\* ---------------------------------------------------------------- documents
\* keys <<path, content, branch>>  ->  one document per (path, content)
Group(keys) ==
  {[path |-> k[1], content |-> k[2],
    brs |-> {x[3] : x \in {y \in keys : y[1] = k[1] /\ y[2] = k[2]}}] : k \in keys}

KeysOf(t, b) == {<<p, t[p], b>> : p \in DOMAIN t}

\* prepareNormalBuild + Builder: one shard (ShardMax is never reached here), no tombstones,
\* every older shard and sidecar removed
FullShard(ig, heads, brs) ==
  [docs |-> Group(UNION {KeysOf(Visible(ig, heads[b]), b) : b \in ToSet(brs)}), tomb |-> {}]

Changed(old, new) == {p \in DOMAIN old \cup DOMAIN new : At(old, p) # At(new, p)}

\* ---------------------------------------------------------------- delta builds
\* when IndexGitRepo abandons the requested delta build (prepareDeltaBuild returns an error)
FallbackReason(ig, ix, heads, req) ==
  IF Len(ix.shards) = 0 THEN "no-index"
  ELSE IF req.thr > 0 /\ Len(ix.shards) > req.thr THEN "shard-threshold"
  ELSE IF ix.brs # req.brs THEN "branch-set"
  ELSE IF ix.opt # req.opt THEN "options"
  ELSE IF \E b \in ToSet(req.brs) : ig.path \in Changed(ix.trees[b], heads[b]) THEN "ignore-file"
  ELSE "none"

\* prepareDeltaBuild, per branch diff between the indexed tree and the head tree:
\*   added or modified path  -> the new version is added for that branch           (k1)
\*   modified or deleted path -> tombstoned in all older shards (tomb) and the current
\*                               version on EVERY branch is added again             (k2)
\* The ignore file is not consulted by the code today (named deviation DeltaIgnoreDeviates).
DeltaTomb(ix, heads, req) ==
  UNION {{p \in Changed(ix.trees[b], heads[b]) : p \in DOMAIN ix.trees[b]} : b \in ToSet(req.brs)}

\* ri = TRUE: the delta build applies each branch's (unchanged) ignore file like a normal
\* build does (proposed fix); ri = FALSE: the ignore file is not consulted (the code today)
DeltaKeys(ig, ri, ix, heads, req) ==
  LET B  == ToSet(req.brs)
      k1 == UNION {{<<p, heads[b][p], b>> :
                      p \in Changed(ix.trees[b], heads[b]) \cap DOMAIN heads[b]} : b \in B}
      tb == DeltaTomb(ix, heads, req)
      k2 == UNION {{<<p, heads[b][p], b>> : p \in tb \cap DOMAIN heads[b]} : b \in B}
  IN {k \in k1 \cup k2 : ~(ri /\ Ignored(ig, heads[k[3]], k[1]))}

\* Builder.Finish (IsDelta): tombstones go into every existing shard; a new shard is written
\* only when there is at least one document
DeltaShards(ig, ri, ix, heads, req) ==
  LET tb   == DeltaTomb(ix, heads, req)
      docs == Group(DeltaKeys(ig, ri, ix, heads, req))
      old  == [i \in DOMAIN ix.shards |-> [ix.shards[i] EXCEPT !.tomb = @ \cup tb]]
  IN IF docs = {} THEN old ELSE Append(old, [docs |-> docs, tomb |-> {}])

IsFull(ig, ix, heads, req) == ~req.delta \/ FallbackReason(ig, ix, heads, req) # "none"

Index(ig, ri, ix, heads, vers, req) ==
  [shards |-> IF IsFull(ig, ix, heads, req) THEN <<FullShard(ig, heads, req.brs)>>
              ELSE DeltaShards(ig, ri, ix, heads, req),
   brs    |-> req.brs,
   trees  |-> [b \in ToSet(req.brs) |-> heads[b]],
   vers   |-> [b \in ToSet(req.brs) |-> vers[b]],
   opt    |-> req.opt]

\* the delta build adds a document a normal build would have left out: an ignore file that
\* did not change excludes a path that was added or modified (prepareDeltaBuild only refuses
\* when the ignore file ITSELF is part of the diff)
DeltaIgnoreDeviates(ig, ri, ix, heads, req) ==
  /\ ~IsFull(ig, ix, heads, req)
  /\ \E k \in DeltaKeys(ig, ri, ix, heads, req) : Ignored(ig, heads[k[3]], k[1])

\* ---------------------------------------------------------------- what a branch search shows
\* live documents on branch b: <<shard number, document>>
LiveOn(ix, b) ==
  UNION {{<<i, d>> : d \in {x \in ix.shards[i].docs : b \in x.brs /\ x.path \notin ix.shards[i].tomb}}
         : i \in DOMAIN ix.shards}

\* the statement: exactly one live document per path of the branch's (visible) tree, with the
\* tree's content, nothing else; nothing at all for a branch that is not indexed
Wanted(ig, ix, b) == IF b \in ToSet(ix.brs) THEN Visible(ig, ix.trees[b]) ELSE NoFn

ViewOK(ig, ix, b) ==
  LET L == LiveOn(ix, b)
      w == Wanted(ig, ix, b)
  IN /\ \A x \in L : x[2].path \in DOMAIN w /\ w[x[2].path] = x[2].content
     /\ \A p \in DOMAIN w : Cardinality({x \in L : x[2].path = p}) = 1
=============================================================================
