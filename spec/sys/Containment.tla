---------------------------- MODULE Containment ----------------------------
(* C11: a corrupt shard file never takes the searcher down, and never changes what the     *)
(* other shards answer.                                                                     *)
(*                                                                                          *)
(* One serving process over a directory with healthy shards and one damaged shard.          *)
(* Outcome alphabet (the only things the process may do):                                   *)
(*   per shard      LoadOk, LoadErr  (LoadErr only for the damaged shard)                   *)
(*   per operation  SearchOk, SearchCrashContained (Stats.Crashes >= 1),                    *)
(*                  ListOk, ListCrashContained                                              *)
(* There is deliberately NO ProcessDied, Hang, RunawayAlloc or "operation failed" action:   *)
(* a recorded behaviour containing one is not a behaviour of this specification.            *)
(*                                                                                          *)
(* The damaged file comes from a model of the FILE LAYOUT (ShardLayout: the tagged sections *)
(* of index/toc.go with their kinds, the table of contents, the trailer; the .meta sidecar) *)
(* FaultClasses = part x position x mutation is what TLC enumerates as replay scripts.      *)
EXTENDS ContainmentOps, Json

CONSTANTS Healthy,     \* set of healthy shards
          Victim,      \* the damaged shard
          Queries,     \* set of queries
          MaxOps,      \* bound on the number of operations
          Emit

\* ------------------------------------------------------------------ the serving process
Shards == Healthy \cup {Victim}

\* what the healthy shards answer (one abstract result per shard and query) -- the baseline
Answer(s, q) == <<s, q>>
Baseline(q) == {Answer(s, q) : s \in Healthy}

VARIABLES fault,    \* the injected fault class (target "none" before injection)
          loaded,   \* shard -> "no" | "ok" | "err"
          hist      \* operations so far: [op, q, outcome, results]
vars == <<fault, loaded, hist>>

NoFault == [target |-> "none", section |-> "", part |-> "", pos |-> "", mut |-> ""]
Init == fault = NoFault /\ loaded = [s \in Shards |-> "no"] /\ hist = <<>>

Inject(c) == /\ fault = NoFault /\ fault' = c /\ UNCHANGED <<loaded, hist>>
             /\ (Emit => PrintT(<<"SCRIPT", ToJson(c)>>))

\* the layout the fault classes were generated from (the driver compares it with the files)
ASSUME Emit => PrintT(<<"LAYOUT", ToJson(ShardLayout)>>)

LoadOk(s)  == fault # NoFault /\ loaded[s] = "no" /\ loaded' = [loaded EXCEPT ![s] = "ok"] /\ UNCHANGED <<fault, hist>>
LoadErr(s) == fault # NoFault /\ s = Victim /\ loaded[s] = "no" /\ loaded' = [loaded EXCEPT ![s] = "err"] /\ UNCHANGED <<fault, hist>>

AllLoaded == \A s \in Shards : loaded[s] # "no"

\* a served victim contributes anything (or nothing); every healthy shard contributes its answer
Op(kind, q, outcome, extra) ==
  /\ AllLoaded /\ Len(hist) < MaxOps
  /\ hist' = Append(hist, [op |-> kind, q |-> q, outcome |-> outcome, results |-> Baseline(q) \cup extra])
  /\ UNCHANGED <<fault, loaded>>

SearchOk(q)             == \E x \in SUBSET {Answer(Victim, q)} : (x # {} => loaded[Victim] = "ok") /\ Op("search", q, "ok", x)
SearchCrashContained(q) == loaded[Victim] = "ok" /\ Op("search", q, "crash", {})
ListOk(q)               == \E x \in SUBSET {Answer(Victim, q)} : (x # {} => loaded[Victim] = "ok") /\ Op("list", q, "ok", x)
ListCrashContained(q)   == loaded[Victim] = "ok" /\ Op("list", q, "crash", {})

Next == \/ \E c \in FaultClasses : Inject(c)
        \/ \E s \in Shards : LoadOk(s) \/ LoadErr(s)
        \/ \E q \in Queries : SearchOk(q) \/ SearchCrashContained(q) \/ ListOk(q) \/ ListCrashContained(q)
Spec == Init /\ [][Next]_vars

\* the fault class does not influence what the process may do: fold it away
fold == <<fault # NoFault, loaded, hist>>

-----------------------------------------------------------------------------
HealthyPart(res) == {r \in res : r[1] \in Healthy}

\* in every state: what is attributed to the healthy shards is the baseline
Unaffected == \A k \in 1..Len(hist) : HealthyPart(hist[k].results) = Baseline(hist[k].q)
\* healthy shards are always served; only a served victim can crash an operation
HealthyServed == \A s \in Healthy : loaded[s] \in {"no", "ok"}
CrashOnlyFromVictim == \A k \in 1..Len(hist) : hist[k].outcome = "crash" => loaded[Victim] = "ok"
OutcomeAlphabet == /\ \A k \in 1..Len(hist) : hist[k].outcome \in OpOutcomes
                   /\ \A s \in Shards : loaded[s] \in {"no"} \cup LoadOutcomes
=============================================================================
