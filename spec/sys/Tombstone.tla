----------------------------- MODULE Tombstone -----------------------------
(* C17: state machine of repository tombstones on one compound shard, for model checking *)
(* and for generating replay scripts.                                                     *)
(*                                                                                         *)
(* state of the shard on disk:                                                             *)
(*   emb   tombstone flags embedded in the shard file (merge never writes a tombstoned     *)
(*         repository, so {} for a shard produced by index.Merge)                          *)
(*   side  [has, t]: whether the sidecar <shard>.meta exists and the tombstoned ids it     *)
(*         records; it takes precedence over emb on (re)load (read.go:parseMetadata)       *)
(*   tmp   number of temporary sidecar files lying around                                  *)
(* loaded  flags the currently loaded searcher works with (changes only by Reload)         *)
(* last    the last operation and what it reported                                         *)
(* The abstract corpus is fixed (C17Corpus below): the answer of each fixed query is a     *)
(* function of the live set, computed by TombstoneOps.                                     *)
EXTENDS TombstoneOps, Json

CONSTANTS MaxDepth,    \* bound on the number of Set/Unset operations
          Mode,        \* "mc": everything, no printing; "seq": every Set/Unset sequence of
                       \* length MaxDepth as a script; "fault": prefixes of length < MaxDepth,
                       \* one operation whose rename fails, then the same operation again
          Swallow      \* TRUE adds the deviation "rename failed but success reported"

VARIABLES emb, side, tmp, loaded, last, hist, lives
vars == <<emb, side, tmp, loaded, last, hist, lives>>

Ids == {1, 2, 3}          \* repositories the operations address
AllRepos == {1, 2, 3, 4}  \* repositories in the compound shard

Doc(n, ws) == [name |-> n, words |-> ws]
Entry(i, docs, ft) == [id |-> i, docs |-> docs, ft |-> ft, changed |-> <<>>]
C17Corpus == <<[repos |-> <<
   Entry(1, <<Doc("fa.txt", <<"alpha", "kilo">>), Doc("fb.txt", <<"bravo", "kilo">>)>>, <<>>),
   Entry(2, <<Doc("fa.txt", <<"alpha", "lima">>), Doc("dc/fd.go", <<"alpha">>), Doc("fe.md", <<"gamma">>)>>, <<"fe.md">>),
   Entry(3, <<Doc("fa.txt", <<"bravo", "delta">>), Doc("fg.c", <<"gamma">>)>>, <<>>),
   \* never operated on; all its paths are tombstoned: listed (when the query folds to TRUE)
   \* but never found
   Entry(4, <<Doc("fa.txt", <<"alpha", "bravo">>), Doc("fb.txt", <<"gamma">>)>>, <<"fa.txt", "fb.txt">>)>>]>>

Q(k, w, s, c) == [k |-> k, w |-> w, s |-> s, c |-> c]
C17Queries == <<
   Q("true", "", <<>>, <<>>),
   Q("sub", "alpha", <<>>, <<>>),
   Q("sub", "bravo", <<>>, <<>>),
   Q("sub", "zulu", <<>>, <<>>),
   Q("fname", "fa.txt", <<>>, <<>>),
   Q("repo", "", <<1>>, <<>>),
   Q("ids", "", <<2, 3>>, <<>>),
   Q("set", "", <<1, 3>>, <<>>),
   Q("and", "", <<>>, <<Q("repo", "", <<2>>, <<>>), Q("sub", "alpha", <<>>, <<>>)>>),
   Q("not", "", <<>>, <<Q("sub", "alpha", <<>>, <<>>)>>),
   Q("or", "", <<>>, <<Q("ids", "", <<1>>, <<>>), Q("sub", "gamma", <<>>, <<>>)>>),
   Q("trepo", "", <<>>, <<Q("sub", "bravo", <<>>, <<>>)>>),
   Q("and", "", <<>>, <<Q("trepo", "", <<>>, <<Q("sub", "gamma", <<>>, <<>>)>>), Q("sub", "alpha", <<>>, <<>>)>>),
   Q("repo", "", <<1, 2, 3, 4>>, <<>>),
   Q("ids", "", <<1, 4>>, <<>>)>>

Cx(t) == [D |-> C17Corpus, kind |-> "compound", tomb |-> <<t>>]

Eff == IF side.has THEN side.t ELSE emb          \* flags in force on disk
Ops == [op : {"set", "unset"}, id : Ids]

\* per-query answers as a function of the tombstoned set (what a reloaded searcher shows)
Answers(t) == [i \in DOMAIN C17Queries |-> DirAnswer(C17Queries[i], Cx(t))]
Lists(t)   == [i \in DOMAIN C17Queries |-> DirList(C17Queries[i], Cx(t))]

Table == [kind |-> "compound", shards |-> C17Corpus, queries |-> C17Queries,
          answers |-> {[tomb |-> SetToSeq(t), live |-> SetToSeq(AllRepos \ t),
                        files |-> Answers(t), repos |-> Lists(t)] : t \in SUBSET Ids}]

ASSUME Mode \in {"seq", "fault"} => PrintT(<<"TABLE", ToJson(Table)>>)

Init == /\ emb = {} /\ side = [has |-> FALSE, t |-> {}] /\ tmp = 0 /\ loaded = {}
        /\ last = [op |-> "none", id |-> 0, ok |-> TRUE, before |-> {}]
        /\ hist = <<>> /\ lives = <<>>

Record(o, fault) ==
  /\ hist' = Append(hist, [op |-> o.op, id |-> o.id, fault |-> fault])
  /\ lives' = Append(lives, SetToSeq(AllRepos \ Eff'))

\* SetTombstone / UnsetTombstone succeed: metadata in force read, flag changed, temporary
\* file written and renamed over the sidecar
Do(o) ==
  /\ side' = [has |-> TRUE, t |-> ApplyOp(Eff, Ids, o.op, o.id)]
  /\ last' = [op |-> o.op, id |-> o.id, ok |-> TRUE, before |-> Eff]
  /\ UNCHANGED <<emb, tmp, loaded>>
  /\ Record(o, FALSE)

\* the rename fails: the temporary file is removed, the sidecar is untouched, an error is
\* reported
RenameFails(o) ==
  /\ last' = [op |-> o.op, id |-> o.id, ok |-> FALSE, before |-> Eff]
  /\ UNCHANGED <<emb, side, tmp, loaded>>
  /\ Record(o, TRUE)

\* deviation (what index/tombstones.go does at the time of writing): same, but nil returned
RenameFailsSwallowed(o) ==
  /\ Swallow
  /\ last' = [op |-> o.op, id |-> o.id, ok |-> TRUE, before |-> Eff]
  /\ UNCHANGED <<emb, side, tmp, loaded>>
  /\ Record(o, TRUE)

Reload == /\ loaded' = Eff /\ UNCHANGED <<emb, side, tmp, last, hist, lives>>

NOps == Len(hist)
Faults == {i \in DOMAIN hist : hist[i].fault}

NextMC == \/ /\ NOps < MaxDepth
             /\ \E o \in Ops : Do(o) \/ RenameFails(o) \/ RenameFailsSwallowed(o)
          \/ Reload

NextSeq == /\ NOps < MaxDepth
           /\ \E o \in Ops : Do(o)
           /\ (NOps + 1 = MaxDepth => PrintT(<<"SCRIPT", ToJson([ops |-> hist', lives |-> lives'])>>))

\* prefix without faults, one failing operation, the same operation again
NextFault ==
  \/ /\ Faults = {} /\ NOps < MaxDepth - 1 /\ \E o \in Ops : Do(o)
  \/ /\ Faults = {} /\ NOps < MaxDepth /\ \E o \in Ops : RenameFails(o)
  \/ /\ Faults # {} /\ hist[NOps].fault
     /\ Do([op |-> hist[NOps].op, id |-> hist[NOps].id])
     /\ PrintT(<<"SCRIPT", ToJson([ops |-> hist', lives |-> lives'])>>)

Next == IF Mode = "mc" THEN NextMC ELSE IF Mode = "seq" THEN NextSeq ELSE NextFault

Spec == Init /\ [][Next]_vars

view == <<emb, side, tmp, loaded, last>>

-----------------------------------------------------------------------------
TypeOK == /\ emb \subseteq Ids /\ side.t \subseteq Ids /\ loaded \subseteq Ids
          /\ tmp = 0

\* an operation that reported success has taken effect (on the flags in force on disk)
OkMeansEffect ==
  last.ok => Eff = ApplyOp(last.before, Ids, last.op, last.id)

\* an operation that reported an error left the metadata as it was
ErrMeansNoChange == ~last.ok => Eff = last.before

\* only the addressed repository's flag can change
Isolated == \A j \in Ids : j # last.id => (j \in Eff <=> j \in last.before)

\* repeating any operation changes nothing more
Idempotent == \A o \in Ops : LET t1 == ApplyOp(Eff, Ids, o.op, o.id)
                             IN ApplyOp(t1, Ids, o.op, o.id) = t1

\* Unset after Set gives back the results (every query, files and listing) of before
Reversible == \A i \in Ids \ Eff :
                 LET t == ApplyOp(ApplyOp(Eff, Ids, "set", i), Ids, "unset", i)
                 IN Answers(t) = Answers(Eff) /\ Lists(t) = Lists(Eff)

\* nothing of a tombstoned repository or a tombstoned path in any answer
Hidden == \A i \in DOMAIN C17Queries :
            /\ \A x \in Answers(Eff)[i] : x[1] \notin Eff /\ x \notin {<<2, "fe.md">>, <<4, "fa.txt">>, <<4, "fb.txt">>}
            /\ Lists(Eff)[i] \cap Eff = {}

\* the loaded view changes only by reloading and then equals what is on disk
Persistent == [][loaded' # loaded => loaded' = Eff]_vars
=============================================================================
