---------------------------- MODULE DirArchive ----------------------------
(* C15.  Enumeration of small directory trees and small archives with the documents the     *)
(* indexers must produce (DirArchiveOps).  A scenario is chosen in Init (the whole product   *)
(* of the option groups below); the single action `Index` is the indexer run: it moves to    *)
(* the outcome the specification prescribes and prints the scenario as a replay script.      *)
EXTENDS DirArchiveOps, Json

CONSTANTS Mode,        \* "dir" | "archive"
          SizeMax,     \* index.Options.SizeMax used by the replay (bytes)
          MaxMembers,  \* archive mode: bound on the member list
          Scope,       \* dir mode: 2 = the whole product of the option groups, 1 = a slice of it
          Emit

\* ------------------------------------------------------------------ contents
Syn(id, size, nul) == [cid |-> id, size |-> size, nul |-> nul, lit |-> FALSE, text |-> <<>>]
Lit(text) == [cid |-> 0, size |-> 0, nul |-> FALSE, lit |-> TRUE, text |-> text]
Norm1 == Syn(1, 20, FALSE)
Empty0 == Syn(0, 0, FALSE)
Large2 == Syn(2, SizeMax + 1, FALSE)
AtMax6 == Syn(6, SizeMax, FALSE)
Bin3 == Syn(3, 12, TRUE)
Small4 == Syn(4, 2, FALSE)
Norm5 == Syn(5, 30, FALSE)
NoCd == Syn(0, 0, FALSE)

\* ------------------------------------------------------------------ names (code points)
pA    == <<97, 46, 116, 120, 116>>                          \* a.txt
pGit  == <<46, 103, 105, 116>>                              \* .git
pGitC == <<46, 103, 105, 116, 47, 99>>                      \* .git/c
pD    == <<100>>                                            \* d
pDB   == <<100, 47, 98, 46, 103, 111>>                      \* d/b.go
pDHg  == <<100, 47, 46, 104, 103>>                          \* d/.hg
pDHgE == <<100, 47, 46, 104, 103, 47, 101>>                 \* d/.hg/e
pE    == <<101>>                                            \* e
pL    == <<108>>                                            \* l
tUp   == <<46, 46>>                                         \* ..
tBgo  == <<98, 46, 103, 111>>                               \* b.go
tNo   == <<110, 111, 119, 104, 101, 114, 101>>              \* nowhere
tUpA  == <<46, 46, 47, 97, 46, 116, 120, 116>>              \* ../a.txt

IgnoreTexts == <<
  <<100, 10>>,                                              \* "d"            -> d**
  <<42, 46, 116, 120, 116, 10>>,                            \* "*.txt"
  <<100, 47, 42, 46, 103, 111, 10, 35, 32, 101, 10>>,       \* "d/*.go", "# e"
  <<42, 42, 47, 101, 10>>,                                  \* "**/e"
  <<47, 97, 46, 116, 120, 116, 10, 32, 32, 10>>,            \* "/a.txt", blank line
  <<63, 46, 116, 120, 116, 10>>,                            \* "?.txt"
  <<46, 103, 105, 116, 10>>,                                \* ".git"         (has a dot: exact)
  <<91, 97, 45, 99, 93, 46, 116, 120, 116, 10, 108, 10>>    \* "[a-c].txt", "l" -> l**
>>

F(p, cd) == [path |-> p, kind |-> "file", cd |-> cd]
D(p)     == [path |-> p, kind |-> "dir", cd |-> NoCd]
S(p, t)  == [path |-> p, kind |-> "symlink", cd |-> Lit(t)]

\* option groups of the directory universe: one option (a bundle of entries) or none per group
GroupA == {<<F(pA, c)>> : c \in {Norm1, Empty0, Large2, AtMax6, Bin3, Small4}}
GroupG == {<<D(pGit), F(pGitC, Norm1)>>, <<F(pGit, Norm1)>>, <<S(pGit, pD)>>}
GroupD == {<<D(pD), F(pDB, Norm1)>>, <<D(pD), S(pDB, tBgo)>>, <<S(pD, pA)>>, <<S(pD, tUp)>>,
           <<D(pD), D(pDHg), F(pDHgE, Norm5), F(pDB, Norm5)>>}
GroupS == {<<D(SgDir), F(SgIgnore, Lit(IgnoreTexts[k]))>> : k \in 1..Len(IgnoreTexts)}
          \cup {<<S(SgDir, pD)>>, <<D(SgDir), S(SgIgnore, tUpA)>>}
GroupE == {<<D(pE)>>}
GroupL == {<<S(pL, tNo)>>}
Opt(G) == G \cup {<<>>}
\* Scope 1: three of the contents, the empty directory and the dangling link always present
SliceA == {<<F(pA, c)>> : c \in {Norm1, Large2, Small4}}
Trees == IF Scope = 2
         THEN {a \o g \o d \o s \o e \o l : a \in Opt(GroupA), g \in Opt(GroupG), d \in Opt(GroupD),
                                            s \in Opt(GroupS), e \in Opt(GroupE), l \in Opt(GroupL)}
         ELSE {a \o g \o d \o s \o e \o l : a \in Opt(SliceA), g \in Opt(GroupG), d \in Opt(GroupD),
                                            s \in Opt(GroupS), e \in GroupE, l \in GroupL}

IgnoreDirs == {pGit, <<46, 104, 103>>, <<46, 115, 118, 110>>}     \* .git .hg .svn (the flag's default)

\* ------------------------------------------------------------------ archive universe
mRA   == <<114, 47, 97, 46, 116, 120, 116>>                 \* r/a.txt
mRDB  == <<114, 47, 100, 47, 98, 46, 103, 111>>             \* r/d/b.go
mR    == <<114>>                                            \* r
mTop  == <<116, 111, 112, 46, 116, 120, 116>>               \* top.txt
mRD   == <<114, 47, 100>>                                   \* r/d
mRL   == <<114, 47, 108>>                                   \* r/l
mRO   == <<114, 47, 111>>                                   \* r/o
mRS   == <<114, 47, 115>>                                   \* r/s
M(n, k, cd) == [name |-> n, kind |-> k, cd |-> cd]
MemberAlphabet == {M(mRA, "reg", Norm1), M(mRDB, "reg", Norm5), M(mR, "reg", Norm1), M(mTop, "reg", Empty0),
                   M(mR, "dir", NoCd), M(mRD, "dir", NoCd), M(mRL, "symlink", Lit(pA)),
                   M(mRA, "reg", Large2), M(mRO, "other", NoCd), M(mRS, "reg", Small4)}
MemberLists == UNION {[1..n -> MemberAlphabet] : n \in 0..MaxMembers}
Formats == {"tar", "tgz", "zip"}
Strips == 0..2

\* ------------------------------------------------------------------ state machine
VARIABLES sc, outcome
vars == <<sc, outcome>>

Init == /\ outcome = [kind |-> "none"]
        /\ IF Mode = "dir"
           THEN sc \in {[mode |-> "dir", entries |-> t] : t \in Trees}
           ELSE sc \in {[mode |-> "archive", members |-> m, format |-> f, strip |-> s] :
                          m \in MemberLists, f \in Formats, s \in Strips}

Expected == IF sc.mode = "dir" THEN DirDocs(sc.entries, IgnoreDirs, SizeMax)
            ELSE ArchDocs(sc.members, sc.strip, SizeMax)
Fates == IF sc.mode = "dir" THEN DirFates(sc.entries, IgnoreDirs)
         ELSE [i \in 1..Len(sc.members) |-> ArchFate(sc.members[i], sc.strip)]

Index == /\ outcome.kind = "none"
         /\ outcome' = [kind |-> "ok", docs |-> Expected]
         /\ UNCHANGED sc
         /\ (Emit => PrintT(<<"SCRIPT", ToJson([sc |-> sc, sizemax |-> SizeMax, expect |-> Expected, fates |-> Fates])>>))

Next == Index
Spec == Init /\ [][Next]_vars

-----------------------------------------------------------------------------
(* sanity of the prescription itself, in the words of the statement *)
Done == outcome.kind = "ok"
DocNames == {outcome.docs[i].name : i \in 1..Len(outcome.docs)}

\* dir: documents are regular files and symlinks of the tree, never anything below an ignored
\* directory name; every other file or symlink is there unless an ignore file is in force
DirSound == (Done /\ sc.mode = "dir") =>
  /\ \A n \in DocNames : EntryAt(sc.entries, n).kind \in {"file", "symlink"}
  /\ \A n \in DocNames : \A a \in Ancestors(n) : Base(a) \notin IgnoreDirs
  /\ DirPatterns(sc.entries) = <<>> =>
       \A i \in 1..Len(sc.entries) :
          LET e == sc.entries[i] IN
          (e.kind # "dir" /\ \A a \in Ancestors(e.path) : Base(a) \notin IgnoreDirs) => e.path \in DocNames
\* a symlink's document never shows anything but the link text (or a skip explanation)
LinkText == (Done /\ sc.mode = "dir") =>
  \A i \in 1..Len(outcome.docs) :
     LET d == outcome.docs[i] e == EntryAt(sc.entries, d.name) IN
     e.kind = "symlink" => (d.c = -1 /\ d.t = e.cd.text) \/ d.c \in {TooLarge, TooSmall}
\* archive: one document per regular member that keeps a name, in member order
ArchSound == (Done /\ sc.mode = "archive") =>
  /\ Len(outcome.docs) = Cardinality({i \in 1..Len(sc.members) : sc.members[i].kind = "reg"
                                        /\ StripComponents(sc.members[i].name, sc.strip) # <<>>})
  /\ \A i \in 1..Len(outcome.docs) : outcome.docs[i].name # <<>>
=============================================================================
