------------------------------ MODULE Sched ------------------------------
(* C20 state machine.  The variable mode is chosen in Init from the constant Modes:         *)
(*    "gen"   : every interleaving of the code's steps (SchedOps!StepP) with the            *)
(*              environment's commands, any waiter may be served                            *)
(*    "fifo"  : the same with the implementation's FIFO queues                              *)
(*    "macro" : the driver's view (FIFO): one command, then the code runs to quiescence.    *)
(*              With Emit it prints one schedule per explored transition: the command       *)
(*              history of the representative state + the command, each step with the       *)
(*              predicted observable state (who is parked, what was returned, free slots).  *)
(* Commands: acq(p) = p calls Acquire(ctx_p); yield(p) = p calls Yield(ctx_p) within its    *)
(* time slice; yieldx(p) = the slice is used up, then Yield; release(p) = p calls Release;  *)
(* cancel(p) = ctx_p is cancelled -- at any moment, also between the code's steps.          *)
EXTENDS SchedOps, Json

CONSTANTS N, CapI, CapB,
          MaxDepth,   \* bound on the number of commands in the modes "gen" and "fifo"
          MacroDepth, \* ... in mode "macro"
          Modes, Emit

VARIABLES st, hist, mode
vars == <<st, hist, mode>>

Fifo == mode # "gen"
Macro == mode = "macro"
P == 1..N
Cmds == {"acq", "yield", "yieldx", "release", "cancel"}

Init == st = InitSt(N, CapI, CapB) /\ hist = <<>> /\ mode \in Modes

Internal == /\ ~Macro
            /\ \E p \in P : \E t \in StepP(st, p, Fifo) : st' = t
            /\ UNCHANGED <<hist, mode>>

Cmd == /\ Len(hist) < (IF Macro THEN MacroDepth ELSE MaxDepth)
       /\ \E p \in P, c \in Cmds :
            /\ Can(st, c, p)
            /\ IF Macro THEN st' \in Settle(Do(st, c, p), Fifo) ELSE st' = Do(st, c, p)
            /\ hist' = Append(hist, [c |-> c, p |-> p, exp |-> Proj(st')])
       /\ UNCHANGED mode
       /\ ((Emit /\ Macro) => PrintT(<<"SCRIPT", ToJson([procs |-> N, capI |-> CapI, capB |-> CapB, steps |-> hist'])>>))

Next == Internal \/ Cmd
Spec == Init /\ [][Next]_vars

\* return values of finished processes are history; everything else matters
view == [mode |-> mode,
         st |-> [st EXCEPT !.ret = [p \in P |-> IF st.pc[p] \in {"done", "dead", "new"} THEN "none" ELSE st.ret[p]]]]

-----------------------------------------------------------------------------
InvBounded      == Bounded(st)
InvConserved    == Conserved(st)
InvHoldsNothing == HoldsNothingWhenOver(st)
InvFailsOnlyIfDone == FailsOnlyIfDone(st)
InvNoLostWakeup == NoLostWakeup(st, Fifo)
InvQueuesOK     == QueuesOK(st)
InvMacroQuiescent == Macro => Quiescent(st, Fifo)
\* when everybody is finished every slot is free again
InvNoLeak == (\A p \in P : st.pc[p] \in {"new", "done", "dead"}) => (st.cur.I = 0 /\ st.cur.B = 0)
\* FIFO only removes behaviours: each macro step is admissible under the general semantics
RefinesGeneral ==
  [][(Macro /\ hist' # hist) =>
       LET e == hist'[Len(hist')] IN st' \in Settle(Do(st, e.c, e.p), FALSE)]_vars
=============================================================================
