--------------------------- MODULE QueueOps ---------------------------
(* Pure operators: the sequential meaning of the indexserver's indexing queue          *)
(* (cmd/zoekt-sourcegraph-indexserver/queue.go).  One operator per public method, each  *)
(* the effect of that method's critical section (q.mu held).                             *)
(*                                                                                       *)
(* Abstract state  st = [items, seqc, mode]                                              *)
(*   items : function  tracked repository id -> item                                     *)
(*   item  : [oid, ver]  the options last given by AddOrUpdate (oid = 0, ver = 0 for an  *)
(*           item that was created by SetIndexed on an unknown id: zero IndexOptions),   *)
(*           indexed, failed (indexState = fail), onHeap, seq (FIFO tiebreak),           *)
(*           blocked (backoffUntil in the future)                                        *)
(*   mode  : "zero" (backoff disabled) or "hour" (a failure blocks until a success)      *)
EXTENDS Integers, Sequences, FiniteSets, TLC

NewItem == [oid |-> 0, ver |-> 0, indexed |-> FALSE, failed |-> FALSE,
            onHeap |-> FALSE, seq |-> 0, blocked |-> FALSE]

GetOrAdd(it, id) == IF id \in DOMAIN it THEN it ELSE it @@ (id :> NewItem)

Heap(it) == {i \in DOMAIN it : it[i].onHeap}

\* lessQueueItemPriority
Less(a, b) == IF a.indexed # b.indexed THEN ~a.indexed
              ELSE IF a.failed # b.failed THEN ~a.failed
              ELSE a.seq < b.seq

\* push unless backing off
PushIfAllowed(st, id) ==
  IF st.items[id].blocked THEN st
  ELSE [st EXCEPT !.items = [@ EXCEPT ![id].onHeap = TRUE, ![id].seq = st.seqc + 1],
                  !.seqc = @ + 1]

DoAdd(st, id, v) ==
  LET it1  == GetOrAdd(st.items, id)
      same == it1[id].oid = id /\ it1[id].ver = v
      it2  == IF same THEN it1
              ELSE [it1 EXCEPT ![id].indexed = FALSE, ![id].oid = id, ![id].ver = v]
      st2  == [st EXCEPT !.items = it2]
  IN [st |-> IF it2[id].onHeap THEN st2 ELSE PushIfAllowed(st2, id), reply |-> "none"]

MinOfHeap(it) == CHOOSE i \in Heap(it) : \A j \in Heap(it) \ {i} : Less(it[i], it[j])

DoPop(st) ==
  IF Heap(st.items) = {} THEN [st |-> st, reply |-> [ok |-> FALSE, oid |-> 0, ver |-> 0]]
  ELSE LET m == MinOfHeap(st.items)
       IN [st |-> [st EXCEPT !.items = [@ EXCEPT ![m].onHeap = FALSE]],
           reply |-> [ok |-> TRUE, oid |-> st.items[m].oid, ver |-> st.items[m].ver]]

RECURSIVE BumpFrom(_, _, _, _)
BumpFrom(st, ids, k, missing) ==
  IF k > Len(ids) THEN [st |-> st, reply |-> missing]
  ELSE LET id == ids[k] IN
       IF id \notin DOMAIN st.items THEN BumpFrom(st, ids, k + 1, Append(missing, id))
       ELSE IF st.items[id].onHeap THEN BumpFrom(st, ids, k + 1, missing)
       ELSE BumpFrom(PushIfAllowed(st, id), ids, k + 1, missing)

DoBump(st, ids) == BumpFrom(st, ids, 1, <<>>)

DoSetIndexed(st, id, v, ok) ==
  LET it1 == GetOrAdd(st.items, id)
      it2 == IF ok
             THEN [it1 EXCEPT ![id].indexed = (it1[id].oid = id /\ it1[id].ver = v),
                              ![id].failed = FALSE, ![id].blocked = FALSE]
             ELSE [it1 EXCEPT ![id].failed = TRUE, ![id].blocked = (st.mode = "hour"),
                              ![id].onHeap = FALSE]
  IN [st |-> [st EXCEPT !.items = it2], reply |-> "none"]

\* what the statement asks of "remove missing": afterwards exactly the ids in S are tracked
\* (of those that were), and the removed ones are reported.
DoRemoveMissing(st, S) ==
  LET keep == DOMAIN st.items \cap S
  IN [st |-> [st EXCEPT !.items = [i \in keep |-> st.items[i]]],
      reply |-> DOMAIN st.items \ S]

\* The documented heuristic of MaybeRemoveMissing: nothing happens when the number of ids
\* equals the number of tracked items.  It contradicts the statement when S # tracked
\* (recorded finding C30-F2); it is a named deviation, not part of DoRemoveMissing.
SameSizeSkip(st, S) == Cardinality(S) = Cardinality(DOMAIN st.items)
SkipDeviates(st, S) == SameSizeSkip(st, S) /\ S # DOMAIN st.items

ToSet(s) == {s[i] : i \in DOMAIN s}

\* op is a record with field "op" in {"add","pop","bump","set","remove"}
Apply(st, o) ==
  CASE o.op = "add"    -> DoAdd(st, o.id, o.ver)
    [] o.op = "pop"    -> DoPop(st)
    [] o.op = "bump"   -> DoBump(st, o.ids)
    [] o.op = "set"    -> DoSetIndexed(st, o.id, o.ver, o.ok)
    [] o.op = "remove" -> IF SameSizeSkip(st, ToSet(o.ids))
                          THEN [st |-> st, reply |-> {}]      \* what the code does
                          ELSE DoRemoveMissing(st, ToSet(o.ids))

InitSt(mode) == [items |-> <<>>, seqc |-> 0, mode |-> mode]

\* seq numbers only matter through the order they induce on the heap
Rank(it, i) == IF it[i].onHeap THEN Cardinality({j \in Heap(it) : it[j].seq < it[i].seq}) ELSE 0
Norm(it) == [i \in DOMAIN it |-> [it[i] EXCEPT !.seq = Rank(it, i)]]

\* order in which a drain would pop
RECURSIVE DrainOrder(_)
DrainOrder(it) == IF Heap(it) = {} THEN <<>>
                  ELSE LET m == MinOfHeap(it)
                       IN <<m>> \o DrainOrder([it EXCEPT ![m].onHeap = FALSE])
=============================================================================
