-------------------------- MODULE MergeContentOps --------------------------
(* Pure operators for C16: what merging shards into a compound shard and exploding a     *)
(* compound shard do to the content of an index directory (index/merge.go: merge,         *)
(* explode, addDocument; cmd/zoekt-merge-index).                                           *)
(*                                                                                         *)
(* abstract shard : [compound |-> BOOLEAN, repos |-> sequence of [id, tomb]]               *)
(*                  (order = order of the repositories inside the shard)                   *)
(* directory      : set of abstract shards                                                 *)
(* corpus         : nd[id] number of documents stored for repository id (documents at      *)
(*                  tombstoned paths count: merge copies them together with the            *)
(*                  FileTombstones), pr[id] its priority                                   *)
EXTENDS Integers, Sequences, FiniteSets, TLC

ToSet(s) == {s[i] : i \in DOMAIN s}

RECURSIVE Concat(_)
Concat(ss) == IF ss = <<>> THEN <<>> ELSE Head(ss) \o Concat(Tail(ss))

\* repositories a merge / explode carries over: live and with at least one document
\* ("TODO we are losing empty repos on merging", merge.go)
Carried(sh, nd) == SelectSeq(sh.repos, LAMBDA r : ~r.tomb /\ nd[r.id] > 0)
Clean(rs) == [i \in DOMAIN rs |-> [id |-> rs[i].id, tomb |-> FALSE]]

LiveIds(sh) == {sh.repos[i].id : i \in {i \in DOMAIN sh.repos : ~sh.repos[i].tomb}}
AllIds(sh)  == {sh.repos[i].id : i \in DOMAIN sh.repos}

\* merge.go sorts the inputs by the priority of their FIRST repository (tombstoned or not),
\* highest first; equal priorities may come in any order (sort.Slice)
FirstPrio(sh, pr) == IF sh.repos = <<>> THEN 0 ELSE pr[sh.repos[1].id]
NonIncreasing(ord, pr) == \A i \in 1..(Len(ord) - 1) : FirstPrio(ord[i], pr) >= FirstPrio(ord[i + 1], pr)

MergeInOrder(ord, nd) == [compound |-> TRUE,
                          repos |-> Clean(Concat([i \in DOMAIN ord |-> Carried(ord[i], nd)]))]

\* all orderings of a finite set as sequences
RECURSIVE Orders(_)
Orders(S) == IF S = {} THEN {<<>>}
             ELSE UNION {{<<x>> \o o : o \in Orders(S \ {x})} : x \in S}

\* the compound shards Merge(S) may produce
MergeResults(S, nd, pr) == {MergeInOrder(o, nd) : o \in {o \in Orders(S) : NonIncreasing(o, pr)}}

\* Explode(c): one simple shard per carried repository
ExplodeResults(c, nd) == {[compound |-> FALSE, repos |-> <<[id |-> r.id, tomb |-> FALSE]>>]
                          : r \in ToSet(Carried(c, nd))}

\* SetTombstone / UnsetTombstone(id) on a shard
Flag(sh, id, b) == [sh EXCEPT !.repos = [i \in DOMAIN sh.repos |->
                       IF sh.repos[i].id = id THEN [sh.repos[i] EXCEPT !.tomb = b] ELSE sh.repos[i]]]

\* what a search over the directory can show: live repositories; those with documents
Listed(dir)     == UNION {LiveIds(sh) : sh \in dir}
Searchable(dir, nd) == {id \in Listed(dir) : nd[id] > 0}

\* the directories an operation may lead to (a set: merge order may be free)
\* op = [op |-> "merge", shards |-> set of shards] | [op |-> "explode", shard |-> c]
\*    | [op |-> "tomb" / "untomb", shard |-> c, id |-> i]
After(dir, o, nd, pr) ==
  CASE o.op = "merge"   -> {(dir \ o.shards) \cup {m} : m \in MergeResults(o.shards, nd, pr)}
    [] o.op = "explode" -> {(dir \ {o.shard}) \cup ExplodeResults(o.shard, nd)}
    [] o.op = "tomb"    -> {(dir \ {o.shard}) \cup {Flag(o.shard, o.id, TRUE)}}
    [] o.op = "untomb"  -> {(dir \ {o.shard}) \cup {Flag(o.shard, o.id, FALSE)}}

\* repositories the operation drops for good (they were tombstoned or empty)
Dropped(o, nd) ==
  CASE o.op = "merge"   -> UNION {AllIds(sh) \ {r.id : r \in ToSet(Carried(sh, nd))} : sh \in o.shards}
    [] o.op = "explode" -> AllIds(o.shard) \ {r.id : r \in ToSet(Carried(o.shard, nd))}
    [] OTHER            -> {}
=============================================================================
