--------------------------- MODULE LocalSyncOps ---------------------------
(* Pure operators: the meaning of the zoekt-local-sync commands (cmd/zoekt-local-sync).   *)
(* C33 / C34.                                                                              *)
(*                                                                                         *)
(* World: two root directories  1 = "p/a", 2 = "q/b"  (paths relative to a scratch base;   *)
(* the base names of the roots are deliberately repository names) and the overlapping     *)
(* root 3 = "p/a/d" (the directory below root 1 that holds its nested repositories).      *)
(* repos : set of [r, k, n, h]   repository of kind k at root r with directory name n and  *)
(*         head commit h (1, 2, ...: the h-th commit of one linear history, so equal h =   *)
(*         equal commit id, as for clones of one upstream)                                 *)
(*         k = "top"  <root>/<n>        non-bare     discovered name n                     *)
(*         k = "bare" <root>/<n>.git    bare         discovered name n  (suffix trimmed)   *)
(*         k = "nest" <root>/d/<n>      non-bare     discovered name d/<n> (n via root 3)  *)
(*         k = "self" <root>            non-bare, n = base name of the root; hides every   *)
(*                                      other repository below that root (fs.SkipDir)      *)
(* index : set of [name, src, head]  one record per indexed repository (all its shards);   *)
(*         src = "" and head = 0 for a shard written by another tool ("foreign")          *)
EXTENDS Integers, Sequences, FiniteSets, TLC

RootPath(r) == CASE r = 1 -> "p/a" [] r = 2 -> "q/b" [] r = 3 -> "p/a/d" [] OTHER -> "?"
RootBase(r) == CASE r = 1 -> "a"   [] r = 2 -> "b"   [] r = 3 -> "d"     [] OTHER -> "?"

PathOf(p) == CASE p.k = "top"  -> RootPath(p.r) \o "/" \o p.n
               [] p.k = "bare" -> RootPath(p.r) \o "/" \o p.n \o ".git"
               [] p.k = "nest" -> RootPath(p.r) \o "/d/" \o p.n
               [] p.k = "self" -> RootPath(p.r)
               [] OTHER        -> "?"

At(repos, r, k, n) == {p \in repos : p.r = r /\ p.k = k /\ p.n = n}
ToSet(s) == {s[i] : i \in DOMAIN s}

-----------------------------------------------------------------------------
(* Environment.  a = [act, r, k, n, r2, k2, n2]  (unused fields 0 / "")                   *)
EnvOK(repos, index, a, maxRepos, maxHead) ==
  LET here == At(repos, a.r, a.k, a.n) IN
  CASE a.act = "add"     -> here = {} /\ Cardinality(repos) < maxRepos
    [] a.act = "del"     -> here # {}
    [] a.act = "rename"  -> here # {} /\ a.k # "self" /\ a.n2 # a.n /\ At(repos, a.r, a.k, a.n2) = {}
    [] a.act = "move"    -> here # {} /\ a.k # "self" /\ a.r2 # a.r /\ At(repos, a.r2, a.k, a.n) = {}
    [] a.act = "commit"  -> here # {} /\ \A p \in here : p.h < maxHead
    [] a.act = "clone"   -> here # {} /\ At(repos, a.r2, a.k2, a.n2) = {} /\ Cardinality(repos) < maxRepos
    [] a.act = "foreign" -> \A rec \in index : rec.name # a.n
    [] OTHER             -> FALSE

EnvApply(repos, index, a) ==
  LET here == At(repos, a.r, a.k, a.n)
      h    == IF here = {} THEN 1 ELSE (CHOOSE p \in here : TRUE).h
  IN
  CASE a.act = "add"     -> [repos |-> repos \cup {[r |-> a.r, k |-> a.k, n |-> a.n, h |-> 1]}, index |-> index]
    [] a.act = "del"     -> [repos |-> repos \ here, index |-> index]
    [] a.act = "rename"  -> [repos |-> (repos \ here) \cup {[r |-> a.r, k |-> a.k, n |-> a.n2, h |-> h]}, index |-> index]
    [] a.act = "move"    -> [repos |-> (repos \ here) \cup {[r |-> a.r2, k |-> a.k, n |-> a.n, h |-> h]}, index |-> index]
    [] a.act = "commit"  -> [repos |-> (repos \ here) \cup {[r |-> a.r, k |-> a.k, n |-> a.n, h |-> h + 1]}, index |-> index]
    [] a.act = "clone"   -> [repos |-> repos \cup {[r |-> a.r2, k |-> a.k2, n |-> a.n2, h |-> h]}, index |-> index]
    [] a.act = "foreign" -> [repos |-> repos,
                             index |-> {rec \in index : rec.name # a.n} \cup {[name |-> a.n, src |-> "", head |-> 0]}]
    [] OTHER             -> [repos |-> repos, index |-> index]

-----------------------------------------------------------------------------
(* Discovery (discover.go).  An item is what one root contributes: [name, src, head].     *)
Item(name, p) == [name |-> name, src |-> PathOf(p), head |-> p.h]

Visible(repos, root) ==
  IF root = 3
  THEN {Item(p.n, p) : p \in {q \in repos : q.r = 1 /\ q.k = "nest"}}
  ELSE LET here  == {p \in repos : p.r = root}
           selfs == {p \in here : p.k = "self"}
       IN IF selfs # {} THEN {Item(RootBase(root), p) : p \in selfs}
          ELSE {Item(IF p.k = "nest" THEN "d/" \o p.n ELSE p.n, p) : p \in here}

Found(repos, rs) == UNION {{[i |-> i, it |-> x] : x \in Visible(repos, rs[i])} : i \in DOMAIN rs}
Disc(repos, rs)  == {x.it : x \in Found(repos, rs)}

\* the command fails when two discovered repositories would get the same name, or when one
\* repository is discovered through two roots; with both present the code reports the one it
\* meets first, the specification accepts either
DiscErrs(repos, rs) ==
  LET F == Found(repos, rs) IN
  (IF \E x, y \in F : x # y /\ x.it.name = y.it.name THEN {"dup-name"} ELSE {}) \cup
  (IF \E x, y \in F : x # y /\ x.it.src = y.it.src THEN {"dup-src"} ELSE {})

-----------------------------------------------------------------------------
(* sync (main.go:runSync, index.go:planPrune/applyRemovals/indexRepositories)             *)
Key(x)  == [name |-> x.name, src |-> x.src]
Keys(S) == {Key(x) : x \in S}
NoAnn   == [remove |-> {}, index |-> {}, uptodate |-> {}]

\* planPrune: a shard stays iff its source is discovered under the same name
Keep(rec, disc)     == \E d \in disc : d.src = rec.src /\ d.name = rec.name
Pruned(index, disc) == {rec \in index : ~Keep(rec, disc)}

\* index.Options.IndexState as used here: the shard is found by *name*; equal iff the branch
\* versions are equal (the source recorded in the shard is not compared)
UpToDate(idx, disc) == {d \in disc : \E rec \in idx : rec.name = d.name /\ rec.head = d.head}

\* what -f does, in the order the code does it: removals first, then one incremental build
\* per discovered repository (a build replaces every shard of that name)
ApplySync(index, disc) ==
  LET rm   == Pruned(index, disc)
      idx1 == index \ rm
      utd  == UpToDate(idx1, disc)
      ix   == disc \ utd
  IN [index |-> {rec \in idx1 : \A d \in ix : d.name # rec.name} \cup ix,
      ann   |-> [remove |-> Keys(rm), index |-> Keys(ix), uptodate |-> Keys(utd)]]

\* the preview the property asks for: the build decision is taken against the index as it
\* will be after the announced removals
PreviewSync(index, disc) ==
  LET rm  == Pruned(index, disc)
      utd == UpToDate(index \ rm, disc)
  IN [remove |-> Keys(rm), index |-> Keys(disc \ utd), uptodate |-> Keys(utd)]

\* NAMED DEVIATION (finding C33-F1): the code takes the dry-run build decision against the
\* *unpruned* index directory, so a shard it has just announced for removal can make the
\* repository of the same name look up to date
CodePreviewSync(index, disc) ==
  LET rm  == Pruned(index, disc)
      utd == UpToDate(index, disc)
  IN [remove |-> Keys(rm), index |-> Keys(disc \ utd), uptodate |-> Keys(utd)]
StaleSameHead(index, disc) == \E d \in disc : \E rec \in Pruned(index, disc) : rec.name = d.name /\ rec.head = d.head

Fail(index, errs) == [ok |-> FALSE, errs |-> errs, ann |-> NoAnn, index |-> index]

RunSync(repos, index, rs, force) ==
  LET errs == DiscErrs(repos, rs)
      disc == Disc(repos, rs)
  IN IF errs # {} THEN Fail(index, errs)
     ELSE IF force THEN LET r == ApplySync(index, disc) IN [ok |-> TRUE, errs |-> {}, ann |-> r.ann, index |-> r.index]
     ELSE [ok |-> TRUE, errs |-> {}, ann |-> PreviewSync(index, disc), index |-> index]

-----------------------------------------------------------------------------
(* remove (index.go:selectRecords/removeRepositories).  selector s = [by, v]:             *)
(* by = "name": v is a repository name; by = "src": v is a source path (the driver passes *)
(* it absolute; "srcgit" = the same path with /.git appended, normalizeSource strips it)  *)
Match(index, s) ==
  IF s.by = "name" THEN {rec \in index : rec.name = s.v}
  ELSE {rec \in index : rec.src # "" /\ rec.src = s.v}

RunRemove(index, sels, force) ==
  LET errs == (IF \E i \in DOMAIN sels : Match(index, sels[i]) = {} THEN {"not-found"} ELSE {}) \cup
              (IF \E i \in DOMAIN sels : Cardinality(Match(index, sels[i])) > 1 THEN {"ambiguous"} ELSE {})
      sel  == UNION {Match(index, sels[i]) : i \in DOMAIN sels}
  IN IF errs # {} THEN Fail(index, errs)
     ELSE [ok |-> TRUE, errs |-> {}, ann |-> [remove |-> Keys(sel), index |-> {}, uptodate |-> {}],
           index |-> IF force THEN index \ sel ELSE index]

\* c = [op, force, roots, sels]
Run(repos, index, c) ==
  IF c.op = "sync" THEN RunSync(repos, index, c.roots, c.force)
  ELSE RunRemove(index, c.sels, c.force)

-----------------------------------------------------------------------------
(* what a command did, read off the index before and after (independent of Run)           *)
Delta(pre, post) ==
  [remove   |-> Keys({rec \in pre : \A x \in post : Key(x) # Key(rec)}),
   index    |-> Keys(post \ pre),
   uptodate |-> Keys(post \cap pre)]
=============================================================================
