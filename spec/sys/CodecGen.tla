----------------------------- MODULE CodecGen -----------------------------
(* C26: the structured input space for the decoders, enumerated by TLC.                  *)
(* One state per case: a small value of one of the three types is encoded (Codec.tla),   *)
(* then damaged: cut to every strict prefix, every count / length field replaced by      *)
(* {0, 1, actual-1, actual+1, 2^31, 2^62, 2^63, 2^64-1}, version byte replaced, bytes     *)
(* appended, a blob replaced by one the library refuses.  Each case is printed as a       *)
(* script for the real decoders (Emit).  The invariants are statements about the          *)
(* specification itself (Dec(Enc(v)) = v, no strict prefix of an encoding is an encoding, *)
(* an inflated item count is never an encoding, ...).                                     *)
EXTENDS Codec

CONSTANTS Emit,     \* TRUE: print one script per case
          Full      \* TRUE: the larger universe of values (thorough tier)

VARIABLE c
vars == <<c>>

\* strings are written as byte tuples
Sa  == <<97>>
Sbc == <<98, 99>>
SHEAD == <<72, 69, 65, 68>>
Sv1 == <<118, 49>>

\* sequences of elements of the tuple `elems`, of length <= n
RECURSIVE SeqsUpTo(_, _)
SeqsUpTo(elems, n) ==
  IF n = 0 THEN {<<>>}
  ELSE LET shorter == SeqsUpTo(elems, n - 1)
       IN shorter \cup {Append(s, elems[i]) : s \in {t \in shorter : Len(t) = n - 1}, i \in DOMAIN elems}

DistinctOnly(ss) == {s \in ss : Distinct(s)}

FnsElems == <<<<>>, Sa, Sbc>>
FnsValues == IF Full THEN DistinctOnly(SeqsUpTo(FnsElems, 3))
             ELSE {<<>>, <<Sa>>, <<Sbc, <<>>>>, <<Sa, <<>>, Sbc>>}

BrElems == << [b |-> <<>>, r |-> BlobNamed("empty")],
              [b |-> <<109>>, r |-> BlobNamed("one")],
              [b |-> <<100, 101, 118>>, r |-> BlobNamed("two")] >>
BrValues == IF Full THEN SeqsUpTo(BrElems, 2)
            ELSE {<<>>, <<BrElems[2]>>, <<BrElems[1], BrElems[3]>>}

T17 == FromInt(1700000000)
RmElems == << [id |-> FromInt(1),   sym |-> FALSE, t |-> Zero64,     br |-> <<>>],
              [id |-> FromInt(300), sym |-> TRUE,  t |-> FromInt(5), br |-> <<[n |-> SHEAD, v |-> Sv1]>>],
              [id |-> FromInt(2),   sym |-> TRUE,  t |-> T17,
               br |-> <<[n |-> SHEAD, v |-> <<>>], [n |-> Sbc, v |-> Sa]>>] >>
RmValues == IF Full THEN DistinctOnly(SeqsUpTo(RmElems, 2)) \cup {RmElems}
            ELSE {<<>>, <<RmElems[1]>>, <<RmElems[2]>>, <<RmElems[3], RmElems[1]>>}
NoTime(items) == [i \in DOMAIN items |-> [items[i] EXCEPT !.t = Zero64]]

\* the encodings to damage: [typ, v, toks]  (one set per type: TLC cannot compare values of
\* different shapes, so they are never put into one set)
Bases(typ) ==
  CASE typ = "FileNameSet"   -> {[typ |-> typ, v |-> v, toks |-> TokensFNS(v)] : v \in FnsValues}
    [] typ = "BranchesRepos" -> {[typ |-> typ, v |-> v, toks |-> TokensBR(v)] : v \in BrValues}
    [] typ = "ReposMap"      -> {[typ |-> typ, v |-> v, toks |-> TokensRM(v, 2)] : v \in RmValues}
                                \cup {[typ |-> typ, v |-> NoTime(v), toks |-> TokensRM(NoTime(v), 1)] : v \in RmValues}

CountKinds == {"count", "total", "bcount"}
LenKinds   == {"len", "bloblen"}

\* <<name, value>> substitutes for a field whose actual value is a (an integer < 2^31 - 1)
Subst(a) ==
  {<<"zero", FromInt(0)>>, <<"one", FromInt(1)>>, <<"plus1", FromInt(a + 1)>>, <<"2^31", Two31>>,
   <<"2^62", Two62>>, <<"2^63", Two63>>, <<"2^64-1", Max64>>}
  \cup (IF a >= 1 THEN {<<"minus1", FromInt(a - 1)>>} ELSE {})

SubstClass(a, x) == IF IsSmall(x) THEN (IF ToInt(x) < a THEN "deflated" ELSE "inflated")
                    ELSE IF x[8] >= 128 THEN "wrapped" ELSE "inflated"

Case(base, cls, kind, sub, bytes) ==
  [typ |-> base.typ, cls |-> cls, kind |-> kind, sub |-> sub, bytes |-> bytes, v |-> base.v]

ReplaceTok(toks, i, b) == [toks EXCEPT ![i] = Tok(toks[i].k, b)]

CasesOf(base) ==
  LET toks == base.toks
      enc  == Flatten(toks)
  IN {Case(base, "valid", "none", "none", enc)}
     \cup {Case(base, "prefix", "none", "none", SubSeq(enc, 1, k)) : k \in 0..(Len(enc) - 1)}
     \cup UNION {
            LET a == Clip(ReadUv(toks[i].b, 1).val) IN
            {Case(base, SubstClass(a, s[2]), toks[i].k, s[1], Flatten(ReplaceTok(toks, i, UvarintEnc(s[2]))))
               : s \in {x \in Subst(a) : x[2] # FromInt(a)}}
          : i \in {j \in DOMAIN toks : toks[j].k \in CountKinds \cup LenKinds}}
     \cup {Case(base, "version", "ver", "none", Flatten(ReplaceTok(toks, 1, <<x>>))) : x \in {0, 3, 255}}
     \cup (IF base.typ = "ReposMap"
           THEN {Case(base, "verswap", "ver", "none", Flatten(ReplaceTok(toks, 1, <<3 - toks[1].b[1]>>)))}
           ELSE {})
     \cup {Case(base, "trailing", "none", "none", enc \o x) : x \in {<<0>>, <<255>>, <<1, 97>>}}
     \cup UNION {
            {Case(base, "badblob", "blob", "none",
                  Flatten(ReplaceTok(ReplaceTok(toks, i, bad), i - 1, Uv(Len(bad))))) : bad \in BadBlobs}
          : i \in {j \in DOMAIN toks : toks[j].k = "blob"}}

Init == c = [typ |-> "none"]

Next == /\ c.typ = "none"
        /\ \E typ \in Types : \E base \in Bases(typ) : \E x \in CasesOf(base) :
             /\ c' = x
             /\ (Emit => PrintT(<<"SCRIPT", ToJson([typ |-> x.typ, cls |-> x.cls, kind |-> x.kind,
                                                     sub |-> x.sub, bytes |-> x.bytes])>>))

Spec == Init /\ [][Next]_vars

-----------------------------------------------------------------------------
IsCase == c.typ # "none"
O == Outcome(c.typ, c.bytes)

\* Dec(Enc(v)) = v for both ReposMap versions
InvRoundTrip == IsCase /\ c.cls = "valid" => O.k = "value" /\ SameValue(c.typ, O.v, c.v)
\* the current encoder's output is recognised as such (version 2 for ReposMap)
InvIsEncoding == IsCase /\ c.cls = "valid" /\ (c.typ = "ReposMap" => c.bytes[1] = 2)
                   => IsEncodingOf(c.typ, c.bytes, c.v)
\* no strict prefix of an encoding is an encoding (except: the empty string is the nil ReposMap)
InvPrefix == IsCase /\ c.cls = "prefix" =>
               \/ O.k = "error"
               \/ c.typ = "ReposMap" /\ c.bytes = <<>> /\ O.k = "value" /\ O.v = <<>>
\* an item count that announces more items than there are is never an encoding
InvCount == IsCase /\ c.kind = "count" /\ c.cls \in {"inflated", "wrapped"} => O.k = "error"
\* a total / count larger than the number of bytes that follow is never an encoding
InvHuge == IsCase /\ c.kind \in CountKinds \cup LenKinds /\ c.sub \in {"2^31", "2^62", "2^63", "2^64-1"}
             => O.k = "error"
InvVersion == IsCase /\ c.cls = "version" => O.k = "error"
InvBadBlob == IsCase /\ c.cls = "badblob" => O.k = "error"
=============================================================================
