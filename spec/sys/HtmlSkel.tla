----------------------------- MODULE HtmlSkel -----------------------------
(* C36.  Page-structure acceptors of the web UI (web/templates.go): one regular expression   *)
(* per template over HTML tokens.  A token (as logged by the driver) is                        *)
(*    [k, tag, an, ad, cls, ...]   k: "S" start tag, "E" end tag, "T" text, "C" comment          *)
(*                                 an: attribute names, ad: attributes that carry data         *)
(*                                 cls: "data" for a text that carries data, else "static"      *)
(* Patterns:  S(tag, static attrs, data attrs, optional data attrs), E(tag),                    *)
(*            T = static text (no value of the index or the request),  D = text slot,           *)
(*            TR(tag) / DR(tag) the same inside title/script/style (raw text).                  *)
(* {{range}} is Star, {{if}} is Opt/Alt.  An injected element or attribute is a token the     *)
(* expression has no transition for; a value in a static position is a "data" token at T.       *)
EXTENDS Integers, Sequences, FiniteSets

ToSet(s) == {s[i] : i \in DOMAIN s}

\* ---- patterns and expressions
S(tag, sa, da, oa) == [t |-> "tok", k |-> "S", tag |-> tag, sa |-> sa, da |-> da, oa |-> oa, d |-> FALSE]
S0(tag) == S(tag, {}, {}, {})
Sc(tag) == S(tag, {"class"}, {}, {})
E(tag) == [t |-> "tok", k |-> "E", tag |-> tag, sa |-> {}, da |-> {}, oa |-> {}, d |-> FALSE]
T == [t |-> "tok", k |-> "T", tag |-> "", sa |-> {}, da |-> {}, oa |-> {}, d |-> FALSE]
D == [t |-> "tok", k |-> "T", tag |-> "", sa |-> {}, da |-> {}, oa |-> {}, d |-> TRUE]
TR(tag) == [T EXCEPT !.tag = tag]
DR(tag) == [D EXCEPT !.tag = tag]
Cat(rs) == [t |-> "seq", rs |-> rs]
Alt(rs) == [t |-> "alt", rs |-> rs]
Star(r) == [t |-> "star", r |-> r]
Opt(r) == [t |-> "opt", r |-> r]

Match(p, x) ==
  /\ p.k = x.k /\ p.tag = x.tag
  /\ p.k = "S" => /\ p.sa \cup p.da \subseteq ToSet(x.an)
                  /\ ToSet(x.an) \subseteq p.sa \cup p.da \cup p.oa
                  /\ ToSet(x.ad) \subseteq p.da \cup p.oa
  /\ p.k = "T" => (x.cls = "data" => p.d)

\* ---- matcher: from a set of start positions to the set of end positions (and the furthest
\* position any partial match reached, for diagnostics)
Max(a, b) == IF a > b THEN a ELSE b
MaxOf(P, z) == IF P = {} THEN z ELSE CHOOSE m \in P : \A q \in P : q <= m
RECURSIVE M(_, _, _), SeqM(_, _, _, _), StarM(_, _, _, _, _)
M(re, toks, P) ==
  CASE re.t = "tok"  -> LET ends == {i + 1 : i \in {j \in P : j <= Len(toks) /\ Match(re, toks[j])}}
                        IN [ends |-> ends, far |-> MaxOf(P \cup ends, 0)]
    [] re.t = "seq"  -> SeqM(re.rs, 1, toks, [ends |-> P, far |-> MaxOf(P, 0)])
    [] re.t = "alt"  -> LET rs == {M(re.rs[i], toks, P) : i \in DOMAIN re.rs}
                        IN [ends |-> UNION {r.ends : r \in rs}, far |-> MaxOf({r.far : r \in rs}, 0)]
    [] re.t = "opt"  -> LET r == M(re.r, toks, P) IN [ends |-> P \cup r.ends, far |-> r.far]
    [] re.t = "star" -> StarM(re.r, toks, P, P, MaxOf(P, 0))
SeqM(rs, k, toks, acc) ==
  IF k > Len(rs) \/ acc.ends = {} THEN acc
  ELSE LET r == M(rs[k], toks, acc.ends) IN SeqM(rs, k + 1, toks, [ends |-> r.ends, far |-> Max(acc.far, r.far)])
StarM(r, toks, frontier, visited, far) ==
  IF frontier = {} THEN [ends |-> visited, far |-> far]
  ELSE LET x == M(r, toks, frontier)
           new == x.ends \ visited
       IN StarM(r, toks, new, visited \cup new, Max(far, x.far))

-----------------------------------------------------------------------------
\* web/templates.go, template by template
PageHead == Cat(<<S0("html"), S0("head"), S("meta", {"charset"}, {}, {}), S("meta", {"content", "http-equiv"}, {}, {}),
              S("meta", {"content", "name"}, {}, {}), S("link", {"crossorigin", "href", "integrity", "rel"}, {}, {}),
              S0("style"), TR("style"), E("style"), E("head")>>)
JsDep == Cat(<<S("script", {"src"}, {}, {}), E("script"), S("script", {"crossorigin", "integrity", "src"}, {}, {}), E("script")>>)
Footer == Cat(<<S("a", {"class", "href"}, {}, {}), T, E("a")>>)
EmptySpan == Cat(<<Sc("span"), E("span")>>)
\* "searchbox": value={{.Query}} only if there is a query
SearchBox == Cat(<<S("form", {"action"}, {}, {}), Sc("div"), Sc("div"),
                   S("input", {"autofocus", "class", "id", "name", "placeholder", "type"}, {}, {"value"}),
                   Sc("div"), Sc("button"), T, E("button"), E("div"), E("div"), E("div"), E("form")>>)
NumInput == S("input", {"class", "id", "name", "type", "value"}, {}, {})
NavBar == Cat(<<Sc("nav"), Sc("div"), Sc("div"), S("a", {"class", "href"}, {}, {}), T, E("a"),
                S("button", {"aria-expanded", "class", "data-target", "data-toggle", "type"}, {}, {}),
                Sc("span"), T, E("span"), EmptySpan, EmptySpan, EmptySpan, E("button"), E("div"),
                S("div", {"aria-expanded", "class", "id", "style"}, {}, {}), S("form", {"action", "class"}, {}, {}), Sc("div"),
                S("input", {"autofocus", "class", "id", "name", "placeholder", "role", "type"}, {}, {"value"}),
                Sc("div"), Sc("div"), T, E("div"), NumInput, E("div"),
                Sc("div"), Sc("div"), T, E("div"), NumInput, E("div"),
                Sc("button"), T, E("button"),
                Opt(S("input", {"id", "name", "type", "value"}, {}, {})),          \* {{if .Debug}}
                E("div"), E("form"), E("div"), E("div"), E("nav"),
                S0("script"), TR("script"), E("script")>>)
BottomNav(par) == Cat(<<Sc("nav"), Sc("div"), Footer, Sc("p"), par, E("p"), E("div"), E("nav")>>)

\* one line number of the context:  <span class="noselect"><u>n</u>:</span>
LineNo == Cat(<<Sc("span"), S0("u"), T, E("u"), T, E("span")>>)
ResultMatch ==
  Cat(<<S0("tr"), S("td", {"style"}, {}, {}), Sc("pre"), S("p", {"style"}, {}, {}),
        Star(LineNo),
        Sc("span"), Alt(<<Cat(<<S("a", {}, {}, {"href"}), S0("u"), T, E("u"), E("a")>>), Cat(<<S0("u"), T, E("u")>>)>>), T, E("span"),
        Star(LineNo), E("p"), E("pre"), E("td"),
        S("td", {"style"}, {}, {}), Sc("pre"), S("p", {"style"}, {}, {}), Opt(D), E("p"),
        Star(Alt(<<D, Cat(<<S0("b"), D, E("b")>>)>>)),                             \* {{range .Fragments}}
        S("p", {"style"}, {}, {}), Opt(D), E("p"),
        Opt(Cat(<<S0("i"), D, E("i")>>)),                                         \* {{if .ScoreDebug}}
        E("pre"), E("td"), E("tr"),
        E("tbody")>>)                                                              \* (inside {{range .Matches}} in the template)
FileMatch ==
  Cat(<<Sc("table"), S0("thead"), S0("tr"), S("th", {"colspan"}, {}, {}),
        Alt(<<Cat(<<S("a", {"class"}, {}, {"name"}), E("a"), S("a", {}, {}, {"href"})>>),    \* {{if .URL}}
              S("a", {}, {}, {"name"})>>),
        S0("small"), D, Opt(Cat(<<S0("i"), D, E("i")>>)), E("a"), T,
        S("span", {"style"}, {}, {}), T, Star(Cat(<<Sc("span"), D, E("span"), T>>)), E("span"),
        Opt(Cat(<<S("button", {"class"}, {}, {"onclick", "title"}), D, E("button"), E("span")>>)),   \* {{if .Language}}
        Opt(Cat(<<S("a", {"class"}, {}, {"href"}), T, E("a")>>)),                  \* {{if .DuplicateID}}
        E("small"), E("th"), E("tr"), E("thead"),
        Opt(Cat(<<S0("tbody"), Star(ResultMatch)>>)),
        E("table")>>)
Results ==
  Cat(<<PageHead, S0("title"), DR("title"), E("title"), S0("script"), DR("script"), E("script"),
        S("body", {"id"}, {}, {}), NavBar, Sc("div"), S0("h5"),
        Opt(Cat(<<S0("br"), S0("b"), T, E("b"), S0("br")>>)),                     \* {{if .Stats.Crashes}}
        T, Opt(Cat(<<S("a", {"rel"}, {}, {"href"}), T, E("a"), T>>)), E("h5"),
        Star(FileMatch),
        BottomNav(T), E("div"), JsDep, E("body"), E("html")>>)

SortLinks == Star(Cat(<<S("a", {}, {}, {"href"}), T, E("a")>>))
RepoBranch == Alt(<<Cat(<<S0("tt"), S("a", {"class"}, {}, {"href"}), D, E("a"), E("tt")>>), D>>)
RepoRow == Cat(<<S0("tr"), S0("td"), Opt(S("a", {}, {}, {"href"})), D, Opt(E("a")), E("td"),
                 S0("td"), S0("small"), T, E("small"), E("td"),
                 S("td", {"style"}, {}, {}), Star(RepoBranch), E("td"),
                 S0("td"), S0("small"), T, E("small"), E("td"),
                 S0("td"), S0("small"), T, E("td"), E("tr")>>)
RepoList ==
  Cat(<<PageHead, S("body", {"id"}, {}, {}), Sc("div"), NavBar, S0("div"), S0("b"), T, E("b"), E("div"),
        Sc("table"), S0("thead"), S0("tr"), Star(Cat(<<S0("th"), T, SortLinks, E("th")>>)), E("tr"), E("thead"),
        S0("tbody"), Star(RepoRow), E("tbody"), E("table"), E("div"),
        BottomNav(Cat(<<>>)), JsDep, E("body"), E("html")>>)

PrintLine == Cat(<<S("pre", {"class", "id"}, {}, {}), Sc("span"), S("a", {"href"}, {}, {}), T, E("a"), T, E("span"), Opt(D), E("pre")>>)
PrintPage ==
  Cat(<<PageHead, S0("title"), DR("title"), E("title"), S("body", {"id"}, {}, {}), NavBar,
        Sc("div"), S0("div"), S0("b"), D, E("b"), E("div"),
        S("div", {"class", "style"}, {}, {}), Star(PrintLine), E("div"),
        BottomNav(Cat(<<>>)), E("div"), JsDep, E("body"), E("html")>>)

Example == Cat(<<S0("dt"), S("a", {"href"}, {}, {}), T, E("a"), Opt(E("span")), E("dt"), S0("dd"), T, E("dd")>>)
Examples == Cat(<<Sc("div"), S0("h3"), T, E("h3"), Sc("dl"), Star(Example), E("dl"), E("div")>>)
Search ==
  Cat(<<PageHead, S0("title"), TR("title"), E("title"), S0("body"), Sc("div"), Sc("div"), SearchBox, E("div"), E("div"),
        Sc("div"), Sc("div"), Examples, Examples, E("div"), E("div"),
        BottomNav(T), E("body"), E("html")>>)
About ==
  Cat(<<PageHead, S0("title"), TR("title"), E("title"), S0("body"), Sc("div"), Sc("div"), SearchBox, E("div"), E("div"),
        Sc("div"), S0("p"), T, S("a", {"href"}, {}, {}), S0("em"), T, E("em"), T, E("a"), T, E("p"),
        S0("p"), Opt(Cat(<<S0("em"), T, E("em")>>)), T, E("p"), S0("p"), T, E("p"), E("div"),
        BottomNav(Cat(<<>>))>>)

Grammar(tmpl) ==
  CASE tmpl = "results"  -> Results
    [] tmpl = "repolist" -> RepoList
    [] tmpl = "print"    -> PrintPage
    [] tmpl = "search"   -> Search
    [] tmpl = "about"    -> About
Accepts(tmpl, toks) == (Len(toks) + 1) \in M(Grammar(tmpl), toks, {1}).ends
Furthest(tmpl, toks) == M(Grammar(tmpl), toks, {1}).far
=============================================================================
