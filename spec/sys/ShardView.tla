----------------------------- MODULE ShardView -----------------------------
(* C09: small-scope model of "build a shard, read it back".                                *)
(* State: the list of documents handed to the builder so far and the build path.  One      *)
(* action per document added (Builder.Add / ShardBuilder.Add); the readback of the state   *)
(* is View(docs) (ShardViewOps).  TLC                                                       *)
(*   M: checks the specification's own properties of the view in every state,              *)
(*   R: prints one replay script per explored transition: the document list with the       *)
(*      predicted view.                                                                     *)
(* The state space is folded by VIEW to the sequence of skip classes, so every sequence of *)
(* classes is explored while every document over the alphabet is emitted as a last         *)
(* document of some script.                                                                 *)
EXTENDS ShardViewOps, Json

CONSTANTS Alphabet,    \* code points, including 0 (NUL) and a multi-byte one
          MaxLen,      \* contents have 0..MaxLen code points
          MaxDocs,
          SizeMax, TrigramMax,
          Paths,       \* subset of {"shard", "builder", "merge"}
          Emit

VARIABLES docs, path
vars == <<docs, path>>

Contents == UNION {[1..k -> Alphabet] : k \in 0..MaxLen}
NameA == <<97, 46, 116, 120, 116>>                      \* "a.txt"
NameBig == <<98, 105, 103, 46, 98, 105, 110>>           \* "big.bin"
Names == {NameA, NameBig}
BranchSets == {<<"main">>, <<"dev", "main">>}

Opts == [sizeMax |-> SizeMax, trigramMax |-> TrigramMax, hash |-> "",
         large |-> <<[neg |-> FALSE, kind |-> "exact", arg |-> NameBig]>>]
Desc == [name |-> "tlc/repo", branches |-> <<[n |-> "main", v |-> "main-v0"], [n |-> "dev", v |-> "dev-v1"]>>,
         subrepos |-> <<>>]
MarkSum == [r \in Reasons |-> r]

Via == IF path = "shard" THEN "shard" ELSE "builder"
Doc(nm, c, br) == [kind |-> "text", name |-> nm, content |-> c, branches |-> br, crc |-> "given", syms |-> <<>>]

\* the abstract view of the written shard
ViewDoc(d) == LET st == Stored(d, Opts, Via, MarkSum) IN
              [name |-> d.name, content |-> st.content, branches |-> OrderedBranches(Desc, d),
               reason |-> st.reason, sum |-> st.crc]
View == [k \in 1..Len(docs) |-> ViewDoc(docs[k])]

Init == docs = <<>> /\ path \in Paths

Add(nm, c, br) ==
  /\ Len(docs) < MaxDocs
  /\ docs' = Append(docs, Doc(nm, c, br))
  /\ UNCHANGED path
  /\ (Emit => LET ds == docs' IN
              PrintT(<<"SCRIPT", ToJson([path |-> path, sizeMax |-> SizeMax, trigramMax |-> TrigramMax,
                        large |-> Opts.large,
                        docs |-> [k \in 1..Len(ds) |-> [name |-> ds[k].name, content |-> ds[k].content, branches |-> ds[k].branches]],
                        view |-> [k \in 1..Len(ds) |-> LET st == Stored(ds[k], Opts, Via, MarkSum) IN
                                    [name |-> ds[k].name, content |-> st.content, reason |-> st.reason,
                                     branches |-> OrderedBranches(Desc, ds[k])]]])>>))

Next == \E nm \in Names, c \in Contents, br \in BranchSets : Add(nm, c, br)
Spec == Init /\ [][Next]_vars

Class(d) == <<SkipDecision(d, Opts, Via), Len(d.content) = 0>>
fold == <<path, [k \in 1..Len(docs) |-> Class(docs[k])]>>

-----------------------------------------------------------------------------
\* every document is present, in the bag sense, with its name and branch set
AllPresent == /\ Len(View) = Len(docs)
              /\ \A k \in 1..Len(docs) : View[k].name = docs[k].name /\ SeqToSet(View[k].branches) = SeqToSet(docs[k].branches)

\* the content is the content as given, or -- exactly for the rejected documents -- the explanation
ContentOrExplanation ==
  \A k \in 1..Len(docs) :
     LET r == SkipDecision(docs[k], Opts, Via) IN
     /\ r \in Reasons \cup {"none"}
     /\ (r = "none" => View[k].content = docs[k].content /\ View[k].sum = "given")
     /\ (r # "none" => View[k].content = Marker(r) /\ View[k].sum = r /\ View[k].content # docs[k].content)

\* no NUL byte is ever stored
NoNulStored == \A k \in 1..Len(docs) : ~HasNul(View[k].content)

\* the ShardBuilder path knows one reason only; the Builder path decides in the documented order
ShardPathOnlyBinary == path = "shard" => \A k \in 1..Len(docs) : View[k].reason \in {"none", "binary"}
DecisionOrder ==
  path # "shard" => \A k \in 1..Len(docs) :
     LET d == docs[k] sz == ByteLen(d.content) r == View[k].reason IN
     /\ (sz > SizeMax /\ d.name # NameBig => r = "large")
     /\ (d.name = NameBig => r # "large")
     /\ (r = "small" => sz \in {1, 2})
     /\ (r = "trigrams" => NTri(d.content) > TrigramMax /\ ~HasNul(d.content) /\ d.name # NameBig)
     /\ (r = "none" /\ sz > 0 => sz >= 3 /\ ~HasNul(d.content))

\* a content of s bytes has at most s - 2 distinct trigrams: the bound used for contents that
\* are not interpreted as text (and by DocChecker.Check as a shortcut) is sound
TrigramBound == \A k \in 1..Len(docs) : LET c == docs[k].content IN
                   NTri(c) <= (IF ByteLen(c) > 2 THEN ByteLen(c) - 2 ELSE 0)
=============================================================================
