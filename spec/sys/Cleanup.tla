----------------------------- MODULE Cleanup -----------------------------
(* C32.  State machine of the indexserver's periodic cleanup over an abstract index         *)
(* directory: one action per phase of cleanup.go:cleanup (in the code's order), run twice    *)
(* (the second time with any assigned set, later or at the same time).  The initial states   *)
(* are ALL abstract directories for two repository ids (decoded from the numbers in Sel)     *)
(* x all assigned sets x shardMerging.  With Emit, one record per explored cleanup is        *)
(* printed (directory before, parameters, predicted directory after, violated clauses);      *)
(* a replay script is an initial directory with its first cleanup and all second cleanups.   *)
EXTENDS CleanupOps, Json

CONSTANTS Sel,     \* initial-state numbers (subset of 0..NInit-1) given as an explicit set ...
          Lo, Hi,  \* ... plus the range Lo..Hi (a cfg file cannot hold an expression)
          Advs,    \* hours between first and second cleanup, e.g. {0, 25}
          Fix,     \* FALSE: the code as it is; TRUE: with the proposed patch
          Emit     \* TRUE: print one record per explored cleanup

VARIABLES cs, pc, pre, run
vars == <<cs, pc, pre, run>>

Ids == {1, 2}
ASets == << {}, {1}, {2}, {1, 2} >>
NM == << <<"r1", "r1x">>, <<"a2", "a2x">> >>                       \* name, name after a rename
FN == << << <<"r1.0", "r1.1">>, <<"r1x.0", "r1x.1">> >>,
         << <<"a2.0", "a2.1">>, <<"a2x.0", "a2x.1">> >> >>
IdxMt == -5

Simple(l, r, x, k, mt) == [l |-> l, f |-> FN[r][x][k], mt |-> mt, mf |-> FALSE,
                           mem |-> {[id |-> r, nm |-> NM[r][x], tb |-> FALSE]}]

\* simple shards in the index: none | one | two | two with different repository names
NSimple == 4
SimpleSet(r, s) == CASE s = 0 -> {}
                     [] s = 1 -> {Simple("i", r, 1, 1, IdxMt)}
                     [] s = 2 -> {Simple("i", r, 1, 1, IdxMt), Simple("i", r, 1, 2, IdxMt)}
                     [] s = 3 -> {Simple("i", r, 1, 1, IdxMt), Simple("i", r, 2, 1, IdxMt)}
\* membership in the compound shard: none | alive | alive under the other name | tombstoned
NCmp == 4
CmpMem(r, c) == CASE c = 0 -> {}
                  [] c = 1 -> {[id |-> r, nm |-> NM[r][1], tb |-> FALSE]}
                  [] c = 2 -> {[id |-> r, nm |-> NM[r][2], tb |-> FALSE]}
                  [] c = 3 -> {[id |-> r, nm |-> NM[r][1], tb |-> TRUE]}
\* trash: none | fresh | older than 24 h | future mtime | exactly 24 h | two fresh | fresh + old
NTrash == 7
TrashSet(r, t) == CASE t = 0 -> {}
                    [] t = 1 -> {Simple("t", r, 1, 1, -1)}
                    [] t = 2 -> {Simple("t", r, 1, 1, -25)}
                    [] t = 3 -> {Simple("t", r, 1, 1, 1)}
                    [] t = 4 -> {Simple("t", r, 1, 1, -24)}
                    [] t = 5 -> {Simple("t", r, 1, 1, -1), Simple("t", r, 1, 2, -1)}
                    [] t = 6 -> {Simple("t", r, 1, 1, -1), Simple("t", r, 1, 2, -25)}

PerId == NSimple * NCmp * NTrash
NInit == PerId * PerId * 4 * 2

RepoFiles(r, c) == SimpleSet(r, c % NSimple) \cup TrashSet(r, c \div (NSimple * NCmp))
RepoCmp(r, c)   == CmpMem(r, (c \div NSimple) % NCmp)

\* initial state number k -> directory and parameters.  *.tmp files do not interact with
\* anything else (last phase, separate glob): present in every other directory.
Decode(k) ==
  LET m  == k % 2 = 1
      A  == ASets[((k \div 2) % 4) + 1]
      c2 == (k \div 8) % PerId
      c1 == (k \div (8 * PerId)) % PerId
      cm == RepoCmp(1, c1) \cup RepoCmp(2, c2)
      d  == RepoFiles(1, c1) \cup RepoFiles(2, c2) \cup
            (IF cm = {} THEN {}
             ELSE {[l |-> "i", f |-> CMP, mt |-> IdxMt, mf |-> \E e \in cm : e.tb, mem |-> cm]})
  IN [d |-> d, tmp |-> (c1 + c2 + k) % 2, A |-> A, m |-> m]

AsSeq(S) == SetToSortSeq(S, LAMBDA a, b : a < b)

\* one record per explored cleanup (printed when its last phase is taken): directory before,
\* parameters, predicted directory after, and the clauses of the statement this violates.
\* checks/c32.py joins a first cleanup with the second cleanups that start from its result.
Record(after) == [run |-> run, d0 |-> pre.d, t0 |-> pre.tmp, a |-> AsSeq(cs.A), now |-> cs.now,
                  m |-> cs.m, d1 |-> after.d, t1 |-> after.tmp,
                  viol |-> Viol(pre.d, after.d, cs.A, cs.now)]

-----------------------------------------------------------------------------
Init == \E k \in Sel \cup (Lo..Hi) :
          LET c == Decode(k) IN
          /\ cs = Start(c.d, c.tmp, c.A, 0, c.m, Fix)
          /\ pre = [d |-> c.d, tmp |-> c.tmp]
          /\ pc = "scan" /\ run = 1

DoScan    == pc = "scan" /\ cs' = Scan(cs) /\ pc' = "purge" /\ UNCHANGED <<pre, run>>
DoPurge   == pc = "purge" /\ (\E o \in {"asc", "desc"} : cs' = Purge(cs, o)) /\ pc' = "tombs" /\ UNCHANGED <<pre, run>>
DoTombs   == pc = "tombs" /\ cs' = DropTombs(cs) /\ pc' = "incons" /\ UNCHANGED <<pre, run>>
DoIncons  == pc = "incons" /\ (\E o \in {"asc", "desc"} : cs' = Incons(cs, o)) /\ pc' = "restore" /\ UNCHANGED <<pre, run>>
DoRestore == pc = "restore" /\ cs' = Restore(cs) /\ pc' = "trash" /\ UNCHANGED <<pre, run>>
DoTrash   == pc = "trash" /\ (\E o \in {"asc", "desc"} : cs' = TrashAll(cs, o)) /\ pc' = "tmp" /\ UNCHANGED <<pre, run>>
DoTmp     == /\ pc = "tmp" /\ cs' = RemoveTmp(cs) /\ pc' = "done" /\ UNCHANGED <<pre, run>>
             /\ (Emit => PrintT(<<"SCRIPT", ToJson(Record(cs'))>>))

\* the next periodic cleanup: any assigned set, Advs hours later
Again == /\ pc = "done" /\ run = 1
         /\ \E a2 \in SUBSET Ids, adv \in Advs :
              cs' = Start(cs.d, cs.tmp, a2, cs.now + adv, cs.m, Fix)
         /\ pre' = [d |-> cs.d, tmp |-> cs.tmp]
         /\ pc' = "scan" /\ run' = 2

Next == DoScan \/ DoPurge \/ DoTombs \/ DoIncons \/ DoRestore \/ DoTrash \/ DoTmp \/ Again
Spec == Init /\ [][Next]_vars

-----------------------------------------------------------------------------
Allowed(V) == IF Fix THEN V = {} ELSE \A v \in V : Known(v)

UniqueNames == \A x, y \in cs.d : (x.l = y.l /\ x.f = y.f) => x = y

\* (1) in every intermediate state: no shard of an assigned, consistently named repository has
\* left the index
AssignedKept == Allowed(Viol1(pre.d, cs.d, cs.A))
\* (4) in every intermediate state: nothing fresh and unconflicted has left the trash for good
PurgeOnlyOldOrConflict == Allowed(Viol4(pre.d, cs.d, cs.now))
\* (1)-(4) over (before, after) of a whole cleanup
Clauses == pc = "done" => Allowed(Viol(pre.d, cs.d, cs.A, cs.now))
\* the clauses without the allowance: violated exactly by the known deviation (for the notes)
ClausesStrict == pc = "done" => Viol(pre.d, cs.d, cs.A, cs.now) = {}
\* the result does not depend on the iteration order of the maps, and is what scripts predict
OrderIndependent ==
  pc = "done" => [d |-> cs.d, tmp |-> cs.tmp] = Run(pre.d, pre.tmp, cs.A, cs.now, cs.m, Fix, "asc")
TmpGone == pc = "done" => cs.tmp = 0
=============================================================================
