--------------------------- MODULE CtagsOps ---------------------------
(* C37.  Pure operators: the meaning of index/ctags.go:tagsToSections.Convert, written as  *)
(* the fold it is, and the properties its output must have so that                        *)
(* index.ShardBuilder.Add accepts it.                                                     *)
(*                                                                                        *)
(*   content : Text (sequence of code points); byte offsets are derived with Text.tla      *)
(*   entry   : [line : Int, name : Text]    (a ctags entry: 1-based line and symbol name)  *)
(*   range   : [s, e, k]   byte range [s, e) that was derived from entry number k         *)
(*                                                                                        *)
(* Lines: a line is ended by a newline; a last line without newline counts; what follows   *)
(* a final newline is not a line (ctags never reports it; Convert drops such entries).     *)
EXTENDS Text

\* rune positions (1-based) of the newlines, ascending
NLSeq(c) == LET RECURSIVE F(_, _)
                F(i, acc) == IF i > Len(c) THEN acc
                             ELSE F(i + 1, IF c[i] = 10 THEN Append(acc, i) ELSE acc)
            IN F(1, <<>>)

NumLines(c, nl) == Len(nl) + (IF Len(c) > 0 /\ c[Len(c)] # 10 THEN 1 ELSE 0)

\* rune positions lo..hi of the text of line n (without its newline); hi = lo - 1 for an empty line
LineLo(nl, n) == IF n = 1 THEN 1 ELSE nl[n - 1] + 1
LineHi(c, nl, n) == IF n <= Len(nl) THEN nl[n] - 1 ELSE Len(c)

\* first rune position p in lo..hi+1 with c[p .. p+Len(name)-1] = name inside lo..hi, or 0
FirstOcc(c, lo, hi, name) ==
  LET m == Len(name)
      ok(p) == p + m - 1 <= hi /\ \A j \in 1..m : c[p + j - 1] = name[j]
      cand == {p \in lo..(hi + 1) : ok(p)}
  IN IF cand = {} THEN 0 ELSE CHOOSE p \in cand : \A q \in cand : p <= q

\* two byte ranges conflict when they share a byte, or one is empty and lies strictly inside
\* the other (an empty range at either end of another one does not conflict)
Conflict(s, e, r) == s < r.e /\ r.s < e

\* "placing" an entry: where its name is, or why it has no place
Place(c, nl, boff, ent) ==
  IF ent.line < 1 \/ ent.line > NumLines(c, nl) THEN [why |-> "badline", s |-> 0, e |-> 0]
  ELSE LET lo == LineLo(nl, ent.line)
           hi == LineHi(c, nl, ent.line)
           p  == FirstOcc(c, lo, hi, ent.name)
       IN IF p = 0 THEN [why |-> "noname", s |-> 0, e |-> 0]
          ELSE [why |-> "ok", s |-> boff[p], e |-> boff[p + Len(ent.name)]]

InsertAt(acc, pos, x) == SubSeq(acc, 1, pos - 1) \o <<x>> \o SubSeq(acc, pos, Len(acc))

\* one step of the fold: st = [acc, why]; acc sorted, why[k] = fate of entry k
FoldStep(c, nl, boff, st, k, ent) ==
  LET pl == Place(c, nl, boff, ent) IN
  IF pl.why # "ok" THEN [acc |-> st.acc, why |-> Append(st.why, pl.why)]
  ELSE IF \E i \in 1..Len(st.acc) : Conflict(pl.s, pl.e, st.acc[i])
       THEN [acc |-> st.acc, why |-> Append(st.why, "overlap")]
  ELSE LET pos == Cardinality({i \in 1..Len(st.acc) : st.acc[i].e <= pl.s}) + 1
       IN [acc |-> InsertAt(st.acc, pos, [s |-> pl.s, e |-> pl.e, k |-> k]),
           why |-> Append(st.why, "ok")]

RECURSIVE FoldFrom(_, _, _, _, _, _)
FoldFrom(c, nl, boff, st, ents, k) ==
  IF k > Len(ents) THEN st
  ELSE FoldFrom(c, nl, boff, FoldStep(c, nl, boff, st, k, ents[k]), ents, k + 1)

Convert(c, ents) == FoldFrom(c, NLSeq(c), BOffSeq(c), [acc |-> <<>>, why |-> <<>>], ents, 1)

-----------------------------------------------------------------------------
(* Properties of an output `out` (sequence of ranges) for content c and entries ents.     *)
(* They are stated on the output alone, not on the fold, and are what the statement asks. *)
Sorted(out)     == \A i \in 1..(Len(out) - 1) : out[i].s <= out[i + 1].s
NonOverlap(out) == \A i \in 1..(Len(out) - 1) : out[i].e <= out[i + 1].s
Inside(out, size) == \A i \in 1..Len(out) : 0 <= out[i].s /\ out[i].s <= out[i].e /\ out[i].e <= size
KnownEntries(out, ents) == /\ \A i \in 1..Len(out) : out[i].k \in 1..Len(ents)
                           /\ \A i, j \in 1..Len(out) : i # j => out[i].k # out[j].k
\* the bytes of the range are the name, the range lies on the entry's line, and it is the
\* first occurrence of the name on that line
NameOnLine(c, nl, boff, r, ent) ==
  /\ SubText(c, boff, r.s, r.e) = ent.name
  /\ ent.line >= 1 /\ ent.line <= NumLines(c, nl)
  /\ LET lo == LineLo(nl, ent.line) hi == LineHi(c, nl, ent.line)
     IN /\ boff[lo] <= r.s /\ r.e <= boff[hi + 1]
        /\ LET p == FirstOcc(c, lo, hi, ent.name) IN p # 0 /\ r.s = boff[p]
AllNameOnLine(c, out, ents) ==
  LET nl == NLSeq(c) boff == BOffSeq(c)
  IN \A i \in 1..Len(out) : out[i].k \in 1..Len(ents) => NameOnLine(c, nl, boff, out[i], ents[out[i].k])
\* dropped entries are exactly those with a bad line, a name that is not on the line, or a
\* conflict with a range accepted earlier
DroppedExactly(out, why) ==
  {out[i].k : i \in 1..Len(out)} = {k \in 1..Len(why) : why[k] = "ok"}

\* what ShardBuilder.Add requires of the symbol ranges of a document
Acceptable(out, size) == Sorted(out) /\ NonOverlap(out) /\ Inside(out, size)
=============================================================================
