--------------------------- MODULE ZoektSeqOps ---------------------------
(* Pure operators: the sequential (operation-level) meaning of what zoekt-sourcegraph-       *)
(* indexserver does to one index directory.  One operator per operation, written after the   *)
(* code it stands for; every operator returns the SET of states the operation may lead to    *)
(* (a singleton except where the code depends on directory order, see Vacuum / Cleanup).     *)
(* fx = FALSE: the code as it is; fx = TRUE: with the patch proposed in NOTES/SYS.md.        *)
(*                                                                                            *)
(*   IndexOp    index.Builder.Finish with Options.ShardMerging (index/builder.go: FindAllShards,*)
(*              rename of the new shard, SetTombstone on the compound shard that held r)      *)
(*   MergeOp    Server.merge (cmd/zoekt-sourcegraph-indexserver/merge.go: loadCandidates,     *)
(*              isExcluded, pickCandidates) + zoekt-merge-index merge (main.go: merge,        *)
(*              index/merge.go: Merge, merge)                                                 *)
(*   VacuumOp   Server.vacuum (cleanup.go): removeTombstones = `zoekt-merge-index merge c`    *)
(*              (min = 0) or `zoekt-merge-index explode c` = index.Explode (min = 1)          *)
(*   CleanupOp  cleanup(indexDir, assigned, now, shardMerging) (cleanup.go)                   *)
(*   Assign / Unassign / Tick / Crash   the environment                                       *)
(*                                                                                            *)
(* State  s = [d, tmp, A, clk, last]                                                          *)
(*   d    set of shard files                                                                  *)
(*        [l, k, nm, mt, mf, mem, raw]                                                        *)
(*          l   "i" index directory | "t" .trash                                              *)
(*          k   "s" simple (<repository name>_v16.00000.zoekt) | "c" compound-<sha1>_v17...   *)
(*          nm  what the file name says: <<r>> for a simple shard; for a compound shard the   *)
(*              sequence of repository ids whose names were hashed into the name by           *)
(*              index.Merge (the live members at the time it was written, in their order)     *)
(*          mt  mtime in hours (kept for trashed files only, 0 in the index directory)        *)
(*          mf  a ".meta" sidecar exists                                                      *)
(*          mem what every reader sees (ReadMetadata: the sidecar if there is one):           *)
(*              sequence of [id, ver, tb]                                                     *)
(*          raw what the shard itself holds, position by position: [id, ver, cv]              *)
(*              ver = version in the embedded metadata, cv = version of the documents         *)
(*   tmp  number of "*.tmp" files in the index directory                                      *)
(*   A    assigned repositories;  clk  logical clock in hours                                 *)
(*   last last[r] = version of the last index run of r (0 = never): ghost, kept by the driver *)
EXTENDS Integers, Sequences, FiniteSets, TLC, SequencesExt

Day == 24
NDocs(r) == IF r = 2 THEN 2 ELSE 1          \* the driver gives repository 2 two documents

Pos(f)   == DOMAIN f.mem

Idx(d)   == {f \in d : f.l = "i"}
Trash(d) == {f \in d : f.l = "t"}
Named(d, l, k, nm) == {f \in d : f.l = l /\ f.k = k /\ f.nm = nm}

AliveIn(f, r) == \E p \in Pos(f) : f.mem[p].id = r /\ ~f.mem[p].tb
TombIn(f, r)  == \E p \in Pos(f) : f.mem[p].id = r /\ f.mem[p].tb
AliveRepos(S) == UNION {{f.mem[p].id : p \in {q \in Pos(f) : ~f.mem[q].tb}} : f \in S}
Members(f)    == {f.mem[p].id : p \in Pos(f)}
\* a shard file without any repository cannot be read (ErrEmptyShard): neither loaded nor
\* seen by getShards / getTombstonedRepos / isExcluded / removeTombstones
Readable(f) == Len(f.mem) > 0

Simple(l, r, mt, ver, cv) ==
  [l |-> l, k |-> "s", nm |-> <<r>>, mt |-> mt, mf |-> FALSE,
   mem |-> <<[id |-> r, ver |-> ver, tb |-> FALSE]>>, raw |-> <<[id |-> r, ver |-> ver, cv |-> cv]>>]

\* index.SetTombstone / UnsetTombstone: the sidecar is rewritten from what ReadMetadataPath
\* returns (= the old sidecar if there is one) with the flag of every entry of r changed
SetTomb(f, r, b) ==
  [f EXCEPT !.mf = TRUE,
            !.mem = [p \in DOMAIN @ |-> IF @[p].id = r THEN [@[p] EXCEPT !.tb = b] ELSE @[p]]]

RECURSIVE Concat(_)
Concat(ss) == IF ss = <<>> THEN <<>> ELSE Head(ss) \o Concat(Tail(ss))

RECURSIVE Perms(_)
Perms(S) == IF S = {} THEN {<<>>} ELSE UNION {{<<x>> \o p : p \in Perms(S \ {x})} : x \in S}

-----------------------------------------------------------------------------
(* what a searcher that loads the index directory shows: per repository the number of        *)
(* (shard, position) pairs in which it is alive, the versions their metadata claims and the   *)
(* versions of the documents found.  *.tmp files and the trash are not loaded.                *)
Occ(d, r) == {<<f, p>> \in UNION {{<<g, q>> : q \in Pos(g)} : g \in Idx(d)} :
                f.mem[p].id = r /\ ~f.mem[p].tb}
VisibleRepos(d) == AliveRepos(Idx(d))
ListVers(d, r) == {o[1].mem[o[2]].ver : o \in Occ(d, r)}
DocVers(d, r)  == {o[1].raw[o[2]].cv : o \in Occ(d, r)}

\* the view as the driver records it: [id, n, lv, docs, cv] (lv: one of the claimed versions)
ViewOK(vis, d) ==
  /\ {v.id : v \in vis} = VisibleRepos(d)
  /\ \A v \in vis : /\ v.n = Cardinality(Occ(d, v.id))
                    /\ v.lv \in ListVers(d, v.id)
                    /\ v.docs = v.n * NDocs(v.id)
                    /\ v.cv = DocVers(d, v.id)
  /\ \A v, w \in vis : v.id = w.id => v = w
ViewOf(d) == {[id |-> r, n |-> Cardinality(Occ(d, r)),
               lv |-> CHOOSE x \in ListVers(d, r) : \A y \in ListVers(d, r) : x >= y,
               docs |-> Cardinality(Occ(d, r)) * NDocs(r), cv |-> DocVers(d, r)] : r \in VisibleRepos(d)}

-----------------------------------------------------------------------------
(* Index(r, v): Builder.Finish.  oldShards = FindAllShards(): the simple shard of r if a file *)
(* of that name exists, otherwise the first compound shard (Glob order = order of the sha1    *)
(* names: any) in which r is alive.  The new shard is renamed over the simple shard; a        *)
(* compound shard in oldShards is not deleted: r is tombstoned in it (ShardMerging).          *)
IndexOp(s, r, v) ==
  LET d     == s.d
      new   == Simple("i", r, 0, v, v)
      mine  == Named(d, "i", "s", <<r>>)
      comps == {f \in Idx(d) : f.k = "c" /\ Readable(f) /\ AliveIn(f, r)}
      base  == (d \ mine) \cup {new}
      s1    == [s EXCEPT !.last = [@ EXCEPT ![r] = v]]
  IN IF mine # {} \/ comps = {} THEN {[s1 EXCEPT !.d = base]}
     ELSE {[s1 EXCEPT !.d = (base \ {c}) \cup {SetTomb(c, r, TRUE)}] : c \in comps}

-----------------------------------------------------------------------------
(* index.Merge over the inputs `ins` (sorted by the priority of their first repository, here  *)
(* = its id, highest first): the live repositories in that order; metadata as the readers saw *)
(* it (through the sidecars), documents as they are.  The name hashes the live names.         *)
FirstId(f) == IF f.mem = <<>> THEN 0 ELSE f.mem[1].id
ByPrio(S)  == SetToSortSeq(S, LAMBDA a, b : FirstId(a) > FirstId(b))
Carried(f) == LET live == SelectSeq([p \in Pos(f) |-> p], LAMBDA p : ~f.mem[p].tb)
              IN [i \in DOMAIN live |-> [id |-> f.mem[live[i]].id, ver |-> f.mem[live[i]].ver, cv |-> f.raw[live[i]].cv]]
Merged(ins) ==
  LET ord == ByPrio(ins)
      es  == Concat([i \in DOMAIN ord |-> Carried(ord[i])])
  IN [l |-> "i", k |-> "c", nm |-> [i \in DOMAIN es |-> es[i].id], mt |-> 0, mf |-> FALSE,
      mem |-> [i \in DOMAIN es |-> [id |-> es[i].id, ver |-> es[i].ver, tb |-> FALSE]],
      raw |-> es]

(* zoekt-merge-index merge: write <dst>.tmp, remove the inputs with their sidecars, rename    *)
(* the temporary file to dst.  If another compound shard of that name exists it is replaced   *)
(* by the rename - and ITS sidecar now belongs to the new shard (nothing removes it).         *)
(* (Proposed patch, fx: remove <dst>.meta before the rename.)                                 *)
Clash(d, ins, new) == Named(d \ ins, "i", "c", new.nm)
Install(d, ins, new, fx) ==
  LET d1 == d \ ins
      x  == Clash(d, ins, new)
  IN IF x = {} \/ fx THEN (d1 \ x) \cup {new}
     ELSE LET o == CHOOSE f \in x : TRUE
          IN (d1 \ x) \cup {[new EXCEPT !.mf = o.mf, !.mem = IF o.mf THEN o.mem ELSE new.mem]}

(* Server.merge: candidates = *.zoekt files of the index directory whose metadata can be read *)
(* and lists exactly one repository (tombstoned or not: compound shards with one member       *)
(* qualify); the driver sets targetSizeBytes to the total size of the candidates, so that     *)
(* pickCandidates takes them all; fewer than two: nothing happens.  (The second round of the  *)
(* loop finds at most the new compound shard and stops.)                                      *)
Candidates(d) == {f \in Idx(d) : Len(f.mem) = 1}
MergeOp(s, fx) ==
  LET c == Candidates(s.d)
  IN IF Cardinality(c) < 2 THEN {s}
     ELSE {[s EXCEPT !.d = Install(s.d, c, Merged(c), fx)]}
\* the repositories whose new compound shard inherits a foreign sidecar in this merge
MergeClash(s) ==
  LET c == Candidates(s.d)
  IN IF Cardinality(c) < 2 THEN {}
     ELSE UNION {IF f.mf THEN Members(f) ELSE {} : f \in Clash(s.d, c, Merged(c))}

-----------------------------------------------------------------------------
(* Server.vacuum: for every compound-*.zoekt of the index directory, in Readdirnames order    *)
(* (any), looked up again by name when its turn comes:                                        *)
(*   min = 0  removeTombstones: nothing if unreadable or without tombstones, otherwise        *)
(*            `zoekt-merge-index merge <shard>` (the shard merged with itself)                *)
(*   min = 1  size < minSizeBytes: `zoekt-merge-index explode <shard>` = index.Explode: one   *)
(*            simple shard per live repository (renamed over an existing simple shard of      *)
(*            that name), the compound shard and its sidecar removed                          *)
VacuumOne(d, nm, min, fx) ==
  LET cur == Named(d, "i", "c", nm)
  IN IF cur = {} THEN d
     ELSE LET f == CHOOSE x \in cur : TRUE
          IN IF min = 0
             THEN IF ~Readable(f) \/ ~\E p \in Pos(f) : f.mem[p].tb THEN d
                  ELSE Install(d, {f}, Merged({f}), fx)
             ELSE LET es == Carried(f)
                      out == {Simple("i", es[i].id, 0, es[i].ver, es[i].cv) : i \in DOMAIN es}
                  IN {g \in d \ {f} : ~\E o \in out : g.l = "i" /\ g.k = "s" /\ g.nm = o.nm} \cup out

RECURSIVE VacuumSeq(_, _, _, _)
VacuumSeq(d, nms, min, fx) == IF nms = <<>> THEN d ELSE VacuumSeq(VacuumOne(d, Head(nms), min, fx), Tail(nms), min, fx)

CompoundNames(d) == {f.nm : f \in {g \in Idx(d) : g.k = "c"}}
VacuumOp(s, min, fx) == {[s EXCEPT !.d = VacuumSeq(s.d, o, min, fx)] : o \in Perms(CompoundNames(s.d))}

RECURSIVE VacuumClashSeq(_, _)
VacuumClashSeq(d, nms) ==
  IF nms = <<>> THEN {}
  ELSE LET cur == Named(d, "i", "c", Head(nms))
           hit == IF cur = {} THEN {}
                  ELSE LET f == CHOOSE x \in cur : TRUE
                       IN IF ~Readable(f) \/ ~\E p \in Pos(f) : f.mem[p].tb THEN {}
                          ELSE UNION {IF g.mf THEN Members(g) ELSE {} : g \in Clash(d, {f}, Merged({f}))}
       IN hit \cup VacuumClashSeq(VacuumOne(d, Head(nms), 0, FALSE), Tail(nms))
VacuumClash(s, min) == IF min # 0 THEN {} ELSE UNION {VacuumClashSeq(s.d, o) : o \in Perms(CompoundNames(s.d))}

-----------------------------------------------------------------------------
(* cleanup(indexDir, A, now, shardMerging), phases in the order of the code.  The three maps  *)
(* are read once at the start; the file operations act on the files as they are then.         *)
(* Not modelled: repositories whose shards disagree on the name (names are a function of the  *)
(* id here), trashed shards with an mtime in the future (the clock only moves forward).       *)
Shards(S, r) == {f \in S : Readable(f) /\ AliveIn(f, r)}

\* getTombstonedRepos: among the compound shards in which r is tombstoned the one with the
\* latest LatestCommitDate (the driver derives it from the version); ties: the last in Glob order
TombVer(f, r) == f.mem[CHOOSE p \in Pos(f) : f.mem[p].id = r /\ f.mem[p].tb].ver
TombShards(d, r) ==
  LET c == {f \in Idx(d) : f.k = "c" /\ Readable(f) /\ TombIn(f, r)}
  IN {f \in c : \A g \in c : TombVer(f, r) >= TombVer(g, r)}

\* moveAll(dstDir, shards of r): per shard remove the files of that name in dstDir, rename
MoveTo(d, S, to, mt) ==
  LET moved == {[f EXCEPT !.l = to, !.mt = mt] : f \in S}
  IN {g \in d \ S : ~\E m \in moved : g.l = m.l /\ g.k = m.k /\ g.nm = m.nm} \cup moved

\* SetTombstone / UnsetTombstone on the file that carries the name of f now
Retomb(d, f, r, b) == {IF g.l = f.l /\ g.k = f.k /\ g.nm = f.nm THEN SetTomb(g, r, b) ELSE g : g \in d}

RECURSIVE RestoreAll(_, _, _, _, _)
\* ds: set of directories reached so far; rs: assigned repositories still to do (slice order)
RestoreAll(ds, rs, d0, trashM, tombM) ==
  IF rs = <<>> THEN ds
  ELSE LET r == Head(rs)
           step(d) == IF r \in trashM THEN {MoveTo(d, {f \in Trash(d) : \E g \in Shards(Trash(d0), r) : g.nm = f.nm /\ g.k = f.k}, "i", 0)}
                      ELSE IF r \in tombM THEN {Retomb(d, f, r, FALSE) : f \in TombShards(d0, r)}
                      ELSE {d}
       IN RestoreAll(UNION {step(d) : d \in ds}, Tail(rs), d0, trashM, tombM)

RECURSIVE TombEach(_, _, _)
TombEach(d, cs, r) == IF cs = <<>> THEN d ELSE TombEach(Retomb(d, Head(cs), r, TRUE), Tail(cs), r)

\* per repository that is not assigned: touch its shards, tombstone it in every compound shard
\* that holds it alive (maybeSetTombstone), move its other shards to the trash
RECURSIVE TrashAll(_, _, _, _)
TrashAll(d, rs, d0, now) ==
  IF rs = <<>> THEN d
  ELSE LET r  == Head(rs)
           sh == Shards(Idx(d0), r)
           d2 == TombEach(d, SetToSeq({f \in sh : f.k = "c"}), r)
           simple == {f \in Idx(d2) : f.k = "s" /\ \E g \in sh : g.k = "s" /\ g.nm = f.nm}
       IN TrashAll(MoveTo(d2, simple, "t", now), Tail(rs), d0, now)

CleanupOp(s) ==
  LET d0     == s.d
      now    == s.clk
      idxM   == AliveRepos({f \in Idx(d0) : Readable(f)})
      trash0 == AliveRepos({f \in Trash(d0) : Readable(f)})
      \* trash: remove old shards and conflicts with index
      purged == {r \in trash0 : r \in idxM \/ \E f \in Shards(Trash(d0), r) : f.mt < now - Day}
      d1     == {f \in d0 : ~(f.l = "t" /\ \E r \in purged : f \in Shards(Trash(d0), r))}
      trashM == trash0 \ purged
      \* tombstones that conflict with index or trash are forgotten
      tombM  == {r \in UNION {Members(f) : f \in Idx(d0)} : TombShards(d0, r) # {}} \ (idxM \cup trashM)
      \* restore assigned repositories from the trash / revive tombstoned ones
      ds     == RestoreAll({d1}, SetToSortSeq(s.A, LAMBDA a, b : a < b), d0, trashM, tombM)
      \* move what is left (not assigned) into the trash / tombstone it
      gone   == SetToSortSeq(idxM \ s.A, LAMBDA a, b : a < b)
  IN {[s EXCEPT !.d = TrashAll(d, gone, d0, now), !.tmp = 0] : d \in ds}

-----------------------------------------------------------------------------
AssignOp(s, r)   == {[s EXCEPT !.A = @ \cup {r}]}
UnassignOp(s, r) == {[s EXCEPT !.A = @ \ {r}]}
TickOp(s)        == {[s EXCEPT !.clk = @ + 25]}
CrashOp(s)       == {[s EXCEPT !.tmp = @ + 1]}     \* a killed indexer leaves its temporary shard

\* op = [op, r, v, min]
Apply(s, o, fx) ==
  CASE o.op = "index"    -> IndexOp(s, o.r, o.v)
    [] o.op = "merge"    -> MergeOp(s, fx)
    [] o.op = "vacuum"   -> VacuumOp(s, o.min, fx)
    [] o.op = "cleanup"  -> CleanupOp(s)
    [] o.op = "assign"   -> AssignOp(s, o.r)
    [] o.op = "unassign" -> UnassignOp(s, o.r)
    [] o.op = "tick"     -> TickOp(s)
    [] o.op = "crash"    -> CrashOp(s)
    [] OTHER             -> {s}

\* repositories whose freshly written compound shard inherits the sidecar of the file it replaces
ClashRepos(s, o, fx) == IF fx THEN {}
                        ELSE CASE o.op = "merge" -> MergeClash(s)
                               [] o.op = "vacuum" -> VacuumClash(s, o.min)
                               [] OTHER -> {}

-----------------------------------------------------------------------------
(* The statement, clause by clause, over one step (pre, operation, post) and the views a     *)
(* searcher has before and after (sets of [id, n, lv, docs, cv]).  Each violation is a record *)
(* [c, r, cause].                                                                             *)
VisRec(vis, r) == CHOOSE v \in vis : v.id = r
IsVis(vis, r)  == \E v \in vis : v.id = r
\* r, if visible, shows the version of its last index run, in metadata and documents
Current(vis, last, r) == IsVis(vis, r) => LET v == VisRec(vis, r) IN v.lv = last[r] /\ v.cv = {last[r]}
Once(vis, r)          == IsVis(vis, r) => LET v == VisRec(vis, r) IN v.n = 1 /\ v.docs = NDocs(r)

\* metadata that disagrees with the documents it describes exists only downstream of an
\* inherited sidecar
StaleIn(d, r) == \E f \in d : \E p \in Pos(f) : f.mem[p].id = r /\ (f.mem[p].ver # f.raw[p].cv \/ f.raw[p].ver # f.raw[p].cv)

Where(d, r) == IF Shards(Trash(d), r) # {} THEN "trashed"
               ELSE IF \E f \in Idx(d) : TombIn(f, r) THEN "tombstoned"
               ELSE "gone"

Viol(pre, o, post, vpre, vpost, Repos, fx) ==
  LET clash == ClashRepos(pre, o, fx)
      own(r) == o.op = "index" /\ o.r = r
      \* (1) a live repository is visible in at most one loadable shard
      dup  == {[c |-> "duplicate", r |-> r, cause |-> IF r \in clash THEN "inherited-sidecar" ELSE "two-shards"]
               : r \in {q \in Repos : Once(vpre, q) /\ ~Once(vpost, q)}}
      \* (2) a visible repository stays visible across every operation that is not the cleanup
      \*     of a repository that is not assigned
      kept == {[c |-> "lost", r |-> r, cause |-> IF r \in clash THEN "inherited-sidecar" ELSE Where(post.d, r)]
               : r \in {q \in Repos : IsVis(vpre, q) /\ ~IsVis(vpost, q) /\ ~own(q)
                                        /\ (o.op = "cleanup" => q \in pre.A)}}
      \* (3) an index run makes the repository visible, once, at the version it indexed
      idx  == {[c |-> "not-indexed", r |-> r, cause |-> IF IsVis(vpost, r) THEN "wrong-version" ELSE Where(post.d, r)]
               : r \in {q \in Repos : own(q) /\ ~(IsVis(vpost, q) /\ Current(vpost, post.last, q))}}
      \* (4) an unassigned repository is invisible after cleanup
      una  == {[c |-> "unassigned-visible", r |-> r, cause |-> "after-cleanup"]
               : r \in {q \in Repos : o.op = "cleanup" /\ q \notin pre.A /\ IsVis(vpost, q)}}
      \* (5) what is visible is the last indexed version, never an older one
      cur  == {[c |-> "outdated", r |-> r,
                cause |-> IF r \in clash \/ StaleIn(pre.d, r) THEN "inherited-sidecar"
                          ELSE IF ~IsVis(vpre, r) THEN "revived-old-copy" ELSE "changed"]
               : r \in {q \in Repos : ~own(q) /\ Current(vpre, pre.last, q) /\ ~Current(vpost, post.last, q)}}
  IN dup \cup kept \cup idx \cup una \cup cur

(* Deviations of the code from the statement that the faithful model reproduces; each is      *)
(* reported from the real code under its own signature (see NOTES/SYS.md):                    *)
(*  inherited-sidecar  zoekt-merge-index renames the new compound shard over an existing      *)
(*                     compound shard of the same name (same live repositories in the same    *)
(*                     order) and keeps that file's .meta: its tombstones and old metadata    *)
(*                     now describe the new shard                                             *)
(*  revived-old-copy   cleanup revives (UnsetTombstone) an old tombstoned copy of a           *)
(*                     repository whose newer copy was trashed and purged meanwhile (a        *)
(*                     tombstone does not say whether an index run or cleanup set it)         *)
Known(v, fx) == v.cause = "revived-old-copy" \/ (~fx /\ v.cause = "inherited-sidecar")

=============================================================================
