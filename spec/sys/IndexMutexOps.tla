------------------------- MODULE IndexMutexOps -------------------------
(* Pure operators for C31: the steps of indexMutex.With / indexMutex.Global               *)
(* (cmd/zoekt-sourcegraph-indexserver/index_mutex.go) over a state record                *)
(*   s = [pc, op, running, wown, ret, ran]                                                *)
(*   pc[p]    where goroutine p is:                                                       *)
(*     "idle"                         not inside a call                                   *)
(*     With:   "rl"   about to m.indexMu.RLock()                                          *)
(*             "rlb"  (go mode only) parked in RLock behind a pending writer              *)
(*             "chk"  read lock held, about to run the runningMu section                  *)
(*             "skip" alreadyRunning: about to RUnlock and return false                   *)
(*             "body" inside f()                                                          *)
(*             "del"  f returned, about to delete running[name]                           *)
(*             "ru"   about to RUnlock and return true                                    *)
(*     Global: "wl"   about to m.indexMu.Lock()                                           *)
(*             "wl1"  (go mode only) owns the writer mutex, waits for readers to drain    *)
(*             "gbody" inside f()     "gu" f returned, about to Unlock                    *)
(*   op[p]    = [k |-> "with" | "global" | "none", n |-> repository name or ""]           *)
(*   running  the map m.running (set of names)                                            *)
(*   wown     go mode: goroutine owning RWMutex.w (pending or active writer), 0 = none    *)
(*   ret[p]   value of the last finished call: "none" | "true" | "false" | "void"         *)
(*   ran[p]   history: did f run in p's current/last call                                 *)
(*                                                                                       *)
(* Two lock semantics, selected by the parameter go:                                      *)
(*   go = FALSE  any read/write lock: RLock can succeed iff no writer holds (and must,    *)
(*               unless a writer is pending), Lock iff nobody holds.  Which waiter wins   *)
(*               is left open.  Used for verdicts.                                        *)
(*   go = TRUE   what sync.RWMutex does (documented: a pending Lock blocks new RLocks;    *)
(*               implementation: Unlock admits all parked readers before the next         *)
(*               writer).  A refinement of the above, used to *predict* the real run.    *)
EXTENDS Integers, Sequences, FiniteSets, TLC

ReadHeld  == {"chk", "skip", "body", "del", "ru"}
WriteHeld == {"gbody", "gu"}
InBody    == {"body", "gbody"}

NoOp == [k |-> "none", n |-> ""]

InitSt(N) == [pc |-> [p \in 1..N |-> "idle"], op |-> [p \in 1..N |-> NoOp], running |-> {},
              wown |-> 0, ret |-> [p \in 1..N |-> "none"], ran |-> [p \in 1..N |-> FALSE]]

Procs(s) == DOMAIN s.pc
NoReader(s) == \A q \in Procs(s) : s.pc[q] \notin ReadHeld
NoWriter(s) == \A q \in Procs(s) : s.pc[q] \notin WriteHeld

\* the (at most one) internal step goroutine p can take; {} when p is blocked or has none
StepP(s, p, go) ==
  LET pc == s.pc[p]
      n  == s.op[p].n
  IN CASE pc = "rl" ->
            IF go THEN (IF s.wown = 0 THEN {[s EXCEPT !.pc[p] = "chk"]} ELSE {[s EXCEPT !.pc[p] = "rlb"]})
            ELSE (IF NoWriter(s) THEN {[s EXCEPT !.pc[p] = "chk"]} ELSE {})
       [] pc = "chk" ->      \* runningMu section: alreadyRunning := name in running; running[name] = {}
            {[s EXCEPT !.pc[p] = IF n \in s.running THEN "skip" ELSE "body",
                       !.running = @ \cup {n},
                       !.ran[p] = n \notin s.running]}
       [] pc = "skip" -> {[s EXCEPT !.pc[p] = "idle", !.ret[p] = "false"]}
       [] pc = "del"  -> {[s EXCEPT !.pc[p] = "ru", !.running = @ \ {n}]}
       [] pc = "ru"   -> {[s EXCEPT !.pc[p] = "idle", !.ret[p] = "true"]}
       [] pc = "wl" ->
            IF go THEN (IF s.wown = 0 THEN {[s EXCEPT !.pc[p] = "wl1", !.wown = p]} ELSE {})
            ELSE (IF NoWriter(s) /\ NoReader(s) THEN {[s EXCEPT !.pc[p] = "gbody", !.ran[p] = TRUE]} ELSE {})
       [] pc = "wl1" -> IF NoReader(s) THEN {[s EXCEPT !.pc[p] = "gbody", !.ran[p] = TRUE]} ELSE {}
       [] pc = "gu" ->
            IF go THEN {[s EXCEPT !.pc = [q \in Procs(s) |-> IF q = p THEN "idle"
                                                         ELSE IF s.pc[q] = "rlb" THEN "chk" ELSE s.pc[q]],
                                  !.wown = 0, !.ret[p] = "void"]}
            ELSE {[s EXCEPT !.pc[p] = "idle", !.ret[p] = "void"]}
       [] OTHER -> {}

Succs(s, go) == UNION {StepP(s, p, go) : p \in Procs(s)}

\* General semantics: an RLock that could succeed may still wait while a writer is pending
\* (writer preference is allowed, not required).  Every other enabled step must happen.
Optional(s, p, go) == ~go /\ s.pc[p] = "rl" /\ \E q \in Procs(s) : s.pc[q] = "wl"
Quiescent(s, go) == \A p \in Procs(s) : StepP(s, p, go) # {} => Optional(s, p, go)

\* the driver's commands
CanStart(s, p) == s.pc[p] = "idle"
Start(s, p, o) == [s EXCEPT !.pc[p] = IF o.k = "with" THEN "rl" ELSE "wl", !.op[p] = o,
                            !.ret[p] = "none", !.ran[p] = FALSE]
CanExit(s, p) == s.pc[p] \in InBody
Exit(s, p) == [s EXCEPT !.pc[p] = IF s.pc[p] = "body" THEN "del" ELSE "gu"]

\* all quiescent states reachable by internal steps only
RECURSIVE Reach(_, _)
Reach(S, go) == LET T == S \cup UNION {Succs(t, go) : t \in S} IN IF T = S THEN S ELSE Reach(T, go)
Settle(s, go) == {t \in Reach({s}, go) : Quiescent(t, go)}

\* what the driver can see at a quiescent point
Phase(s, p) == IF s.pc[p] = "idle" THEN "idle" ELSE IF s.pc[p] \in InBody THEN "body" ELSE "wait"
Proj(s) == [ph |-> [p \in Procs(s) |-> Phase(s, p)], ret |-> s.ret, running |-> s.running]

-----------------------------------------------------------------------------
\* the statement
RepoExclusive(s) == \A p, q \in Procs(s) :
                      p # q /\ s.pc[p] = "body" /\ s.pc[q] = "body" => s.op[p].n # s.op[q].n
GlobalExclusive(s) == \A p, q \in Procs(s) : p # q /\ s.pc[p] = "gbody" => s.pc[q] \notin InBody
\* With returns true iff f ran (a skipped operation is reported as skipped)
SkipReported(s) == \A p \in Procs(s) :
                     /\ s.ret[p] = "true"  => s.ran[p]
                     /\ s.ret[p] = "false" => ~s.ran[p]
                     /\ s.ret[p] = "void"  => s.ran[p]
\* running is exactly the set of names whose f is between "set" and "delete": so a skip
\* happens only when that repository is busy
RunningExact(s) == s.running = {s.op[q].n : q \in {r \in Procs(s) : s.pc[r] \in {"body", "del"}}}
LockDiscipline(s) == /\ Cardinality({q \in Procs(s) : s.pc[q] \in WriteHeld}) <= 1
                     /\ ~NoWriter(s) => NoReader(s)
\* nothing is left locked: if no f is running and nothing can move, everybody has returned
NoStuck(s, go) == (Quiescent(s, go) /\ \A p \in Procs(s) : s.pc[p] \notin InBody)
                    => \A p \in Procs(s) : s.pc[p] = "idle"
=============================================================================
