----------------------------- MODULE Finish -----------------------------
(* C12.  State machine of one index-installing run (index.Builder.Finish for full, delta  *)
(* and ShardMerging builds; mergeMeta) over the abstract directory of FinishOps, with a     *)
(* crash enabled in every state and at most MaxFail failing rename/unlink operations.       *)
EXTENDS FinishOps

CONSTANTS ModeSet,   \* subset of Modes
          MaxK, MaxM,  \* old shards 0..MaxK (full) / 1..MaxK (delta, meta), new shards 1..MaxM
          MaxFail      \* failing rename/unlink operations per run

\* every configuration is explored in one run: cfg is chosen in Init and never changes
Cfgs == {c \in [mode : ModeSet, k : 0..MaxK, m : 1..MaxM, sidecar : BOOLEAN] :
           /\ c.mode \in {"delta", "meta"} => c.k >= 1 /\ c.m = 1
           /\ c.mode = "compound" => c.k = 1 /\ ~c.sidecar
           /\ c.k = 0 => ~c.sidecar}

VARIABLES cfg, st, nfail, reported, crashed
vars == <<cfg, st, nfail, reported, crashed>>

AllFiles == {F(k, i) : k \in {"shard", "meta", "shardtmp", "metatmp", "comp", "compmeta", "compmetatmp"},
                       i \in 0..(IF MaxK > MaxM THEN MaxK ELSE MaxM)}
Acts1 == [op : {"create", "chmod", "write", "rename", "unlink"}, f : AllFiles, res : {"ok", "fail"}]

Init == cfg \in Cfgs /\ st = InitSt(cfg) /\ nfail = 0 /\ reported = "none" /\ crashed = FALSE

Do(a) == /\ ~crashed /\ reported = "none"
         /\ Enabled(cfg, st, a)
         /\ (a.res = "fail" => a.op \in {"rename", "unlink"} /\ nfail < MaxFail)
         /\ st' = Apply(cfg, st, a)
         /\ nfail' = IF a.res = "fail" THEN nfail + 1 ELSE nfail
         /\ UNCHANGED <<cfg, reported, crashed>>

Report == /\ ~crashed /\ reported = "none" /\ Finished(cfg, st)
          /\ reported' \in Reports(st) /\ UNCHANGED <<cfg, st, nfail, crashed>>

\* the process is killed: whatever is on disk stays
Crash == /\ ~crashed /\ reported = "none" /\ crashed' = TRUE /\ UNCHANGED <<cfg, st, nfail, reported>>

Next == (\E a \in Acts1 : Do(a)) \/ Report \/ Crash
Spec == Init /\ [][Next]_vars

-----------------------------------------------------------------------------
TypeOK == /\ DOMAIN st.disk \subseteq AllFiles
          /\ st.renamed \cap st.failed = {}

\* only temp names are ever incomplete: what the loader can open is complete
NoPartialVisible == \A f \in DOMAIN st.disk : f.k \notin {"shardtmp", "metatmp", "compmetatmp"} => st.disk[f].ok

shape == Shape(cfg, st, View(st.disk))

\* what the property demands in every state (a crash freezes the directory as it is)
CrashAtomicStrict == shape = "atomic"

\* design-level counterexamples (each one counts as a finding only when reproduced on the code)
KF_C12_MultiArtifactRename  == shape = "multi-artifact-rename"        \* killed between two renames
KF_C12_StaleOldLeft         == shape = "stale-old-left"               \* all renamed, leftovers of the old index not yet removed
KF_C12_StaleSidecar         == shape = "stale-sidecar"                \* new shard under the old shard's .meta
KF_C12_RenameFailedOldGone  == shape = "rename-failed-old-deleted"    \* failed rename, old shard deleted all the same
KF_C12_RenameFailedPartial  == shape = "rename-failed-partial-install"
KF_C12_UnlinkFailedStale    == shape = "unlink-failed-stale-left"
KF_C12_TombstoneRenameFailed == shape = "tombstone-rename-failed"
\* ShardMerging: `b.buildError = err` after SetTombstone forgets an earlier rename failure, and
\* setTombstone swallows a failed rename of the sidecar: success reported although an operation failed
KF_C12_ErrorOverwritten == cfg.mode = "compound" /\ st.err /\ reported = "ok"

CrashAtomic == \/ CrashAtomicStrict
               \/ KF_C12_MultiArtifactRename \/ KF_C12_StaleOldLeft \/ KF_C12_StaleSidecar
               \/ KF_C12_RenameFailedOldGone \/ KF_C12_RenameFailedPartial \/ KF_C12_UnlinkFailedStale
               \/ KF_C12_TombstoneRenameFailed

SuccessMeansInstalledStrict == reported = "ok" => View(st.disk) = New(cfg)
SuccessMeansInstalled == SuccessMeansInstalledStrict \/ KF_C12_ErrorOverwritten

\* without failures a finished run has installed New (sanity of Target/New)
CleanRunInstalls == (reported # "none" /\ nfail = 0) => (reported = "ok" /\ View(st.disk) = New(cfg))
\* a failure is never reported as success except in the named shape
ErrMeansErr == (reported = "ok" /\ st.err) => KF_C12_ErrorOverwritten
\* a single artifact replacing a single file with nothing stale has no window at all
SingleArtifactAtomic == (cfg.mode = "full" /\ cfg.k <= 1 /\ cfg.m = 1 /\ ~cfg.sidecar /\ nfail = 0) => CrashAtomicStrict

\* vacuity: always true; prints the shape of every non-atomic state so that the check can
\* require that each named shape is actually reachable in the model
ShapeSeen == /\ (shape # "atomic" => PrintT(<<"SHAPE", shape>>))
             /\ (KF_C12_ErrorOverwritten => PrintT(<<"SHAPE", "error-overwritten">>))
=============================================================================
