--------------------------- MODULE MergeExplodeOps ---------------------------
(* C35.  Pure operators: the abstract index directory as zoekt-merge-index sees it and the *)
(* protocols of `merge` (cmd/zoekt-merge-index/main.go:merge + index.Merge +                *)
(* builderWriteAll) and `explode` (index.Explode + explode + builderWriteAll).              *)
(*                                                                                           *)
(* file  : [k, i]  k in simple simplemeta simpletmp simpletmp2  (shard of repository i, its  *)
(*                      sidecar, "<shard>.tmp", and the CreateTemp file "<shard>.tmp.N.tmp")  *)
(*                      comp compmeta            (the input compound shard and its sidecar)   *)
(*                      out outtmp outtmp2       (the compound shard that merge produces)     *)
(* content: [repos, tomb]  repositories held by a shard file / tombstoned by a sidecar        *)
(* cfg   : [op, n, sidecars, tomb, resimple]                                                 *)
(*   op = "merge":   inputs are the simple shards of repositories 0..n-1, those in sidecars   *)
(*                   carry a .meta file                                                       *)
(*   op = "vacuum":  `merge <compound>`: one compound shard holding 0..n-1 with the           *)
(*                   repositories in tomb tombstoned by its sidecar                            *)
(*   op = "explode": `explode <compound>` of the same kind of shard                            *)
(*   resimple: the tombstoned repositories have been re-indexed into simple shards             *)
EXTENDS Integers, Sequences, FiniteSets, TLC

F(k, i) == [k |-> k, i |-> i]
ShardC(repos) == [repos |-> repos, tomb |-> {}]
MetaC(tomb)   == [repos |-> {}, tomb |-> tomb]

Repos(cfg) == 0..(cfg.n - 1)
Live(cfg)  == Repos(cfg) \ cfg.tomb
HasCompMeta(cfg) == cfg.tomb # {}

Disk0(cfg) ==
  IF cfg.op = "merge"
  THEN [f \in {F("simple", i) : i \in Repos(cfg)} \cup {F("simplemeta", i) : i \in cfg.sidecars} |->
          IF f.k = "simple" THEN ShardC({f.i}) ELSE MetaC({})]
  ELSE [f \in {F("comp", 0)} \cup (IF HasCompMeta(cfg) THEN {F("compmeta", 0)} ELSE {})
              \cup (IF cfg.resimple THEN {F("simple", i) : i \in cfg.tomb} ELSE {}) |->
          CASE f.k = "comp" -> ShardC(Repos(cfg))
            [] f.k = "compmeta" -> MetaC(cfg.tomb)
            [] f.k = "simple" -> ShardC({f.i})]

\* targets and their two temp names
Outs(cfg) == IF cfg.op = "explode" THEN {F("simple", r) : r \in Live(cfg)} ELSE {F("out", 0)}
Tmp1(t) == F(IF t.k = "out" THEN "outtmp" ELSE "simpletmp", t.i)
Tmp2(t) == F(IF t.k = "out" THEN "outtmp2" ELSE "simpletmp2", t.i)
OutContent(cfg, t) == IF t.k = "out" THEN ShardC(Live(cfg)) ELSE ShardC({t.i})

\* the sources, in the order in which they are removed (shard, then its sidecar)
RECURSIVE MergeDel(_, _)
MergeDel(cfg, i) == IF i >= cfg.n THEN <<>>
                    ELSE <<F("simple", i)>> \o (IF i \in cfg.sidecars THEN <<F("simplemeta", i)>> ELSE <<>>)
                         \o MergeDel(cfg, i + 1)
DelSeq(cfg) == IF cfg.op = "merge" THEN MergeDel(cfg, 0)
               ELSE <<F("comp", 0)>> \o (IF HasCompMeta(cfg) THEN <<F("compmeta", 0)>> ELSE <<>>)
Sources(cfg) == {DelSeq(cfg)[j] : j \in 1..Len(DelSeq(cfg))}
InputShards(cfg) == {f \in Sources(cfg) : f.k \in {"simple", "comp"}}

-----------------------------------------------------------------------------
(* the loader *)
Loadable(disk) == {f \in DOMAIN disk : f.k \in {"simple", "comp", "out"}}
MetaFile(f) == F(CASE f.k = "simple" -> "simplemeta" [] f.k = "comp" -> "compmeta" [] OTHER -> "nometa", f.i)
EffTomb(disk, f) == IF MetaFile(f) \in DOMAIN disk THEN disk[MetaFile(f)].tomb ELSE {}
Visible(disk, f) == disk[f].repos \ EffTomb(disk, f)
\* in how many loaded shards is repository r visible
Count(disk, r) == Cardinality({f \in Loadable(disk) : r \in Visible(disk, f)})
View(cfg, disk) == {[r |-> r, cnt |-> Count(disk, r)] : r \in {x \in Repos(cfg) : Count(disk, x) > 0}}

NoDuplicate(view) == \A e \in view : e.cnt <= 1
\* every repository that has an index at all is visible exactly once
FullView(cfg) == {[r |-> r, cnt |-> 1] : r \in {x \in Repos(cfg) : x \in Live(cfg) \/ cfg.resimple}}
\* success: targets in place, sources gone, everything visible exactly once
Complete(cfg, files, view) == /\ Outs(cfg) \subseteq files
                              /\ Sources(cfg) \cap files = {}
                              /\ view = FullView(cfg)

-----------------------------------------------------------------------------
InitSt(cfg) == [disk |-> Disk0(cfg), made |-> {}, written |-> {}, staged |-> {}, ndel |-> 0,
                renamed |-> {}, lost |-> {}, cleaned |-> {}, stop |-> FALSE, err |-> FALSE, cerr |-> FALSE]
\* err  : an operation failed (what the command has to report)
\* cerr : what the command reports today: merge returns ("", nil) when an input cannot be
\*        opened, Explode only logs a failed rename

Put(disk, f, c) == [g \in DOMAIN disk \cup {f} |-> IF g = f THEN c ELSE disk[g]]
Del(disk, f)    == [g \in DOMAIN disk \ {f} |-> disk[g]]

AllStaged(cfg, st) == Outs(cfg) \subseteq st.staged
AllDeleted(cfg, st) == st.ndel = Len(DelSeq(cfg))
FinalTried(cfg, st) == Outs(cfg) \subseteq st.renamed \cup st.lost
\* "<shard>.tmp" files Explode's deferred clean-up still finds
LeftTmp(cfg, st) == IF cfg.op = "explode" /\ (st.stop \/ FinalTried(cfg, st))
                    THEN ({Tmp1(t) : t \in Outs(cfg)} \cap DOMAIN st.disk) \ st.cleaned ELSE {}
Finished(cfg, st) == (st.stop \/ FinalTried(cfg, st)) /\ LeftTmp(cfg, st) = {}
Reported(st) == IF st.err THEN "err" ELSE "ok"
Reports(st) == {Reported(st), IF st.cerr THEN "err" ELSE "ok"}

\* a = [op, f, res]  op in open create chmod write rename unlink; res in ok fail.
\* (only failing opens are steps: a successful open changes nothing)
Enabled(cfg, st, a) ==
  LET f == a.f
      t2 == {t \in Outs(cfg) : Tmp2(t) = f}
      t1 == {t \in Outs(cfg) : Tmp1(t) = f}
  IN
  CASE a.op = "open"   -> a.res = "fail" /\ ~st.stop /\ st.made = {} /\ f \in Sources(cfg)
    [] a.op = "create" -> ~st.stop /\ t2 # {} /\ f \notin st.made /\ st.ndel = 0 /\ st.renamed \cup st.lost = {}
    [] a.op = "chmod"  -> ~st.stop /\ a.res = "ok" /\ f \in st.made /\ f \in DOMAIN st.disk
    [] a.op = "write"  -> ~st.stop /\ a.res = "ok" /\ f \in st.made /\ f \in DOMAIN st.disk
    [] a.op = "rename" -> \/ ~st.stop /\ t2 # {} /\ f \in st.written /\ f \in DOMAIN st.disk
                          \/ /\ ~st.stop /\ t1 # {} /\ f \in DOMAIN st.disk /\ AllStaged(cfg, st) /\ AllDeleted(cfg, st)
                             /\ t1 \cap (st.renamed \cup st.lost) = {}
    [] a.op = "unlink" -> \/ /\ ~st.stop /\ AllStaged(cfg, st) /\ ~AllDeleted(cfg, st)
                             /\ f = DelSeq(cfg)[st.ndel + 1]
                          \/ f \in LeftTmp(cfg, st)
    [] OTHER -> FALSE

Apply(cfg, st, a) ==
  LET f == a.f
      tt2 == CHOOSE t \in Outs(cfg) : Tmp2(t) = f
      tt1 == CHOOSE t \in Outs(cfg) : Tmp1(t) = f
      fail == [st EXCEPT !.stop = TRUE, !.err = TRUE, !.cerr = TRUE]
  IN
  CASE a.op = "open" ->
         \* cmd/zoekt-merge-index merge: `f, err := os.Open(fn); if err != nil { return "", nil }`
         IF cfg.op # "explode" /\ f \in InputShards(cfg) THEN [st EXCEPT !.stop = TRUE, !.err = TRUE] ELSE fail
    [] a.op = "create" /\ a.res = "ok" -> [st EXCEPT !.made = @ \cup {f}, !.disk = Put(@, f, OutContent(cfg, tt2))]
    [] a.op = "create" /\ a.res # "ok" -> fail
    [] a.op = "chmod" -> st
    [] a.op = "write" -> [st EXCEPT !.written = @ \cup {f}]
    [] a.op = "rename" /\ f \in st.made /\ a.res = "ok" ->
         [st EXCEPT !.staged = @ \cup {tt2}, !.disk = Put(Del(@, f), Tmp1(tt2), st.disk[f])]
    [] a.op = "rename" /\ f \in st.made /\ a.res # "ok" -> fail
    [] a.op = "rename" /\ f \notin st.made /\ a.res = "ok" ->
         [st EXCEPT !.renamed = @ \cup {tt1}, !.disk = Put(Del(@, f), tt1, st.disk[f])]
    \* Explode: "best effort rename shards": a failed rename is only logged
    [] a.op = "rename" /\ f \notin st.made /\ a.res # "ok" ->
         IF cfg.op = "explode" THEN [st EXCEPT !.lost = @ \cup {tt1}, !.err = TRUE] ELSE fail
    [] a.op = "unlink" /\ f \in LeftTmp(cfg, st) ->
         IF a.res = "ok" THEN [st EXCEPT !.disk = Del(@, f)] ELSE [st EXCEPT !.cleaned = @ \cup {f}]
    [] a.op = "unlink" /\ f \notin LeftTmp(cfg, st) /\ a.res = "ok" ->
         [st EXCEPT !.disk = Del(@, f), !.ndel = @ + 1]
    [] a.op = "unlink" /\ f \notin LeftTmp(cfg, st) /\ a.res # "ok" -> fail

-----------------------------------------------------------------------------
(* shapes of a success report that is not backed by the directory *)
SuccessShape(cfg, st) ==
  IF st.stop /\ ~st.cerr THEN "merge-open-failed-reported-ok"
  ELSE IF st.lost # {} THEN "explode-rename-failed-reported-ok"
  ELSE "other"
=============================================================================
