-------------------------- MODULE ContainmentOps --------------------------
(* C11: what is shared by the model (Containment.tla) and the trace specification         *)
(* (Trace_Containment.tla): the outcome alphabet of a serving process that holds a damaged *)
(* shard, and the model of the shard FILE LAYOUT from which fault classes are generated.   *)
EXTENDS Integers, Sequences, FiniteSets, TLC

\* ------------------------------------------------------------------ outcome alphabet
\* There is deliberately no "died", "hang", "oom" and no "error" (an operation that fails as a
\* whole): a recorded behaviour containing one is not a behaviour of the specification.
LoadOutcomes == {"ok", "err"}           \* LoadOk, LoadErr (the damaged shard only)
OpOutcomes == {"ok", "crash"}           \* SearchOk / ListOk, SearchCrashContained / ListCrashContained
ProcOutcomes == {"alive"}

\* ------------------------------------------------------------------ file layout
\* kind: "simple" = (off, sz); "compound" / "lazy" = data (off, sz) + index (off, sz)
ShardLayout == <<
  [tag |-> "metaData", kind |-> "simple"],        [tag |-> "repoMetaData", kind |-> "simple"],
  [tag |-> "fileContents", kind |-> "compound"],  [tag |-> "fileNames", kind |-> "compound"],
  [tag |-> "fileSections", kind |-> "compound"],  [tag |-> "fileEndSymbol", kind |-> "simple"],
  [tag |-> "symbolMap", kind |-> "lazy"],         [tag |-> "symbolKindMap", kind |-> "compound"],
  [tag |-> "symbolMetaData", kind |-> "simple"],  [tag |-> "newlines", kind |-> "compound"],
  [tag |-> "ngramText", kind |-> "simple"],       [tag |-> "postings", kind |-> "compound"],
  [tag |-> "nameNgramText", kind |-> "simple"],   [tag |-> "namePostings", kind |-> "compound"],
  [tag |-> "branchMasks", kind |-> "simple"],     [tag |-> "subRepos", kind |-> "simple"],
  [tag |-> "runeOffsets", kind |-> "simple"],     [tag |-> "nameRuneOffsets", kind |-> "simple"],
  [tag |-> "fileEndRunes", kind |-> "simple"],    [tag |-> "nameEndRunes", kind |-> "simple"],
  [tag |-> "contentChecksums", kind |-> "simple"], [tag |-> "languages", kind |-> "simple"],
  [tag |-> "categories", kind |-> "simple"],      [tag |-> "runeDocSections", kind |-> "simple"],
  [tag |-> "repos", kind |-> "simple"],           [tag |-> "reposIDsBitmap", kind |-> "simple"],
  [tag |-> "nameBloom", kind |-> "simple"],       [tag |-> "contentBloom", kind |-> "simple"],
  [tag |-> "ranks", kind |-> "simple"] >>

\* parts of the file that belong to a section: its bytes and the fields of its TOC entry
PartsOf(s) == IF s.kind = "simple" THEN {"data", "entry-tag", "entry-off", "entry-sz"}
              ELSE {"data", "index", "entry-tag", "entry-off", "entry-sz", "entry-ioff", "entry-isz"}
Positions == {"first", "first+1", "middle", "last", "one-past"}
Mutations == {"truncate-here", "flip0", "flip7", "zero", "ff", "plus1"}

SectionParts == UNION {{[section |-> ShardLayout[k].tag, part |-> p] : p \in PartsOf(ShardLayout[k])} : k \in 1..Len(ShardLayout)}
FileParts == SectionParts \cup {[section |-> "toc", part |-> "count"], [section |-> "trailer", part |-> "off"],
                                [section |-> "trailer", part |-> "sz"]}
SidecarParts == {[section |-> "sidecar", part |-> "json"]}
\* the whole sidecar replaced by another well-formed JSON document (or by nothing)
SidecarReplacements == {"replace:empty", "replace:null", "replace:[]", "replace:{}", "replace:[null]", "replace:[{}]",
                        "replace:0", "replace:string", "replace:[[]]", "replace:nested"}

\* items of the compound / lazy sections (one posting list per trigram, one content per document, ...):
\* the same damage at the first resp. last byte of EVERY item (the driver expands "each-*" with the
\* section's index); e.g. a posting list whose last varint has its continuation bit set
ItemPositions == {"each-first", "each-last"}
ItemMutations == {"flip7", "ff", "zero"}
ItemClasses == {[target |-> "shard", section |-> ShardLayout[k].tag, part |-> "items", pos |-> p, mut |-> m] :
                   k \in {k \in 1..Len(ShardLayout) : ShardLayout[k].kind # "simple"}, p \in ItemPositions, m \in ItemMutations}

FaultClasses == ItemClasses \cup
                {[target |-> "shard", section |-> fp.section, part |-> fp.part, pos |-> p, mut |-> m] :
                    fp \in FileParts, p \in Positions, m \in Mutations}
                \cup {[target |-> "sidecar", section |-> fp.section, part |-> fp.part, pos |-> p, mut |-> m] :
                    fp \in SidecarParts, p \in Positions, m \in Mutations}
                \cup {[target |-> "sidecar", section |-> "sidecar", part |-> "json", pos |-> "whole", mut |-> m] :
                    m \in SidecarReplacements}

=============================================================================
