--------------------------- MODULE MergeExplode ---------------------------
(* C35.  State machine of one run of `zoekt-merge-index merge` / `explode` over the abstract *)
(* directory of MergeExplodeOps: a crash is possible in every state, any open / create /     *)
(* rename / unlink may fail (at most MaxFail per run).                                       *)
EXTENDS MergeExplodeOps

CONSTANTS OpSet,    \* subset of {"merge", "vacuum", "explode"}
          MaxN,     \* repositories 1..MaxN
          MaxFail

Cfgs == {c \in [op : OpSet, n : 1..MaxN, sidecars : SUBSET (0..(MaxN - 1)), tomb : SUBSET (0..(MaxN - 1)),
                resimple : BOOLEAN] :
           /\ c.sidecars \subseteq 0..(c.n - 1) /\ c.tomb \subseteq 0..(c.n - 1)
           /\ c.op = "merge" => c.tomb = {} /\ ~c.resimple
           /\ c.op # "merge" => c.sidecars = {}
           /\ c.op = "vacuum" => c.tomb # {}
           /\ c.tomb = {} => ~c.resimple
           /\ c.tomb # 0..(c.n - 1)}          \* something is left to merge / explode

VARIABLES cfg, st, nfail, reported, crashed
vars == <<cfg, st, nfail, reported, crashed>>

AllFiles == {F(k, i) : k \in {"simple", "simplemeta", "simpletmp", "simpletmp2", "comp", "compmeta",
                              "out", "outtmp", "outtmp2"}, i \in 0..(MaxN - 1)}
Acts1 == [op : {"open", "create", "chmod", "write", "rename", "unlink"}, f : AllFiles, res : {"ok", "fail"}]

Init == cfg \in Cfgs /\ st = InitSt(cfg) /\ nfail = 0 /\ reported = "none" /\ crashed = FALSE

Do(a) == /\ ~crashed /\ reported = "none"
         /\ Enabled(cfg, st, a)
         /\ (a.res = "fail" => a.op \in {"open", "create", "rename", "unlink"} /\ nfail < MaxFail)
         /\ st' = Apply(cfg, st, a)
         /\ nfail' = IF a.res = "fail" THEN nfail + 1 ELSE nfail
         /\ UNCHANGED <<cfg, reported, crashed>>

Report == /\ ~crashed /\ reported = "none" /\ Finished(cfg, st)
          /\ reported' \in Reports(st) /\ UNCHANGED <<cfg, st, nfail, crashed>>

Crash == /\ ~crashed /\ reported = "none" /\ crashed' = TRUE /\ UNCHANGED <<cfg, st, nfail, reported>>

Next == (\E a \in Acts1 : Do(a)) \/ Report \/ Crash
Spec == Init /\ [][Next]_vars

-----------------------------------------------------------------------------
TypeOK == DOMAIN st.disk \subseteq AllFiles

view == View(cfg, st.disk)

\* in every state (a crash freezes the directory): no repository visible in two shards
NoDuplicateRepo == NoDuplicate(view)

\* nothing is ever visible that was not indexed, nothing tombstoned comes back
NoResurrection == \A e \in view : e.r \in Live(cfg) \/ cfg.resimple

SuccessCompleteStrict == reported = "ok" => Complete(cfg, DOMAIN st.disk, view)

\* design-level counterexamples (findings only when reproduced on the code)
KF_C35_MergeOpenFailedOk    == reported = "ok" /\ SuccessShape(cfg, st) = "merge-open-failed-reported-ok"
KF_C35_ExplodeRenameLostOk  == reported = "ok" /\ SuccessShape(cfg, st) = "explode-rename-failed-reported-ok"
SuccessComplete == SuccessCompleteStrict \/ KF_C35_MergeOpenFailedOk \/ KF_C35_ExplodeRenameLostOk

CleanRunCompletes == (reported # "none" /\ nfail = 0) => (reported = "ok" /\ Complete(cfg, DOMAIN st.disk, view))

\* a failure is reported as success only in the two named shapes
ErrMeansErr == (reported = "ok" /\ st.err) => (KF_C35_MergeOpenFailedOk \/ KF_C35_ExplodeRenameLostOk)

\* vacuity: prints which named shapes are reachable
ShapeSeen == /\ (KF_C35_MergeOpenFailedOk => PrintT(<<"SHAPE", "merge-open-failed-reported-ok">>))
             /\ (KF_C35_ExplodeRenameLostOk => PrintT(<<"SHAPE", "explode-rename-failed-reported-ok">>))
=============================================================================
