---------------------------- MODULE QueryLangGen ----------------------------
(* C06.  Enumeration of derivation SKELETONS of the documented grammar (doc/query_syntax.md) *)
(* as input for the conformance driver: which expressions are atoms, negated, groups, where   *)
(* `or` stands, where case: / type: are stated.  A skeleton is the token sequence              *)
(*    a   atom (text or field, chosen by the driver)      -a   negated atom                     *)
(*    c   a case: directive        t   a type: directive                                         *)
(*    (   group        -(   negated group        )   end of group        or                      *)
(* built left to right.  Bounds: nesting <= MaxDepth (the top level is depth 1), at most         *)
(* MaxItems expressions per group (over all its or-operands), at most MaxLeaves a/c/t tokens     *)
(* and MaxGroups groups, each with at least two expressions.                                     *)
(* Restrictions of the documented language to its unambiguous part: a group states case: and     *)
(* type: at most once, directives are not negated, and every or-operand has an operand that is   *)
(* not a directive.  Every finished skeleton is printed as a script; the invariant checks them   *)
(* against an independent recogniser of the EBNF.                                                *)
EXTENDS Integers, Sequences, FiniteSets, TLC, Json

CONSTANTS MaxDepth, MaxItems, MaxLeaves, MaxGroups, Emit

VARIABLES toks,    \* the skeleton so far
          stack,   \* one frame per open group: n items, k operands in the current or-operand, c/t stated
          leaves, groups, done
vars == <<toks, stack, leaves, groups, done>>

Frame == [n |-> 0, k |-> 0, c |-> FALSE, t |-> FALSE]
Top == stack[Len(stack)]
SetTop(f) == [stack EXCEPT ![Len(stack)] = f]
Room == Top.n < MaxItems /\ leaves < MaxLeaves

Init == toks = <<>> /\ stack = <<Frame>> /\ leaves = 0 /\ groups = 0 /\ done = FALSE

Atom(neg) == /\ Room
             /\ toks' = Append(toks, IF neg THEN "-a" ELSE "a")
             /\ stack' = SetTop([Top EXCEPT !.n = @ + 1, !.k = @ + 1])
             /\ leaves' = leaves + 1 /\ UNCHANGED <<groups, done>>
CaseDir == /\ Room /\ ~Top.c
           /\ toks' = Append(toks, "c")
           /\ stack' = SetTop([Top EXCEPT !.n = @ + 1, !.c = TRUE])
           /\ leaves' = leaves + 1 /\ UNCHANGED <<groups, done>>
TypeDir == /\ Room /\ ~Top.t
           /\ toks' = Append(toks, "t")
           /\ stack' = SetTop([Top EXCEPT !.n = @ + 1, !.t = TRUE])
           /\ leaves' = leaves + 1 /\ UNCHANGED <<groups, done>>
Open(neg) == /\ Room /\ Len(stack) < MaxDepth /\ groups < MaxGroups /\ leaves + 2 <= MaxLeaves
             /\ toks' = Append(toks, IF neg THEN "-(" ELSE "(")
             /\ stack' = Append(SetTop([Top EXCEPT !.n = @ + 1, !.k = @ + 1]), Frame)
             /\ groups' = groups + 1 /\ UNCHANGED <<leaves, done>>
Close == /\ Len(stack) > 1 /\ Top.k >= 1 /\ Top.n >= 2     \* (x) around one expression is a spelling, see the driver
         /\ toks' = Append(toks, ")")
         /\ stack' = SubSeq(stack, 1, Len(stack) - 1)
         /\ UNCHANGED <<leaves, groups, done>>
Or == /\ Room /\ Top.k >= 1
      /\ toks' = Append(toks, "or")
      /\ stack' = SetTop([Top EXCEPT !.k = 0])
      /\ UNCHANGED <<leaves, groups, done>>
Complete == Len(stack) = 1 /\ Top.k >= 1
Finish == /\ Complete /\ ~done /\ done' = TRUE
          /\ (Emit => PrintT(<<"SCRIPT", ToJson(toks)>>))
          /\ UNCHANGED <<toks, stack, leaves, groups>>

Next == \/ (~done /\ (Atom(TRUE) \/ Atom(FALSE) \/ CaseDir \/ TypeDir \/ Open(TRUE) \/ Open(FALSE) \/ Close \/ Or))
        \/ Finish
Spec == Init /\ [][Next]_vars

-----------------------------------------------------------------------------
\* recogniser of the EBNF on skeleton tokens: each returns the positions after a successful parse
RECURSIVE ParseQ(_, _), ParseC(_, _), ParseE(_, _)
ParseE(s, i) == IF i > Len(s) THEN {}
                ELSE IF s[i] \in {"a", "-a", "c", "t"} THEN {i + 1}
                ELSE IF s[i] \in {"(", "-("} THEN {j + 1 : j \in {j \in ParseQ(s, i + 1) : j <= Len(s) /\ s[j] = ")"}}
                ELSE {}
ParseC(s, i) == LET first == ParseE(s, i) IN first \cup UNION {ParseC(s, j) : j \in first}
ParseQ(s, i) == LET first == ParseC(s, i)
                IN first \cup UNION {ParseQ(s, j + 1) : j \in {j \in first : j <= Len(s) /\ s[j] = "or"}}
Sentence(s) == Len(s) > 0 /\ (Len(s) + 1) \in ParseQ(s, 1)
DepthAt(s, i) == 1 + Cardinality({j \in 1..(i - 1) : s[j] \in {"(", "-("}}) - Cardinality({j \in 1..(i - 1) : s[j] = ")"})

FinishedAreSentences == done => /\ Sentence(toks)
                                /\ \A i \in 1..Len(toks) : DepthAt(toks, i) <= MaxDepth
                                /\ Cardinality({i \in 1..Len(toks) : toks[i] \in {"a", "-a", "c", "t"}}) <= MaxLeaves
TypeOK == /\ done \in BOOLEAN /\ leaves \in 0..MaxLeaves /\ Len(stack) \in 1..MaxDepth
          /\ \A i \in 1..Len(stack) : stack[i].n \in 0..MaxItems /\ stack[i].k \in 0..MaxItems
=============================================================================
