------------------------------ MODULE Zoekt ------------------------------
(* Root model: the life cycle of one index directory as operated by the indexserver.       *)
(* It composes, at the granularity of file-system steps, what the per-property modules     *)
(* specify in isolation (Finish: C12, MergeExplode: C35, Cleanup: C32, Tombstone: C17,      *)
(* the loader's view: C19) and puts them under the index mutex of C31:                      *)
(*   - repository-scoped operations (index a repository) take the read side + a per-repo   *)
(*     token, directory-wide operations (merge, explode, cleanup) take the write side;     *)
(*   - every operation is a sequence of single file-system steps, any interleaving of       *)
(*     steps of operations that may run concurrently is explored.                           *)
(* Properties: a live repository is never visible in two loadable shards, an assigned       *)
(* repository that has been indexed stays visible except inside its own (non-atomic)        *)
(* re-index, and temporary files never become visible.  With UseMutex = FALSE (no mutual    *)
(* exclusion) TLC finds the races the mutex exists for - the reason C31 matters to C12/C32. *)
EXTENDS Integers, Sequences, FiniteSets, TLC

CONSTANTS Repos,        \* e.g. {1, 2}
          MaxVersion,   \* versions 1..MaxVersion per repository
          UseMutex,     \* BOOLEAN
          MaxOps        \* bound on the number of operations started

\* A file: [kind, repos, ver, tomb, tmp]
\*   kind "simple": one repository (repos = {r}), ver = its version
\*   kind "compound": several repositories, ver = function repo -> version, tomb = tombstoned members
\*   tmp: TRUE while it carries a ".tmp" name (never loaded)
VARIABLES files,     \* set of files in the index directory
          trash,     \* set of files in .trash
          assigned,  \* repositories the server is responsible for
          ops,       \* running operations: sequence-number -> [kind, repo, pc, data]
          nextOp,
          indexed    \* repositories that completed at least one index run

vars == <<files, trash, assigned, ops, nextOp, indexed>>

Simple(r, v, tmp) == [kind |-> "simple", repos |-> {r}, ver |-> (r :> v), tomb |-> {}, tmp |-> tmp]
Loadable == {f \in files : ~f.tmp}
VisibleIn(f) == f.repos \ f.tomb
Visible(r) == {f \in Loadable : r \in VisibleIn(f)}

Init == /\ files = {} /\ trash = {} /\ assigned = Repos /\ ops = <<>> /\ nextOp = 1 /\ indexed = {}

Running == DOMAIN ops
RepoOpsRunning(r) == {o \in Running : ops[o].kind = "index" /\ ops[o].repo = r}
GlobalRunning == {o \in Running : ops[o].kind \in {"merge", "explode", "cleanup"}}

\* index mutex (C31): With(repo) needs no global op and no op for that repo; Global needs nothing running
MayStartRepo(r) == ~UseMutex \/ (GlobalRunning = {} /\ RepoOpsRunning(r) = {})
MayStartGlobal == ~UseMutex \/ Running = {}

Start(kind, r, data) ==
  /\ nextOp <= MaxOps
  /\ ops' = (nextOp :> [kind |-> kind, repo |-> r, pc |-> "begin", data |-> data]) @@ ops
  /\ nextOp' = nextOp + 1

Finish(o) == ops' = [x \in (DOMAIN ops) \ {o} |-> ops[x]] /\ UNCHANGED nextOp
Goto(o, pc, data) == ops' = [ops EXCEPT ![o].pc = pc, ![o].data = data] /\ UNCHANGED nextOp

\* ---------------------------------------------------------------- index one repository (Builder.Finish)
StartIndex(r, v) == /\ r \in assigned /\ MayStartRepo(r) /\ v \in 1..MaxVersion
                    /\ Start("index", r, v) /\ UNCHANGED <<files, trash, assigned, indexed>>
IndexStep(o) ==
  LET r == ops[o].repo v == ops[o].data IN
  /\ ops[o].kind = "index"
  /\ CASE ops[o].pc = "begin" ->      \* write the temporary shard
            /\ files' = files \cup {Simple(r, v, TRUE)} /\ Goto(o, "rename", v) /\ UNCHANGED <<trash, assigned, indexed>>
       [] ops[o].pc = "rename" ->     \* rename over the old simple shard (atomic replace)
            /\ files' = {f \in files : ~(f.kind = "simple" /\ f.repos = {r})} \cup {Simple(r, v, FALSE)}
            /\ Goto(o, "tombstone", v) /\ UNCHANGED <<trash, assigned, indexed>>
       [] ops[o].pc = "tombstone" ->  \* shard merging: hide the copy inside a compound shard
            /\ files' = {IF f.kind = "compound" /\ r \in f.repos /\ ~f.tmp THEN [f EXCEPT !.tomb = @ \cup {r}] ELSE f : f \in files}
            /\ indexed' = indexed \cup {r}
            /\ Finish(o) /\ UNCHANGED <<trash, assigned>>

\* ---------------------------------------------------------------- merge simple shards into a compound shard
MergeCandidates == {f \in Loadable : f.kind = "simple"}
StartMerge == /\ MayStartGlobal /\ Cardinality(MergeCandidates) >= 2
              /\ Start("merge", 0, MergeCandidates) /\ UNCHANGED <<files, trash, assigned, indexed>>
MergeStep(o) ==
  LET ins == ops[o].data
      comp(tmp) == [kind |-> "compound", repos |-> UNION {f.repos : f \in ins},
                    ver |-> [r \in UNION {f.repos : f \in ins} |-> (CHOOSE f \in ins : r \in f.repos).ver[r]],
                    tomb |-> {}, tmp |-> tmp]
  IN /\ ops[o].kind = "merge"
     /\ CASE ops[o].pc = "begin" -> /\ files' = files \cup {comp(TRUE)} /\ Goto(o, "delete", ins) /\ UNCHANGED <<trash, assigned, indexed>>
          [] ops[o].pc = "delete" -> \* inputs are removed before the compound shard becomes visible
               /\ files' = files \ ins /\ Goto(o, "rename", ins) /\ UNCHANGED <<trash, assigned, indexed>>
          [] ops[o].pc = "rename" ->
               /\ files' = (files \ {comp(TRUE)}) \cup {comp(FALSE)} /\ Finish(o) /\ UNCHANGED <<trash, assigned, indexed>>

\* ---------------------------------------------------------------- cleanup (cleanup.go after C32-F1)
StartCleanup == /\ MayStartGlobal /\ Start("cleanup", 0, {}) /\ UNCHANGED <<files, trash, assigned, indexed>>
CleanupStep(o) ==
  /\ ops[o].kind = "cleanup"
  /\ ops[o].pc = "begin"
  /\ LET gone == {f \in Loadable : f.kind = "simple" /\ f.repos \cap assigned = {}}
     IN /\ files' = {IF f.kind = "compound" /\ ~f.tmp THEN [f EXCEPT !.tomb = @ \cup (f.repos \ assigned)] ELSE f :
                        f \in {g \in files \ gone : ~g.tmp}}           \* also removes *.tmp leftovers
        /\ trash' = trash \cup gone
  /\ Finish(o) /\ UNCHANGED <<assigned, indexed>>

Unassign(r) == /\ r \in assigned /\ assigned' = assigned \ {r} /\ UNCHANGED <<files, trash, ops, nextOp, indexed>>

Next == \/ \E r \in Repos, v \in 1..MaxVersion : StartIndex(r, v)
        \/ StartMerge \/ StartCleanup
        \/ \E o \in Running : IndexStep(o) \/ MergeStep(o) \/ CleanupStep(o)
        \/ \E r \in Repos : Unassign(r)

Spec == Init /\ [][Next]_vars

-----------------------------------------------------------------------------
\* a live repository is never visible in two loadable shards (C35 / C12), except while its own
\* index run is between "rename" and "tombstone" (the recorded multi-artifact window C12-F1)
InOwnWindow(r) == \E o \in RepoOpsRunning(r) : ops[o].pc = "tombstone"
NoDuplicateRepo == \A r \in Repos : Cardinality(Visible(r)) > 1 => InOwnWindow(r)

\* an assigned repository that has been indexed is visible unless a directory-wide operation is in
\* the middle of moving it (merge between delete and rename) (C32 / C12)
InMergeWindow(r) == \E o \in GlobalRunning : ops[o].kind = "merge" /\ ops[o].pc = "rename" /\ \E f \in ops[o].data : r \in f.repos
AssignedStaysVisible == \A r \in indexed \cap assigned : Visible(r) # {} \/ InMergeWindow(r)

\* mutual exclusion itself (C31)
MutexHolds == UseMutex => /\ Cardinality(GlobalRunning) <= 1
                          /\ (GlobalRunning # {} => Running = GlobalRunning)
                          /\ \A r \in Repos : Cardinality(RepoOpsRunning(r)) <= 1
=============================================================================
