--------------------------- MODULE ShardViewOps ---------------------------
(* C09.  The abstract view of a written shard: what must be read back for a build           *)
(* description {options, repository description, documents as given}.  Pure operators,      *)
(* shared by the generator/model (ShardView.tla) and the trace specification                *)
(* (Trace_ShardView.tla).  Independent of the implementation: text is a sequence of code    *)
(* points (Text.tla), byte sizes are derived with the UTF-8 length function.                *)
(*                                                                                          *)
(* A document d as given:                                                                   *)
(*   kind     "text"   content = code points (valid UTF-8)                                  *)
(*            "bytes"  content = bytes (invalid UTF-8; the text is not interpreted)         *)
(*            "opaque" content = <<>>; size, nul, nl, ascii, crc are logged facts (10^4     *)
(*                     rune lines are not sent through TLC)                                 *)
(*   name (code points), branches (names, any order), lang, subrepo (path or ""),           *)
(*   syms = sequence of [s, e (rune offsets), bs, be (byte offsets), kind, parent, pkind],  *)
(*   crc = checksum of the content as given (CRC-64/ISO, computed by the Go stdlib).        *)
(* Options: sizeMax, trigramMax, large = sequence of patterns [neg, kind, arg], hash.       *)
(* via: "shard" (documents handed to a ShardBuilder) or "builder" (index.Builder).          *)
EXTENDS Text

SeqToSet(s) == {s[i] : i \in 1..Len(s)}

\* ------------------------------------------------------------------ explanation texts
MarkerPrefix == <<78,79,84,45,73,78,68,69,88,69,68,58,32>>                     \* "NOT-INDEXED: "
Explain(reason) ==
  CASE reason = "large"    -> <<101,120,99,101,101,100,115,32,116,104,101,32,109,97,120,105,109,117,109,32,115,105,122,101,32,108,105,109,105,116>>
    [] reason = "small"    -> <<99,111,110,116,97,105,110,115,32,116,111,111,32,102,101,119,32,116,114,105,103,114,97,109,115>>
    [] reason = "binary"   -> <<99,111,110,116,97,105,110,115,32,98,105,110,97,114,121,32,99,111,110,116,101,110,116>>
    [] reason = "trigrams" -> <<99,111,110,116,97,105,110,115,32,116,111,111,32,109,97,110,121,32,116,114,105,103,114,97,109,115>>
Marker(reason) == MarkerPrefix \o Explain(reason)
Reasons == {"large", "small", "binary", "trigrams"}

\* ------------------------------------------------------------------ facts about a content
Trigrams(c) == {<<c[i], c[i + 1], c[i + 2]>> : i \in 1..(Len(c) - 2)}
NTri(c) == Cardinality(Trigrams(c))
HasNul(c) == \E i \in 1..Len(c) : c[i] = 0
CountNL(c) == Cardinality({i \in 1..Len(c) : c[i] = 10})
IsAscii(c) == \A i \in 1..Len(c) : c[i] < 128

\* exact: the number of distinct trigrams is known; otherwise ntri is the upper bound size - 2
Facts(d) ==
  IF d.kind = "text" THEN
    [size |-> ByteLen(d.content), nul |-> HasNul(d.content), ntri |-> NTri(d.content), exact |-> TRUE,
     nl |-> CountNL(d.content), ascii |-> IsAscii(d.content)]
  ELSE IF d.kind = "bytes" THEN
    [size |-> Len(d.content), nul |-> HasNul(d.content),
     ntri |-> IF Len(d.content) > 2 THEN Len(d.content) - 2 ELSE 0, exact |-> FALSE,
     nl |-> CountNL(d.content), ascii |-> IsAscii(d.content)]
  ELSE
    [size |-> d.size, nul |-> d.nul, ntri |-> IF d.size > 2 THEN d.size - 2 ELSE 0, exact |-> FALSE,
     nl |-> d.nl, ascii |-> d.ascii]

\* ------------------------------------------------------------------ large-file patterns
\* exact: the path itself; suffix: "*<arg>" (no directory separator in the path);
\* deep: "**/*<arg>" (any directory depth).  The last matching pattern decides; a negated
\* pattern takes the permission away.
EndsWith(s, suf) == Len(s) >= Len(suf) /\ SubSeq(s, Len(s) - Len(suf) + 1, Len(s)) = suf
HasSlash(s) == \E i \in 1..Len(s) : s[i] = 47
PatMatch(p, name) ==
  CASE p.kind = "exact"  -> name = p.arg
    [] p.kind = "suffix" -> ~HasSlash(name) /\ EndsWith(name, p.arg)
    [] p.kind = "deep"   -> EndsWith(name, p.arg)
RECURSIVE AllowLargeFrom(_, _, _)
AllowLargeFrom(pats, name, k) ==
  IF k = 0 THEN FALSE
  ELSE IF PatMatch(pats[k], name) THEN ~pats[k].neg
  ELSE AllowLargeFrom(pats, name, k - 1)
AllowLarge(opts, name) == AllowLargeFrom(opts.large, name, Len(opts.large))

\* ------------------------------------------------------------------ skip decision
\* "none" or the reason the document is stored as its explanation text.  "undecided": the
\* facts logged for a non-text document do not determine the trigram decision (generators
\* avoid it; the trace specification reports it as a driver problem, never as a verdict).
SkipDecision(d, opts, via) ==
  LET f == Facts(d)
      allow == AllowLarge(opts, d.name)
  IN IF via = "shard" THEN (IF f.nul THEN "binary" ELSE "none")
     ELSE IF f.size > opts.sizeMax /\ ~allow THEN "large"
     ELSE IF f.size = 0 THEN "none"
     ELSE IF f.size < 3 THEN "small"
     ELSE IF f.nul THEN "binary"
     ELSE IF allow THEN "none"
     ELSE IF f.exact THEN (IF f.ntri > opts.trigramMax THEN "trigrams" ELSE "none")
     ELSE IF f.ntri <= opts.trigramMax THEN "none"
     ELSE "undecided"

SortedSyms(syms) == SortSeq(syms, LAMBDA a, b : a.s < b.s)

\* what the shard holds for d; mk = checksum of each explanation text
Stored(d, opts, via, mk) ==
  LET r == SkipDecision(d, opts, via)
      f == Facts(d)
  IN IF r = "none" \/ r = "undecided"
     THEN [reason |-> r, kind |-> d.kind, content |-> d.content, size |-> f.size, crc |-> d.crc,
           nl |-> f.nl, ascii |-> f.ascii, syms |-> SortedSyms(d.syms)]
     ELSE [reason |-> r, kind |-> "text", content |-> Marker(r), size |-> Len(Marker(r)), crc |-> mk[r],
           nl |-> 0, ascii |-> TRUE, syms |-> <<>>]

\* ------------------------------------------------------------------ expected readback of a document
BranchIdx(desc, d) == {i \in 1..Len(desc.branches) : desc.branches[i].n \in SeqToSet(d.branches)}
MinOf(S) == CHOOSE x \in S : \A y \in S : x <= y
RECURSIVE Ascending(_)
Ascending(S) == IF S = {} THEN <<>> ELSE LET m == MinOf(S) IN <<m>> \o Ascending(S \ {m})
OrderedBranches(desc, d) ==
  LET idx == Ascending(BranchIdx(desc, d))
  IN [k \in 1..Len(idx) |-> desc.branches[idx[k]].n]

SubRepos(desc) == SelectSeq(desc.subrepos, LAMBDA s : s.path # "")
SubOf(desc, path) == LET S == SubRepos(desc) IN S[CHOOSE k \in 1..Len(S) : S[k].path = path]

ExpVersion(desc, d) ==
  LET I == BranchIdx(desc, d) IN
  IF I = {} THEN ""
  ELSE IF d.subrepo = "" THEN desc.branches[MinOf(I)].v
  ELSE SubOf(desc, d.subrepo).branches[MinOf(I)].v

ExpDoc(desc, d, opts, via, mk) ==
  LET st == Stored(d, opts, via, mk) IN
  [repo |-> desc.name, name |-> d.name, kind |-> st.kind, content |-> st.content, clen |-> st.size,
   chash |-> st.crc, sum |-> st.crc, branches |-> OrderedBranches(desc, d),
   lang |-> IF d.lang # "" THEN d.lang ELSE IF st.reason = "none" THEN d.enryFull ELSE d.enryName,
   subname |-> IF d.subrepo = "" THEN "" ELSE SubOf(desc, d.subrepo).name, subpath |-> d.subrepo,
   version |-> ExpVersion(desc, d), syms |-> st.syms, symerr |-> ""]

\* ------------------------------------------------------------------ expected repository description
ExpRepo(desc, via, opts) ==
  [desc EXCEPT !.hasSymbols = IF via = "builder" THEN FALSE ELSE @,
               !.indexOptions = IF via = "builder" THEN opts.hash ELSE @,
               !.subrepos = SubRepos(desc)]

\* ------------------------------------------------------------------ bags
Count(s, x) == Cardinality({k \in 1..Len(s) : s[k] = x})
SameBag(a, b) ==
  LET A == SeqToSet(a) B == SeqToSet(b) IN
  /\ Len(a) = Len(b) /\ A = B
  /\ (Cardinality(A) = Len(a) \/ \A x \in A : Count(a, x) = Count(b, x))

Occurs(p, s) == \E i \in 0..(Len(s) - Len(p)) : SubSeq(s, i + 1, i + Len(p)) = p

RECURSIVE SumSeq(_, _)
SumSeq(s, k) == IF k = 0 THEN 0 ELSE s[k] + SumSeq(s, k - 1)
Sum(s) == SumSeq(s, Len(s))
=============================================================================
