----------------------------- MODULE Incremental -----------------------------
(* C38: a repository indexed once receives requests that differ from what it was built from   *)
(* in at most two fields; the index server skips (equal), patches the metadata                 *)
(* (meta-mismatch) or re-indexes.  After every request the index must be as good as one built *)
(* from the request.  "Content-affecting" is derived: two option sets differ in a              *)
(* content-affecting way iff the model of the builder gives a different view of the corpus.    *)
EXTENDS IncrementalOps, Json

CONSTANTS MaxSteps, Strict, InitAll,
          Fixed      \* FALSE: Classify / merge as the code is; TRUE: with the proposed fix

VARIABLES built, last, steps
vars == <<built, last, steps>>

\* a corpus with a document around every threshold the options know
Big == <<"*.big">>
MCorpus == <<
  [n |-> "s0301.txt", size |-> 301,  tri |-> 2,  match |-> <<>>, lang |-> "",   syms |-> 0, bin |-> FALSE, br |-> <<0>>],
  [n |-> "s2500.big", size |-> 2500, tri |-> 2,  match |-> Big,  lang |-> "",   syms |-> 0, bin |-> FALSE, br |-> <<0>>],
  [n |-> "t006.txt",  size |-> 8,    tri |-> 6,  match |-> <<>>, lang |-> "",   syms |-> 0, bin |-> FALSE, br |-> <<0>>],
  [n |-> "t050.big",  size |-> 52,   tri |-> 50, match |-> Big,  lang |-> "",   syms |-> 0, bin |-> FALSE, br |-> <<0>>],
  [n |-> "sym.go",    size |-> 49,   tri |-> 40, match |-> <<>>, lang |-> "go", syms |-> 2, bin |-> FALSE, br |-> <<0>>],
  [n |-> "bin.dat",   size |-> 10,   tri |-> 8,  match |-> <<>>, lang |-> "",   syms |-> 0, bin |-> TRUE,  br |-> <<0>>] >>

Dom == [SizeMax |-> {300, 2000}, TrigramMax |-> {5, 20000},
        LargeFiles |-> {<<>>, <<[p |-> "*.big", neg |-> FALSE]>>},
        DisableCTags |-> BOOLEAN, CTagsPath |-> {"", "U"}, ScipCTagsPath |-> {"", "S"},
        CTagsMustSucceed |-> {FALSE}, LanguageMap |-> {"", "go:scip"}, ShardMax |-> {100}, Parallelism |-> {1, 4},
        Name |-> {"r"}, ID |-> {1}, TenantID |-> {1}, Branches |-> {<<"main@v1">>, <<"main@v2">>},
        Metadata |-> {<<>>, <<[k |-> "team", v |-> "x"]>>},
        URL |-> {"u1", "u2"}, CommitURLTemplate |-> {"c"}, FileURLTemplate |-> {"f"}, LineFragmentTemplate |-> {"l"},
        RawConfig |-> {<<[k |-> "fork", v |-> "0"]>>, <<[k |-> "fork", v |-> "1"]>>, <<>>}]

Cfgs == [SizeMax : Dom.SizeMax, TrigramMax : Dom.TrigramMax, LargeFiles : Dom.LargeFiles,
         DisableCTags : Dom.DisableCTags, CTagsPath : Dom.CTagsPath, ScipCTagsPath : Dom.ScipCTagsPath,
         CTagsMustSucceed : Dom.CTagsMustSucceed, LanguageMap : Dom.LanguageMap, ShardMax : Dom.ShardMax,
         Parallelism : Dom.Parallelism, Name : Dom.Name, ID : Dom.ID, TenantID : Dom.TenantID,
         Branches : Dom.Branches, Metadata : Dom.Metadata, URL : Dom.URL,
         CommitURLTemplate : Dom.CommitURLTemplate, FileURLTemplate : Dom.FileURLTemplate,
         LineFragmentTemplate : Dom.LineFragmentTemplate, RawConfig : Dom.RawConfig]

\* neighbours of c: at most two fields changed
Near(c) ==
  {c} \cup UNION {{[c EXCEPT ![f] = x] : x \in Dom[f]} : f \in AllFields}
      \cup UNION {UNION {{[c EXCEPT ![f] = x, ![g] = y] : x \in Dom[f], y \in Dom[g]} : g \in AllFields \ {f}} : f \in AllFields}

\* ---------------------------------------------------------------- derived: content-affecting
ContentEq(a, b) == ModelView(a, MCorpus) = ModelView(b, MCorpus)

BaseCfg == [f \in AllFields |-> CHOOSE x \in Dom[f] : TRUE]
OptSets == {c \in Cfgs : \A f \in DescFields : c[f] = BaseCfg[f]}

\* option fields whose change alone can change the view of some corpus
ContentFields == {f \in OptFields : \E a \in OptSets : \E x \in Dom[f] : ~ContentEq(a, [a EXCEPT ![f] = x])}

\* content-affecting fields the option hash does not cover: the named deviation
Unhashed == ContentFields \ HashedFields

ASSUME PrintT(<<"CONTENT_FIELDS", ToJson(ContentFields)>>)
ASSUME PrintT(<<"UNHASHED_CONTENT_FIELDS", ToJson(Unhashed)>>)

-----------------------------------------------------------------------------
Init == /\ built \in {c \in Cfgs : /\ c.DisableCTags = (c.CTagsPath = "") /\ c.Parallelism = 1
                                /\ (InitAll \/ \A f \in DescFields : c[f] = BaseCfg[f])}
        /\ last = [req |-> built, state |-> "missing", before |-> built]
        /\ steps = 0

Request(req) ==
  LET s == Classify(Fixed, "none", built, req) IN
  /\ steps < MaxSteps
  /\ steps' = steps + 1
  /\ last' = [req |-> req, state |-> s, before |-> built]
  /\ built' = CASE s = "equal" -> built                         \* Skip
                [] s = "meta-mismatch" -> Merged(Fixed, built, req)    \* MetaOnly (mergeMeta)
                [] OTHER -> req                                 \* Reindex

Next == \E req \in Near(built) : Request(req)
Spec == Init /\ [][Next]_vars

view == <<built, last, steps>>

-----------------------------------------------------------------------------
\* the deviations of the code the model reproduces
KF_UnhashedContent == \E f \in Unhashed : last.before[f] # last.req[f]
KF_MetaIgnored == ~(ToSet(last.req.Metadata) \subseteq ToSet(last.before.Metadata))

\* skip or metadata patch only when the index has the request's content and branches
SkipSound ==
  last.state \in {"equal", "meta-mismatch"} =>
     /\ built.Branches = last.req.Branches
     /\ ContentEq(built, last.req) \/ (~Strict /\ KF_UnhashedContent)

\* after skip / metadata patch the metadata is the request's.  RawConfig and Metadata are maps
\* a request may describe partially: every pair of the request must be in the index.
MetaApplied ==
  last.state \in {"equal", "meta-mismatch"} =>
     /\ \A f \in MutableFields \ {"RawConfig"} : built[f] = last.req[f]
     /\ RawPairs(last.req) \subseteq ToSet(built.RawConfig)
     /\ ToSet(last.req.Metadata) \subseteq ToSet(built.Metadata) \/ (~Strict /\ KF_MetaIgnored)

\* metadata-only changes do not cause a re-index
NoNeedlessReindex ==
  (Diff(last.before, last.req) \subseteq MutableFields /\ MutableChange(Fixed, last.before, last.req))
     => last.state = "meta-mismatch"

\* any change of branches or of a hashed option re-indexes
ChangeReindexes ==
  (last.before.Branches # last.req.Branches \/ Hash(Fixed, last.before) # Hash(Fixed, last.req)) =>
     last.state \in {"content-mismatch", "option-mismatch"} /\ built = last.req
=============================================================================
