---------------------------- MODULE MergeContent ----------------------------
(* C16: state machine of an index directory under merge / explode / tombstone, content    *)
(* part (file-level atomicity and faults of the same operations are C35's MergeExplode).   *)
(* Used for model checking and to generate replay scripts (one per explored transition).  *)
(*                                                                                         *)
(*   dir   set of abstract shards (MergeContentOps)                                        *)
(*   lost  repositories dropped for good by a merge / explode                              *)
(*   hist  operations so far, each with the directory it leads to (the prediction)         *)
(* Three repositories with priorities 30, 20, 10; the ones in Empty have no documents.     *)
EXTENDS MergeContentOps, Json

CONSTANTS MaxDepth, Emit, Empty

VARIABLES dir, lost, hist
vars == <<dir, lost, hist>>

Repos == {1, 2, 3}
nd == [i \in Repos |-> IF i \in Empty THEN 0 ELSE 2 + i]
pr == [i \in Repos |-> 40 - 10 * i]

Simple(i) == [compound |-> FALSE, repos |-> <<[id |-> i, tomb |-> FALSE]>>]

RECURSIVE SetToSeq(_)
SetToSeq(S) == IF S = {} THEN <<>> ELSE LET x == CHOOSE x \in S : TRUE IN <<x>> \o SetToSeq(S \ {x})

Init == dir = {Simple(i) : i \in Repos} /\ lost = {} /\ hist = <<>>

\* A compound shard without repositories (everything merged was tombstoned or empty) cannot be
\* opened; merge refuses it, explode removes it.  Such shards are indistinguishable garbage: the
\* directory (a set) holds at most one of them, Trace_MergeContent counts the real files.
Loadable(sh) == sh.repos # <<>>

Compounds == {c \in dir : c.compound}
Ops == [op : {"merge"}, shards : {S \in SUBSET dir : S # {} /\ \A sh \in S : Loadable(sh)}]
       \cup [op : {"explode"}, shard : Compounds]
       \cup {o \in [op : {"tomb"}, shard : Compounds, id : Repos] : o.id \in LiveIds(o.shard)}
       \cup {o \in [op : {"untomb"}, shard : Compounds, id : Repos] : o.id \in AllIds(o.shard) \ LiveIds(o.shard)}

\* the operation as the driver gets it: shards are named by their repository lists
Show(o) == [op |-> o.op,
            shards |-> IF o.op = "merge" THEN SetToSeq({sh.repos : sh \in o.shards}) ELSE <<>>,
            shard |-> IF o.op = "merge" THEN <<>> ELSE o.shard.repos,
            id |-> IF o.op \in {"tomb", "untomb"} THEN o.id ELSE 0,
            via |-> ""]

Step(o) == \E d \in After(dir, o, nd, pr) :
              /\ dir' = d
              /\ lost' = lost \cup Dropped(o, nd)
              /\ hist' = Append(hist, [o |-> Show(o), dir |-> d])
              /\ (Emit => PrintT(<<"SCRIPT", ToJson([empty |-> SetToSeq(Empty),
                                                     ops |-> [i \in DOMAIN hist' |-> hist'[i].o],
                                                     dirs |-> [i \in DOMAIN hist' |-> hist'[i].dir]])>>))

Next == Len(hist) < MaxDepth /\ \E o \in Ops : Step(o)
Spec == Init /\ [][Next]_vars

view == <<dir, lost>>

-----------------------------------------------------------------------------
Tombstoned(d) == UNION {AllIds(sh) \ LiveIds(sh) : sh \in d}

\* a repository is never in two shards
NoDuplicateRepo == \A a, b \in dir : a # b => AllIds(a) \cap AllIds(b) = {}

\* every repository is searchable/listed, hidden by a tombstone, or was dropped
Accounted == /\ Listed(dir) \cup Tombstoned(dir) \cup lost = Repos
             /\ lost \cap (Listed(dir) \cup Tombstoned(dir)) = {}

\* simple shards hold exactly one live repository; nothing carried is empty or tombstoned
WellFormed == \A sh \in dir : /\ ~sh.compound => Len(sh.repos) = 1 /\ ~sh.repos[1].tomb

\* merging and exploding do not change what can be searched or (apart from repositories
\* without documents) listed; they drop only tombstoned or empty repositories
LastOp == hist'[Len(hist')].o
ContentStable ==
  [][LastOp.op \in {"merge", "explode"} =>
       /\ Searchable(dir', nd) = Searchable(dir, nd)
       /\ Listed(dir') = Listed(dir) \ {i \in Repos : nd[i] = 0 /\ i \in lost'}
       /\ \A i \in lost' \ lost : i \in Tombstoned(dir) \/ nd[i] = 0]_vars
\* tombstones hide / show exactly the addressed repository
TombExact ==
  [][LastOp.op \in {"tomb", "untomb"} =>
       /\ lost' = lost
       /\ Listed(dir') = (IF LastOp.op = "tomb" THEN Listed(dir) \ {LastOp.id} ELSE Listed(dir) \cup {LastOp.id})]_vars
=============================================================================
