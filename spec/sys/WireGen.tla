------------------------------ MODULE WireGen ------------------------------
(* C24, totality: the request SHAPES the gRPC handlers have to answer, enumerated by TLC.  *)
(* A query shape is a token sequence in prefix notation (homogeneous, so that TLC can put  *)
(* shapes into sets):                                                                      *)
(*   leaf tokens   valid nodes ("const", "substr", ...), nodes that cannot be given a       *)
(*                 meaning ("regexp-bad": invalid regexp text, "repoids-corrupt": corrupt   *)
(*                 bitmap bytes, ...), missing parts ("nil": no Q message, "unset": Q with   *)
(*                 the oneof unset, "in-<kind>": oneof case set but its message nil,        *)
(*                 "br-nil-elem": nil element in BranchesRepos.list)                        *)
(*   "not" "type" "boost" "symbol"   followed by one child shape                            *)
(*   "and0" "and1" "and2" "or1" "or2" followed by that many child shapes                    *)
(* A request = method x request form x query shape x options form.                          *)
EXTENDS Wire

CONSTANTS Emit, Full

VARIABLE c
vars == <<c>>

One(S)  == {<<x>> : x \in S}
U(S)    == {<<u>> \o s : u \in Unary, s \in S}
N1(S)   == {<<"and0">>} \cup {<<n>> \o s : n \in {"and1", "or1"}, s \in S}
N(S)    == N1(S) \cup {<<n>> \o s \o t : n \in {"and2", "or2"}, s \in S, t \in S}

SmallLeaves == One({"const", "substr", "nil", "unset", "regexp-bad", "in-rawconfig"})
TinyLeaves  == One({"const", "nil", "unset"})

L1 == One(Leaves)
L2 == U(L1) \cup N(SmallLeaves)
L3 == IF Full THEN U(U(SmallLeaves)) \cup U(N(SmallLeaves)) \cup N(U(SmallLeaves))
      ELSE U(U(TinyLeaves)) \cup U(N1(TinyLeaves)) \cup N1(U(TinyLeaves))

Shapes == L1 \cup L2 \cup L3

OptForms == {"nil", "zero", "set"}
ReqForms(m) == IF m = "StreamSearch" THEN {"nil", "inner-nil", "ok"} ELSE {"nil", "ok"}

Requests ==
  {[method |-> m, req |-> r, shape |-> <<"const">>, opts |-> "zero"] : m \in Methods, r \in {"nil", "inner-nil"}}
  \cup {[method |-> m, req |-> "ok", shape |-> s, opts |-> o] : m \in Methods, s \in L1, o \in OptForms}
  \cup {[method |-> m, req |-> "ok", shape |-> s, opts |-> "zero"] : m \in Methods, s \in L2 \cup L3}

Init == c = [method |-> "none"]
Next == /\ c.method = "none"
        /\ \E x \in {r \in Requests : r.req \in ReqForms(r.method)} :
             /\ c' = x
             /\ (Emit => PrintT(<<"SCRIPT", ToJson(x)>>))
Spec == Init /\ [][Next]_vars

IsReq == c.method # "none"
\* the specification always allows some answer, and every class occurs for every method
InvAllowed == IsReq => Allowed(c.req, c.shape) # {} /\ Allowed(c.req, c.shape) \subseteq Outcomes
InvDepth   == IsReq => Len(c.shape) >= 1 /\ c.shape[1] \in Leaves \cup Unary \cup {"and0", "and1", "and2", "or1", "or2"}
=============================================================================
