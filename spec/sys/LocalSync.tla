----------------------------- MODULE LocalSync -----------------------------
(* State machine of roots + index directory under zoekt-local-sync, for model checking   *)
(* and for generating replay scripts.  C33 (previews) and C34 (sync -f / remove -f).      *)
EXTENDS LocalSyncOps, Json

CONSTANTS Names,      \* directory names of repositories, {"a","b"} (= base names of the roots)
          MaxRepos,   \* repository slots
          MaxHead,    \* commits per repository
          MaxDepth,   \* bound on the number of state changing steps of a history
          Foreign,    \* TRUE: shards written by another tool may appear in the index
          Emit,       \* "none" | "C33" | "C34": print replay scripts
          EmitMod     \* 1: a script for every explored (state, command); k: a deterministic 1/k of them

VARIABLES repos, index, hist
vars == <<repos, index, hist>>
\* the history is not part of the state; its length is, so that "every state reachable by a
\* history of at most MaxDepth steps" does not depend on the order in which TLC's workers meet them
view == <<repos, index, Len(hist)>>

Positions == [r : {1, 2}, k : {"top", "bare", "nest"}, n : Names]
             \cup {[r |-> r, k |-> "self", n |-> RootBase(r)] : r \in {1, 2}}

Other(r) == 3 - r
E(act, p, r2, k2, n2) == [act |-> act, r |-> p.r, k |-> p.k, n |-> p.n, r2 |-> r2, k2 |-> k2, n2 |-> n2]

\* DuplicateNameAcrossRoots (and inside one root: <n> next to <n>.git): a clone that is
\* discovered under the same name as p
DupTargets(p) ==
  CASE p.k \in {"top", "bare"} -> {q \in Positions : q.n = p.n /\ q.k \in {"top", "bare"} /\ q # [r |-> p.r, k |-> p.k, n |-> p.n]}
    [] p.k = "nest"            -> {[r |-> Other(p.r), k |-> "nest", n |-> p.n]}
    [] p.k = "self"            -> {q \in Positions : q.r = Other(p.r) /\ q.n = p.n /\ q.k \in {"top", "bare"}}

EnvActs ==
  {E("add", q, 0, "", "") : q \in Positions}
  \cup {E("del", p, 0, "", "") : p \in repos}
  \cup {E("rename", p, 0, "", n2) : p \in repos, n2 \in Names}
  \cup {E("move", p, Other(p.r), "", "") : p \in repos}
  \cup {E("commit", p, 0, "", "") : p \in repos}
  \cup UNION {{E("clone", p, q.r, q.k, q.n) : q \in DupTargets(p)} : p \in repos}
  \cup (IF Foreign THEN {[act |-> "foreign", r |-> 0, k |-> "", n |-> n, r2 |-> 0, k2 |-> "", n2 |-> ""] : n \in Names} ELSE {})

\* OverlapRoots is a choice of arguments: root 3 lies inside root 1
RootArgs == {<<1>>, <<2>>, <<1, 2>>, <<3>>, <<1, 3>>, <<3, 2>>}

ByName(v) == [by |-> "name", v |-> v]
BySrc(v)  == [by |-> "src", v |-> v]
Missing   == ByName("nosuch")
SelArgs ==
  {<<Missing>>}
  \cup {<<ByName(rec.name)>> : rec \in index}
  \cup {<<BySrc(rec.src)>> : rec \in {x \in index : x.src # ""}}
  \cup {<<ByName(rec.name), Missing>> : rec \in index}
  \cup {<<ByName(x.name), BySrc(y.src)>> : x \in index, y \in {z \in index : z.src # ""}}

Sync(rs, f)   == [op |-> "sync", force |-> f, roots |-> rs, sels |-> <<>>]
Remove(ss, f) == [op |-> "remove", force |-> f, roots |-> <<>>, sels |-> ss]
Cmds(f) == {Sync(rs, f) : rs \in RootArgs} \cup {Remove(ss, f) : ss \in SelArgs}

EnvStep(a)       == [t |-> "env", a |-> a]
CmdStep(c, i, r) == [t |-> "cmd", c |-> c, pre |-> i, pred |-> r]

\* deterministic thinning of the printed scripts (a checksum of history and command)
ActCode(a)  == CASE a = "add" -> 1 [] a = "del" -> 2 [] a = "rename" -> 3 [] a = "move" -> 4 [] a = "commit" -> 5
                 [] a = "clone" -> 6 [] OTHER -> 7
KindCode(k) == CASE k = "top" -> 1 [] k = "bare" -> 2 [] k = "nest" -> 3 [] k = "self" -> 4 [] OTHER -> 0
CmdCode(c)  == (IF c.op = "sync" THEN 11 ELSE 13) + 5 * Len(c.roots) + 3 * (IF c.roots # <<>> THEN c.roots[1] ELSE 0)
               + 7 * Len(c.sels) + (IF c.sels # <<>> /\ c.sels[1].by = "src" THEN 2 ELSE 0)
StepCode(s) == IF s.t = "cmd" THEN CmdCode(s.c)
               ELSE 31 * ActCode(s.a.act) + 17 * s.a.r + 7 * KindCode(s.a.k) + 3 * (IF s.a.n = "a" THEN 1 ELSE 2)
                    + s.a.r2 + 5 * KindCode(s.a.k2)
RECURSIVE HistCode(_, _)
HistCode(h, i) == IF i > Len(h) THEN 0 ELSE i * StepCode(h[i]) + HistCode(h, i + 1)
Emits(mode, c) == Emit = mode /\ (EmitMod = 1 \/ (HistCode(hist, 1) + CmdCode(c)) % EmitMod = 0)

Init == repos = {} /\ index = {} /\ hist = <<>>

Env(a) == /\ Len(hist) < MaxDepth
          /\ EnvOK(repos, index, a, MaxRepos, MaxHead)
          /\ LET s == EnvApply(repos, index, a) IN repos' = s.repos /\ index' = s.index
          /\ hist' = Append(hist, EnvStep(a))

\* a command with -f; C34 scripts: the history, the command, and for a sync the same command
\* once more (which has to find everything up to date)
Apply(c) ==
  LET r == Run(repos, index, c) IN
  /\ UNCHANGED repos
  /\ IF r.index # index /\ Len(hist) < MaxDepth
     THEN index' = r.index /\ hist' = Append(hist, CmdStep(c, index, r))
     ELSE UNCHANGED <<index, hist>>       \* no change, or a final command at the depth bound
  /\ (Emits("C34", c) =>
        PrintT(<<"SCRIPT", ToJson([steps |-> Append(hist, CmdStep(c, index, r)) \o
            (IF c.op = "sync" THEN <<CmdStep(c, r.index, Run(repos, r.index, c))>> ELSE <<>>)])>>))

\* a command without -f; C33 scripts: the history, the preview, then the same command with -f
Preview(c) ==
  LET r  == Run(repos, index, c)
      cf == [c EXCEPT !.force = TRUE]
  IN /\ UNCHANGED vars
     /\ (Emits("C33", c) =>
           PrintT(<<"SCRIPT", ToJson([steps |-> hist \o <<CmdStep(c, index, r), CmdStep(cf, index, Run(repos, index, cf))>>])>>))

Next == \/ \E a \in EnvActs : Env(a)
        \/ \E c \in Cmds(TRUE) : Apply(c)
        \/ (Emit = "C33" /\ \E c \in Cmds(FALSE) : Preview(c))

Spec == Init /\ [][Next]_vars

-----------------------------------------------------------------------------
(* Properties.  They are state predicates over *every* command that could be issued in    *)
(* the current state, so that VIEW (which drops the history) does not hide transitions.   *)
TypeOK == /\ \A p \in repos : [r |-> p.r, k |-> p.k, n |-> p.n] \in Positions /\ p.h \in 1..MaxHead
          /\ Cardinality(repos) <= MaxRepos
          /\ \A p, q \in repos : (p.r = q.r /\ p.k = q.k /\ p.n = q.n) => p = q

\* one shard set per name (the shard file name is the escaped repository name)
UniqueNames == \A x, y \in index : x.name = y.name => x = y

\* C33: a preview changes nothing, fails iff -f fails, and announces exactly what -f does
PreviewSideEffectFree == \A c \in Cmds(FALSE) : Run(repos, index, c).index = index
PreviewFaithful ==
  \A c \in Cmds(FALSE) :
    LET p == Run(repos, index, c)
        a == Run(repos, index, [c EXCEPT !.force = TRUE])
        d == Delta(index, a.index)
    IN /\ p.ok = a.ok /\ p.errs = a.errs
       /\ p.ann = a.ann
       /\ p.ok => IF c.op = "sync" THEN p.ann = d ELSE p.ann.remove = d.remove /\ d.index = {}

\* C34: success => the index is the discovered set, every record up to date, nothing else;
\* running it again finds everything up to date and removes nothing
Converges ==
  \A rs \in RootArgs :
    LET a == Run(repos, index, Sync(rs, TRUE)) IN
    a.ok => /\ a.index = Disc(repos, rs)
            /\ \A x, y \in a.index : x.name = y.name => x = y
            /\ LET b == Run(repos, a.index, Sync(rs, TRUE))
               IN b.ok /\ b.index = a.index /\ b.ann.remove = {} /\ b.ann.index = {} /\ b.ann.uptodate = Keys(a.index)
\* duplicate names (or a repository reached through two roots) => failure, nothing changed
FailBeforeChange ==
  \A c \in Cmds(TRUE) :
    LET a == Run(repos, index, c) IN
    /\ ~a.ok => a.index = index /\ a.ann = NoAnn
    /\ (c.op = "sync" /\ \E x, y \in Found(repos, c.roots) : x # y /\ x.it.name = y.it.name) => ~a.ok
\* remove -f deletes exactly the selected records
RemoveExact ==
  \A ss \in SelArgs :
    LET a   == Run(repos, index, Remove(ss, TRUE))
        sel == {rec \in index : \E i \in DOMAIN ss : (ss[i].by = "name" /\ rec.name = ss[i].v) \/ (ss[i].by = "src" /\ rec.src = ss[i].v)}
    IN a.ok => a.index = index \ sel /\ a.ann.remove = Keys(sel)

\* the strict form of faithfulness for the preview *as the code computes it*: violated by the
\* named deviation CodePreviewSync (LocalSync_strict.cfg; finding C33-F1)
CodePreviewFaithful ==
  \A rs \in RootArgs :
    DiscErrs(repos, rs) = {} =>
      CodePreviewSync(index, Disc(repos, rs)) = ApplySync(index, Disc(repos, rs)).ann
\* ... and the deviation is exactly the stale-shard-with-equal-head situation
DeviationCharacterised ==
  \A rs \in RootArgs :
    DiscErrs(repos, rs) = {} =>
      ((CodePreviewSync(index, Disc(repos, rs)) # PreviewSync(index, Disc(repos, rs)))
         <=> StaleSameHead(index, Disc(repos, rs)))
=============================================================================
