--------------------------- MODULE IndexMutex ---------------------------
(* C31 state machine.  The variable mode is chosen in Init from the constant Modes:        *)
(*    "gen"   : Macro = FALSE, general rw-lock semantics                                  *)
(*    "go"    : Macro = FALSE, sync.RWMutex semantics                                     *)
(*    "macro" : Macro = TRUE,  sync.RWMutex semantics (schedule generation)               *)
(*  Macro = FALSE : every interleaving of the code's steps (IndexMutexOps!StepP) with      *)
(*                  the environment's commands (a goroutine calls With(n,f) / Global(f);  *)
(*                  a running f returns) -- the model that is checked exhaustively.       *)
(*  Macro = TRUE  : the driver's view: one command, then the code runs to quiescence.      *)
(*                  With Emit it prints one schedule per explored transition: the command  *)
(*                  history of the representative state + the command, each step with the  *)
(*                  predicted observable state (who is inside f, who is blocked, what was  *)
(*                  returned, content of m.running).                                       *)
EXTENDS IndexMutexOps, Json

CONSTANTS N,         \* goroutines
          Names,     \* repository names, e.g. {"a","b"}
          MaxDepth,  \* bound on the number of commands in the modes "gen" and "go"
          MacroDepth,\* ... in mode "macro"
          Modes,     \* subset of {"gen", "go", "macro"}
          Emit,      \* TRUE: print schedules (mode "macro")
          ViewRet    \* TRUE: the last return values are part of the explored state (more histories)

VARIABLES st, hist, mode
vars == <<st, hist, mode>>

Go == mode # "gen"          \* lock semantics, see IndexMutexOps
Macro == mode = "macro"

P == 1..N
OpsSet == [k : {"with"}, n : Names] \cup {[k |-> "global", n |-> ""]}

Init == st = InitSt(N) /\ hist = <<>> /\ mode \in Modes

Entry(c, p, o, s) == [c |-> c, p |-> p, k |-> o.k, n |-> o.n, exp |-> Proj(s)]

Internal == /\ ~Macro
            /\ \E p \in P : \E t \in StepP(st, p, Go) : st' = t
            /\ UNCHANGED <<hist, mode>>

CmdStart(p, o) ==
  /\ CanStart(st, p)
  /\ IF Macro THEN st' \in Settle(Start(st, p, o), Go) ELSE st' = Start(st, p, o)
  /\ hist' = Append(hist, Entry("start", p, o, st'))

CmdExit(p) ==
  /\ CanExit(st, p)
  /\ IF Macro THEN st' \in Settle(Exit(st, p), Go) ELSE st' = Exit(st, p)
  /\ hist' = Append(hist, Entry("exit", p, st.op[p], st'))

Cmd == /\ Len(hist) < (IF Macro THEN MacroDepth ELSE MaxDepth)
       /\ \E p \in P : CmdExit(p) \/ \E o \in OpsSet : CmdStart(p, o)
       /\ UNCHANGED mode
       /\ ((Emit /\ Macro) => PrintT(<<"SCRIPT", ToJson([procs |-> N, steps |-> hist'])>>))

Next == Internal \/ Cmd
Spec == Init /\ [][Next]_vars

\* op of an idle goroutine, its last return value and ran are history
view == [mode |-> mode, pc |-> st.pc, op |-> [p \in P |-> IF st.pc[p] = "idle" THEN NoOp ELSE st.op[p]],
         running |-> st.running, wown |-> st.wown,
         ret |-> IF ViewRet THEN [p \in P |-> IF st.pc[p] = "idle" THEN st.ret[p] ELSE "none"] ELSE <<>>]

-----------------------------------------------------------------------------
TypeOK == /\ st.running \subseteq Names
          /\ st.wown \in 0..N
          /\ \A p \in P : st.pc[p] # "idle" => st.op[p] \in OpsSet
InvRepoExclusive   == RepoExclusive(st)
InvGlobalExclusive == GlobalExclusive(st)
InvSkipReported    == SkipReported(st)
InvRunningExact    == RunningExact(st)
InvLockDiscipline  == LockDiscipline(st)
InvNoStuck         == NoStuck(st, Go)
\* the go semantics only removes behaviours: every go-quiescent state reached is, after
\* forgetting the bookkeeping, admissible under the general semantics
Gen(s) == [s EXCEPT !.pc = [p \in Procs(s) |-> IF s.pc[p] = "rlb" THEN "rl"
                                               ELSE IF s.pc[p] = "wl1" THEN "wl" ELSE s.pc[p]],
                    !.wown = 0]
InvMacroQuiescent == Macro => Quiescent(st, Go)
RefinesGeneral ==
  [][(Macro /\ hist' # hist) =>
       LET e == hist'[Len(hist')]
           b == IF e.c = "start" THEN Start(Gen(st), e.p, [k |-> e.k, n |-> e.n]) ELSE Exit(Gen(st), e.p)
       IN Gen(st') \in Settle(b, FALSE)]_vars
=============================================================================
