----------------------------- MODULE ZoektSeq -----------------------------
(* The operation-level reading of the root model Zoekt.tla: the life cycle of one index     *)
(* directory as operated by zoekt-sourcegraph-indexserver, every operation atomic (they are  *)
(* serialised by the index mutex, C31): index a repository (shard merging on), merge simple  *)
(* shards into a compound shard, vacuum (drop tombstones / explode), cleanup, assign /       *)
(* unassign, the clock, a crashed indexer.  The meaning of each operation is ZoektSeqOps.    *)
(* TLC checks the statement after every operation (viol = {}), prints replay scripts         *)
(* (operation sequence + predicted state) and, in simulation mode, long random histories.    *)
EXTENDS ZoektSeqOps, Json

CONSTANTS Repos,       \* e.g. {1, 2}
          MaxVersion,  \* versions 1..MaxVersion
          MaxDepth,    \* operations after the warm start
          MaxTick,     \* how often the clock may advance by 25 h
          MaxCrash,    \* *.tmp files a crashed indexer may leave (0 or 1)
          Starts,      \* warm starts to begin from (indices into Warm)
          Strict,      \* TRUE: no allowance for the named deviations (expected to fail unless Fix)
          Fix,         \* TRUE: the code with the proposed patch (ZoektSeqOps, fx)
          Emit         \* "none" | "bfs": one script per transition | "sim": one per finished walk

VARIABLES st, hist, viol
vars == <<st, hist, viol>>
view == <<st, viol>>

Op(op, r, v, min) == [op |-> op, r |-> r, v |-> v, min |-> min]
Ix(r, v) == Op("index", r, v, 0)
Mg       == Op("merge", 0, 0, 0)
Vc(m)    == Op("vacuum", 0, 0, m)
Cl       == Op("cleanup", 0, 0, 0)
As(r)    == Op("assign", r, 0, 0)
Un(r)    == Op("unassign", r, 0, 0)
Tk       == Op("tick", 0, 0, 0)
Cr       == Op("crash", 1, 0, 0)

Empty == [d |-> {}, tmp |-> 0, A |-> Repos, clk |-> 0, last |-> <<0, 0, 0>>]

\* histories every exploration may start from (executed on the real code like any other step)
Warm == << <<>>,
           <<Ix(1, 1), Ix(2, 1), Mg>>,                       \* a compound shard, both alive
           <<Ix(1, 1), Ix(2, 1), Mg, Ix(1, 2)>>,             \* one member re-indexed
           <<Ix(1, 1), Ix(2, 1), Mg, Ix(1, 2), Ix(2, 2)>>,   \* all members re-indexed
           <<Ix(1, 1), Ix(2, 1), Mg, Un(1), Cl>>,            \* a member tombstoned by cleanup
           <<Ix(1, 1), Un(1), Cl>>,                          \* a shard in the trash
           <<Ix(1, 1), Ix(2, 1), Mg, Ix(1, 2), Vc(0)>>,      \* a compound shard with one member
           <<Ix(1, 1), Ix(2, 1)>>,                           \* two simple shards
           <<Ix(1, 1), Un(1), Cl, As(1), Ix(1, 2)>>,         \* an old copy in the trash, a new one indexed
           \* an old copy tombstoned in a compound shard, the new one in the trash for more than a day
           <<Ix(1, 1), Ix(2, 1), Mg, Ix(2, 2), Un(2), Cl, Tk, As(2)>> >>

RECURSIVE Run(_, _)
\* states after each operation of ops, starting in s (first choice where an operation has several results)
Run(s, ops) == IF ops = <<>> THEN <<>>
               ELSE LET s2 == CHOOSE x \in Apply(s, Head(ops), Fix) : TRUE IN <<s2>> \o Run(s2, Tail(ops))

Out(s) == [d |-> SetToSeq(s.d), tmp |-> s.tmp, a |-> SetToSortSeq(s.A, LAMBDA x, y : x < y),
           clk |-> s.clk, last |-> s.last]

Init == \E w \in Starts :
          LET ss == Run(Empty, Warm[w]) IN
          /\ st = IF ss = <<>> THEN Empty ELSE ss[Len(ss)]
          /\ hist = [ops |-> Warm[w], preds |-> [i \in DOMAIN ss |-> Out(ss[i])], n |-> 0, done |-> FALSE]
          /\ viol = {}
          /\ (Emit # "none" /\ ss # <<>> =>
                PrintT(<<"SCRIPT", ToJson([ops |-> Warm[w], preds |-> [i \in DOMAIN ss |-> Out(ss[i])], n |-> 0])>>))

Enabled(s) ==
  {Ix(r, v) : r \in s.A, v \in 1..MaxVersion}
  \cup (IF Candidates(s.d) # {} THEN {Mg} ELSE {})
  \cup (IF CompoundNames(s.d) # {} THEN {Vc(0), Vc(1)} ELSE {})
  \cup {Cl}
  \cup {As(r) : r \in Repos \ s.A} \cup {Un(r) : r \in s.A}
  \cup (IF s.clk < 25 * MaxTick THEN {Tk} ELSE {})
  \cup (IF s.tmp < MaxCrash THEN {Cr} ELSE {})

Step ==
  /\ hist.n < MaxDepth
  /\ \E o \in Enabled(st) : \E s2 \in Apply(st, o, Fix) :
       /\ st' = s2
       /\ hist' = [hist EXCEPT !.ops = Append(@, o), !.preds = Append(@, Out(s2)), !.n = @ + 1]
       /\ viol' = {v \in Viol(st, o, s2, ViewOf(st.d), ViewOf(s2.d), Repos, Fix) : Strict \/ ~Known(v, Fix)}
       /\ (Emit = "bfs" => PrintT(<<"SCRIPT", ToJson([ops |-> hist'.ops, preds |-> <<Out(s2)>>, n |-> hist'.n])>>))

\* end of a walk: print the whole history once
Stop ==
  /\ hist.n = MaxDepth /\ ~hist.done /\ Emit = "sim"
  /\ PrintT(<<"SCRIPT", ToJson([ops |-> hist.ops, preds |-> hist.preds, n |-> hist.n])>>)
  /\ hist' = [hist EXCEPT !.done = TRUE] /\ UNCHANGED <<st, viol>>

Next == Step \/ Stop
Spec == Init /\ [][Next]_vars

-----------------------------------------------------------------------------
\* the statement holds after every operation (apart from the named deviations unless Strict)
Holds == viol = {}
\* no two files of the same name; what is in the trash are simple shards
WellFormed == /\ \A f, g \in st.d : (f.l = g.l /\ f.k = g.k /\ f.nm = g.nm) => f = g
              /\ \A f \in st.d : /\ Len(f.mem) = Len(f.raw)
                                 /\ \A p \in Pos(f) : f.mem[p].id = f.raw[p].id
                                 /\ (f.k = "s" => Len(f.mem) = 1 /\ ~f.mf)
                                 /\ (f.l = "t" => f.k = "s")
\* temporary files are never part of what is loaded (they are counted, not shards)
TmpBounded == st.tmp <= MaxCrash
=============================================================================
