--------------------------- MODULE CleanupOps ---------------------------
(* Pure operators: the sequential meaning of the indexserver's periodic cleanup             *)
(* (cmd/zoekt-sourcegraph-indexserver/cleanup.go:cleanup and helpers getShards,             *)
(* getTombstonedRepos, removeAll, moveAll, consistentRepoName, maybeSetTombstone;           *)
(* index/tombstones.go:SetTombstone/UnsetTombstone).  One operator per phase of cleanup,    *)
(* in the order of the code, plus the four clauses of property C32 as a function            *)
(* Viol(before, after) -> set of violations.                                                *)
(*                                                                                          *)
(* Abstract directory  d = set of shard files                                               *)
(*   file = [l, f, mt, mf, mem]                                                             *)
(*     l   : "i" (index directory) | "t" (.trash)                                           *)
(*     f   : file name: "<repository name>.<shard number>" for a simple shard, "cmp" for    *)
(*           the compound shard (recognised by the code by its "compound-" prefix)          *)
(*     mt  : mtime in hours (integer, relative to an arbitrary epoch)                       *)
(*     mf  : a ".meta" sidecar exists (written by Set/UnsetTombstone, moved/removed with    *)
(*           the shard by IndexFilePaths)                                                   *)
(*     mem : set of [id, nm, tb]: repositories in the shard's metadata, tb = tombstoned     *)
(*   tmp = number of "*.tmp" files in the index directory                                   *)
EXTENDS Integers, Sequences, FiniteSets, TLC, SequencesExt

Day == 24
CMP == "cmp"

IsCmp(x)      == x.f = CMP
AliveIn(x, r) == \E e \in x.mem : e.id = r /\ ~e.tb
TombIn(x, r)  == \E e \in x.mem : e.id = r /\ e.tb
NameIn(x, r)  == (CHOOSE e \in x.mem : e.id = r).nm

At(d, l) == {x \in d : x.l = l}
\* getShards(dir)[r]: the shards in which r is alive (ReadMetadataPathAlive)
Shards(d, l, r)  == {x \in At(d, l) : AliveIn(x, r)}
ShardRepos(d, l) == {e.id : e \in UNION {{e2 \in x.mem : ~e2.tb} : x \in At(d, l)}}
\* getTombstonedRepos(indexDir): tombstoned members of compound-*.zoekt
TombRepos(d) == {e.id : e \in UNION {{e2 \in x.mem : e2.tb} : x \in {y \in At(d, "i") : IsCmp(y)}}}
Exists(d, l, f) == \E x \in d : x.l = l /\ x.f = f
Names(S) == {x.f : x \in S}
AllIds(d) == {e.id : e \in UNION {x.mem : x \in d}}

\* index.SetTombstone / UnsetTombstone on the compound shard: rewrites the sidecar; an error
\* (file gone) changes nothing (maybeSetTombstone then os.Remove()s a file that is not there)
SetTomb(d, r, v) ==
  {IF x.l = "i" /\ IsCmp(x)
   THEN [x EXCEPT !.mf = TRUE, !.mem = {IF e.id = r THEN [e EXCEPT !.tb = v] ELSE e : e \in @}]
   ELSE x : x \in d}

\* removeAll(shards...) for the files named K in l (shard + sidecar)
RemoveNamed(d, l, K) == {x \in d : ~(x.l = l /\ x.f \in K)}
\* moveAll(dstDir, shards): per shard removeAll(dst copy); a compound shard is removed instead
\* of moved ("HACK"); the others are renamed (only files that still exist move)
MoveNamed(d, from, to, K) ==
  LET d1 == RemoveNamed(d, to, K)
      d2 == RemoveNamed(d1, from, K \cap {CMP})
  IN {IF x.l = from /\ x.f \in K THEN [x EXCEPT !.l = to] ELSE x : x \in d2}

-----------------------------------------------------------------------------
(* cleanup state: disk (d, tmp), the three maps read at the start (scan = the directory as   *)
(* it was read; the maps are kept as their key sets), and the parameters.                    *)
(* fx = FALSE: what the code does.  fx = TRUE: the proposed patch (a compound shard is never *)
(* removed on behalf of one member: the member is tombstoned, whatever shardMerging says).   *)
Start(d, tmp, A, now, m, fx) ==
  [d |-> d, tmp |-> tmp, scan |-> {}, trashM |-> {}, tombM |-> {}, idxM |-> {},
   A |-> A, now |-> now, m |-> m, fx |-> fx]

\* trash := getShards(trashDir); tombstones := getTombstonedRepos(indexDir); index := getShards(indexDir)
Scan(cs) == [cs EXCEPT !.scan = cs.d, !.trashM = ShardRepos(cs.d, "t"),
                       !.tombM = TombRepos(cs.d), !.idxM = ShardRepos(cs.d, "i")]

\* "trash: Remove old shards and conflicts with index"
PurgeRepo(cs, r) ==
  LET sh  == Shards(cs.scan, "t", r)
      old == \E x \in sh : x.mt < cs.now - Day
      fut == Names({x \in sh : ~(x.mt < cs.now - Day) /\ x.mt > cs.now})
      d1  == {IF x.l = "t" /\ x.f \in fut THEN [x EXCEPT !.mt = cs.now] ELSE x : x \in cs.d}
  IN IF r \in cs.idxM \/ old
     THEN [cs EXCEPT !.d = RemoveNamed(d1, "t", Names(sh)), !.trashM = @ \ {r}]
     ELSE [cs EXCEPT !.d = d1]

\* "tombstones: Remove tombstones that conflict with index or trash"
DropTombs(cs) == [cs EXCEPT !.tombM = @ \ (cs.idxM \cup cs.trashM)]

\* "If we end up with shards that have the same ID but different names delete and start over"
Consistent(d, r) == Cardinality({NameIn(x, r) : x \in Shards(d, "i", r)}) <= 1
InconsRepo(cs, r) ==
  LET sh == Shards(cs.scan, "i", r) IN
  IF Consistent(cs.scan, r) THEN cs
  ELSE LET tomb == Names({x \in sh : IsCmp(x) /\ (cs.m \/ cs.fx)})
           d1   == IF tomb # {} THEN SetTomb(cs.d, r, TRUE) ELSE cs.d
       IN [cs EXCEPT !.d = RemoveNamed(d1, "i", Names(sh) \ tomb), !.idxM = @ \ {r}]

\* "Move missing repos from trash into index / Restore deleted or tombstoned repos"
RestoreRepo(cs, r) ==
  LET cs1 == [cs EXCEPT !.idxM = @ \ {r}] IN
  IF r \in cs.trashM
  THEN [cs1 EXCEPT !.d = MoveNamed(cs.d, "t", "i", Names(Shards(cs.scan, "t", r)))]
  ELSE IF r \in cs.tombM THEN [cs1 EXCEPT !.d = SetTomb(cs.d, r, FALSE)]
  ELSE cs1

\* "Move non-existent repos into trash"
TrashRepo(cs, r) ==
  LET sh == Shards(cs.scan, "i", r)
      K  == Names(sh)
      d0 == {IF x.l = "i" /\ x.f \in K THEN [x EXCEPT !.mt = cs.now] ELSE x : x \in cs.d}
  IN IF cs.fx
     THEN [cs EXCEPT !.d = MoveNamed(IF CMP \in K THEN SetTomb(d0, r, TRUE) ELSE d0, "i", "t", K \ {CMP})]
     ELSE IF cs.m /\ Cardinality(sh) = 1 /\ CMP \in K      \* maybeSetTombstone
          THEN [cs EXCEPT !.d = SetTomb(d0, r, TRUE)]
          ELSE [cs EXCEPT !.d = MoveNamed(d0, "i", "t", K)]

\* "Remove .tmp files from crashed indexer runs"
RemoveTmp(cs) == [cs EXCEPT !.tmp = 0]

\* the loops `for repo := range map` run in an unspecified order
Order(S, ord) == IF ord = "asc" THEN SetToSortSeq(S, LAMBDA a, b : a < b)
                 ELSE SetToSortSeq(S, LAMBDA a, b : a > b)

RECURSIVE Each(_, _, _)
Each(ph, cs, rs) ==
  IF rs = <<>> THEN cs
  ELSE LET r == Head(rs)
           c == CASE ph = "purge"   -> PurgeRepo(cs, r)
                  [] ph = "incons"  -> InconsRepo(cs, r)
                  [] ph = "restore" -> RestoreRepo(cs, r)
                  [] ph = "trash"   -> TrashRepo(cs, r)
       IN Each(ph, c, Tail(rs))

Purge(cs, ord)   == Each("purge", cs, Order(cs.trashM, ord))
Incons(cs, ord)  == Each("incons", cs, Order(cs.idxM, ord))
Restore(cs)      == Each("restore", cs, Order(cs.A, "asc"))    \* order of the caller's slice
TrashAll(cs, ord) == Each("trash", cs, Order(cs.idxM, ord))

Run(d, tmp, A, now, m, fx, ord) ==
  LET c == RemoveTmp(TrashAll(Restore(Incons(DropTombs(Purge(Scan(Start(d, tmp, A, now, m, fx)), ord)), ord)), ord))
  IN [d |-> c.d, tmp |-> c.tmp]

-----------------------------------------------------------------------------
(* Property C32 over (before, after) of one cleanup with assigned set A at time now.        *)
Old(d, r, now) == \E x \in Shards(d, "t", r) : x.mt < now - Day

\* why the compound shard holding r disappeared: on behalf of another member whose shards
\* disagree on the name, or of another member that is (being) removed from the index
CmpGone(pre, r) ==
  IF \E x \in {y \in At(pre, "i") : IsCmp(y)} : \E e \in x.mem : e.id # r /\ ~e.tb /\ ~Consistent(pre, e.id)
  THEN "compound-removed-for-renamed" ELSE "compound-removed-for-unassigned"

\* (1) assigned repositories are never deleted or trashed unless their shards disagree on the name
Viol1(pre, post, A) ==
  UNION {{[c |-> "assigned-lost", r |-> r,
           cause |-> IF IsCmp(x) THEN (IF Exists(post, "i", CMP) THEN "compound-tombstoned" ELSE CmpGone(pre, r))
                     ELSE IF Exists(post, "t", x.f) THEN "simple-trashed" ELSE "simple-removed"]
          : x \in {y \in Shards(pre, "i", r) :
                     ~\E z \in Shards(post, "i", r) : z.f = y.f /\ NameIn(z, r) = NameIn(y, r)}}
         : r \in {q \in A : Consistent(pre, q)}}

\* (2) assigned repositories found in the trash are restored (unless the trash entry is due for
\* deletion by (4)); an assigned repository that only exists tombstoned is revived
Viol2(pre, post, A, now) ==
  UNION {IF Shards(pre, "i", r) # {} THEN {}
         ELSE IF Shards(pre, "t", r) # {} /\ ~Old(pre, r, now)
         THEN {[c |-> "not-restored", r |-> r,
                cause |-> IF Exists(post, "t", x.f) THEN "left-in-trash" ELSE "deleted"]
               : x \in {y \in Shards(pre, "t", r) : ~\E z \in Shards(post, "i", r) : z.f = y.f}}
         ELSE IF r \in TombRepos(pre) /\ Shards(post, "i", r) = {}
         THEN {[c |-> "not-restored", r |-> r,
                cause |-> IF Exists(post, "i", CMP) THEN "still-tombstoned" ELSE CmpGone(pre, r)]}
         ELSE {}
         : r \in A}

\* (3) every unassigned repository leaves the searchable index
Viol3(pre, post, A) ==
  {[c |-> "unassigned-alive", r |-> r, cause |-> "in-index"]
   : r \in {q \in AllIds(pre \cup post) \ A : Shards(post, "i", q) # {}}}

\* (4) trashed shards are permanently deleted only when older than 24 h or conflicting with an
\* indexed copy (per repository: the code treats the trashed shards of a repository as a unit)
Viol4(pre, post, now) ==
  UNION {{[c |-> "purged-early", r |-> r, cause |-> "fresh-no-conflict"]
          : x \in {y \in Shards(pre, "t", r) :
                     /\ ~Exists(post, "t", y.f)
                     /\ ~\E z \in Shards(post, "i", r) : z.f = y.f
                     /\ ~Old(pre, r, now)
                     /\ Shards(pre, "i", r) = {}}}
         : r \in AllIds(pre)}

Viol(pre, post, A, now) == Viol1(pre, post, A) \cup Viol2(pre, post, A, now)
                           \cup Viol3(pre, post, A) \cup Viol4(pre, post, now)

\* The deviation of the code from the statement that the model reproduces (findings C32-F1):
\* the whole compound shard is removed on behalf of one member, taking the other members along.
Known(v) == v.cause \in {"compound-removed-for-renamed", "compound-removed-for-unassigned"}

=============================================================================
