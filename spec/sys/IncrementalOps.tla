--------------------------- MODULE IncrementalOps ---------------------------
(* Pure operators for C38: how Options.IndexState (index/builder.go) classifies a request    *)
(* against the index on disk, what the indexserver does with the answer (main.go index():     *)
(* equal -> skip, meta-mismatch -> mergeMeta, anything else -> re-index), and a model of      *)
(* what the build options do to a document (Builder.Add, DocChecker.Check, parseSymbols) so   *)
(* that "content-affecting" is DERIVED from the options' effect on a corpus, not listed.      *)
(*                                                                                             *)
(* configuration cfg = build options + repository description, one record:                    *)
(*   SizeMax TrigramMax ShardMax Parallelism : Int      DisableCTags CTagsMustSucceed : BOOLEAN  *)
(*   CTagsPath ScipCTagsPath LanguageMap : STRING ("" = unset; LanguageMap "go:scip"/"go:no") *)
(*   LargeFiles : sequence of [p, neg]   (pattern without the leading "!", negated or not)    *)
(*   Name URL CommitURLTemplate FileURLTemplate LineFragmentTemplate : STRING   ID TenantID : Int *)
(*   Branches : sequence of "name@version"    RawConfig Metadata : sequence of [k, v]         *)
(* corpus document d = [n, size, tri, match, lang, syms, bin, br]                             *)
(*   tri = distinct trigrams, match = LargeFiles patterns matching the name, syms = number of *)
(*   symbols a ctags program reports, br = positions in the branch list                       *)
EXTENDS Integers, Sequences, FiniteSets, TLC

ToSet(s) == {s[i] : i \in DOMAIN s}
SetMax(S) == CHOOSE x \in S : \A y \in S : y <= x

OptFields == {"SizeMax", "TrigramMax", "LargeFiles", "DisableCTags", "CTagsPath", "ScipCTagsPath",
              "CTagsMustSucceed", "LanguageMap", "ShardMax", "Parallelism"}
\* what Options.GetHash covers (HashOptions in index/builder.go)
HashedFields == {"SizeMax", "DisableCTags", "CTagsPath", "CTagsMustSucceed", "LargeFiles"}
\* what Repository.MergeMutable can update in place (api.go)
MutableFields == {"URL", "CommitURLTemplate", "FileURLTemplate", "LineFragmentTemplate", "RawConfig"}
DescFields == {"Name", "ID", "TenantID", "Branches", "Metadata"} \cup MutableFields
AllFields == OptFields \cup DescFields

Diff(a, b) == {f \in AllFields : a[f] # b[f]}

\* fx = FALSE: the code today.  fx = TRUE: with the proposed fix -- the option hash also covers
\* the other content-affecting options (TrigramMax; ScipCTagsPath and LanguageMap while ctags is
\* enabled) and MergeMutable also merges Metadata.
Hash(fx, c) ==
  <<[f \in HashedFields |-> c[f]],
    IF fx THEN <<c.TrigramMax, IF c.DisableCTags THEN "" ELSE c.ScipCTagsPath,
                 IF c.DisableCTags THEN "" ELSE c.LanguageMap>>
    ELSE <<>> >>

\* keys MergeMutable ignores in RawConfig
RawPairs(c) == {x \in ToSet(c.RawConfig) : x.k \notin {"name", "id"}}

\* MergeMutable reports an update
MutableChange(fx, a, b) ==
  \/ RawPairs(b) \ ToSet(a.RawConfig) # {}
  \/ \E f \in MutableFields \ {"RawConfig"} : a[f] # b[f]
  \/ fx /\ ToSet(b.Metadata) \ ToSet(a.Metadata) # {}

\* Options.IndexState for request b against an index built from a (fault: what happened to
\* the shard since)
Classify(fx, fault, a, b) ==
  IF fault = "no-index" THEN "missing"
  ELSE IF a.Name # b.Name THEN "missing"            \* the shard file name is derived from Name
  ELSE IF fault # "none" THEN "corrupt"
  ELSE IF Hash(fx, a) # Hash(fx, b) THEN "option-mismatch"
  ELSE IF a.Branches # b.Branches THEN "content-mismatch"
  ELSE IF a.ID # b.ID THEN "content-mismatch"
  ELSE IF MutableChange(fx, a, b) THEN "meta-mismatch"
  ELSE "equal"

\* mergeMeta (Repository.MergeMutable): the description after the metadata path.  Keys of the
\* request replace or extend RawConfig, keys the request does not have stay.
MergedRaw(a, b) ==
  SelectSeq(a.RawConfig, LAMBDA x : ~\E y \in RawPairs(b) : y.k = x.k)
    \o SelectSeq(b.RawConfig, LAMBDA y : y.k \notin {"name", "id"})

MergedMeta(a, b) ==
  SelectSeq(a.Metadata, LAMBDA x : ~\E y \in ToSet(b.Metadata) : y.k = x.k) \o b.Metadata

Merged(fx, a, b) ==
  [f \in DOMAIN a |->
     IF f \in MutableFields \ {"RawConfig"} THEN b[f]
     ELSE IF f = "RawConfig" THEN MergedRaw(a, b)
     ELSE IF f = "Metadata" /\ fx THEN MergedMeta(a, b)
     ELSE a[f]]

\* ---------------------------------------------------------------- what the options do to a document
\* Options.IgnoreSizeMax: the last matching pattern decides
Allow(c, d) ==
  LET idx == {i \in DOMAIN c.LargeFiles : c.LargeFiles[i].p \in ToSet(d.match)}
  IN idx # {} /\ ~c.LargeFiles[SetMax(idx)].neg

\* Builder.Add + DocChecker.Check
SkipReason(c, d) ==
  IF d.size > c.SizeMax /\ ~Allow(c, d) THEN "large"
  ELSE IF d.size = 0 THEN "none"
  ELSE IF d.size < 3 THEN "small"
  ELSE IF d.bin THEN "binary"
  ELSE IF d.size - 2 <= c.TrigramMax \/ Allow(c, d) THEN "none"
  ELSE IF d.tri > c.TrigramMax THEN "trigrams"
  ELSE "none"

\* buildShard / parseSymbols / ParserBinMap: which ctags program sees the document
Parser(c, d) ==
  IF c.DisableCTags \/ (c.CTagsPath = "" /\ c.ScipCTagsPath = "") THEN "none"
  ELSE LET t == IF d.lang = "go" /\ c.LanguageMap = "go:scip" THEN "scip"
                ELSE IF d.lang = "go" /\ c.LanguageMap = "go:no" THEN "no"
                ELSE "universal"
       IN IF t = "no" THEN "none"
          ELSE IF t = "scip" THEN (IF c.ScipCTagsPath # "" THEN "scip" ELSE "none")
          ELSE (IF c.CTagsPath # "" THEN "universal" ELSE "none")

DocView(c, d) ==
  LET r == SkipReason(c, d)
  IN [reason |-> r, parser |-> IF r = "none" /\ d.syms > 0 THEN Parser(c, d) ELSE "none"]

\* NewBuilder refuses when a required ctags program is missing and must succeed
Buildable(c) ==
  ~(c.CTagsMustSucceed /\ (c.CTagsPath = "" \/ (c.LanguageMap = "go:scip" /\ c.ScipCTagsPath = "")))

\* the content view of an index built with c: per corpus position
ModelView(c, corpus) == [i \in DOMAIN corpus |-> DocView(c, corpus[i])]
=============================================================================
