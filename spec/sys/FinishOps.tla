--------------------------- MODULE FinishOps ---------------------------
(* C12.  Pure operators: the abstract index directory, the loader's view of it, and the   *)
(* plan by which index.Builder.Finish (full / delta / ShardMerging builds) and the        *)
(* indexserver's mergeMeta install a new index: write temp files, rename them onto their  *)
(* final names in arbitrary order (the code ranges over a Go map), then remove what is    *)
(* left of the old index (or tombstone the repository inside a compound shard).           *)
(*                                                                                         *)
(* file    : [k, i]   k in "shard" "meta" "shardtmp" "metatmp" "comp" "compmeta"           *)
(*                    "compmetatmp"; i = shard number                                       *)
(* content : [t, cls, bv, pub, tomb, ok]                                                    *)
(*             cls  = document classes held by a shard file                                 *)
(*             bv   = version of the branch commit in the repository metadata (1 old, 2 new)*)
(*             pub  = RawConfig "public" of the metadata (0 old, 1 after mergeMeta)         *)
(*             tomb = classes hidden by the metadata (file tombstones / repo tombstone)     *)
(*             ok   = FALSE while a temp file is still being written                        *)
(* cfg     : [mode, k, m, sidecar]  mode in "full" "delta" "meta" "compound"; k old shards, *)
(*           m new shards (full, compound); sidecar: old shards carry a .meta file          *)
(* document classes: (o,i) (c,i) old shard i -- (c,i) are the paths a delta build changes;  *)
(*           (n,i) new shard i of a full build; (d,i) re-indexed (c,i) in the delta shard;   *)
(*           (y,0) (z,0) another repository living in the same compound shard                *)
EXTENDS Integers, Sequences, FiniteSets, TLC

F(k, i) == [k |-> k, i |-> i]
C(k, i) == [k |-> k, i |-> i]

ShardC(cls, bv, pub)  == [t |-> "shard", cls |-> cls, bv |-> bv, pub |-> pub, tomb |-> {}, ok |-> TRUE]
MetaC(bv, pub, tomb)  == [t |-> "meta", cls |-> {}, bv |-> bv, pub |-> pub, tomb |-> tomb, ok |-> TRUE]

Modes == {"full", "delta", "meta", "compound"}

-----------------------------------------------------------------------------
(* the old index *)
OldFiles(cfg) ==
  IF cfg.mode = "compound" THEN {F("comp", 0)}
  ELSE {F("shard", i) : i \in 0..(cfg.k - 1)}
       \cup (IF cfg.sidecar THEN {F("meta", i) : i \in 0..(cfg.k - 1)} ELSE {})

OldContent(cfg, f) ==
  CASE f.k = "comp"  -> ShardC({C("o", 0), C("c", 0), C("y", 0), C("z", 0)}, 1, 0)
    [] f.k = "shard" -> ShardC({C("o", f.i), C("c", f.i)}, 1, 0)
    [] f.k = "meta"  -> MetaC(1, 0, {})

Disk0(cfg) == [f \in OldFiles(cfg) |-> OldContent(cfg, f)]

(* the plan *)
Artifacts(cfg) ==
  CASE cfg.mode \in {"full", "compound"} -> {F("shardtmp", i) : i \in 0..(cfg.m - 1)}
    [] cfg.mode = "delta" -> {F("shardtmp", cfg.k)} \cup {F("metatmp", i) : i \in 0..(cfg.k - 1)}
    [] cfg.mode = "meta"  -> {F("metatmp", i) : i \in 0..(cfg.k - 1)}

TombTmp == F("compmetatmp", 0)

Final(t) == F(CASE t.k = "shardtmp" -> "shard" [] t.k = "metatmp" -> "meta"
                [] t.k = "compmetatmp" -> "compmeta", t.i)

TmpContent(cfg, t) ==
  CASE t.k = "compmetatmp" -> MetaC(1, 0, {C("o", 0), C("c", 0)})
    [] t.k = "shardtmp" /\ cfg.mode = "delta" -> ShardC({C("d", i) : i \in 0..(cfg.k - 1)}, 2, 0)
    [] t.k = "shardtmp" /\ cfg.mode # "delta" -> ShardC({C("n", t.i)}, 2, 0)
    [] t.k = "metatmp" /\ cfg.mode = "delta"  -> MetaC(2, 0, {C("c", i) : i \in 0..(cfg.k - 1)})
    [] t.k = "metatmp" /\ cfg.mode = "meta"   -> MetaC(1, 1, {})

\* what Finish collects in toDelete before renaming (mergeMeta and delta builds delete nothing;
\* with ShardMerging the compound shard's own .meta is skipped)
ToDelete0(cfg) ==
  CASE cfg.mode = "full"     -> OldFiles(cfg)
    [] cfg.mode = "compound" -> {F("comp", 0)}
    [] OTHER                 -> {}

-----------------------------------------------------------------------------
(* the loader: *.zoekt files only (temp files and orphan .meta files are not loaded), the   *)
(* .meta sidecar replaces the metadata embedded in the shard                                 *)
Loadable(disk) == {f \in DOMAIN disk : f.k \in {"shard", "comp"}}
MetaFile(f) == F(IF f.k = "shard" THEN "meta" ELSE "compmeta", f.i)
EffMeta(disk, f) == IF MetaFile(f) \in DOMAIN disk THEN disk[MetaFile(f)] ELSE disk[f]

View(disk) ==
  UNION { LET m == EffMeta(disk, f) IN
          IF ~disk[f].ok \/ ~m.ok THEN {[c |-> C("corrupt", f.i), bv |-> 0, pub |-> 0]}
          ELSE {[c |-> c, bv |-> m.bv, pub |-> m.pub] : c \in disk[f].cls \ m.tomb}
        : f \in Loadable(disk) }

-----------------------------------------------------------------------------
(* abstract state of one run *)
InitSt(cfg) == [disk |-> Disk0(cfg), created |-> {}, written |-> {}, renamed |-> {}, failed |-> {},
                delTried |-> {}, delFailed |-> {}, err |-> FALSE, cerr |-> FALSE]
\* err  : an operation failed (what a run has to report)
\* cerr : the value of b.buildError as the code computes it today: `b.buildError = err` after
\*        SetTombstone forgets earlier failures, and setTombstone swallows a failed rename

Put(disk, f, c) == [g \in DOMAIN disk \cup {f} |-> IF g = f THEN c ELSE disk[g]]
Del(disk, f)    == [g \in DOMAIN disk \ {f} |-> disk[g]]

AllWritten(cfg, st)  == Artifacts(cfg) \subseteq st.written
InstallDone(cfg, st) == AllWritten(cfg, st) /\ Artifacts(cfg) \subseteq st.renamed \cup st.failed
Pending(cfg, st) == (ToDelete0(cfg) \ {Final(t) : t \in st.renamed}) \ st.delTried
Tombstoning(cfg, st) == cfg.mode = "compound" /\ InstallDone(cfg, st) /\ F("comp", 0) \in Pending(cfg, st)
\* temp files mergeMeta's deferred os.Remove still finds (their rename failed)
LeftTmp(cfg, st) == IF cfg.mode = "meta" /\ InstallDone(cfg, st) THEN st.failed \cap DOMAIN st.disk ELSE {}
\* after a failed rename the run may stop without touching the old index (the repaired
\* behaviour) or go on deleting / tombstoning it (what Finish does today)
StoppedEarly(cfg, st) == st.failed # {} /\ st.delTried = {} /\ TombTmp \notin st.created
Finished(cfg, st) == /\ InstallDone(cfg, st) /\ LeftTmp(cfg, st) = {}
                     /\ Pending(cfg, st) = {} \/ StoppedEarly(cfg, st)

\* a = [op, f, res]   op in create chmod write rename unlink; res in ok fail
Enabled(cfg, st, a) ==
  LET f == a.f
      isArt  == f \in Artifacts(cfg)
      isTomb == f = TombTmp /\ Tombstoning(cfg, st)
      writePhase == st.renamed \cup st.failed = {}
  IN
  CASE a.op = "create" -> /\ a.res = "ok" /\ f \notin st.created
                          /\ \/ isArt /\ writePhase
                             \/ isTomb
    [] a.op = "chmod"  -> /\ a.res = "ok" /\ f \in st.created /\ f \in DOMAIN st.disk
                          /\ (isArt /\ writePhase) \/ (isTomb /\ TombTmp \notin st.renamed \cup st.failed)
    [] a.op = "write"  -> /\ a.res = "ok" /\ f \in st.created /\ f \in DOMAIN st.disk
                          /\ (isArt /\ writePhase) \/ (isTomb /\ TombTmp \notin st.renamed \cup st.failed)
    [] a.op = "rename" -> \/ /\ isArt /\ AllWritten(cfg, st) /\ f \notin st.renamed \cup st.failed
                             /\ st.delTried = {} /\ TombTmp \notin st.created
                          \/ /\ isTomb /\ f \in st.written /\ f \notin st.renamed \cup st.failed
    [] a.op = "unlink" -> \/ /\ cfg.mode = "full" /\ InstallDone(cfg, st) /\ f \in Pending(cfg, st)
                          \/ /\ f \in LeftTmp(cfg, st) /\ a.res = "ok"
                          \/ /\ f = TombTmp /\ Tombstoning(cfg, st) /\ TombTmp \in st.failed
                             /\ f \in DOMAIN st.disk /\ a.res = "ok"
    [] OTHER -> FALSE

Apply(cfg, st, a) ==
  LET f == a.f IN
  CASE a.op = "create" -> [st EXCEPT !.created = @ \cup {f},
                                     !.disk = Put(@, f, [TmpContent(cfg, f) EXCEPT !.ok = FALSE])]
    [] a.op = "chmod"  -> st
    [] a.op = "write"  -> [st EXCEPT !.written = @ \cup {f}, !.disk = [@ EXCEPT ![f].ok = TRUE]]
    [] a.op = "rename" /\ a.res = "ok" /\ f # TombTmp ->
         [st EXCEPT !.renamed = @ \cup {f}, !.disk = Put(Del(@, f), Final(f), st.disk[f])]
    [] a.op = "rename" /\ a.res # "ok" /\ f # TombTmp ->
         [st EXCEPT !.failed = @ \cup {f}, !.err = TRUE, !.cerr = TRUE]
    \* SetTombstone: `b.buildError = err` with err = nil whatever happened before or inside
    [] a.op = "rename" /\ a.res = "ok" /\ f = TombTmp ->
         [st EXCEPT !.renamed = @ \cup {f}, !.disk = Put(Del(@, f), Final(f), st.disk[f]),
                    !.delTried = @ \cup {F("comp", 0)}, !.cerr = FALSE]
    [] a.op = "rename" /\ a.res # "ok" /\ f = TombTmp ->
         [st EXCEPT !.failed = @ \cup {f}, !.err = TRUE, !.cerr = FALSE]
    [] a.op = "unlink" /\ f = TombTmp ->
         [st EXCEPT !.disk = Del(@, f), !.delTried = @ \cup {F("comp", 0)}]
    [] a.op = "unlink" /\ f # TombTmp /\ f \in st.failed ->       \* mergeMeta's deferred remove
         [st EXCEPT !.disk = Del(@, f)]
    [] a.op = "unlink" /\ f # TombTmp /\ f \notin st.failed /\ a.res = "ok" ->
         [st EXCEPT !.disk = Del(@, f), !.delTried = @ \cup {f}]
    [] a.op = "unlink" /\ f # TombTmp /\ f \notin st.failed /\ a.res # "ok" ->
         [st EXCEPT !.delTried = @ \cup {f}, !.delFailed = @ \cup {f}, !.err = TRUE, !.cerr = TRUE]

\* what the run has to report, and what it may report today
Reported(st) == IF st.err THEN "err" ELSE "ok"
Reports(st) == {Reported(st), IF st.cerr THEN "err" ELSE "ok"}

-----------------------------------------------------------------------------
(* the two indexes a searcher may see *)
RECURSIVE ApplySeq(_, _, _)
ApplySeq(cfg, st, as) == IF as = <<>> THEN st ELSE ApplySeq(cfg, Apply(cfg, st, Head(as)), Tail(as))

RECURSIVE SetToSeq(_)
SetToSeq(S) == IF S = {} THEN <<>> ELSE LET x == CHOOSE y \in S : TRUE IN <<x>> \o SetToSeq(S \ {x})

Acts(op, S) == LET s == SetToSeq(S) IN [i \in 1..Len(s) |-> [op |-> op, f |-> s[i], res |-> "ok"]]

\* the directory after an undisturbed run
Target(cfg) ==
  LET s1 == ApplySeq(cfg, InitSt(cfg), Acts("create", Artifacts(cfg)) \o Acts("write", Artifacts(cfg))
                                       \o Acts("rename", Artifacts(cfg)))
      s2 == IF cfg.mode = "compound"
            THEN ApplySeq(cfg, s1, <<[op |-> "create", f |-> TombTmp, res |-> "ok"],
                                     [op |-> "write", f |-> TombTmp, res |-> "ok"],
                                     [op |-> "rename", f |-> TombTmp, res |-> "ok"]>>)
            ELSE ApplySeq(cfg, s1, Acts("unlink", Pending(cfg, s1)))
  IN s2.disk

Old(cfg) == View(Disk0(cfg))
New(cfg) == View(Target(cfg))

-----------------------------------------------------------------------------
(* Shapes of non-atomic states.  "atomic" is what the property demands; every other named   *)
(* shape is a design-level counterexample of the install protocol (KF_C12_* in Finish.tla);  *)
(* "other" is anything the protocol as modelled cannot produce.                              *)
StaleSidecar(cfg, st) ==
  \E f \in Loadable(st.disk) : /\ f.k = "shard" /\ st.disk[f].bv = 2
                               /\ MetaFile(f) \in DOMAIN st.disk /\ st.disk[MetaFile(f)].bv = 1
                               /\ cfg.mode = "full"

Shape(cfg, st, view) ==
  LET n == Cardinality(Artifacts(cfg)) IN
  IF view \in {Old(cfg), New(cfg)} THEN "atomic"
  \* a failed rename: with a single artifact the only damage is that Finish goes on to delete the
  \* old index; with several, whichever rename fails leaves a partly installed index
  ELSE IF st.failed \ {TombTmp} # {} THEN
         IF n = 1 THEN "rename-failed-old-deleted" ELSE "rename-failed-partial-install"
  ELSE IF st.delFailed # {} THEN "unlink-failed-stale-left"
  ELSE IF TombTmp \in st.failed THEN "tombstone-rename-failed"
  ELSE IF StaleSidecar(cfg, st) THEN "stale-sidecar"
  ELSE IF st.renamed \cap Artifacts(cfg) # {} /\ ~(Artifacts(cfg) \subseteq st.renamed) THEN "multi-artifact-rename"
  ELSE IF Artifacts(cfg) \subseteq st.renamed /\ Pending(cfg, st) # {} THEN "stale-old-left"
  ELSE "other"

KnownShapes == {"multi-artifact-rename", "stale-old-left", "stale-sidecar", "rename-failed-old-deleted",
                "rename-failed-partial-install", "unlink-failed-stale-left", "tombstone-rename-failed"}
=============================================================================
