----------------------------- MODULE GitTree -----------------------------
(* C14.  Small repositories: commits change one path on one branch (`Put`, `Remove`); the     *)
(* action `Index` is gitindex.IndexGitRepo over all branches and moves to the outcome          *)
(* GitTreeOps prescribes.  TLC checks what the statement says about that outcome in every      *)
(* reachable repository and prints each repository as a replay script.                         *)
EXTENDS GitTreeOps, Json

CONSTANTS NBranches,    \* number of branches (indexed in the order main, dev, rel)
          MaxOps,       \* bound on the number of commits
          SizeMax,
          Emit

BranchNames == SubSeq(<<"main", "dev", "rel">>, 1, NBranches)

Syn(id, size, nul) == [cid |-> id, size |-> size, nul |-> nul, lit |-> FALSE, text |-> <<>>]
Lit(text) == [cid |-> 0, size |-> 0, nul |-> FALSE, lit |-> TRUE, text |-> text]
Norm1 == Syn(1, 20, FALSE)
Norm5 == Syn(5, 30, FALSE)
Large2 == Syn(2, SizeMax + 1, FALSE)
Bin3 == Syn(3, 12, TRUE)
NoCd == Syn(0, 0, FALSE)

pA   == <<97, 46, 116, 120, 116>>                          \* a.txt
pDB  == <<100, 47, 98, 46, 103, 111>>                      \* d/b.go
pDC  == <<100, 47, 99>>                                    \* d/c
pSub == <<115, 117, 98>>                                   \* sub
IgD    == Lit(<<100, 10>>)                                 \* "d"      -> d**
IgTxt  == Lit(<<42, 46, 116, 120, 116, 10>>)               \* "*.txt"
LinkA  == Lit(pA)                                          \* symlink target "a.txt"

\* what a commit may put at a path
\* paths are numbered (keys of the per-branch tree); PathText gives the text
PathText == <<pA, pDB, pDC, pSub, SgIgnore>>
Paths == 1..Len(PathText)
Options(p) == CASE p = 1 -> {<<"regular", Norm1>>, <<"exec", Norm1>>, <<"regular", Large2>>, <<"regular", Bin3>>}
                [] p = 2 -> {<<"regular", Norm1>>, <<"regular", Norm5>>, <<"symlink", LinkA>>}
                [] p = 3 -> {<<"regular", LinkA>>, <<"symlink", LinkA>>}    \* same blob, two modes
                [] p = 4 -> {<<"submodule", NoCd>>, <<"regular", Norm5>>}
                [] p = 5 -> {<<"regular", IgD>>, <<"regular", IgTxt>>}
B == 1..Len(BranchNames)

VARIABLES tree,     \* branch index -> (path -> <<mode, cd>>) for the paths present
          nops, outcome
vars == <<tree, nops, outcome>>

Absent == <<"absent", NoCd>>
Init == tree = [b \in B |-> [p \in Paths |-> Absent]] /\ nops = 0 /\ outcome = [kind |-> "none"]

Put(b, p, o) == /\ outcome.kind = "none" /\ nops < MaxOps
                /\ tree[b][p] # o
                /\ tree' = [tree EXCEPT ![b][p] = o]
                /\ nops' = nops + 1 /\ UNCHANGED outcome
Remove(b, p) == /\ outcome.kind = "none" /\ nops < MaxOps /\ tree[b][p] # Absent
                /\ tree' = [tree EXCEPT ![b][p] = Absent]
                /\ nops' = nops + 1 /\ UNCHANGED outcome

\* sequence form of a branch's tree (any order)
RECURSIVE SeqOfPaths(_)
SeqOfPaths(S) == IF S = {} THEN <<>> ELSE LET p == CHOOSE x \in S : TRUE IN <<p>> \o SeqOfPaths(S \ {p})
Present(b) == {p \in Paths : tree[b][p] # Absent}
Entries(b) == LET ps == SeqOfPaths(Present(b))
              IN [i \in 1..Len(ps) |-> [path |-> PathText[ps[i]], mode |-> tree[b][ps[i]][1], cd |-> tree[b][ps[i]][2]]]
Repo == [b \in B |-> [branch |-> BranchNames[b], entries |-> Entries(b)]]

RECURSIVE SeqOfSet(_)
SeqOfSet(S) == IF S = {} THEN <<>> ELSE LET x == CHOOSE y \in S : TRUE IN <<x>> \o SeqOfSet(S \ {x})
Index == /\ outcome.kind = "none"
         /\ outcome' = [kind |-> "ok", docs |-> GitDocs(Repo, SizeMax, <<>>)]
         /\ UNCHANGED <<tree, nops>>
         /\ (Emit => PrintT(<<"SCRIPT", ToJson([repo |-> Repo, sizemax |-> SizeMax,
                 expect |-> LET ds == SeqOfSet(outcome'.docs)
                            IN [i \in 1..Len(ds) |-> [name |-> ds[i].name, c |-> ds[i].c, t |-> ds[i].t,
                                                      branches |-> SeqOfSet(ds[i].branches)]]])>>))

Next == Index \/ \E b \in B, p \in Paths : Remove(b, p) \/ \E o \in Options(p) : Put(b, p, o)
Spec == Init /\ [][Next]_vars
view == <<tree, outcome>>

-----------------------------------------------------------------------------
Done == outcome.kind = "ok"
Docs == outcome.docs
HasBlob(b, p) == tree[b][p][1] \in BlobModes
IgnoredOn(b, p) == Ignored(TreePatterns(Entries(b)), PathText[p])
PathNo(name) == CHOOSE p \in Paths : PathText[p] = name

\* every branch named by a document has that path as a blob, not ignored there
BranchesSound == Done => \A d \in Docs : \A b \in B :
   BranchNames[b] \in d.branches => HasBlob(b, PathNo(d.name)) /\ ~IgnoredOn(b, PathNo(d.name))
\* every visible (branch, path) is covered by exactly one document
CoveredOnce == Done => \A b \in B : \A p \in Paths :
   (HasBlob(b, p) /\ ~IgnoredOn(b, p)) => Cardinality({d \in Docs : d.name = PathText[p] /\ BranchNames[b] \in d.branches}) = 1
\* branches with the same blob at a path share one document, different blobs have different documents
OnePerVersion == Done => \A b1, b2 \in B : \A p \in Paths :
   (HasBlob(b1, p) /\ HasBlob(b2, p) /\ ~IgnoredOn(b1, p) /\ ~IgnoredOn(b2, p)) =>
      ((tree[b1][p][2] = tree[b2][p][2]) <=>
         \E d \in Docs : d.name = PathText[p] /\ {BranchNames[b1], BranchNames[b2]} \subseteq d.branches)
NoSubmoduleDocs == Done => \A d \in Docs : \E b \in B : HasBlob(b, PathNo(d.name))
NoEmptyBranches == Done => \A d \in Docs : d.branches # {}
=============================================================================
