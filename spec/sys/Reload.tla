----------------------------- MODULE Reload -----------------------------
(* C19 state machine (operators: ReloadOps).  mode is chosen in Init from Modes:           *)
(*   "gen"   every interleaving of the code's steps: directory changes, ScanBegin /        *)
(*           ScanDrop / ScanLoad(f) / PublishPartial / ScanEnd of the single scanner,      *)
(*           SearchSnapshot / SearchShard / SearchDone of each search, Finalize(i).        *)
(*   "macro" the granularity a driver can gate from outside: ScanBegin, ScanDrop,          *)
(*           ScanLoadAll (all loads + publish), SearchSnapshot, SearchRead (streamSearch    *)
(*           returned, results not yet copied), SearchFinish, GC (every                    *)
(*           closable instance is closed).  With Emit: one script per explored transition. *)
EXTENDS ReloadOps, Json

CONSTANTS Repos, Fmts, MaxFmt, Procs,
          MaxVer,      \* content versions per repository
          MaxOps,      \* directory changes (mode gen)
          MacroOps,    \* directory changes (mode macro)
          MacroDepth,  \* script length
          Modes, Emit,
          Fix,         \* TRUE: change detector of the proposed patch
          FixGap,      \* TRUE: proposed patch for the drop-before-load gap
          KeepAlive,   \* FALSE: model mutant (vacuity of NoReadAfterClose)
          OneOpPerScan \* TRUE: a file changes at most once while one scan runs (residual of the patch)

VARIABLES st, hist, mode
vars == <<st, hist, mode>>

Files == Repos \X Fmts
Macro == mode = "macro"
Sides == {"none", "tomb", "live"}

Init == st = InitSt(Files, Repos, Procs) /\ hist = <<>> /\ mode \in Modes

Cmd(c, f, side, p) == [c |-> c, r |-> f[1], f |-> f[2], side |-> side, p |-> p]
NoF == <<"", 0>>
Rec(c) == hist' = Append(hist, c)

OpsLeft == st.clk < (IF Macro THEN MacroOps ELSE MaxOps)
May(f) == OpsLeft /\ (OneOpPerScan => f \notin st.scan.touched)

Put(f)     == /\ May(f) /\ ~Present(st.disk, f) /\ st.nver[f[1]] < MaxVer
              /\ st' = DiskWrite(st, f) /\ Rec(Cmd("put", f, "", 0))
Rename(f)  == /\ May(f) /\ Present(st.disk, f) /\ st.nver[f[1]] < MaxVer
              /\ st' = DiskWrite(st, f) /\ Rec(Cmd("replace", f, "", 0))
Delete(f)  == /\ May(f) /\ Present(st.disk, f)
              /\ st' = DiskDelete(st, f) /\ Rec(Cmd("delete", f, "", 0))
Sidecar(f) == /\ May(f) /\ Present(st.disk, f)
              /\ \E s \in Sides \ {st.disk[f].side} :
                    st' = DiskSidecar(st, f, s) /\ Rec(Cmd("sidecar", f, s, 0))
Disk == \E f \in Files : Put(f) \/ Rename(f) \/ Delete(f) \/ Sidecar(f)

SBegin == st.scan.pc = "idle" /\ st' = ScanBegin(st, MaxFmt, Fix) /\ Rec(Cmd("scanbegin", NoF, "", 0))
SDrop  == st.scan.pc = "drop" /\ st' = (IF FixGap THEN ScanDropG(st) ELSE ScanDrop(st)) /\ Rec(Cmd("scandrop", NoF, "", 0))
SLoad  == /\ ~Macro /\ st.scan.pc = "load"
          /\ \E f \in st.scan.toLoad : st' = ScanLoad(st, f) /\ Rec(Cmd("load", f, "", 0))
SPart  == /\ ~Macro /\ st.scan.pc = "load" /\ st.scan.pend # {} /\ st.scan.toLoad # {}
          /\ st' = (IF FixGap THEN PublishG(st, FALSE) ELSE Publish(st)) /\ Rec(Cmd("publish", NoF, "", 0))
SEnd   == /\ ~Macro /\ st.scan.pc = "load" /\ st.scan.toLoad = {}
          /\ st' = (IF FixGap THEN ScanEndG(st, Fix) ELSE ScanEnd(st, Fix)) /\ Rec(Cmd("scanend", NoF, "", 0))
SLoadAll == /\ Macro /\ st.scan.pc = "load"
            /\ st' = (IF FixGap THEN ScanEndG(LoadAll(st), Fix) ELSE ScanEnd(LoadAll(st), Fix)) /\ Rec(Cmd("scanload", NoF, "", 0))
Scanner == SBegin \/ SDrop \/ SLoad \/ SPart \/ SEnd \/ SLoadAll

Snap(p)   == /\ st.srch[p].pc = "idle" \/ (Macro /\ st.srch[p].pc = "done")
             /\ st' = Snapshot(st, p) /\ Rec(Cmd("snap", NoF, "", p))
Shard(p)  == /\ ~Macro /\ st.srch[p].pc = "run"
             /\ \E i \in st.srch[p].todo : st' = ReadShard(st, p, i) /\ Rec(Cmd("shard", FileOfInst(i), "", p))
Done(p)   == /\ ~Macro /\ st.srch[p].pc = "run" /\ st.srch[p].todo = {}
             /\ st' = SearchDone(st, p) /\ Rec(Cmd("done", NoF, "", p))
\* (the driver can stop only the searches with an even number between streamSearch and done)
Read(p)   == /\ Macro /\ p % 2 = 0 /\ st.srch[p].pc = "run" /\ st.srch[p].todo # {}
             /\ st' = ReadAll(st, p) /\ Rec(Cmd("read", NoF, "", p))
Finish(p) == /\ Macro /\ st.srch[p].pc = "run"
             /\ st' = SearchAll(st, p) /\ Rec(Cmd("finish", NoF, "", p))
Search == \E p \in Procs : Snap(p) \/ Shard(p) \/ Done(p) \/ Read(p) \/ Finish(p)

Fin == /\ ~Macro /\ \E i \in Closable(st, KeepAlive) : st' = Finalize(st, i) /\ Rec(Cmd("finalize", FileOfInst(i), "", 0))
GC  == /\ Macro /\ (Closable(st, KeepAlive) # {} \/ \E p \in Procs : st.srch[p].pc = "run")
       /\ st' = GCAll(st, KeepAlive) /\ Rec(Cmd("gc", NoF, "", 0))

Next == /\ Macro => Len(hist) < MacroDepth
        /\ Disk \/ Scanner \/ Search \/ Fin \/ GC
        /\ UNCHANGED mode
        /\ ((Emit /\ Macro) => PrintT(<<"SCRIPT", ToJson(hist')>>))
Spec == Init /\ [][Next]_vars

\* what a finished search read is history
view == <<mode, [st EXCEPT !.scan = [@ EXCEPT !.touched = IF OneOpPerScan THEN @ ELSE {}], !.srch = [p \in Procs |-> IF st.srch[p].pc = "done" THEN [IdleSrch EXCEPT !.pc = "done"] ELSE st.srch[p]]]>>

-----------------------------------------------------------------------------
TypeOK == /\ st.clk \in 0..(MaxOps + MacroOps)
          /\ \A f \in Files : st.disk[f].ver \in 0..MaxVer /\ st.disk[f].side \in Sides
          /\ \A f \in Files : st.shards[f].id = 0 \/ FileOfInst(st.shards[f]) = f
InvReadsOnlySnapshot  == ReadsOnlySnapshot(st)
InvNoReadAfterClose   == NoReadAfterClose(st)
InvOneVersionPerRepo  == OneVersionPerRepo(st)
InvRankedIsShards     == RankedIsShards(st)
InvClosedWereReplaced == ClosedWereReplaced(st)
InvConverged          == Converged(st, MaxFmt, Fix)
\* strict forms: violated by the code as it is (findings), hold for Fix = TRUE / never claimed
\* (the history of a violating state is printed: python replays it on the real code)
Cex == PrintT(<<"CEX", ToJson(hist)>>) /\ FALSE
InvConvergedStrict    == ConvergedStrict(st, MaxFmt) \/ Cex
InvNoUpgradeGap       == NoUpgradeGap(st) \/ Cex
InvNoReadAfterCloseCex == NoReadAfterClose(st) \/ Cex
=============================================================================
