----------------------------- MODULE QuerySem -----------------------------
(* What a search means: which documents of a corpus a query selects, checked by scanning  *)
(* whole names/contents (no index), which branches are reported, and which byte ranges    *)
(* each atom matches.  Corpus and query are the records serialised by the drivers          *)
(* (harness/verifkit/corpus): text is a sequence of code points, indices are 1-based.      *)
EXTENDS Text, SequencesExt

CONSTANTS Canon, Orbit
R == INSTANCE Regex WITH Canon <- Canon, Orbit <- Orbit


ChEq(a, b, cs) == IF cs THEN a = b ELSE R!FoldEq(a, b)

\* positions i (0-based rune index) at which pattern p occurs in s
OccAt(p, s, cs, i) == \A k \in 1..Len(p) : ChEq(s[i + k], p[k], cs)
Occs(p, s, cs) == {i \in 0..(Len(s) - Len(p)) : OccAt(p, s, cs, i)}
SubstrIn(p, s, cs) == Len(p) = 0 \/ \E i \in 0..(Len(s) - Len(p)) : OccAt(p, s, cs, i)

\* an atom with neither or both of FileName/Content set looks at both
InName(q) == q.fn \/ ~q.ct
InContent(q) == q.ct \/ ~q.fn

Repo(C, d) == C.repos[d.repo]

\* Tenant visibility (C23).  A corpus may carry the requesting context in field "who":
\* "system" sees everything, "t<k>" sees the repositories of tenant k, "none" (no tenant in the
\* request) sees nothing; without the field enforcement is off.
VisibleTo(who, r) == CASE who = "system" -> TRUE
                       [] who = "none" -> FALSE
                       [] who = "t1" -> r.tenant = 1
                       [] who = "t2" -> r.tenant = 2
                       [] who = "t3" -> r.tenant = 3
                       [] OTHER -> TRUE
Visible(C, r) == IF "who" \in DOMAIN C THEN VisibleTo(C.who, r) ELSE TRUE

Live(C, d) == LET r == Repo(C, d) IN ~r.tomb /\ d.name \notin ToSet(r.ftomb) /\ Visible(C, r)

\* branches (indices into the repository's branch list) selected by a branch atom
BranchSel(q, d, r) ==
  IF Len(q.pat) = 0 THEN ToSet(d.branches)
  ELSE IF q.pat = <<72, 69, 65, 68>>      \* "HEAD": the repository's first branch
       THEN ToSet(d.branches) \cap {1}
       ELSE {b \in ToSet(d.branches) :
               IF q.b THEN r.branches[b] = q.pat ELSE SubstrIn(q.pat, r.branches[b], TRUE)}

BranchesReposSel(q, d, r) ==
  {b \in ToSet(d.branches) : \E k \in 1..Len(q.br) : r.id \in ToSet(q.br[k].ids) /\ r.branches[b] = q.br[k].branch}

RawConfigOk(f, r) == /\ (f[1] => r.public) /\ (f[2] => ~r.public)
                     /\ (f[3] => r.fork) /\ (f[4] => ~r.fork)
                     /\ (f[5] => r.archived) /\ (f[6] => ~r.archived)

SymbolHolds(e, d) ==
  IF e.t = "substr"
  THEN Len(e.pat) = 0 \/
       \E k \in 1..Len(d.syms) :
          \E i \in d.syms[k][1]..(d.syms[k][2] - Len(e.pat)) : OccAt(e.pat, d.content, e.cs, i)
  ELSE \E k \in 1..Len(d.syms) :
          R!Matches(e.re, SubSeq(d.content, d.syms[k][1] + 1, d.syms[k][2]), ~e.cs)

RECURSIVE Holds(_, _, _, _)
\* repositories (by name) listed for a sub-query: those with a live matching document
ListedNames(c, C, kind) ==
  {C.repos[C.docs[j].repo].name : j \in {j \in 1..Len(C.docs) : Live(C, C.docs[j]) /\ Holds(c, j, C, kind)}}

Holds(q, di, C, kind) ==
  LET d == C.docs[di]
      r == Repo(C, d)
  IN CASE q.t = "and"   -> \A k \in 1..Len(q.sub) : Holds(q.sub[k], di, C, kind)
       [] q.t = "or"    -> \E k \in 1..Len(q.sub) : Holds(q.sub[k], di, C, kind)
       [] q.t = "not"   -> ~Holds(q.sub[1], di, C, kind)
       [] q.t = "const" -> q.b
       [] q.t = "substr" -> \/ (InName(q) /\ SubstrIn(q.pat, d.name, q.cs))
                            \/ (InContent(q) /\ SubstrIn(q.pat, d.content, q.cs))
       [] q.t = "regex" -> \/ (InName(q) /\ R!Matches(q.re, d.name, ~q.cs))
                           \/ (InContent(q) /\ R!Matches(q.re, d.content, ~q.cs))
       [] q.t = "symbol" -> SymbolHolds(q.sub[1], d)
       [] q.t = "branch" -> BranchSel(q, d, r) # {}
       [] q.t \in {"repo", "reporegexp"} -> R!Matches(q.re, r.name, FALSE)
       [] q.t = "reposet" -> r.name \in ToSet(q.names)
       [] q.t = "repoids" -> r.id \in ToSet(q.ids)
       [] q.t = "branchesrepos" -> BranchesReposSel(q, d, r) # {}
       [] q.t = "lang"  -> d.lang = q.s
       [] q.t = "meta"  -> \E k \in 1..Len(r.meta) : r.meta[k].k = q.s /\ R!Matches(q.re, r.meta[k].v, FALSE)
       [] q.t = "filenameset" -> d.name \in ToSet(q.names)
       [] q.t = "rawconfig" -> RawConfigOk(q.flags, r)
       [] q.t = "boost" -> Holds(q.sub[1], di, C, kind)
       [] q.t = "type"  -> IF q.s = "repo" THEN r.name \in ListedNames(q.sub[1], C, kind)
                           ELSE Holds(q.sub[1], di, C, kind)

\* documents in scope of a search: the whole corpus (directory searcher) or one shard
InScope(C, kind, shard, di) == kind = "dir" \/ Repo(C, C.docs[di]).shard = shard

Answer(q, C, kind, shard) ==
  {di \in 1..Len(C.docs) : InScope(C, kind, shard, di) /\ Live(C, C.docs[di]) /\ Holds(q, di, C, kind)}

\* Reported branches.  The selections of the branch atoms that hold and are reachable through
\* holding and/or/boost/type:filematch nodes (not under not / type:filename / symbol).  The
\* engine reports the union over the branch atoms that survive query rewriting (constant folding
\* may drop some), or all the file's branches when none survives; so a reported set is
\* admissible iff it is the union of a non-empty subset of those selections, or everything.
RECURSIVE BranchSels(_, _, _, _)
BranchSels(q, di, C, kind) ==
  LET d == C.docs[di] r == Repo(C, d) IN
  CASE q.t \in {"and", "or"} ->
         UNION {BranchSels(q.sub[k], di, C, kind) : k \in {k \in 1..Len(q.sub) : Holds(q.sub[k], di, C, kind)}}
    [] q.t = "boost" -> BranchSels(q.sub[1], di, C, kind)
    [] q.t = "type" /\ q.s = "filematch" -> BranchSels(q.sub[1], di, C, kind)
    [] q.t = "branch" -> {BranchSel(q, d, r)}
    [] q.t = "branchesrepos" ->      \* the sharded searcher may rewrite an entry into a branch atom
         {{b \in ToSet(d.branches) : r.id \in ToSet(q.br[k].ids) /\ r.branches[b] = q.br[k].branch} : k \in 1..Len(q.br)}
    [] OTHER -> {}
BranchesAdmissible(got, q, di, C, kind) ==
  LET all == ToSet(C.docs[di].branches)
      sels == BranchSels(q, di, C, kind) \ {{}}
  IN got = all \/ \E X \in (SUBSET sels) \ {{}} : got = UNION X
=============================================================================
