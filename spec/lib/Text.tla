------------------------------- MODULE Text -------------------------------
(* Text is a sequence of Unicode code points.  Byte offsets (UTF-8) are derived here,    *)
(* independently of the implementation.                                                   *)
EXTENDS Integers, Sequences, FiniteSets, TLC

Tab(f) == f @@ <<>>        \* force a lazily defined function into an explicit table

U8Len(r) == IF r < 128 THEN 1 ELSE IF r < 2048 THEN 2 ELSE IF r < 65536 THEN 3 ELSE 4

\* BOff(s)[k] = byte offset of the k-th code point boundary (k code points precede), k \in 0..Len(s)
RECURSIVE BOffAcc(_, _, _, _)
BOffAcc(s, k, cur, acc) ==
  IF k > Len(s) THEN acc
  ELSE BOffAcc(s, k + 1, cur + U8Len(s[k]), Append(acc, cur + U8Len(s[k])))
\* sequence of length Len(s)+1: element k+1 is the offset of boundary k
BOffSeq(s) == BOffAcc(s, 1, 0, <<0>>)
ByteLen(s) == LET b == BOffSeq(s) IN b[Len(b)]

\* byte offsets (0-based) of the newline bytes
NLBytes(s, boff) == {boff[k] : k \in {j \in 1..Len(s) : s[j] = 10}}

\* rune boundary index (0..Len(s)) of byte offset b, or -1 when b is not on a boundary
RuneAt(boff, b) == IF \E k \in 1..Len(boff) : boff[k] = b
                   THEN (CHOOSE k \in 1..Len(boff) : boff[k] = b) - 1 ELSE -1

\* 1-based line number of byte offset off: an offset on the newline ending line M is on line M
LineOf(nl, off) == Cardinality({x \in nl : x < off}) + 1

\* byte offset of the first byte of line n (1-based), clamped to [0, size]
LineStart(nl, size, n) ==
  IF n <= 1 THEN 0
  ELSE IF n - 1 > Cardinality(nl) THEN size
  ELSE LET x == CHOOSE y \in nl : Cardinality({z \in nl : z < y}) = n - 2 IN x + 1

SubText(s, boff, b1, b2) ==   \* code points of the byte range [b1, b2)
  LET r1 == RuneAt(boff, b1) r2 == RuneAt(boff, b2)
  IN IF r1 < 0 \/ r2 < 0 \/ r2 < r1 THEN <<-1>> ELSE SubSeq(s, r1 + 1, r2)
=============================================================================
