------------------------------- MODULE Regex -------------------------------
(* Leftmost-first (Perl / Go regexp) matching semantics over code-point sequences.         *)
(* A regular expression is the parser's AST (regexp/syntax) serialised by the driver:      *)
(*   [op, r, fold, cls, neg, min, max, greedy, sub]                                        *)
(* op: nomatch empty lit cc any anynl bol eol bot eot wb nwb cap cat alt star plus quest rep*)
(* T(re, s, ci) is the table  position -> priority-ordered distinct end positions.         *)
(* ci = TRUE is the meaning of the "(?i)" prefix zoekt adds for case-insensitive atoms.    *)
EXTENDS Text, SequencesExt

CONSTANTS Canon,    \* function: rune -> canonical representative of its case-fold orbit (partial)
          Orbit     \* function: canonical rune -> set of runes of the orbit (partial)

CanonOf(r) == IF r \in DOMAIN Canon THEN Canon[r] ELSE r
OrbitOf(r) == LET c == CanonOf(r) IN IF c \in DOMAIN Orbit THEN Orbit[c] ELSE {r}
FoldEq(a, b) == a = b \/ CanonOf(a) = CanonOf(b)

IsWord(c) == (c >= 48 /\ c <= 57) \/ (c >= 65 /\ c <= 90) \/ c = 95 \/ (c >= 97 /\ c <= 122)
WordCh(s, k) == k >= 1 /\ k <= Len(s) /\ IsWord(s[k])
Boundary(s, i) == WordCh(s, i) # WordCh(s, i + 1)     \* at position i (between s[i] and s[i+1])

InRanges(cls, x) == \E k \in 1..Len(cls) : cls[k][1] <= x /\ x <= cls[k][2]
ClassOk(nd, ci, c) ==
  LET pos == IF ci THEN \E x \in OrbitOf(c) : InRanges(nd.cls, x) ELSE InRanges(nd.cls, c)
  IN IF nd.neg THEN ~pos ELSE pos
LitOk(nd, ci, c) == IF ci \/ nd.fold THEN FoldEq(c, nd.r) ELSE c = nd.r

\* keep first occurrences
RECURSIVE DedupAcc(_, _, _, _)
DedupAcc(q, k, acc, seen) ==
  IF k > Len(q) THEN acc
  ELSE IF q[k] \in seen THEN DedupAcc(q, k + 1, acc, seen)
  ELSE DedupAcc(q, k + 1, Append(acc, q[k]), seen \cup {q[k]})
Dedup(q) == IF Len(q) <= 1 THEN q ELSE DedupAcc(q, 1, <<>>, {})

Node(op) == [op |-> op, r |-> 0, fold |-> FALSE, cls |-> <<>>, neg |-> FALSE, min |-> 0, max |-> 0,
             greedy |-> TRUE, sub |-> <<>>]
Cat(subs) == [Node("cat") EXCEPT !.sub = subs]
Quest(x, g) == [Node("quest") EXCEPT !.sub = <<x>>, !.greedy = g]
Plus(x, g) == [Node("plus") EXCEPT !.sub = <<x>>, !.greedy = g]
Star(x, g) == [Node("star") EXCEPT !.sub = <<x>>, !.greedy = g]

\* x{min,max} as the parser's simplification defines it
RECURSIVE OptNest(_, _, _)
OptNest(x, k, g) == IF k = 0 THEN Node("empty")
                    ELSE IF k = 1 THEN Quest(x, g)
                    ELSE Quest(Cat(<<x, OptNest(x, k - 1, g)>>), g)
Copies(x, n) == [k \in 1..n |-> x]
ExpandRep(nd) ==
  LET x == nd.sub[1] g == nd.greedy IN
  IF nd.max = -1 THEN
       IF nd.min = 0 THEN Star(x, g)
       ELSE IF nd.min = 1 THEN Plus(x, g)
       ELSE Cat(Copies(x, nd.min - 1) \o <<Plus(x, g)>>)
  ELSE IF nd.min = nd.max THEN (IF nd.min = 0 THEN Node("empty") ELSE Cat(Copies(x, nd.min)))
  ELSE IF nd.min = 0 THEN OptNest(x, nd.max, g)
  ELSE Cat(Copies(x, nd.min) \o <<OptNest(x, nd.max - nd.min, g)>>)

\* x+ from the table of x.  The engine compiles x+ as  L: x; N: split(L, out)  and explores
\* threads in priority order with one visit per instruction and position:
\*  - after an iteration that consumed input and ends at e, control is at N(e): (greedy) try the
\*    body again, then leave at e.  An EMPTY iteration from there comes back to N(e), which is
\*    already visited: that thread dies (it contributes nothing; leaving at e is accounted for
\*    after all alternatives of the body).
\*  - on the first entry at position i (not through N) an empty iteration reaches N(i) for the
\*    first time: the body (L) is already visited, so the loop is left at i AT THAT PRIORITY,
\*    before the remaining alternatives of x.
\* nx[e] = ends reachable from N(e) in priority order; built from the last position down.
RECURSIVE NextFrom(_, _, _, _)
NextFrom(tx, g, i, acc) ==
  LET body == Dedup(FlattenSeq([k \in 1..Len(tx[i]) |-> IF tx[i][k] > i THEN acc[tx[i][k]] ELSE <<>>]))
      row  == IF g THEN Dedup(body \o <<i>>) ELSE Dedup(<<i>> \o body)
      acc2 == (i :> row) @@ acc
  IN IF i = 0 THEN acc2 ELSE NextFrom(tx, g, i - 1, acc2)
PlusFrom(tx, g, n, unused) ==
  LET nx == NextFrom(tx, g, n, <<>>)
  IN Tab([i \in 0..n |-> Dedup(FlattenSeq([k \in 1..Len(tx[i]) |-> IF tx[i][k] > i THEN nx[tx[i][k]] ELSE <<i>>]))])

CatTab(ta, tb, P) == Tab([i \in P |-> Dedup(FlattenSeq([k \in 1..Len(ta[i]) |-> tb[ta[i][k]]]))])

\* single-character matchers: repeats have a closed form (run lengths), which keeps
\* x*, x+ linear per position for the common .*, a+, [ab]+, \\s+ ...
IsCharOp(nd) == nd.op \in {"lit", "cc", "any", "anynl"}
CharOk(nd, ci, c) == CASE nd.op = "lit" -> LitOk(nd, ci, c)
                       [] nd.op = "cc" -> ClassOk(nd, ci, c)
                       [] nd.op = "any" -> TRUE
                       [] nd.op = "anynl" -> c # 10
RECURSIVE RunFrom(_, _, _, _, _)
RunFrom(nd, s, ci, i, acc) ==      \* acc: function (i+1)..Len(s) -> run length
  LET r == IF i < Len(s) /\ CharOk(nd, ci, s[i + 1]) THEN 1 + acc[i + 1] ELSE 0
      acc2 == (i :> r) @@ acc
  IN IF i = 0 THEN acc2 ELSE RunFrom(nd, s, ci, i - 1, acc2)
CharRepeat(nd, s, ci, greedy, zeroOk) ==
  LET n == Len(s)
      run == RunFrom(nd, s, ci, n, <<>>)
  IN Tab([i \in 0..n |->
        LET m == run[i] IN
        IF greedy THEN [k \in 1..(IF zeroOk THEN m + 1 ELSE m) |-> i + m + 1 - k]
        ELSE [k \in 1..(IF zeroOk THEN m + 1 ELSE m) |-> IF zeroOk THEN i + k - 1 ELSE i + k]])

RECURSIVE T(_, _, _)
RECURSIVE CatAll(_, _, _, _, _)
CatAll(subs, k, s, ci, acc) ==
  IF k > Len(subs) THEN acc
  ELSE CatAll(subs, k + 1, s, ci, CatTab(acc, T(subs[k], s, ci), 0..Len(s)))
RECURSIVE AltAll(_, _, _, _, _)
AltAll(subs, k, s, ci, acc) ==
  IF k > Len(subs) THEN acc
  ELSE LET t == T(subs[k], s, ci)
       IN AltAll(subs, k + 1, s, ci, Tab([i \in 0..Len(s) |-> Dedup(acc[i] \o t[i])]))

T(nd, s, ci) ==
  LET n == Len(s)
      P == 0..n
      one(ok(_)) == Tab([i \in P |-> IF ok(i) THEN <<i>> ELSE <<>>])
  IN CASE nd.op = "lit"   -> Tab([i \in P |-> IF i < n /\ LitOk(nd, ci, s[i + 1]) THEN <<i + 1>> ELSE <<>>])
       [] nd.op = "cc"    -> Tab([i \in P |-> IF i < n /\ ClassOk(nd, ci, s[i + 1]) THEN <<i + 1>> ELSE <<>>])
       [] nd.op = "any"   -> Tab([i \in P |-> IF i < n THEN <<i + 1>> ELSE <<>>])
       [] nd.op = "anynl" -> Tab([i \in P |-> IF i < n /\ s[i + 1] # 10 THEN <<i + 1>> ELSE <<>>])
       [] nd.op = "nomatch" -> Tab([i \in P |-> <<>>])
       [] nd.op = "empty" -> Tab([i \in P |-> <<i>>])
       [] nd.op = "bol"   -> LET ok(i) == i = 0 \/ s[i] = 10 IN one(ok)
       [] nd.op = "eol"   -> LET ok(i) == i = n \/ s[i + 1] = 10 IN one(ok)
       [] nd.op = "bot"   -> LET ok(i) == i = 0 IN one(ok)
       [] nd.op = "eot"   -> LET ok(i) == i = n IN one(ok)
       [] nd.op = "wb"    -> LET ok(i) == Boundary(s, i) IN one(ok)
       [] nd.op = "nwb"   -> LET ok(i) == ~Boundary(s, i) IN one(ok)
       [] nd.op = "cap"   -> T(nd.sub[1], s, ci)
       [] nd.op = "cat"   -> IF Len(nd.sub) = 0 THEN Tab([i \in P |-> <<i>>])
                             ELSE CatAll(nd.sub, 2, s, ci, T(nd.sub[1], s, ci))
       [] nd.op = "alt"   -> IF Len(nd.sub) = 0 THEN Tab([i \in P |-> <<>>])
                             ELSE AltAll(nd.sub, 2, s, ci, T(nd.sub[1], s, ci))
       [] nd.op = "quest" -> LET tx == T(nd.sub[1], s, ci)
                             IN Tab([i \in P |-> IF nd.greedy THEN Dedup(tx[i] \o <<i>>) ELSE Dedup(<<i>> \o tx[i])])
       [] nd.op = "plus"  -> IF IsCharOp(nd.sub[1]) THEN CharRepeat(nd.sub[1], s, ci, nd.greedy, FALSE)
                             ELSE PlusFrom(T(nd.sub[1], s, ci), nd.greedy, n, <<>>)
       [] nd.op = "star"  -> IF IsCharOp(nd.sub[1]) THEN CharRepeat(nd.sub[1], s, ci, nd.greedy, TRUE)
                             ELSE LET tp == PlusFrom(T(nd.sub[1], s, ci), nd.greedy, n, <<>>)
                                  IN Tab([i \in P |-> IF nd.greedy THEN Dedup(tp[i] \o <<i>>) ELSE Dedup(<<i>> \o tp[i])])
       [] nd.op = "rep"   -> T(ExpandRep(nd), s, ci)

\* does the expression match somewhere (an empty match counts)
MatchesTab(t, n) == \E i \in 0..n : t[i] # <<>>
Matches(re, s, ci) == MatchesTab(T(re, s, ci), Len(s))

\* successive non-overlapping leftmost-first matches as <<start, end>> positions, following
\* Go's FindAll: an empty match directly after the previous match is dropped.
RECURSIVE FindAllFrom(_, _, _, _, _)
FindAllFrom(t, n, pos, prevEnd, acc) ==
  IF pos > n \/ ~(\E i \in pos..n : t[i] # <<>>) THEN acc
  ELSE LET i == CHOOSE x \in pos..n : t[x] # <<>> /\ \A y \in pos..(x - 1) : t[y] = <<>>
           e == t[i][1]
           accept == ~(e = pos /\ i = prevEnd)
           npos == IF e = pos THEN pos + 1 ELSE e
       IN FindAllFrom(t, n, npos, e, IF accept THEN Append(acc, <<i, e>>) ELSE acc)
FindAllTab(t, n) == FindAllFrom(t, n, 0, -1, <<>>)
FindAll(re, s, ci) == FindAllTab(T(re, s, ci), Len(s))
\* first match or <<>>
FindFirst(re, s, ci) == LET t == T(re, s, ci) n == Len(s)
                        IN IF MatchesTab(t, n)
                           THEN LET i == CHOOSE x \in 0..n : t[x] # <<>> /\ \A y \in 0..(x - 1) : t[y] = <<>>
                                IN <<i, t[i][1]>>
                           ELSE <<>>
=============================================================================
