----------------------------- MODULE RankLimit -----------------------------
(* C21: match-count limits and cancellation only remove whole files.                       *)
(* C22: display limits return the top of the ranked result (model of the display           *)
(*      truncator: at most D files, at most M matches, last file cut at the limit).        *)
(* C29: ranking is deterministic, finite and ordered (order constraints only).             *)
EXTENDS Integers, Sequences, FiniteSets, TLC, Json

Rej(l, why, exp) == PrintT(<<"REJECTED", ToJson([line |-> l, why |-> why, expected |-> exp])>>)

Docs(files) == {files[k].doc : k \in 1..Len(files)}
FileOf(files, d) == files[CHOOSE k \in 1..Len(files) : files[k].doc = d]
SameFile(f, g) == f.doc = g.doc /\ f.branches = g.branches /\ f.lm = g.lm /\ f.cm = g.cm /\ f.score = g.score

\* ---------------------------------------------------------------- score keys
\* order-preserving triples for finite float64; <<-1,-1,-1>> = not finite
ScoreLess(a, b) == \/ a[1] < b[1]
                   \/ (a[1] = b[1] /\ a[2] < b[2])
                   \/ (a[1] = b[1] /\ a[2] = b[2] /\ a[3] < b[3])
Finite(a) == a[1] >= 0

\* ---------------------------------------------------------------- C21
\* e: limited / cancelled search, ref: the same search without limits
CheckLimited(e, ref, answer, l) ==
  IF e.outcome \notin {"ok", "error"} THEN Rej(l, "c21:outcome:" \o e.outcome, [doc |-> 0])
  ELSE IF e.outcome = "error" THEN TRUE
  ELSE LET got == Docs(e.files)
           extra == got \ answer
           changed == {d \in got \cap Docs(ref.files) : ~SameFile(FileOf(e.files, d), FileOf(ref.files, d))}
       IN /\ (extra # {} => Rej(l, "c21:extra-file", [docs |-> extra]))
          /\ (Len(e.files) # Cardinality(got) => Rej(l, "c21:duplicate", [docs |-> got]))
          /\ (changed # {} => Rej(l, "c21:file-changed", [docs |-> changed]))
          /\ ((e.cancel = 0 /\ e.nolimit /\ got # Docs(ref.files)) => Rej(l, "c21:nolimit-differs", [docs |-> Docs(ref.files) \ got]))

\* ---------------------------------------------------------------- C22
\* number of matches (line fragments / chunk ranges) of a file
NMatches(f, mode) == IF mode = "line"
                     THEN LET s == [k \in 1..Len(f.lm) |-> Len(f.lm[k].frags)] IN
                          IF Len(s) = 0 THEN 0 ELSE LET F[k \in 0..Len(s)] == IF k = 0 THEN 0 ELSE F[k - 1] + s[k] IN F[Len(s)]
                     ELSE LET s == [k \in 1..Len(f.cm) |-> Len(f.cm[k].ranges)] IN
                          IF Len(s) = 0 THEN 0 ELSE LET F[k \in 0..Len(s)] == IF k = 0 THEN 0 ELSE F[k - 1] + s[k] IN F[Len(s)]
RECURSIVE SumMatches(_, _, _)
SumMatches(files, mode, k) == IF k = 0 THEN 0 ELSE SumMatches(files, mode, k - 1) + NMatches(files[k], mode)

\* model of limitLineMatches / limitChunkMatches on one file: keep the leading `limit` matches;
\* the match group in which the limit is reached is the last one kept
RECURSIVE CutGroups(_, _, _, _)
CutGroups(groups, sizes, limit, k) ==        \* returns sequence of kept sizes
  IF k > Len(sizes) \/ limit <= 0 THEN <<>>
  ELSE IF sizes[k] >= limit THEN <<limit>>
  ELSE <<sizes[k]>> \o CutGroups(groups, sizes, limit - sizes[k], k + 1)

LineSizes(f) == [k \in 1..Len(f.lm) |-> Len(f.lm[k].frags)]
ChunkSizes(f) == [k \in 1..Len(f.cm) |-> Len(f.cm[k].ranges)]

\* f is g cut to `limit` matches
IsCutOf(f, g, limit, mode) ==
  /\ f.doc = g.doc /\ f.branches = g.branches /\ f.score = g.score
  /\ IF mode = "line"
     THEN LET kept == CutGroups(g.lm, LineSizes(g), limit, 1) IN
          /\ Len(f.lm) = Len(kept)
          /\ \A k \in 1..Len(kept) :
               /\ f.lm[k].num = g.lm[k].num /\ f.lm[k].start = g.lm[k].start /\ f.lm[k].end = g.lm[k].end
               /\ f.lm[k].frags = SubSeq(g.lm[k].frags, 1, kept[k])
     ELSE LET kept == CutGroups(g.cm, ChunkSizes(g), limit, 1) IN
          /\ Len(f.cm) = Len(kept)
          /\ \A k \in 1..Len(kept) :
               /\ f.cm[k].sb = g.cm[k].sb /\ f.cm[k].sl = g.cm[k].sl
               /\ f.cm[k].ranges = SubSeq(g.cm[k].ranges, 1, kept[k])

\* e: search with display limits D (files) and M (matches); ref: the unlimited ranked result.
CheckDisplay(e, ref, l) ==
  LET D == e.maxdoc
      M == e.maxmatch
      n == Len(e.files)
      total == SumMatches(e.files, e.mode, n)
      refDocs == Docs(ref.files)
      \* matches available before file k of the limited result
      before(k) == SumMatches(e.files, e.mode, k - 1)
      fileOk(k) == LET f == e.files[k] IN
                   /\ f.doc \in refDocs
                   /\ LET g == FileOf(ref.files, f.doc) IN
                      IF M > 0 /\ before(k) + NMatches(g, e.mode) > M
                      THEN IsCutOf(f, g, M - before(k), e.mode) /\ k = n
                      ELSE SameFile(f, g)
      badFiles == {k \in 1..n : ~fileOk(k)}
      \* ranked prefix (non-streaming): position-wise the same scores as the unlimited ranked
      \* result (which includes the documented promotion); ties may permute
      prefixOk == \A k \in 1..n : k <= Len(ref.files) /\ e.files[k].score = ref.files[k].score
      \* completeness: the result stops only because a limit was reached
      complete == \/ n = Len(ref.files)
                  \/ (D > 0 /\ n = D)
                  \/ (M > 0 /\ total >= M)
  IN IF e.outcome # "ok" THEN Rej(l, "c22:outcome:" \o e.outcome, [n |-> 0])
     ELSE /\ ((D > 0 /\ n > D) => Rej(l, "c22:too-many-files", [n |-> n]))
          /\ ((M > 0 /\ total > M) => Rej(l, "c22:too-many-matches", [n |-> total]))
          /\ (Cardinality(Docs(e.files)) # n => Rej(l, "c22:duplicate", [n |-> n]))
          /\ (badFiles # {} => Rej(l, "c22:file-not-prefix", [which |-> badFiles]))
          /\ ((~e.stream /\ badFiles = {} /\ ~prefixOk) => Rej(l, "c22:not-ranked-prefix", [n |-> n]))
          /\ ((badFiles = {} /\ ~complete) => Rej(l, "c22:stopped-early", [n |-> n, total |-> total]))

\* ---------------------------------------------------------------- C29
NonIncreasing(scores) == \A k \in 1..(Len(scores) - 1) : ~ScoreLess(scores[k], scores[k + 1])
Without(s, i) == [k \in 1..(Len(s) - 1) |-> IF k < i THEN s[k] ELSE s[k + 1]]

\* file extension like path.Ext: from the last '.' of the last path element, "" if none
Ext(name) == LET dots == {k \in 1..Len(name) : name[k] = 46 /\ \A j \in k..Len(name) : name[j] # 47}
             IN IF dots = {} THEN <<>>
                ELSE LET k == CHOOSE x \in dots : \A y \in dots : y <= x IN SubSeq(name, k, Len(name))

\* files: projected files of one run; names: doc -> name; ge90[k]: score[k] >= 0.9 * score[k+1]
\* (computed by the driver from the very scores it logs)
FilesOrdered(files, C, ge90) ==
  LET sc == [k \in 1..Len(files) |-> files[k].score] IN
  \/ NonIncreasing(sc)
  \/ /\ Len(files) >= 4
     /\ NonIncreasing(Without(sc, 3))
     /\ ~ScoreLess(sc[2], sc[3])
     /\ ge90[3]
     /\ LET ext(k) == Ext(C.docs[files[k].doc].name) IN ext(3) # ext(1) /\ ext(3) # ext(2)

MatchScores(f) == IF Len(f.lm) > 0 THEN [k \in 1..Len(f.lm) |-> f.lm[k].score] ELSE [k \in 1..Len(f.cm) |-> f.cm[k].score]

\* two runs are the same ranking up to permutation inside groups of equal score
SameRanking(a, b) ==
  /\ Len(a) = Len(b)
  /\ \A k \in 1..Len(a) : a[k].score = b[k].score
  /\ \A k \in 1..Len(a) : \E j \in 1..Len(b) : a[k].doc = b[j].doc /\ a[k].score = b[j].score
        /\ MatchScores(a[k]) = MatchScores(b[j]) /\ a[k].lm = b[j].lm /\ a[k].cm = b[j].cm

CheckRank(e, C, l) ==
  LET runs == e.runs
      r1 == runs[1].files
      allFiles == UNION {{<<i, k>> : k \in 1..Len(runs[i].files)} : i \in 1..Len(runs)}
      notFinite == {p \in allFiles : LET f == runs[p[1]].files[p[2]] IN
                       ~Finite(f.score) \/ \E k \in 1..Len(MatchScores(f)) : ~Finite(MatchScores(f)[k])}
      matchesUnordered == {p \in allFiles : ~NonIncreasing(MatchScores(runs[p[1]].files[p[2]]))}
      differ == {i \in 2..Len(runs) : ~SameRanking(r1, runs[i].files)}
      unordered == {i \in 1..Len(runs) : e.kind = "dir" /\ ~FilesOrdered(runs[i].files, C, runs[i].ge90)}
  IN /\ (\E i \in 1..Len(runs) : runs[i].outcome # "ok") => Rej(l, "c29:outcome", [runs |-> {i \in 1..Len(runs) : runs[i].outcome # "ok"}])
     /\ (notFinite # {} => Rej(l, "c29:not-finite", [runs |-> {p[1] : p \in notFinite}]))
     /\ (matchesUnordered # {} => Rej(l, "c29:matches-order", [runs |-> {p[1] : p \in matchesUnordered}]))
     /\ (differ # {} => Rej(l, "c29:nondeterministic", [runs |-> differ]))
     /\ (unordered # {} => Rej(l, "c29:files-order", [runs |-> unordered]))
=============================================================================
