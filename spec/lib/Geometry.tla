----------------------------- MODULE Geometry -----------------------------
(* C02: reported match ranges are real, ordered, complete.                                *)
(* C03: line / chunk locations and context agree with the file content.                   *)
(* Everything is recomputed from the corpus' code points: byte offsets, newline positions, *)
(* line numbers, columns, line texts.                                                      *)
EXTENDS Text, SequencesExt, Json

CONSTANTS Canon, Orbit
S == INSTANCE QuerySem WITH Canon <- Canon, Orbit <- Orbit
R == INSTANCE Regex WITH Canon <- Canon, Orbit <- Orbit

Rej(l, why, exp) == PrintT(<<"REJECTED", ToJson([line |-> l, why |-> why, expected |-> exp])>>)

Max2(a, b) == IF a > b THEN a ELSE b
Min2(a, b) == IF a < b THEN a ELSE b

\* ------------------------------------------------------------------ reported ranges
\* groups of byte ranges <<start, end>> as reported, one group per line match / chunk
LineGroups(f) == [k \in 1..Len(f.lm) |-> [j \in 1..Len(f.lm[k].frags) |->
                    <<f.lm[k].frags[j][2], f.lm[k].frags[j][2] + f.lm[k].frags[j][3]>>]]
ChunkGroups(f) == [k \in 1..Len(f.cm) |-> [j \in 1..Len(f.cm[k].ranges) |->
                    <<f.cm[k].ranges[j][1], f.cm[k].ranges[j][4]>>]]
Groups(e, f) == IF e.mode = "line" THEN LineGroups(f) ELSE ChunkGroups(f)
IsNameGroup(e, f, k) == IF e.mode = "line" THEN f.lm[k].fn ELSE f.cm[k].fn
Flat(groups) == FlattenSeq(groups)

\* ------------------------------------------------------------------ atoms
\* atoms that can contribute ranges: reachable through holding and/or/boost/type:filematch
RECURSIVE Atoms(_, _, _, _)
Atoms(q, di, C, kind) ==
  CASE q.t \in {"and", "or"} ->
         UNION {Atoms(q.sub[k], di, C, kind) : k \in {k \in 1..Len(q.sub) : S!Holds(q.sub[k], di, C, kind)}}
    [] q.t = "boost" -> Atoms(q.sub[1], di, C, kind)
    [] q.t = "type" /\ q.s = "filematch" -> Atoms(q.sub[1], di, C, kind)
    [] q.t \in {"substr", "regex", "symbol"} -> {q}
    [] OTHER -> {}

\* rune-position ranges <<s, e>> an atom matches in text t (t = name or content)
\* real(a, t, ci, s, e): the atom matches exactly t[s+1..e]
SubstrAt(a, t, s, e) == e - s = Len(a.pat) /\ s >= 0 /\ e <= Len(t) /\ S!OccAt(a.pat, t, a.cs, s)

\* A reported piece <<s, e>> (rune positions) must be justified by a match <<ms, me>> of an atom.
\* Chunk mode: the piece is the match.  Line mode (split): matches are cut at newlines and empty
\* pieces dropped, so the piece is newline-free, non-empty, starts at the match start or right
\* after a newline, and ends at the match end or right before a newline.
Clean(t, s, e) == s < e /\ \A k \in (s + 1)..e : t[k] # 10
StartSet(t, s, split) == IF split /\ s > 0 /\ t[s] = 10 THEN 0..s ELSE {s}
EndOk(t, e, me, split) == me = e \/ (split /\ me > e /\ t[e + 1] = 10)

AtomMatchesPiece(a, d, onName, s, e, split, tabs) ==
  LET t == IF onName THEN d.name ELSE d.content IN
  /\ (split => Clean(t, s, e))
  /\ CASE a.t = "substr" ->
         /\ (IF onName THEN S!InName(a) ELSE S!InContent(a))
         /\ \E ms \in StartSet(t, s, split) :
              LET me == ms + Len(a.pat) IN me <= Len(t) /\ me >= e /\ EndOk(t, e, me, split) /\ SubstrAt(a, t, ms, me)
    [] a.t = "regex" ->
         /\ (IF onName THEN S!InName(a) ELSE S!InContent(a))
         /\ LET tab == IF onName THEN tabs[a].n ELSE tabs[a].c
            IN \E ms \in StartSet(t, s, split) : \E j \in 1..Len(tab[ms]) : EndOk(t, e, tab[ms][j], split)
    [] a.t = "symbol" ->
         /\ ~onName
         /\ LET x == a.sub[1] IN
            \E k \in 1..Len(d.syms) :
              LET ss == d.syms[k][1] se == d.syms[k][2] IN
              /\ ss <= s /\ e <= se
              /\ IF x.t = "substr"
                 THEN \E ms \in (StartSet(t, s, split) \cap ss..s) : LET me == ms + Len(x.pat) IN
                        me <= se /\ me >= e /\ EndOk(t, e, me, split) /\ SubstrAt(x, t, ms, me)
                 ELSE LET sec == SubSeq(t, ss + 1, se)
                          tab == R!T(x.re, sec, ~x.cs)
                      IN \E ms \in (StartSet(t, s, split) \cap ss..s) : \E j \in 1..Len(tab[ms - ss]) :
                           EndOk(t, e, tab[ms - ss][j] + ss, split)

\* match tables of the regexp atoms, computed once per file
RegexTabs(atoms, d) ==
  LET ras == {a \in atoms : a.t = "regex"} IN
  [a \in ras |-> [c |-> IF S!InContent(a) THEN R!T(a.re, d.content, ~a.cs) ELSE <<>>,
                   n |-> IF S!InName(a) THEN R!T(a.re, d.name, ~a.cs) ELSE <<>>]] @@ <<>>

\* ------------------------------------------------------------------ expected exact ranges
RECURSIVE GreedyNonOverlap(_, _, _, _)
GreedyNonOverlap(occ, len, from, acc) ==       \* occ: set of start positions
  LET cand == {i \in occ : i >= from} IN
  IF cand = {} THEN acc
  ELSE LET i == CHOOSE x \in cand : \A y \in cand : x <= y
       IN GreedyNonOverlap(occ, len, i + len, Append(acc, <<i, i + len>>))

\* split rune ranges at newlines, dropping empty pieces (line mode)
RECURSIVE SplitNL(_, _, _, _)
SplitNL(t, s, e, acc) ==
  IF s >= e THEN acc
  ELSE IF t[s + 1] = 10 THEN SplitNL(t, s + 1, e, acc)
  ELSE LET stop == IF \E k \in (s + 1)..e : t[k] = 10
                   THEN (CHOOSE k \in (s + 1)..e : t[k] = 10 /\ \A j \in (s + 1)..(k - 1) : t[j] # 10) - 1
                   ELSE e
       IN SplitNL(t, stop, e, Append(acc, <<s, stop>>))
SplitAll(t, rs) == FlattenSeq([k \in 1..Len(rs) |-> SplitNL(t, rs[k][1], rs[k][2], <<>>)])

Covered(rs) == UNION {(rs[k][1] + 1)..rs[k][2] : k \in 1..Len(rs)}     \* rune indices covered

\* ------------------------------------------------------------------ C02
CheckRangesFile(e, C, l, f) ==
  LET d == C.docs[f.doc]
      groups == Groups(e, f)
      split == e.mode = "line"
      cb == BOffSeq(d.content)
      nb == BOffSeq(d.name)
      csize == cb[Len(cb)]
      nsize == nb[Len(nb)]
      atoms == Atoms(e.q, f.doc, C, e.kind)
      tabs == RegexTabs(atoms, d)
      toRunes(k, r) == LET b == IF IsNameGroup(e, f, k) THEN nb ELSE cb IN <<RuneAt(b, r[1]), RuneAt(b, r[2])>>
      inBounds == \A k \in 1..Len(groups) : \A j \in 1..Len(groups[k]) :
                     LET r == groups[k][j] sz == IF IsNameGroup(e, f, k) THEN nsize ELSE csize
                     IN 0 <= r[1] /\ r[1] <= r[2] /\ r[2] <= sz /\ toRunes(k, r)[1] >= 0 /\ toRunes(k, r)[2] >= 0
      ordered == \A k \in 1..Len(groups) : \A j \in 1..(Len(groups[k]) - 1) :
                     groups[k][j][2] <= groups[k][j + 1][1] /\ groups[k][j][1] < groups[k][j + 1][1]
      contentRanges == Flat([k \in 1..Len(groups) |-> IF IsNameGroup(e, f, k) THEN <<>> ELSE groups[k]])
      disjoint == \A i, j \in 1..Len(contentRanges) : i # j =>
                     \/ contentRanges[i][2] <= contentRanges[j][1] \/ contentRanges[j][2] <= contentRanges[i][1]
      \* the documented fallback when no atom contributed a candidate (also when rewriting folded
      \* the atoms away): the single match is the whole file name
      wholeName(k, r) == IsNameGroup(e, f, k) /\ r = <<0, nsize>> /\ Len(groups) = 1 /\ Len(groups[1]) = 1
      justified(k, r) ==
         LET rr == toRunes(k, r) onName == IsNameGroup(e, f, k) IN
         \/ wholeName(k, r)
         \/ (r[1] = r[2] /\ ~split)         \* empty ranges (empty regexp matches) cover no bytes
         \/ \E a \in atoms : AtomMatchesPiece(a, d, onName, rr[1], rr[2], split /\ ~onName, tabs)
      bad == UNION {{<<k, j>> : j \in {j \in 1..Len(groups[k]) : ~justified(k, groups[k][j])}} : k \in 1..Len(groups)}
      single == e.q.t \in {"substr", "regex"} /\ e.q.ct /\ ~e.q.fn
      expected == IF e.q.t = "substr"
                  THEN GreedyNonOverlap(S!Occs(e.q.pat, d.content, e.q.cs), Len(e.q.pat), 0, <<>>)
                  ELSE SelectSeq(R!FindAllTab(tabs[e.q].c, Len(d.content)), LAMBDA m : m[1] < m[2])
      gotRunes == [k \in 1..Len(contentRanges) |-> <<RuneAt(cb, contentRanges[k][1]), RuneAt(cb, contentRanges[k][2])>>]
      expSplit == IF split THEN SplitAll(d.content, expected) ELSE expected
  IN IF ~inBounds THEN Rej(l, "c02:bounds", [doc |-> f.doc])
     ELSE /\ (~ordered => Rej(l, "c02:order", [doc |-> f.doc]))
          /\ (~disjoint => Rej(l, "c02:overlap", [doc |-> f.doc]))
          /\ (bad # {} => Rej(l, "c02:unjustified", [doc |-> f.doc, ranges |-> bad]))
          /\ (single /\ Len(e.q.pat) > 0 =>
                IF e.q.t = "substr"
                THEN (SortSeq(SelectSeq(gotRunes, LAMBDA m : m[1] < m[2]), LAMBDA a, b : a[1] < b[1]) # expSplit
                        => Rej(l, "c02:substr-exact", [doc |-> f.doc, ranges |-> expSplit]))
                ELSE (Covered(gotRunes) # Covered(expSplit)
                        => Rej(l, "c02:regex-exact", [doc |-> f.doc, ranges |-> expSplit])))

CheckRanges(e, C, l) ==
  \A k \in 1..Len(e.files) : e.files[k].doc > 0 => CheckRangesFile(e, C, l, e.files[k])

\* ------------------------------------------------------------------ C03
CheckGeometryFile(e, C, l, f) ==
  LET d == C.docs[f.doc]
      cb == BOffSeq(d.content)
      size == cb[Len(cb)]
      nl == NLBytes(d.content, cb)
      LS(n) == LineStart(nl, size, n)
      txt(b1, b2) == SubText(d.content, cb, b1, b2)
      ctx == e.ctx
      lineOk(m) ==
        IF m.fn THEN m.line = d.name
        ELSE /\ Len(m.frags) > 0
             /\ m.num = LineOf(nl, m.frags[1][2])
             /\ m.start = LS(m.num)
             /\ m.end = LS(m.num + 1)
             /\ m.line = txt(m.start, m.end)
             /\ \A j \in 1..Len(m.frags) :
                  /\ m.frags[j][1] = m.frags[j][2] - m.start
                  /\ m.frags[j][2] >= m.start /\ m.frags[j][2] + m.frags[j][3] <= m.end
                  /\ LineOf(nl, m.frags[j][2]) = m.num
             /\ m.before = (IF ctx > 0 THEN txt(LS(m.num - ctx), LS(m.num)) ELSE <<>>)
             /\ m.after = (IF ctx > 0 THEN txt(LS(m.num + 1), LS(m.num + 1 + ctx)) ELSE <<>>)
      colOf(line, off) == LET r1 == RuneAt(cb, LS(line)) r2 == RuneAt(cb, off) IN r2 - r1 + 1
      endLine(r) == LineOf(nl, Max2(r[1], Max2(r[4], 1) - 1))
      chunkFirst(c) == LineOf(nl, c.ranges[1][1])
      chunkLast(c) == LET ls == {endLine(c.ranges[j]) : j \in 1..Len(c.ranges)} IN CHOOSE x \in ls : \A y \in ls : y <= x
      chunkOk(c) ==
        IF c.fn THEN /\ c.content = d.name /\ c.sb = 0 /\ c.sl = 1 /\ c.sc = 1
                     /\ \A j \in 1..Len(c.ranges) : c.ranges[j][2] = 1 /\ c.ranges[j][5] = 1
                          /\ c.ranges[j][3] = RuneAt(BOffSeq(d.name), c.ranges[j][1]) + 1
                          /\ c.ranges[j][6] = RuneAt(BOffSeq(d.name), c.ranges[j][4]) + 1
        ELSE /\ Len(c.ranges) > 0
             /\ c.sc = 1
             /\ c.sl = Max2(chunkFirst(c) - ctx, 1)
             /\ c.sb = LS(c.sl)
             /\ c.content = txt(c.sb, LS(chunkLast(c) + ctx + 1))
             /\ \A j \in 1..Len(c.ranges) :
                  LET r == c.ranges[j] IN
                  /\ r[1] >= c.sb /\ r[4] <= c.sb + c.clen /\ r[1] <= r[4]
                  /\ r[2] = LineOf(nl, r[1]) /\ r[3] = colOf(r[2], r[1])
                  /\ r[5] = endLine(r) /\ r[6] = colOf(r[5], r[4])
             /\ (c.best # 0 => c.best >= c.sl /\ c.best <= chunkLast(c) + ctx)
      chunksDisjoint ==
        \A i, j \in 1..Len(f.cm) : (i # j /\ ~f.cm[i].fn /\ ~f.cm[j].fn) =>
           \/ chunkLast(f.cm[i]) + ctx < Max2(chunkFirst(f.cm[j]) - ctx, 1)
           \/ chunkLast(f.cm[j]) + ctx < Max2(chunkFirst(f.cm[i]) - ctx, 1)
      badLines == {k \in 1..Len(f.lm) : ~lineOk(f.lm[k])}
      badChunks == {k \in 1..Len(f.cm) : ~chunkOk(f.cm[k])}
      lineNums == [k \in 1..Len(f.lm) |-> f.lm[k].num]
  IN /\ (badLines # {} => Rej(l, "c03:line", [doc |-> f.doc, which |-> badLines]))
     /\ (badChunks # {} => Rej(l, "c03:chunk", [doc |-> f.doc, which |-> badChunks]))
     /\ ((badChunks = {} /\ ~chunksDisjoint) => Rej(l, "c03:chunk-overlap", [doc |-> f.doc, which |-> {}]))
     /\ (Cardinality({lineNums[k] : k \in 1..Len(f.lm)}) # Len(f.lm) => Rej(l, "c03:line-dup", [doc |-> f.doc, which |-> {}]))

CheckGeometry(e, C, l) ==
  \A k \in 1..Len(e.files) : e.files[k].doc > 0 => CheckGeometryFile(e, C, l, e.files[k])
=============================================================================
