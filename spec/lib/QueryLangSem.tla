--------------------------- MODULE QueryLangSem ---------------------------
(* C06.  An interpretation of doc/query_syntax.md that is independent of query/parse.go:   *)
(*  (1) the derivation trees of the documented EBNF, their yield (the query string) and     *)
(*      the value of a text (quote / escape processing), and                                *)
(*  (2) Meaning(derivation): the QuerySem query tree (record shape of corpus.Q.JSON()) the  *)
(*      prose of the document assigns to it.                                                *)
(* (The module name QueryLang is taken by C07's token grammar in spec/sys.)                 *)
(*                                                                                          *)
(*   query       = conjunction , { "or" , conjunction }        node [k "q", sub conj...]    *)
(*   conjunction = expression , { expression }                 node [k "c", sub expr...]    *)
(*   expression  = [ "-" ] , ( grouping | text | field )       nodes below, neg = the "-"   *)
(*   grouping    = "(" , query , ")"                           [k "g", sub <<query>>]       *)
(*   text        = quoted | unquoted                           [k "t", val TEXT]            *)
(*   field       = prefix , text                               [k "f", p prefix, mf, val]   *)
(*               | prefix , keyword                            [k "w", p prefix, kw]        *)
(*   TEXT = [quoted, items <<<<code point, esc>>...>>, vi]: esc = 1 is the production        *)
(*   `escape` (backslash + character); vi indexes the event's value table, whose entry      *)
(*   carries the value text and the regexp AST the trusted regexp/syntax parser produced    *)
(*   for it (the specification never parses regular expressions).                           *)
(* Blanks: expressions and `or` are separated by one or more spaces; spaces are optional    *)
(* after "(" and before ")"; "-" is directly followed by its operand.                       *)
EXTENDS Integers, Sequences, FiniteSets, SequencesExt, TLC

CONSTANTS Upper,      \* the upper-case letters (code points) of the alphabets in use (Unicode table)
          RegexField  \* what the field table says about regex: -- "content" ("Matches content using a regular
                      \* expression", the text today) or "any" ("file names or content", see NOTES/C06.md)

BS == 92   QT == 34   SP == 32   TAB == 9   NL == 10   LP == 40   RP == 41   DASH == 45   COLON == 58

-----------------------------------------------------------------------------
\* terminals of the grammar as code points
CP ==
  ("file:" :> <<102, 105, 108, 101, 58>>) @@
  ("f:" :> <<102, 58>>) @@
  ("content:" :> <<99, 111, 110, 116, 101, 110, 116, 58>>) @@
  ("c:" :> <<99, 58>>) @@
  ("repo:" :> <<114, 101, 112, 111, 58>>) @@
  ("r:" :> <<114, 58>>) @@
  ("branch:" :> <<98, 114, 97, 110, 99, 104, 58>>) @@
  ("b:" :> <<98, 58>>) @@
  ("lang:" :> <<108, 97, 110, 103, 58>>) @@
  ("sym:" :> <<115, 121, 109, 58>>) @@
  ("regex:" :> <<114, 101, 103, 101, 120, 58>>) @@
  ("meta." :> <<109, 101, 116, 97, 46>>) @@
  ("case:" :> <<99, 97, 115, 101, 58>>) @@
  ("type:" :> <<116, 121, 112, 101, 58>>) @@
  ("t:" :> <<116, 58>>) @@
  ("archived:" :> <<97, 114, 99, 104, 105, 118, 101, 100, 58>>) @@
  ("fork:" :> <<102, 111, 114, 107, 58>>) @@
  ("public:" :> <<112, 117, 98, 108, 105, 99, 58>>) @@
  ("yes" :> <<121, 101, 115>>) @@
  ("no" :> <<110, 111>>) @@
  ("auto" :> <<97, 117, 116, 111>>) @@
  ("filematch" :> <<102, 105, 108, 101, 109, 97, 116, 99, 104>>) @@
  ("filename" :> <<102, 105, 108, 101, 110, 97, 109, 101>>) @@
  ("file" :> <<102, 105, 108, 101>>) @@
  ("repo" :> <<114, 101, 112, 111>>) @@
  ("or" :> <<111, 114>>) @@
  ("license" :> <<108, 105, 99, 101, 110, 115, 101>>) @@
  ("team" :> <<116, 101, 97, 109>>) @@
  ("nokey" :> <<110, 111, 107, 101, 121>>) @@
  ("owner" :> <<111, 119, 110, 101, 114>>)

\* the field table of the document: prefix (with aliases) -> field
FieldOf ==
  ("file:" :> "file") @@ ("f:" :> "file") @@ ("content:" :> "content") @@ ("c:" :> "content") @@
  ("repo:" :> "repo") @@ ("r:" :> "repo") @@ ("branch:" :> "branch") @@ ("b:" :> "branch") @@
  ("lang:" :> "lang") @@ ("sym:" :> "sym") @@ ("regex:" :> "regex") @@ ("meta." :> "meta") @@
  ("case:" :> "case") @@ ("type:" :> "type") @@ ("t:" :> "type") @@
  ("archived:" :> "archived") @@ ("fork:" :> "fork") @@ ("public:" :> "public")
TextFields == {"file", "content", "repo", "branch", "lang", "sym", "regex", "meta"}
KwValues == [case |-> {"yes", "no", "auto"}, type |-> {"filematch", "filename", "file", "repo"},
             archived |-> {"yes", "no"}, fork |-> {"yes", "no"}, public |-> {"yes", "no"}]
MetaNames == {"license", "team", "nokey", "owner"}
AllPrefixes == DOMAIN FieldOf

\* lang: names are matched ignoring case (the document writes lang:python, lang:go, lang:java,
\* lang:javascript); aliases as in GitHub linguist for the few languages of the corpora
LangTab ==
  (<<103, 111>> :> "Go") @@
  (<<103, 111, 108, 97, 110, 103>> :> "Go") @@
  (<<112, 121, 116, 104, 111, 110>> :> "Python") @@
  (<<109, 97, 114, 107, 100, 111, 119, 110>> :> "Markdown") @@
  (<<99>> :> "C") @@
  (<<106, 97, 118, 97, 115, 99, 114, 105, 112, 116>> :> "JavaScript") @@
  (<<106, 115>> :> "JavaScript") @@
  (<<106, 97, 118, 97>> :> "Java") @@
  (<<114, 117, 115, 116>> :> "Rust")
AsciiLower(s) == [i \in 1..Len(s) |-> IF s[i] >= 65 /\ s[i] <= 90 THEN s[i] + 32 ELSE s[i]]

-----------------------------------------------------------------------------
\* text: yield and value
Flat(ss) == FlattenSeq(ss)
ItemYield(it) == IF it[2] = 1 THEN <<BS, it[1]>> ELSE <<it[1]>>
ItemsYield(t) == Flat([i \in 1..Len(t.items) |-> ItemYield(t.items[i])])
TextYield(t) == IF t.quoted THEN <<QT>> \o ItemsYield(t) \o <<QT>> ELSE ItemsYield(t)
\* "Inside a quoted value, a backslash escapes the next character" (the backslash disappears: two
\* are needed when the regular expression wants one); outside quotes the text is the pattern as
\* written (file:main\.go$ keeps its backslash for the regular expression).
TextValue(t) == IF t.quoted THEN [i \in 1..Len(t.items) |-> t.items[i][1]] ELSE ItemsYield(t)

IsPrefixOf(p, s) == Len(p) <= Len(s) /\ \A i \in 1..Len(p) : s[i] = p[i]
\* parentheses written as plain characters of an unquoted text must pair up inside the text
RECURSIVE ParenOK(_, _, _)
ParenOK(items, k, open) ==
  IF k > Len(items) THEN open = 0
  ELSE IF items[k][2] = 1 THEN ParenOK(items, k + 1, open)
  ELSE IF items[k][1] = LP THEN ParenOK(items, k + 1, open + 1)
  ELSE IF items[k][1] = RP THEN open > 0 /\ ParenOK(items, k + 1, open - 1)
  ELSE ParenOK(items, k + 1, open)
\* well-formed text; bare = a search term (not the value of a field): it must not be readable as
\* another production ("-", "(", the operator or, a field prefix)
TextWF(t, bare) ==
  /\ \A i \in 1..Len(t.items) : t.items[i][2] \in {0, 1}
  /\ IF t.quoted
     THEN \A i \in 1..Len(t.items) : t.items[i][2] = 0 => t.items[i][1] \notin {QT, BS}
     ELSE /\ Len(t.items) >= 1
          /\ t.items[1][2] = 0        \* unquoted = character , { character | escape }
          /\ \A i \in 1..Len(t.items) : t.items[i][2] = 0 => t.items[i][1] \notin {SP, TAB, NL, QT, BS}
          /\ ParenOK(t.items, 1, 0)
          /\ bare => /\ t.items[1][1] \notin {DASH, LP, RP}
                     /\ ItemsYield(t) # CP["or"]
                     /\ \A p \in AllPrefixes : ~IsPrefixOf(CP[p], ItemsYield(t))

-----------------------------------------------------------------------------
\* derivation trees: well-formedness and yield
IsDirective(e) == e.k = "w" /\ FieldOf[e.p] \in {"case", "type"}
DirValues(q, f) ==
  UNION {{q.sub[i].sub[j].kw : j \in {j \in 1..Len(q.sub[i].sub) :
             q.sub[i].sub[j].k = "w" /\ FieldOf[q.sub[i].sub[j].p] = f}} : i \in 1..Len(q.sub)}

RECURSIVE WFQ(_), WFE(_)
WFE(e) ==
  CASE e.k = "g" -> Len(e.sub) = 1 /\ WFQ(e.sub[1])
    [] e.k = "t" -> TextWF(e.val, TRUE)
    [] e.k = "f" -> /\ e.p \in AllPrefixes /\ FieldOf[e.p] \in TextFields
                    /\ (FieldOf[e.p] = "meta" <=> e.mf # "") /\ (e.mf # "" => e.mf \in MetaNames)
                    /\ TextWF(e.val, FALSE)
    [] e.k = "w" -> /\ e.p \in AllPrefixes /\ FieldOf[e.p] \in DOMAIN KwValues
                    /\ e.kw \in KwValues[FieldOf[e.p]]
                    /\ (IsDirective(e) => ~e.neg)      \* a negated directive has no documented meaning
    [] OTHER -> FALSE
\* every conjunction has an operand besides directives, and a group states case: / type: at most
\* once (what several different ones would mean is not documented)
WFQ(q) == /\ q.k = "q" /\ Len(q.sub) >= 1
          /\ \A i \in 1..Len(q.sub) :
               LET c == q.sub[i] IN
               /\ c.k = "c" /\ Len(c.sub) >= 1
               /\ \E j \in 1..Len(c.sub) : ~IsDirective(c.sub[j])
               /\ \A j \in 1..Len(c.sub) : WFE(c.sub[j])
          /\ Cardinality(DirValues(q, "case")) <= 1 /\ Cardinality(DirValues(q, "type")) <= 1
WellFormed(d) == WFQ(d)

Tok(s, o, c) == [s |-> s, o |-> o, c |-> c]
RECURSIVE ToksQ(_), ToksE(_)
ToksE(e) ==
  LET dash == IF e.neg THEN <<DASH>> ELSE <<>> IN
  CASE e.k = "g" -> <<Tok(dash \o <<LP>>, TRUE, FALSE)>> \o ToksQ(e.sub[1]) \o <<Tok(<<RP>>, FALSE, TRUE)>>
    [] e.k = "t" -> <<Tok(dash \o TextYield(e.val), FALSE, FALSE)>>
    [] e.k = "f" -> <<Tok(dash \o CP[e.p] \o (IF e.mf # "" THEN CP[e.mf] \o <<COLON>> ELSE <<>>) \o TextYield(e.val),
                          FALSE, FALSE)>>
    [] e.k = "w" -> <<Tok(dash \o CP[e.p] \o CP[e.kw], FALSE, FALSE)>>
ToksC(c) == Flat([j \in 1..Len(c.sub) |-> ToksE(c.sub[j])])
ToksQ(q) == Flat([i \in 1..Len(q.sub) |->
                    (IF i > 1 THEN <<Tok(CP["or"], FALSE, FALSE)>> ELSE <<>>) \o ToksC(q.sub[i])])

Spaces(n) == [i \in 1..n |-> SP]
\* gaps[k] blanks precede token k, gaps[n+1] follow the last token
GapsOK(toks, gaps) ==
  /\ Len(gaps) = Len(toks) + 1
  /\ \A k \in 1..Len(gaps) : gaps[k] >= 0
  /\ \A k \in 2..Len(toks) : gaps[k] >= 1 \/ toks[k - 1].o \/ toks[k].c
Assemble(toks, gaps) ==
  Flat([k \in 1..Len(toks) |-> Spaces(gaps[k]) \o toks[k].s]) \o Spaces(gaps[Len(toks) + 1])
Yield(d, gaps) == Assemble(ToksQ(d), gaps)

\* the text leaves of a derivation
RECURSIVE LeavesQ(_)
LeavesE(e) == CASE e.k = "g" -> LeavesQ(e.sub[1])
                [] e.k \in {"t", "f"} -> <<e>>
                [] OTHER -> <<>>
LeavesQ(q) == Flat([i \in 1..Len(q.sub) |-> Flat([j \in 1..Len(q.sub[i].sub) |-> LeavesE(q.sub[i].sub[j])])])

-----------------------------------------------------------------------------
\* meaning: QuerySem query trees
ReNode(op) == [op |-> op, r |-> 0, fold |-> FALSE, cls |-> <<>>, neg |-> FALSE, min |-> 0, max |-> 0,
               greedy |-> TRUE, sub |-> <<>>]
Node(t) == [t |-> t, sub |-> <<>>, b |-> FALSE, pat |-> <<>>, fn |-> FALSE, ct |-> FALSE, cs |-> FALSE,
            names |-> <<>>, ids |-> <<>>, br |-> <<>>, s |-> "",
            flags |-> <<FALSE, FALSE, FALSE, FALSE, FALSE, FALSE>>, re |-> ReNode("empty")]
Const(b) == [Node("const") EXCEPT !.b = b]
\* "multiple expressions written together are treated as AND"; "or combines alternatives";
\* a list of one expression means that expression
AndOf(s) == IF Len(s) = 1 THEN s[1] ELSE [Node("and") EXCEPT !.sub = s]
OrOf(s) == IF Len(s) = 1 THEN s[1] ELSE [Node("or") EXCEPT !.sub = s]
NotOf(x) == [Node("not") EXCEPT !.sub = <<x>>]
TypeOf(kw, x) == [Node("type") EXCEPT !.s = IF kw = "file" THEN "filename" ELSE kw, !.sub = <<x>>]

\* "Patterns that contain no regular expression operations are ... substring searches"
IsLit(re) == \/ (re.op = "lit" /\ ~re.fold)
             \/ (re.op = "cat" /\ Len(re.sub) >= 1 /\ \A k \in 1..Len(re.sub) : re.sub[k].op = "lit" /\ ~re.sub[k].fold)
LitRunes(re) == IF re.op = "lit" THEN <<re.r>> ELSE [k \in 1..Len(re.sub) |-> re.sub[k].r]

\* "In auto mode, if the pattern contains uppercase letters, the search will be case-sensitive".
\* A letter that directly follows an (unescaped) backslash is the name of an escape (\S, \W, \B,
\* \A ...), not a letter of the pattern.
RECURSIVE EscapedAt(_, _)
EscapedAt(v, i) == i > 1 /\ v[i - 1] = BS /\ ~EscapedAt(v, i - 1)
HasUpper(v) == \E i \in 1..Len(v) : v[i] \in Upper /\ ~EscapedAt(v, i)
CaseSensitive(mode, v) == CASE mode = "yes" -> TRUE [] mode = "no" -> FALSE [] OTHER -> HasUpper(v)

\* a pattern atom: val = [v |-> value text, re |-> its AST]
Pattern(val, fn, ct, mode) ==
  LET cs == CaseSensitive(mode, val.v) IN
  IF IsLit(val.re) THEN [Node("substr") EXCEPT !.pat = LitRunes(val.re), !.fn = fn, !.ct = ct, !.cs = cs]
  ELSE [Node("regex") EXCEPT !.re = val.re, !.fn = fn, !.ct = ct, !.cs = cs]

Flags(k) == [i \in 1..6 |-> i = k]
KwAtom(f, kw) ==
  CASE f = "public"   -> [Node("rawconfig") EXCEPT !.flags = Flags(IF kw = "yes" THEN 1 ELSE 2)]
    [] f = "fork"     -> [Node("rawconfig") EXCEPT !.flags = Flags(IF kw = "yes" THEN 3 ELSE 4)]
    [] f = "archived" -> [Node("rawconfig") EXCEPT !.flags = Flags(IF kw = "yes" THEN 5 ELSE 6)]

FieldAtom(e, val, mode) ==
  LET f == FieldOf[e.p] IN
  CASE f = "file"    -> Pattern(val, TRUE, FALSE, mode)        \* "Searches file names"
    [] f = "content" -> Pattern(val, FALSE, TRUE, mode)        \* "Searches content of files"
    [] f = "regex"   -> Pattern(val, FALSE, RegexField = "content", mode)
    [] f = "sym"     -> [Node("symbol") EXCEPT !.sub = <<Pattern(val, FALSE, TRUE, mode)>>]
    [] f = "repo"    -> [Node("repo") EXCEPT !.re = val.re, !.pat = val.v]
    [] f = "branch"  -> [Node("branch") EXCEPT !.pat = val.v]   \* "branch names containing the value; HEAD ..."
    [] f = "lang"    -> LET lc == AsciiLower(val.v) IN
                        IF lc \in DOMAIN LangTab THEN [Node("lang") EXCEPT !.s = LangTab[lc]] ELSE Const(FALSE)
    [] f = "meta"    -> [Node("meta") EXCEPT !.s = e.mf, !.re = val.re, !.pat = val.v]

\* case: and type: belong to the group (parenthesised, or the whole query) they are written in:
\* case: sets the mode of every pattern of the group, also inside nested groups that do not
\* state their own; type: wraps the whole group "including or clauses".
RECURSIVE MQ(_, _, _), ME(_, _, _)
ME(e, vals, mode) ==
  LET x == CASE e.k = "g" -> MQ(e.sub[1], vals, mode)
             [] e.k = "t" -> Pattern(vals[e.val.vi], FALSE, FALSE, mode)   \* a search term: name or content
             [] e.k = "f" -> FieldAtom(e, vals[e.val.vi], mode)
             [] e.k = "w" -> KwAtom(FieldOf[e.p], e.kw)
  IN IF e.neg THEN NotOf(x) ELSE x
MQ(q, vals, inherited) ==
  LET cset == DirValues(q, "case")
      tset == DirValues(q, "type")
      mode == IF cset = {} THEN inherited ELSE CHOOSE x \in cset : TRUE
      conj(i) == LET items == SelectSeq(q.sub[i].sub, LAMBDA e : ~IsDirective(e))
                 IN AndOf([j \in 1..Len(items) |-> ME(items[j], vals, mode)])
      body == OrOf([i \in 1..Len(q.sub) |-> conj(i)])
  IN IF tset = {} THEN body ELSE TypeOf(CHOOSE x \in tset : TRUE, body)

Meaning(d, vals) == MQ(d, vals, "auto")
=============================================================================
