--------------------------- MODULE RewriteSem ---------------------------
(* C05.  What a query TREE means when its atoms are abstracted to truth values, and the    *)
(* structural conditions a simplified tree satisfies.  Shared by the generator/model        *)
(* (spec/sys/Rewrite.tla) and the trace specification (spec/trace/Trace_Rewrite.tla).        *)
(*                                                                                           *)
(* A node is a record [t, sub, b, s, a]:                                                     *)
(*   t   "and" | "or" | "not" | "const" | "type" | "boost" | "scope" | "atom"                *)
(*   sub sequence of child nodes (and/or: 0..n, not/type/boost/scope: 1, const/atom: 0)      *)
(*   b   value of a const                                                                    *)
(*   s   kind of a type node: "filename" | "filematch" | "repo"                              *)
(*   a   number of the atom (index into the event's atom table)                              *)
(*                                                                                           *)
(* A corpus is abstracted to ONE repository holding the documents `docs`; val[a][d] says     *)
(* whether atom a holds for document d.  The meaning follows the documentation:              *)
(*   and = all children (empty: TRUE), or = some child (empty: FALSE), not, const;           *)
(*   boost and the parse-time case scope select like their child;                            *)
(*   type:filename and type:filematch select like their child (they change what is           *)
(*   REPORTED, not what is selected); type:repo selects every document of a repository in    *)
(*   which SOME document satisfies the child.                                                *)
EXTENDS Integers, Sequences, FiniteSets, SequencesExt

Nd(t, sub, b, s, a) == [t |-> t, sub |-> sub, b |-> b, s |-> s, a |-> a]
ConstN(v) == Nd("const", <<>>, v, "", 0)
AtomN(a) == Nd("atom", <<>>, FALSE, "", a)

RECURSIVE Ev(_, _, _, _)
Ev(n, val, docs, d) ==
  CASE n.t = "and"   -> \A k \in 1..Len(n.sub) : Ev(n.sub[k], val, docs, d)
    [] n.t = "or"    -> \E k \in 1..Len(n.sub) : Ev(n.sub[k], val, docs, d)
    [] n.t = "not"   -> ~Ev(n.sub[1], val, docs, d)
    [] n.t = "const" -> n.b
    [] n.t \in {"boost", "scope"} -> Ev(n.sub[1], val, docs, d)
    [] n.t = "type"  -> IF n.s = "repo" THEN \E d2 \in docs : Ev(n.sub[1], val, docs, d2)
                        ELSE Ev(n.sub[1], val, docs, d)
    [] n.t = "atom"  -> val[n.a][d]

RECURSIVE AtomsOf(_)
AtomsOf(n) == IF n.t = "atom" THEN {n.a} ELSE UNION {AtomsOf(n.sub[k]) : k \in 1..Len(n.sub)}

RECURSIVE HasTypeRepo(_)
HasTypeRepo(n) == (n.t = "type" /\ n.s = "repo") \/ \E k \in 1..Len(n.sub) : HasTypeRepo(n.sub[k])

RECURSIVE HasKind(_, _)
HasKind(n, t) == n.t = t \/ \E k \in 1..Len(n.sub) : HasKind(n.sub[k], t)

RECURSIVE Size(_)
Size(n) == 1 + FoldLeft(LAMBDA x, y : x + y, 0, [k \in 1..Len(n.sub) |-> Size(n.sub[k])])

-----------------------------------------------------------------------------
(* Structure of a simplified tree (statement: "flattening of nested and/or", "constant      *)
(* folding").                                                                                *)
RECURSIVE NestedSame(_)
NestedSame(n) == \/ (n.t \in {"and", "or"} /\ \E k \in 1..Len(n.sub) : n.sub[k].t = n.t)
                 \/ \E k \in 1..Len(n.sub) : NestedSame(n.sub[k])

RECURSIVE SingleChild(_)
SingleChild(n) == \/ (n.t \in {"and", "or"} /\ Len(n.sub) = 1)
                  \/ \E k \in 1..Len(n.sub) : SingleChild(n.sub[k])

RECURSIVE ConstUnderAndOr(_)
ConstUnderAndOr(n) == \/ (n.t \in {"and", "or"} /\ \E k \in 1..Len(n.sub) : n.sub[k].t = "const")
                      \/ \E k \in 1..Len(n.sub) : ConstUnderAndOr(n.sub[k])

Normal(n) == ~NestedSame(n) /\ ~SingleChild(n) /\ ~ConstUnderAndOr(n)

-----------------------------------------------------------------------------
(* Reference normaliser, used only at model level (Rewrite.tla checks that a meaning        *)
(* preserving normal form exists for every tree in scope, i.e. that the conditions above    *)
(* and Ev are jointly satisfiable).  deg[a] \in {"T", "F", "V"}: atoms that are constant.    *)
(* The implementation is NOT compared with this operator.                                    *)
RECURSIVE Fold(_, _)
Fold(n, deg) ==
  CASE n.t = "atom"  -> IF deg[n.a] = "T" THEN ConstN(TRUE) ELSE IF deg[n.a] = "F" THEN ConstN(FALSE) ELSE n
    [] n.t = "const" -> n
    [] n.t = "not"   -> LET c == Fold(n.sub[1], deg) IN
                        IF c.t = "const" THEN ConstN(~c.b) ELSE [n EXCEPT !.sub = <<c>>]
    [] n.t = "scope" -> Fold(n.sub[1], deg)
    [] n.t \in {"type", "boost"} ->
                        LET c == Fold(n.sub[1], deg) IN
                        IF c.t = "const" THEN c ELSE [n EXCEPT !.sub = <<c>>]
    [] n.t \in {"and", "or"} ->
         LET cs == [k \in 1..Len(n.sub) |-> Fold(n.sub[k], deg)]
             unit == (n.t = "and")
             absorbed == \E k \in 1..Len(cs) : cs[k].t = "const" /\ cs[k].b # unit
             flat == FlattenSeq([k \in 1..Len(cs) |->
                        IF cs[k].t = n.t THEN cs[k].sub
                        ELSE IF cs[k].t = "const" THEN <<>> ELSE <<cs[k]>>])
         IN IF absorbed THEN ConstN(~unit)
            ELSE IF Len(flat) = 0 THEN ConstN(unit)
            ELSE IF Len(flat) = 1 THEN flat[1]
            ELSE [n EXCEPT !.sub = flat]
=============================================================================
