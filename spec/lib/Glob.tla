------------------------------- MODULE Glob -------------------------------
(* The ignore-file dialect of zoekt (ignore/ignore.go on top of gobwas/glob with '/' as     *)
(* separator), on Text (sequences of code points).  C14, C15.                                *)
(*                                                                                          *)
(*   pattern terms:  c      the character c                                                  *)
(*                   ?      one character other than '/'                                     *)
(*                   *      any run of characters other than '/'                             *)
(*                   **     any run of characters                                            *)
(*                   [abc] [!abc] [a-z] [!a-z]   one character in / not in the list or range   *)
(* Not in this dialect (never generated, ParsePattern treats them as plain characters):      *)
(* '\' escapes and {a,b} alternatives.                                                       *)
(*                                                                                          *)
(*   ignore file:  one pattern per line; the line is trimmed; empty lines and lines that     *)
(*   start with '#' are skipped; one leading '/' is removed; a line without any of . ] [ * ?   *)
(*   gets an implicit trailing **  ("dir" ignores everything whose path starts with "dir").    *)
EXTENDS Integers, Sequences, FiniteSets, TLC

Slash == 47
Star == 42
Quest == 63
LBrack == 91
RBrack == 93
Bang == 33
Dash == 45
Dot == 46
Hash == 35
WhiteSpace == {9, 10, 11, 12, 13, 32, 133, 160}

\* ---------------------------------------------------------------- pattern -> terms
\* term: [k |-> "lit", c] | [k |-> "one"] | [k |-> "any"] | [k |-> "super"] |
\*       [k |-> "list", neg, cs (set)] | [k |-> "range", neg, lo, hi]
RECURSIVE ParseFrom(_, _, _)
ParseFrom(p, i, acc) ==
  IF i > Len(p) THEN acc
  ELSE IF p[i] = Star THEN
         IF i < Len(p) /\ p[i + 1] = Star THEN ParseFrom(p, i + 2, Append(acc, [k |-> "super"]))
         ELSE ParseFrom(p, i + 1, Append(acc, [k |-> "any"]))
  ELSE IF p[i] = Quest THEN ParseFrom(p, i + 1, Append(acc, [k |-> "one"]))
  ELSE IF p[i] = LBrack /\ \E j \in (i + 2)..Len(p) : p[j] = RBrack THEN
         LET neg  == p[i + 1] = Bang
             b    == IF neg THEN i + 2 ELSE i + 1            \* first class character
             \* the class ends at the first ']' after at least one class character
             j    == CHOOSE x \in (b + 1)..Len(p) : p[x] = RBrack /\ \A y \in (b + 1)..(x - 1) : p[y] # RBrack
         IN IF j = b + 3 /\ p[b + 1] = Dash
            THEN ParseFrom(p, j + 1, Append(acc, [k |-> "range", neg |-> neg, lo |-> p[b], hi |-> p[b + 2]]))
            ELSE ParseFrom(p, j + 1, Append(acc, [k |-> "list", neg |-> neg, cs |-> {p[x] : x \in b..(j - 1)}]))
  ELSE ParseFrom(p, i + 1, Append(acc, [k |-> "lit", c |-> p[i]]))

ParsePattern(p) == ParseFrom(p, 1, <<>>)

\* ---------------------------------------------------------------- matching
\* positions reachable in s (0..Len(s) characters consumed) after one term from position q
StepTerm(t, s, q) ==
  LET n == Len(s) IN
  CASE t.k = "lit"   -> IF q < n /\ s[q + 1] = t.c THEN {q + 1} ELSE {}
    [] t.k = "one"   -> IF q < n /\ s[q + 1] # Slash THEN {q + 1} ELSE {}
    [] t.k = "any"   -> {r \in q..n : \A x \in (q + 1)..r : s[x] # Slash}
    [] t.k = "super" -> q..n
    [] t.k = "list"  -> IF q < n /\ ((s[q + 1] \in t.cs) # t.neg) THEN {q + 1} ELSE {}
    [] t.k = "range" -> IF q < n /\ ((t.lo <= s[q + 1] /\ s[q + 1] <= t.hi) # t.neg) THEN {q + 1} ELSE {}

RECURSIVE ReachFrom(_, _, _, _)
ReachFrom(ts, s, i, Q) ==
  IF i > Len(ts) \/ Q = {} THEN Q
  ELSE ReachFrom(ts, s, i + 1, UNION {StepTerm(ts[i], s, q) : q \in Q})

\* the whole of s matches the term sequence ts
GlobMatch(ts, s) == Len(s) \in ReachFrom(ts, s, 1, {0})

\* ---------------------------------------------------------------- ignore file
\* split at newlines (a carriage return before the newline belongs to the line end)
RECURSIVE SplitLines(_, _, _, _)
SplitLines(t, i, cur, acc) ==
  IF i > Len(t) THEN (IF cur = <<>> THEN acc ELSE Append(acc, cur))
  ELSE IF t[i] = 10 THEN SplitLines(t, i + 1, <<>>, Append(acc, cur))
  ELSE SplitLines(t, i + 1, Append(cur, t[i]), acc)

Trim(l) ==
  LET keep == {i \in 1..Len(l) : l[i] \notin WhiteSpace}
  IN IF keep = {} THEN <<>>
     ELSE LET a == CHOOSE i \in keep : \A j \in keep : i <= j
              b == CHOOSE i \in keep : \A j \in keep : j <= i
          IN SubSeq(l, a, b)

HasGlobChar(l) == \E i \in 1..Len(l) : l[i] \in {Dot, RBrack, LBrack, Star, Quest}

\* the pattern text a line stands for, or <<>> when the line is skipped
LinePattern(line) ==
  LET t == Trim(line) IN
  IF t = <<>> \/ t[1] = Hash THEN <<>>
  ELSE LET u == IF t[1] = Slash THEN Tail(t) ELSE t
       IN IF HasGlobChar(u) THEN u ELSE u \o <<Star, Star>>

RECURSIVE PatternsOf(_, _, _)
PatternsOf(lines, i, acc) ==
  IF i > Len(lines) THEN acc
  ELSE LET t == Trim(lines[i])
       IN IF t = <<>> \/ t[1] = Hash THEN PatternsOf(lines, i + 1, acc)
          ELSE PatternsOf(lines, i + 1, Append(acc, ParsePattern(LinePattern(lines[i]))))

\* text of an ignore file -> sequence of term sequences
ParseIgnore(text) == PatternsOf(SplitLines(text, 1, <<>>, <<>>), 1, <<>>)

\* a path (relative, '/'-separated) is ignored when some pattern matches the whole path
Ignored(pats, path) == \E i \in 1..Len(pats) : GlobMatch(pats[i], path)

\* ---------------------------------------------------------------- paths
\* proper ancestor directories of a path: its prefixes that end before a '/'
Ancestors(path) == {SubSeq(path, 1, i - 1) : i \in {j \in 2..Len(path) : path[j] = Slash}}
Base(path) == LET sl == {j \in 1..Len(path) : path[j] = Slash}
              IN IF sl = {} THEN path
                 ELSE SubSeq(path, (CHOOSE j \in sl : \A x \in sl : x <= j) + 1, Len(path))
=============================================================================
