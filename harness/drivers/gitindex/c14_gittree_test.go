//go:build verif

package gitindex

import (
	"bytes"
	"encoding/json"
	"fmt"
	"io"
	"log"
	"math/rand"
	"os"
	"os/exec"
	"path/filepath"
	"regexp"
	"sort"
	"strconv"
	"strings"
	"testing"

	"github.com/go-git/go-git/v5/plumbing"

	"github.com/sourcegraph/zoekt"
	"github.com/sourcegraph/zoekt/index"
	"github.com/sourcegraph/zoekt/internal/verifkit"
	"github.com/sourcegraph/zoekt/internal/verifkit/ingest"
)

// C14: a scenario is an abstract repository: per indexed branch a tree of entries
// (path, mode regular/exec/symlink/submodule, content descriptor).  It is built as a real bare
// repository with `git fast-import`, indexed by the real IndexGitRepo in the blob-reading mode
// this process was started for (ZOEKT_DISABLE_CATFILE_BATCH), and the shards are projected to
// abstract documents.  Trace_GitTree.tla decides.

type c14Entry struct {
	Path []int     `json:"path"`
	Mode string    `json:"mode"`
	CD   ingest.CD `json:"cd"`
}

type c14Branch struct {
	Branch  string     `json:"branch"`
	Entries []c14Entry `json:"entries"`
}

type c14Script struct {
	Repo    []c14Branch `json:"repo"`
	SizeMax int         `json:"sizemax"`
	Large   []string    `json:"-"`
}

var c14Modes = map[string]string{"regular": "100644", "exec": "100755", "symlink": "120000", "submodule": "160000"}

// c14Build writes the repository with one fast-import stream: one blob per distinct content,
// one (optionally two) commits per branch.
func c14Build(dir string, sc c14Script, rng *rand.Rand) error {
	if out, err := exec.Command("git", "init", "--quiet", "--bare", "-b", "main", dir).CombinedOutput(); err != nil {
		return fmt.Errorf("git init: %v: %s", err, out)
	}
	var st bytes.Buffer
	marks := map[string]int{}
	next := 1
	blob := func(b []byte) int {
		if m, ok := marks[string(b)]; ok {
			return m
		}
		m := next
		next++
		marks[string(b)] = m
		fmt.Fprintf(&st, "blob\nmark :%d\ndata %d\n", m, len(b))
		st.Write(b)
		st.WriteString("\n")
		return m
	}
	for bi, br := range sc.Repo {
		type line struct{ s string }
		var lines []string
		for _, e := range br.Entries {
			p := ingest.Str(e.Path)
			if e.Mode == "submodule" {
				lines = append(lines, fmt.Sprintf("M 160000 %040x %s\n", 0xabc000+bi, p))
				continue
			}
			m := blob(e.CD.Bytes())
			lines = append(lines, fmt.Sprintf("M %s :%d %s\n", c14Modes[e.Mode], m, p))
		}
		ref := "refs/heads/" + br.Branch
		if br.Branch == "HEAD" {
			continue // HEAD is the symbolic ref to main
		}
		if rng != nil && rng.Intn(3) == 0 && len(br.Entries) > 0 {
			// an older commit on the branch: other modes and an extra file that is deleted again
			m := blob([]byte("old version\n"))
			fmt.Fprintf(&st, "commit %s\ncommitter V <v@example.com> 1700000000 +0000\ndata 4\nold\n", ref)
			fmt.Fprintf(&st, "M 100755 :%d %s\nM 100644 :%d gone.txt\n", m, ingest.Str(br.Entries[0].Path), m)
		}
		fmt.Fprintf(&st, "commit %s\ncommitter V <v@example.com> 17000%05d +0000\ndata 4\ntip\n", ref, bi)
		st.WriteString("deleteall\n")
		for _, l := range lines {
			st.WriteString(l)
		}
	}
	cmd := exec.Command("git", "fast-import", "--quiet")
	cmd.Dir = dir
	cmd.Stdin = &st
	if out, err := cmd.CombinedOutput(); err != nil {
		return fmt.Errorf("git fast-import: %v: %s", err, out)
	}
	return nil
}

var c14LogRe = regexp.MustCompile(`attempting to index (\d+) total files \((\d+) via cat-file, (\d+) via go-git\)`)

func c14Want() string {
	if b, err := strconv.ParseBool(os.Getenv("ZOEKT_DISABLE_CATFILE_BATCH")); err == nil && !b {
		return "catfile"
	}
	return "gogit"
}

func c14Run(t testing.TB, tr *verifkit.Trace, base string, n int, sc c14Script, rng *rand.Rand) {
	ingest.Progress("c14_progress.json", verifkit.M{"n": n, "repo": sc.Repo})
	scdir := filepath.Join(base, fmt.Sprintf("s%d", n))
	repoDir := filepath.Join(scdir, "repo.git")
	idx := filepath.Join(scdir, "idx")
	if err := os.MkdirAll(idx, 0o755); err != nil {
		t.Fatal(err)
	}
	table := ingest.Table{}
	names := []string{}
	for bi := range sc.Repo {
		names = append(names, sc.Repo[bi].Branch)
		if sc.Repo[bi].Entries == nil {
			sc.Repo[bi].Entries = []c14Entry{}
		}
		for i := range sc.Repo[bi].Entries {
			e := &sc.Repo[bi].Entries[i]
			if e.CD.Text == nil {
				e.CD.Text = []int{}
			}
			if e.Mode != "submodule" {
				table.Add(e.CD)
			}
		}
	}
	if err := c14Build(repoDir, sc, rng); err != nil {
		t.Fatalf("scenario %d: %v", n, err)
	}
	want := c14Want()
	large := append([]string{}, sc.Large...)
	if want == "catfile" && len(large) == 0 {
		// without --filter support the streaming reader is only used when LargeFiles is set
		large = append(large, "zz-no-such-file")
	}
	opts := Options{
		RepoDir:      repoDir,
		Branches:     names,
		BranchPrefix: "refs/heads/",
		BuildOptions: index.Options{
			IndexDir: idx, SizeMax: sc.SizeMax, LargeFiles: large, DisableCTags: true, ShardMax: 1 << 20, Parallelism: 1,
			RepositoryDescription: zoekt.Repository{Name: "repo"},
		},
	}
	var logbuf bytes.Buffer
	log.SetOutput(&logbuf)
	out := ingest.Run(idx, table, func() error {
		_, err := IndexGitRepo(opts)
		return err
	})
	log.SetOutput(os.Stderr)
	ran := "unknown"
	if m := c14LogRe.FindStringSubmatch(logbuf.String()); m != nil {
		total, _ := strconv.Atoi(m[1])
		cat, _ := strconv.Atoi(m[2])
		gg, _ := strconv.Atoi(m[3])
		switch {
		case total == 0:
			ran = "none"
		case cat == total:
			ran = "catfile"
		case gg == total:
			ran = "gogit"
		default:
			ran = "mixed"
		}
	}
	if strings.Contains(logbuf.String(), "does not support --filter") {
		ran = "fallback:" + ran
	}
	lg := [][]int{}
	for _, p := range large {
		lg = append(lg, verifkit.Runes(p))
	}
	tr.Emit(verifkit.M{"ev": "git", "n": n, "want": want, "ran": ran, "sizemax": sc.SizeMax, "large": lg, "repo": sc.Repo, "out": out})
	os.RemoveAll(scdir)
}

func TestVerif_C14_Replay(t *testing.T) {
	scripts := verifkit.ReadScripts(t)
	tr := verifkit.Open(t)
	defer tr.Close()
	base := t.TempDir()
	for n, raw := range scripts {
		var sc c14Script
		if err := json.Unmarshal(raw, &sc); err != nil {
			t.Fatal(err)
		}
		c14Run(t, tr, base, n, sc, nil)
	}
}

// ---------------------------------------------------------------- seeded random repositories

var c14Comps = []string{"a", "b", "src", "lib", "x.go", "y.txt", "z.md", "Makefile", "a.b.c", "doc", "ab", "c.go", "big.bin", "é"}

func c14RandPath(rng *rand.Rand) string {
	n := 1 + rng.Intn(4)
	parts := []string{}
	for i := 0; i < n; i++ {
		parts = append(parts, c14Comps[rng.Intn(len(c14Comps))])
	}
	return strings.Join(parts, "/")
}

func c14IgnoreLine(rng *rand.Rand, paths []string) string {
	p := paths[rng.Intn(len(paths))]
	parts := strings.Split(p, "/")
	switch rng.Intn(12) {
	case 0:
		return parts[0] // literal directory (or file) prefix: implicit **
	case 1:
		return "/" + strings.Join(parts[:1+rng.Intn(len(parts))], "/")
	case 2:
		return parts[0] + "/"
	case 3:
		return "*" + filepath.Ext(p)
	case 4:
		return "**/*" + filepath.Ext(p)
	case 5:
		return "**" + filepath.Ext(p)
	case 6:
		// `?` next to a multi-byte character runs into the gobwas/glob defect reported under
		// C15 (C15:glob:nonascii); it is probed there, not here
		for _, r := range p {
			if r > 127 {
				return p
			}
		}
		rs := []rune(p)
		rs[rng.Intn(len(rs))] = '?'
		return string(rs)
	case 7:
		return "# " + p
	case 8:
		return "  " + p + "  "
	case 9:
		return "**/" + parts[len(parts)-1]
	case 10:
		return parts[0] + "/*"
	default:
		return p
	}
}

func c14RandRepo(rng *rand.Rand) c14Script {
	sizeMax := []int{48, 64, 100}[rng.Intn(3)]
	sc := c14Script{SizeMax: sizeMax}
	cid := 0
	var pool []ingest.CD
	content := func() ingest.CD {
		if len(pool) > 0 && rng.Intn(4) == 0 {
			return pool[rng.Intn(len(pool))] // identical blob at another path / on another branch
		}
		cid++
		var cd ingest.CD
		switch x := rng.Intn(20); {
		case x == 0:
			cd = ingest.Syn(0, 0, false)
		case x == 1:
			cd = ingest.Syn(cid, 1+rng.Intn(2), false)
		case x == 2:
			cd = ingest.Syn(cid, sizeMax+1, false)
		case x == 3:
			cd = ingest.Syn(cid, sizeMax, false)
		case x == 4:
			cd = ingest.Syn(cid, sizeMax-1, false)
		case x == 5:
			cd = ingest.Syn(cid, sizeMax+1+rng.Intn(5000), false)
		case x == 6:
			cd = ingest.Syn(cid, 6+rng.Intn(sizeMax-6), true)
		default:
			cd = ingest.Syn(cid, 3+rng.Intn(sizeMax-3), false)
		}
		pool = append(pool, cd)
		return cd
	}
	allNames := []string{"main", "dev", "rel/1.0", "x"}
	nb := 1 + rng.Intn(4)
	var first []c14Entry
	allPaths := []string{}
	for b := 0; b < nb; b++ {
		var entries []c14Entry
		used := map[string]bool{}
		add := func(p, mode string, cd ingest.CD) {
			// a path and the directories above it must not collide with another entry
			if used[p] {
				return
			}
			for q := range used {
				if strings.HasPrefix(q, p+"/") || strings.HasPrefix(p, q+"/") {
					return
				}
			}
			used[p] = true
			entries = append(entries, c14Entry{Path: verifkit.Runes(p), Mode: mode, CD: cd})
			allPaths = append(allPaths, p)
		}
		if b > 0 && rng.Intn(4) != 0 {
			// branch off the first branch: keep, change mode, change content or drop each entry
			for _, e := range first {
				p := ingest.Str(e.Path)
				if p == ".sourcegraph/ignore" {
					continue
				}
				switch rng.Intn(6) {
				case 0:
				case 1:
					if e.Mode != "submodule" {
						add(p, []string{"regular", "exec"}[rng.Intn(2)], e.CD)
					}
				case 2:
					add(p, "regular", content())
				default:
					add(p, e.Mode, e.CD)
				}
			}
		}
		for k, nf := 0, 2+rng.Intn(10); k < nf; k++ {
			p := c14RandPath(rng)
			switch x := rng.Intn(20); {
			case x < 2:
				add(p, "symlink", ingest.LitText([]string{"x.go", "../y.txt", "nowhere", "a"}[rng.Intn(4)]))
			case x < 4:
				add(p, "submodule", ingest.Syn(0, 0, false))
			case x < 6:
				add(p, "exec", content())
			default:
				add(p, "regular", content())
			}
		}
		if rng.Intn(3) != 0 && len(allPaths) > 0 {
			lines := []string{}
			for k := 0; k < 1+rng.Intn(3); k++ {
				lines = append(lines, c14IgnoreLine(rng, allPaths))
			}
			add(".sourcegraph/ignore", "regular", ingest.LitText(strings.Join(lines, "\n")+"\n"))
		}
		if b == 0 {
			first = entries
		}
		sc.Repo = append(sc.Repo, c14Branch{Branch: allNames[b], Entries: entries})
	}
	if rng.Intn(5) == 0 {
		// HEAD as an indexed name: the same tree as main under a second name
		sc.Repo = append(sc.Repo, c14Branch{Branch: "HEAD", Entries: append([]c14Entry{}, sc.Repo[0].Entries...)})
	}
	if rng.Intn(4) == 0 {
		sc.Large = append(sc.Large, "*.bin")
		if rng.Intn(2) == 0 && len(allPaths) > 0 {
			sc.Large = append(sc.Large, allPaths[rng.Intn(len(allPaths))])
		}
	}
	return sc
}

func TestVerif_C14_Random(t *testing.T) {
	tr := verifkit.Open(t)
	defer tr.Close()
	base := t.TempDir()
	n := verifkit.EnvInt("C14_RANDOM", verifkit.Pick(40, 600))
	for i := 0; i < n; i++ {
		rng := verifkit.Rng(int64(3000 + i))
		sc := c14RandRepo(rng)
		c14Run(t, tr, base, i, sc, rng)
	}
}

// ---------------------------------------------------------------- catfileReader driven directly

type c14Id struct {
	Missing bool `json:"missing"`
	Size    int  `json:"size"`
}

type c14Op struct {
	Op string `json:"op"`
	K  int    `json:"k"`
}

type c14CatScript struct {
	Ids []c14Id `json:"ids"`
	Ops []c14Op `json:"ops"`
}

type c14Reply struct {
	Kind   string `json:"kind"`
	Size   int    `json:"size"`
	N      int    `json:"n"`
	From   int    `json:"from"`
	Err    string `json:"err"`
	DataOK bool   `json:"dataok"`
}

func TestVerif_C14_Catfile(t *testing.T) {
	scripts := verifkit.ReadScripts(t)
	tr := verifkit.Open(t)
	defer tr.Close()
	dir := filepath.Join(t.TempDir(), "cat.git")
	if out, err := exec.Command("git", "init", "--quiet", "--bare", dir).CombinedOutput(); err != nil {
		t.Fatalf("git init: %v: %s", err, out)
	}
	hashes := map[int]plumbing.Hash{}
	contents := map[int][]byte{}
	blobFor := func(size int) plumbing.Hash {
		if h, ok := hashes[size]; ok {
			return h
		}
		b := ingest.Syn(size%3000+7, size, false).Bytes()
		cmd := exec.Command("git", "hash-object", "-w", "--stdin")
		cmd.Dir = dir
		cmd.Stdin = bytes.NewReader(b)
		out, err := cmd.Output()
		if err != nil {
			t.Fatalf("git hash-object: %v", err)
		}
		h := plumbing.NewHash(strings.TrimSpace(string(out)))
		hashes[size] = h
		contents[size] = b
		return h
	}
	buf := make([]byte, 1<<20)
	for _, raw := range scripts {
		var sc c14CatScript
		if err := json.Unmarshal(raw, &sc); err != nil {
			t.Fatal(err)
		}
		ids := []plumbing.Hash{}
		for i, id := range sc.Ids {
			if id.Missing {
				ids = append(ids, plumbing.NewHash(fmt.Sprintf("%040x", 0xdead0000+i)))
			} else {
				ids = append(ids, blobFor(id.Size))
			}
		}
		replies := []c14Reply{}
		cur := -1
		off := 0
		if p := verifkit.Catch(func() {
			cr, err := newCatfileReader(dir, ids, catfileReaderOptions{})
			if err != nil {
				replies = append(replies, c14Reply{Kind: "start-error", Err: err.Error()})
				return
			}
			defer cr.Close()
			for _, op := range sc.Ops {
				if op.Op == "next" {
					size, missing, excluded, err := cr.Next()
					r := c14Reply{Kind: "blob", Size: size, DataOK: true}
					switch {
					case err == io.EOF:
						r.Kind = "eof"
					case err != nil:
						r.Kind, r.Err = "error", err.Error()
					case missing:
						r.Kind = "missing"
					case excluded:
						r.Kind = "excluded"
					}
					if err == nil {
						cur++
						off = 0
					}
					replies = append(replies, r)
					continue
				}
				n, err := io.ReadFull(cr, buf[:op.K])
				r := c14Reply{Kind: "read", N: n, From: off}
				if err != nil {
					r.Err = err.Error()
				}
				if cur >= 0 && cur < len(sc.Ids) && !sc.Ids[cur].Missing {
					want := contents[sc.Ids[cur].Size]
					r.DataOK = off+n <= len(want) && bytes.Equal(buf[:n], want[off:off+n])
				} else {
					r.DataOK = n == 0
				}
				off += n
				replies = append(replies, r)
			}
		}); p != nil {
			replies = append(replies, c14Reply{Kind: "panic", Err: fmt.Sprint(p)})
		}
		if sc.Ops == nil {
			sc.Ops = []c14Op{}
		}
		tr.Emit(verifkit.M{"ev": "cat", "ids": sc.Ids, "ops": sc.Ops, "replies": replies})
	}
}

// ---------------------------------------------------------------- contentSlab

// every slice handed out must have exactly the requested length and capacity and must not
// share memory with an earlier one (checked by filling each with its own byte)
func TestVerif_C14_Slab(t *testing.T) {
	tr := verifkit.Open(t)
	defer tr.Close()
	n := verifkit.Pick(300, 3000)
	for i := 0; i < n; i++ {
		rng := verifkit.Rng(int64(9000 + i))
		capacity := []int{8, 16, 64}[rng.Intn(3)]
		slab := newContentSlab(capacity)
		var slices [][]byte
		sizes, lens, caps := []int{}, []int{}, []int{}
		for k, m := 0, 2+rng.Intn(12); k < m; k++ {
			sz := rng.Intn(capacity + 4)
			if rng.Intn(5) == 0 {
				sz = []int{0, capacity, capacity - 1, capacity + 1}[rng.Intn(4)]
			}
			b := slab.alloc(sz)
			for j := range b {
				b[j] = byte(k + 1)
			}
			slices = append(slices, b)
			sizes, lens, caps = append(sizes, sz), append(lens, len(b)), append(caps, cap(b))
		}
		intact := []bool{}
		for k, b := range slices {
			ok := true
			for _, x := range b {
				if x != byte(k+1) {
					ok = false
				}
			}
			// appending must not reach a neighbour either
			b = append(b, 0xff)
			intact = append(intact, ok)
		}
		for k, b := range slices {
			for _, x := range b {
				if x != byte(k+1) {
					intact[k] = false
				}
			}
		}
		tr.Emit(verifkit.M{"ev": "slab", "cap": capacity, "sizes": sizes, "lens": lens, "caps": caps, "intact": intact})
	}
}

var _ = sort.Strings
