//go:build verif

package search_test

import (
	"encoding/json"
	"fmt"
	"os"
	"sync"
	"testing"

	"github.com/sourcegraph/zoekt"
	"github.com/sourcegraph/zoekt/internal/verifkit"
	"github.com/sourcegraph/zoekt/internal/verifkit/corpus"
)

// C04: histories of searches on ONE loaded searcher, with the match-tree cache disabled and
// enabled at several sizes; every reply is validated against the specification's answer,
// which does not know about history.

func c04SetCache(n int) {
	if n <= 0 {
		os.Unsetenv("ZOEKT_DOCMATCHTREE_CACHE")
	} else {
		os.Setenv("ZOEKT_DOCMATCHTREE_CACHE", fmt.Sprint(n))
	}
}

// the corpus of spec/sys/Cursor.tla: 4 documents in a compound shard of 3 repositories;
// k1 = meta.license:MIT holds for documents {1,3}, k2 = meta.team:x for {2,3,4}, k3 for none.
func c04ModelCorpus() *corpus.Corpus {
	c := &corpus.Corpus{ID: 1}
	c.Repos = []corpus.Repo{
		{Name: "repo/one", ID: 51, Branches: []string{"HEAD"}, Meta: map[string]string{"license": "MIT"}},
		{Name: "repo/two", ID: 52, Branches: []string{"HEAD"}, Meta: map[string]string{"team": "x"}},
		{Name: "repo/three", ID: 53, Branches: []string{"HEAD"}, Meta: map[string]string{"license": "MIT", "team": "x"}},
	}
	c.Docs = []corpus.Doc{
		{Repo: 0, Name: "a.go", Content: "abc one", Branches: []int{0}, Lang: "Go"},
		{Repo: 1, Name: "b.go", Content: "abc two", Branches: []int{0}, Lang: "Go"},
		{Repo: 2, Name: "c.go", Content: "abc three", Branches: []int{0}, Lang: "Go"},
		{Repo: 1, Name: "d.go", Content: "xyz two", Branches: []int{0}, Lang: "Go"},
	}
	return c
}

var c04Keys = map[string]*corpus.Q{
	"k1": {T: "meta", S: "license", Pat: "MIT"},
	"k2": {T: "meta", S: "team", Pat: "x"},
	"k3": {T: "meta", S: "nokey", Pat: "z"},
}

func TestVerif_C04_Replay(t *testing.T) {
	scripts := verifkit.ReadScripts(t)
	tr := verifkit.Open(t)
	defer tr.Close()
	tr.Emit(corpus.FoldEvent())
	c := c04ModelCorpus()
	tr.Emit(c.Event())
	for _, raw := range scripts {
		var sc struct {
			Cache int      `json:"cache"`
			Keys  []string `json:"keys"`
		}
		if err := json.Unmarshal(raw, &sc); err != nil {
			t.Fatal(err)
		}
		c04SetCache(sc.Cache)
		l := c01Load(t, c, false)
		for i, k := range sc.Keys {
			opts := &zoekt.SearchOptions{}
			c01Search(tr, l, "shard", 0, c04Keys[k], opts, corpus.DetailFiles, verifkit.M{"cache": sc.Cache, "step": i + 1})
		}
		l.Close()
	}
	c04SetCache(0)
}

func c04Alphabet(rng interface{ Intn(int) int }, c *corpus.Corpus, g *corpus.QGen) []*corpus.Q {
	m1 := &corpus.Q{T: "meta", S: "license", Pat: []string{"MIT", "^A", "a"}[rng.Intn(3)]}
	m2 := &corpus.Q{T: "meta", S: "team", Pat: []string{"search", "abc", "."}[rng.Intn(3)]}
	sub := &corpus.Q{T: "substr", Pat: c.PickPattern(g.Rng, false), CT: true}
	return []*corpus.Q{m1, m2,
		{T: "and", Sub: []*corpus.Q{m1, sub}},
		{T: "not", Sub: []*corpus.Q{m1}},
		{T: "or", Sub: []*corpus.Q{m1, m2}},
		{T: "and", Sub: []*corpus.Q{m2, {T: "not", Sub: []*corpus.Q{m1}}}},
		sub, g.Tree(2)}
}

func TestVerif_C04_Random(t *testing.T) {
	tr := verifkit.Open(t)
	defer tr.Close()
	tr.Emit(corpus.FoldEvent())
	ncorp := verifkit.EnvInt("VERIF_CORPORA", verifkit.Pick(16, 160))
	concurrent := verifkit.EnvInt("VERIF_CONCURRENT", 0) == 1
	for ci := 0; ci < ncorp; ci++ {
		rng := verifkit.Rng(int64(4000 + ci))
		c := corpus.Gen(rng, ci+1, corpus.Profile{MaxRepos: 3, MaxDocs: 4, MaxLen: 24, OneShard: ci%2 == 0, Compound: true})
		for i := range c.Repos {
			if c.Repos[i].Meta == nil {
				c.Repos[i].Meta = map[string]string{}
			}
			if rng.Intn(3) != 0 {
				c.Repos[i].Meta["license"] = []string{"MIT", "Apache"}[rng.Intn(2)]
			}
		}
		cache := []int{0, 1, 2, 10}[ci%4]
		c04SetCache(cache)
		l := c01Load(t, c, true)
		tr.Emit(c.Event())
		g := &corpus.QGen{Rng: rng, C: c}
		alpha := c04Alphabet(rng, c, g)
		one := func(r interface{ Intn(int) int }, step int) {
			q := alpha[r.Intn(len(alpha))]
			opts := &zoekt.SearchOptions{ChunkMatches: r.Intn(2) == 0}
			if r.Intn(2) == 0 {
				c01Search(tr, l, "dir", 0, q, opts, corpus.DetailFiles, verifkit.M{"cache": cache, "step": step})
			} else {
				c01Search(tr, l, "shard", c.Repos[r.Intn(len(c.Repos))].Shard, q, opts, corpus.DetailFiles, verifkit.M{"cache": cache, "step": step})
			}
		}
		if !concurrent {
			for k, n := 0, 4+rng.Intn(8); k < n; k++ {
				one(rng, k+1)
			}
		} else {
			var wg sync.WaitGroup
			for w := 0; w < 8; w++ {
				wg.Add(1)
				go func(w int) {
					defer wg.Done()
					r := verifkit.Rng(int64(400000 + ci*100 + w))
					for k := 0; k < 6; k++ {
						one(r, k+1)
					}
				}(w)
			}
			wg.Wait()
		}
		l.Close()
	}
	c04SetCache(0)
}
