//go:build verif

package search

import (
	"context"
	"fmt"
	"os"
	"sort"
	"testing"

	"github.com/sourcegraph/zoekt"
	"github.com/sourcegraph/zoekt/internal/trace"
	"github.com/sourcegraph/zoekt/internal/verifkit"
	"github.com/sourcegraph/zoekt/internal/verifkit/corpus"
	"github.com/sourcegraph/zoekt/query"
)

// C18 (in-package): what selectRepoSet does to (shards, query), the sharded searcher's replies,
// and List aggregation, for shard sets mixing simple and compound shards and repositories split
// over two shards.

// c18Partial: a compound shard of which a filter selects only SOME repositories, ranking before
// (and in other corpora after) a simple shard the filter selects completely.
func c18Partial(rng interface{ Intn(int) int }, id int) *corpus.Corpus {
	c := &corpus.Corpus{ID: id}
	first, last := "aaa", "zzz"
	if rng.Intn(2) == 0 {
		first, last = "zzz", "aaa"
	}
	c.Repos = []corpus.Repo{
		{Name: first + "/x", ID: 71, Branches: []string{"HEAD"}, Shard: 0, Meta: map[string]string{"license": "MIT"}},
		{Name: first + "/y", ID: 72, Branches: []string{"HEAD"}, Shard: 0, Meta: map[string]string{"license": "Apache"}},
		{Name: last + "/q", ID: 73, Branches: []string{"HEAD"}, Shard: 1, Meta: map[string]string{"license": "MIT"}},
	}
	for ri := range c.Repos {
		for k := 0; k < 2; k++ {
			c.Docs = append(c.Docs, corpus.Doc{Repo: ri, Name: fmt.Sprintf("f%d_%d.go", ri, k), Content: []string{"hello world", "abc hello"}[k], Lang: "Go", Branches: []int{0}})
		}
	}
	return c
}

func c18PartialQueries(c *corpus.Corpus) []*corpus.Q {
	hello := func() *corpus.Q { return &corpus.Q{T: "substr", Pat: "hello", CT: true} }
	sel := []*corpus.Q{
		{T: "reposet", Names: []string{c.Repos[0].Name, c.Repos[2].Name}},
		{T: "repoids", IDs: []uint32{71, 73}},
		{T: "branchesrepos", BR: []corpus.BranchIDs{{Branch: "HEAD", IDs: []uint32{71, 73}}}},
		{T: "repo", Pat: "/x$|/q$"},
		{T: "meta", S: "license", Pat: "MIT"},
	}
	var qs []*corpus.Q
	for _, f := range sel {
		qs = append(qs, f, &corpus.Q{T: "and", Sub: []*corpus.Q{f, hello()}},
			&corpus.Q{T: "type", S: "repo", Sub: []*corpus.Q{{T: "and", Sub: []*corpus.Q{f, hello()}}}})
	}
	return qs
}

func c18Corpus(rng interface{ Intn(int) int }, id int, r *verifkit.M) *corpus.Corpus {
	c := &corpus.Corpus{ID: id}
	names := []string{"repo/a", "repo/b", "org/abc", "foo/bar"}
	branchSets := [][]string{{"HEAD"}, {"main"}, {"main", "HEAD"}, {"HEAD", "dev"}, {"dev", "main"}}
	nrepo := 2 + rng.Intn(3)
	shard := 0
	for i := 0; i < nrepo; i++ {
		rp := corpus.Repo{Name: names[i], ID: uint32(70 + i), Branches: branchSets[rng.Intn(len(branchSets))], Shard: shard,
			Public: rng.Intn(2) == 0}
		if rng.Intn(2) == 0 {
			rp.Meta = map[string]string{"license": []string{"MIT", "Apache"}[rng.Intn(2)]}
		}
		c.Repos = append(c.Repos, rp)
		if rng.Intn(3) != 0 { // otherwise the next repository shares the (compound) shard
			shard++
		}
	}
	// a repository split over two simple shards (multi-shard build)
	if rng.Intn(2) == 0 {
		last := c.Repos[len(c.Repos)-1]
		shard = last.Shard + 1
		dup := c.Repos[0]
		if cnt := 0; true {
			for _, x := range c.Repos {
				if x.Shard == dup.Shard {
					cnt++
				}
			}
			if cnt == 1 { // only split repositories that sit alone in a simple shard
				dup.Shard = shard
				// ... the second part in a simple shard of its own, or inside a compound shard next to
				// another repository (whose statistics must not leak into this repository's entry)
				if rng.Intn(2) == 0 && last.Shard != c.Repos[0].Shard {
					dup.Shard = last.Shard
				}
				c.Repos = append(c.Repos, dup)
			}
		}
	}
	for ri := range c.Repos {
		nd := 1 + rng.Intn(3)
		for k := 0; k < nd; k++ {
			d := corpus.Doc{Repo: ri, Name: fmt.Sprintf("f%d_%d.go", ri, k), Content: []string{"hello world", "abc hello", "xyz abc", "hello\nabc"}[rng.Intn(4)],
				Lang: "Go"}
			for b := range c.Repos[ri].Branches {
				if rng.Intn(2) == 0 {
					d.Branches = append(d.Branches, b)
				}
			}
			if len(d.Branches) == 0 {
				d.Branches = []int{0}
			}
			c.Docs = append(c.Docs, d)
		}
	}
	return c
}

func c18Queries(rng interface{ Intn(int) int }, c *corpus.Corpus) []*corpus.Q {
	content := func() *corpus.Q {
		return &corpus.Q{T: "substr", Pat: []string{"hello", "abc", "xyz", "nomatch"}[rng.Intn(4)], CT: rng.Intn(2) == 0}
	}
	ids := func(all bool) []uint32 {
		var r []uint32
		seen := map[uint32]bool{}
		for _, rp := range c.Repos {
			if (all || rng.Intn(2) == 0) && !seen[rp.ID] {
				r = append(r, rp.ID)
				seen[rp.ID] = true
			}
		}
		sort.Slice(r, func(i, j int) bool { return r[i] < r[j] })
		return r
	}
	names := func(all bool) []string {
		var r []string
		seen := map[string]bool{}
		for _, rp := range c.Repos {
			if (all || rng.Intn(2) == 0) && !seen[rp.Name] {
				r = append(r, rp.Name)
				seen[rp.Name] = true
			}
		}
		return r
	}
	branch := func() string { return []string{"HEAD", "main", "dev"}[rng.Intn(3)] }
	filters := func() *corpus.Q {
		switch rng.Intn(8) {
		case 0:
			return &corpus.Q{T: "reposet", Names: names(rng.Intn(2) == 0)}
		case 1:
			return &corpus.Q{T: "repoids", IDs: ids(rng.Intn(2) == 0)}
		case 2, 3:
			return &corpus.Q{T: "branchesrepos", BR: []corpus.BranchIDs{{Branch: branch(), IDs: ids(rng.Intn(3) != 0)}}}
		case 4:
			return &corpus.Q{T: "branchesrepos", BR: []corpus.BranchIDs{{Branch: branch(), IDs: ids(false)}, {Branch: branch(), IDs: ids(false)}}}
		case 5:
			return &corpus.Q{T: "repo", Pat: []string{"repo", "a$", "^org", "."}[rng.Intn(4)]}
		case 6:
			return &corpus.Q{T: "meta", S: "license", Pat: []string{"MIT", ".", "^A"}[rng.Intn(3)]}
		default:
			return &corpus.Q{T: "type", S: "repo", Sub: []*corpus.Q{content()}}
		}
	}
	var qs []*corpus.Q
	// type:repo next to a branch filter: the repository set of type:repo is decided over ALL documents of a
	// repository, the branch filter only restricts which of its files are returned
	for k := 0; k < 2; k++ {
		br := &corpus.Q{T: "branchesrepos", BR: []corpus.BranchIDs{{Branch: branch(), IDs: ids(true)}}}
		tr := &corpus.Q{T: "type", S: "repo", Sub: []*corpus.Q{content()}}
		if k == 0 {
			qs = append(qs, &corpus.Q{T: "and", Sub: []*corpus.Q{br, tr}})
		} else {
			qs = append(qs, &corpus.Q{T: "and", Sub: []*corpus.Q{tr, br, content()}})
		}
	}
	for k := 0; k < 10; k++ {
		f := filters()
		switch rng.Intn(6) {
		case 0:
			qs = append(qs, f)
		case 1:
			qs = append(qs, &corpus.Q{T: "or", Sub: []*corpus.Q{f, content()}})
		case 2:
			qs = append(qs, &corpus.Q{T: "and", Sub: []*corpus.Q{content(), f, filters()}})
		case 3:
			qs = append(qs, &corpus.Q{T: "and", Sub: []*corpus.Q{{T: "not", Sub: []*corpus.Q{f}}, content()}})
		default:
			qs = append(qs, &corpus.Q{T: "and", Sub: []*corpus.Q{f, content()}})
		}
	}
	return qs
}

func TestVerif_C18_Select(t *testing.T) {
	tr := verifkit.Open(t)
	defer tr.Close()
	tr.Emit(corpus.FoldEvent())
	ncorp := verifkit.EnvInt("VERIF_CORPORA", verifkit.Pick(25, 300))
	for ci := 0; ci < ncorp; ci++ {
		rng := verifkit.Rng(int64(18000 + ci))
		c := c18Corpus(rng, ci+1, nil)
		partial := ci%5 == 0
		if partial {
			c = c18Partial(rng, ci+1)
		}
		dir, err := os.MkdirTemp(os.Getenv("VERIF_WORK"), "c18")
		if err != nil {
			t.Fatal(err)
		}
		paths, err := c.Materialise(dir)
		if err != nil {
			t.Fatalf("materialise: %v", err)
		}
		_ = paths
		rs, err := newDirectorySearcher(dir, true)
		if err != nil {
			t.Fatal(err)
		}
		ss := rs.(*readySearcher).ready
		tr.Emit(c.Event())
		idx := c.Index()
		// shard number of a loaded shard: by the (name, document names) of its repositories
		shardNo := func(s *rankedShard) int {
			for _, r := range s.repos {
				// a repository name may occur in two shards (split): disambiguate by listing documents
				res, err := s.Search(context.Background(), &query.Const{Value: true}, &zoekt.SearchOptions{})
				if err == nil {
					for _, f := range res.Files {
						for di, d := range c.Docs {
							if d.Name == f.FileName && c.Repos[d.Repo].Name == f.Repository {
								_ = di
								return c.Repos[d.Repo].Shard
							}
						}
					}
				}
				for _, rp := range c.Repos {
					if rp.Name == r.Name {
						return rp.Shard
					}
				}
			}
			return -1
		}
		queries := c18Queries(rng, c)
		if partial {
			queries = c18PartialQueries(c)
		}
		for _, q := range queries {
			zq := q.Zoekt()
			// 1. the reply of the sharded searcher (through typeRepoSearcher): union of the per-shard answers
			var res *zoekt.SearchResult
			var serr error
			p := verifkit.Catch(func() { res, serr = rs.Search(context.Background(), zq, &zoekt.SearchOptions{}) })
			ev := verifkit.M{"ev": "search", "cid": c.ID, "kind": "dir", "shard": 0, "q": q.JSON(), "mode": "line", "ctx": 0,
				"outcome": "ok", "files": []verifkit.M{}, "crashes": 0, "detail": corpus.DetailRanges, "qs": zq.String()}
			switch {
			case p != nil:
				ev["outcome"] = "panic"
			case serr != nil:
				ev["outcome"] = "error"
			default:
				ev["files"] = c.Files(idx, res, corpus.DetailRanges)
				ev["crashes"] = res.Stats.Crashes
			}
			tr.Emit(ev)
			// 2. selectRepoSet itself, on the query as the sharded searcher sees it (type:repo already evaluated)
			var eq query.Q = zq
			if trs, ok := rs.(*readySearcher).Streamer.(*typeRepoSearcher); ok {
				var e2 error
				tr0, ctx0 := trace.New(context.Background(), "verif", "")
				eq, e2 = trs.eval(ctx0, tr0, zq)
				tr0.Finish()
				if e2 != nil {
					continue
				}
			}
			eq = query.Simplify(eq)
			loaded := ss.getLoaded().shards
			kept, rq := selectRepoSet(loaded, eq)
			var all, keptNos []int
			for _, s := range loaded {
				all = append(all, shardNo(s))
			}
			for _, s := range kept {
				keptNos = append(keptNos, shardNo(s))
			}
			sort.Ints(all)
			sort.Ints(keptNos)
			if keptNos == nil {
				keptNos = []int{}
			}
			tr.Emit(verifkit.M{"ev": "select", "cid": c.ID, "q": corpus.FromZoekt(eq).JSON(), "rq": corpus.FromZoekt(rq).JSON(),
				"all": all, "kept": keptNos, "qs": eq.String(), "rqs": rq.String()})
			// 3. List: each repository once, statistics summed over its shards
			for _, lq := range []*corpus.Q{{T: "const", B: true}, q} {
				var rl *zoekt.RepoList
				var lerr error
				p := verifkit.Catch(func() { rl, lerr = rs.List(context.Background(), lq.Zoekt(), &zoekt.ListOptions{Field: zoekt.RepoListFieldRepos}) })
				lev := verifkit.M{"ev": "list", "cid": c.ID, "q": lq.JSON(), "qs": lq.Zoekt().String(), "outcome": "ok", "repos": []verifkit.M{}}
				if p != nil || lerr != nil {
					lev["outcome"] = "error"
				} else {
					rr := []verifkit.M{}
					for _, e := range rl.Repos {
						rr = append(rr, verifkit.M{"name": verifkit.Runes(e.Repository.Name), "id": e.Repository.ID, "shards": e.Stats.Shards, "documents": e.Stats.Documents})
					}
					lev["repos"] = rr
				}
				tr.Emit(lev)
			}
		}
		rs.Close()
		os.RemoveAll(dir)
	}
}
