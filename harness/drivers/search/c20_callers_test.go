//go:build verif

package search

// C20 (callers) / C21 (cancellation under scheduler pressure): the real sharded searcher's Search,
// StreamSearch and List run over real shards with a recording scheduler wrapped around the real one
// (multiScheduler with small capacities, and the legacy semaphoreScheduler).  Recorded in the
// vocabulary of Trace_Sched.tla's (V) part: "hold" after an acquisition returned, "unhold" before a
// release starts (every further Release call of the same process is recorded as another "unhold",
// which the specification rejects as unmatched), "fail" for failed acquisitions / yields (n = 1 iff
// the context was done) and for calls that panic or hang (n = 0), "final" = free tokens after
// everything returned.

import (
	"context"
	"fmt"
	"os"
	"regexp/syntax"
	"sync"
	"sync/atomic"
	"testing"
	"time"

	"golang.org/x/sync/semaphore"

	"github.com/sourcegraph/zoekt"
	"github.com/sourcegraph/zoekt/internal/verifkit"
	"github.com/sourcegraph/zoekt/internal/verifkit/corpus"
	"github.com/sourcegraph/zoekt/query"
)

type c20Rec struct {
	mu  sync.Mutex
	seq atomic.Int64
	evs []c20Ev
}

func (r *c20Rec) rec(ev, sem string, g, n int) {
	r.mu.Lock()
	r.evs = append(r.evs, c20Ev{ev: ev, sem: sem, g: g, n: n, seq: r.seq.Add(1)})
	r.mu.Unlock()
}

type c20RecSched struct {
	inner scheduler
	r     *c20Rec
	next  atomic.Int64
}

func c20Done(ctx context.Context) int {
	if ctx.Err() != nil {
		return 1
	}
	return 0
}

func (s *c20RecSched) Acquire(ctx context.Context) (*process, error) {
	g := int(s.next.Add(1))
	p, err := s.inner.Acquire(ctx)
	if err != nil {
		s.r.rec("fail", "acq", g, c20Done(ctx))
		return nil, err
	}
	var mu sync.Mutex
	held := "I"
	releases := 0
	s.r.rec("hold", held, g, 0)
	origRel, origYield := p.releaseFunc, p.yieldFunc
	p.releaseFunc = func() {
		mu.Lock()
		releases++
		switch {
		case releases > 1:
			s.r.rec("unhold", "I", g, releases) // released again: unmatched
		case held != "":
			s.r.rec("unhold", held, g, 0)
			held = ""
		}
		mu.Unlock()
		origRel()
	}
	if origYield != nil {
		p.yieldFunc = func(ctx context.Context) error {
			mu.Lock()
			if held != "" {
				s.r.rec("unhold", held, g, 0)
				held = ""
			}
			mu.Unlock()
			err := origYield(ctx)
			mu.Lock()
			if err != nil {
				s.r.rec("fail", "yield", g, c20Done(ctx))
			} else {
				held = "B"
				s.r.rec("hold", held, g, 0)
			}
			mu.Unlock()
			return err
		}
	}
	return p, nil
}

func c20ProbeWeighted(w *semaphore.Weighted, capacity int) (free int) {
	if pv := verifkit.Catch(func() {
		for k := capacity; k >= 1; k-- {
			if w.TryAcquire(int64(k)) {
				w.Release(int64(k))
				free = k
				return
			}
		}
	}); pv != nil {
		return -1
	}
	return free
}

type c20Sink struct {
	mu sync.Mutex
	n  int
}

func (s *c20Sink) Send(r *zoekt.SearchResult) { s.mu.Lock(); s.n += len(r.Files); s.mu.Unlock() }

// one call with a watchdog; panics and hangs are recorded as "fail" events with n = 0
func c20Call(r *c20Rec, op string, f func() error) {
	ch := make(chan any, 1)
	go func() {
		ch <- verifkit.Catch(func() { _ = f() })
	}()
	select {
	case p := <-ch:
		if p != nil {
			r.rec("fail", "panic:"+op, 0, 0)
			if os.Getenv("VERIF_DEBUG") != "" {
				fmt.Fprintf(os.Stderr, "c20 callers: %s panicked: %v\n", op, p)
			}
		}
	case <-time.After(60 * time.Second):
		r.rec("fail", "hang:"+op, 0, 0)
	}
}

func TestVerif_C20_Callers(t *testing.T) {
	tr := verifkit.Open(t)
	defer tr.Close()
	rounds := verifkit.EnvInt("VERIF_C20_CALLER_ROUNDS", verifkit.Pick(6, 48))
	pressureOnly := os.Getenv("VERIF_C20_PRESSURE_ONLY") != ""
	for round := 0; round < rounds; round++ {
		rng := verifkit.Rng(int64(20200 + round))
		c := corpus.Gen(rng, round+1, corpus.Profile{MaxRepos: 4, MaxDocs: 5, MaxLen: 60, Compound: round%3 == 0})
		dir, err := os.MkdirTemp(os.Getenv("VERIF_WORK"), "c20callers")
		if err != nil {
			t.Fatal(err)
		}
		if _, err := c.Materialise(dir); err != nil {
			t.Fatalf("materialise: %v", err)
		}
		rs, err := newDirectorySearcher(dir, true)
		if err != nil {
			t.Fatal(err)
		}
		ss := rs.(*readySearcher).ready
		rec := &c20Rec{}
		legacy := round%3 == 2
		capI := []int{1, 2, 4}[round%3]
		var capB int
		var ms *multiScheduler
		var sem *semaphoreScheduler
		if legacy {
			sem = &semaphoreScheduler{throttle: semaphore.NewWeighted(int64(capI)), capacity: int64(capI)}
			ss.sched = &c20RecSched{inner: sem, r: rec}
		} else {
			ms = newMultiScheduler(int64(capI))
			ms.interactiveDuration = []time.Duration{5 * time.Second, 0, 100 * time.Microsecond}[(round/3)%3]
			capB = c20Probe(ms.semBatch, capI+1)
			ss.sched = &c20RecSched{inner: ms, r: rec}
		}
		re, _ := syntax.Parse("[ab]+", syntax.Perl)
		qs := []query.Q{
			&query.Substring{Pattern: "a", Content: true},
			&query.Const{Value: true},
			&query.Regexp{Regexp: re, Content: true},
			&query.Substring{Pattern: c.PickPattern(rng, false)},
		}
		search := func(ctx context.Context, q query.Q, o zoekt.SearchOptions) func() error {
			return func() error { _, err := ss.Search(ctx, q, &o); return err }
		}
		stream := func(ctx context.Context, q query.Q, o zoekt.SearchOptions) func() error {
			return func() error { return ss.StreamSearch(ctx, q, &o, &c20Sink{}) }
		}
		list := func(ctx context.Context, q query.Q) func() error {
			return func() error { _, err := ss.List(ctx, q, nil); return err }
		}
		bg := context.Background()
		if !pressureOnly {
			for _, q := range qs {
				c20Call(rec, "Search", search(bg, q, zoekt.SearchOptions{}))
				c20Call(rec, "StreamSearch", stream(bg, q, zoekt.SearchOptions{}))
				c20Call(rec, "StreamSearch", stream(bg, q, zoekt.SearchOptions{FlushWallTime: time.Millisecond, MaxDocDisplayCount: 2}))
				c20Call(rec, "List", list(bg, q))
			}
			// many at once, with short deadlines
			var wg sync.WaitGroup
			for g := 0; g < 8; g++ {
				wg.Add(1)
				go func(g int) {
					defer wg.Done()
					r2 := verifkit.Rng(int64(round*100 + g))
					for k := 0; k < 4; k++ {
						ctx, cancel := context.WithTimeout(bg, time.Duration(r2.Intn(4000))*time.Microsecond)
						q := qs[r2.Intn(len(qs))]
						switch r2.Intn(3) {
						case 0:
							c20Call(rec, "Search", search(ctx, q, zoekt.SearchOptions{}))
						case 1:
							c20Call(rec, "StreamSearch", stream(ctx, q, zoekt.SearchOptions{}))
						default:
							c20Call(rec, "List", list(ctx, q))
						}
						cancel()
					}
				}(g)
			}
			wg.Wait()
		}
		// cancellation: before the call, by MaxWallTime, and while the search waits for the scheduler
		cctx, cancel := context.WithCancel(bg)
		cancel()
		c20Call(rec, "Search", search(cctx, qs[0], zoekt.SearchOptions{}))
		c20Call(rec, "StreamSearch", stream(cctx, qs[0], zoekt.SearchOptions{}))
		c20Call(rec, "List", list(cctx, qs[0]))
		c20Call(rec, "Search", search(bg, qs[0], zoekt.SearchOptions{MaxWallTime: time.Nanosecond}))
		c20Call(rec, "StreamSearch", stream(bg, qs[0], zoekt.SearchOptions{MaxWallTime: time.Nanosecond}))
		if ms != nil {
			// pressure: every batch slot is taken and the time slice is over at once, so the first Yield
			// of a search blocks in the batch queue until its context expires
			saved := ms.interactiveDuration
			ms.interactiveDuration = 0
			hog := 0
			for ms.semBatch.sem.TryAcquire(1) {
				hog++
			}
			for _, d := range []time.Duration{20 * time.Millisecond, 60 * time.Millisecond} {
				ctx, cancel := context.WithTimeout(bg, d)
				c20Call(rec, "Search", search(ctx, qs[0], zoekt.SearchOptions{}))
				cancel()
				ctx, cancel = context.WithTimeout(bg, d)
				c20Call(rec, "StreamSearch", stream(ctx, qs[1], zoekt.SearchOptions{}))
				cancel()
				c20Call(rec, "Search", search(bg, qs[0], zoekt.SearchOptions{MaxWallTime: d}))
				ctx, cancel = context.WithTimeout(bg, d)
				c20Call(rec, "List", list(ctx, qs[0]))
				cancel()
			}
			if hog > 0 {
				ms.semBatch.sem.Release(int64(hog))
			}
			ms.interactiveDuration = saved
		}
		tr.Emit(verifkit.M{"ev": "reset", "procs": int(ss.sched.(*c20RecSched).next.Load()), "capI": capI, "capB": capB, "script": 100000 + round})
		for _, e := range rec.evs {
			tr.Emit(verifkit.M{"ev": e.ev, "g": e.g, "sem": e.sem, "seq": e.seq, "n": e.n})
		}
		last := rec.seq.Load()
		if legacy {
			tr.Emit(verifkit.M{"ev": "final", "g": 0, "sem": "I", "seq": last + 1, "n": c20ProbeWeighted(sem.throttle, capI)})
			tr.Emit(verifkit.M{"ev": "final", "g": 0, "sem": "B", "seq": last + 2, "n": 0})
		} else {
			tr.Emit(verifkit.M{"ev": "final", "g": 0, "sem": "I", "seq": last + 1, "n": c20Probe(ms.semInteractive, capI)})
			tr.Emit(verifkit.M{"ev": "final", "g": 0, "sem": "B", "seq": last + 2, "n": c20Probe(ms.semBatch, capB)})
		}
		rs.Close()
		os.RemoveAll(dir)
	}
}
