//go:build verif

package search_test

import (
	"math/rand"
	"strings"
	"testing"

	"github.com/sourcegraph/zoekt"
	"github.com/sourcegraph/zoekt/internal/verifkit"
	"github.com/sourcegraph/zoekt/internal/verifkit/corpus"
)

// Wide corpora: one shard whose content and file-name trigram indexes have far more distinct
// trigrams than one b-tree bucket holds (index/btree.go: 1024 per bucket, inner nodes of up to 100
// children), documents longer than the rune-offset sampling distance, hundreds of documents.
// The small corpora of the other families never leave the first bucket.

var c01WideSigma = func() []rune {
	var rs []rune
	for r := rune(33); r < 127; r++ {
		rs = append(rs, r)
	}
	return append(rs, 'é', 'ß', '中', ' ', ' ', ' ', '\n')
}()

const c01NameSigma = "abcdefghijklmnopqrstuvwxyz0123456789_-./"

func c01WideGen(rng *rand.Rand, id, ndocs, doclen int) *corpus.Corpus {
	c := &corpus.Corpus{ID: id}
	c.Repos = []corpus.Repo{{Name: "wide/repo", ID: 77, Branches: []string{"main", "dev"}, Public: true}}
	used := map[string]bool{}
	for len(c.Docs) < ndocs {
		var nb strings.Builder
		for i, n := 0, 8+rng.Intn(16); i < n; i++ {
			nb.WriteByte(c01NameSigma[rng.Intn(len(c01NameSigma))])
		}
		if used[nb.String()] {
			continue
		}
		used[nb.String()] = true
		var sb strings.Builder
		for i, n := 0, doclen/2+rng.Intn(doclen); i < n; i++ {
			sb.WriteRune(c01WideSigma[rng.Intn(len(c01WideSigma))])
		}
		br := []int{0}
		if rng.Intn(3) == 0 {
			br = []int{0, 1}
		} else if rng.Intn(4) == 0 {
			br = []int{1}
		}
		c.Docs = append(c.Docs, corpus.Doc{Repo: 0, Name: nb.String(), Content: sb.String(), Branches: br, Lang: "Go"})
	}
	return c
}

func c01WideSub(rng *rand.Rand, s string, l int) string {
	rs := []rune(s)
	if len(rs) <= l {
		return s
	}
	i := rng.Intn(len(rs) - l + 1)
	return string(rs[i : i+l])
}

func TestVerif_C01_Wide(t *testing.T) {
	tr := verifkit.Open(t)
	defer tr.Close()
	tr.Emit(corpus.FoldEvent())
	ncorp := verifkit.EnvInt("VERIF_CORPORA", 1)
	ndocs := verifkit.EnvInt("VERIF_WIDE_DOCS", verifkit.Pick(120, 400))
	doclen := verifkit.EnvInt("VERIF_WIDE_LEN", verifkit.Pick(120, 260))
	nq := verifkit.EnvInt("VERIF_QUERIES", verifkit.Pick(100, 400))
	detail := verifkit.EnvInt("VERIF_DETAIL", corpus.DetailFiles)
	for ci := 0; ci < ncorp; ci++ {
		rng := verifkit.Rng(int64(9000 + ci))
		c := c01WideGen(rng, ci+1, ndocs, doclen)
		l := c01Load(t, c, false)
		tr.Emit(c.Event())
		atom := func() *corpus.Q {
			d := c.Docs[rng.Intn(len(c.Docs))]
			switch x := rng.Intn(20); {
			case x < 9: // one trigram of the content, case-sensitive: one posting list of the big b-tree
				return &corpus.Q{T: "substr", Pat: c01WideSub(rng, d.Content, 3), CT: true, CS: true}
			case x < 12:
				return &corpus.Q{T: "substr", Pat: c01WideSub(rng, d.Content, 4+rng.Intn(4)), CT: true, CS: rng.Intn(2) == 0}
			case x < 14:
				return &corpus.Q{T: "substr", Pat: c01WideSub(rng, d.Content, 3), CT: true, CS: false}
			case x < 17:
				return &corpus.Q{T: "substr", Pat: c01WideSub(rng, d.Name, 3+rng.Intn(2)), FN: true, CS: rng.Intn(2) == 0}
			case x < 18: // miss or accidental hit
				var sb strings.Builder
				for i := 0; i < 3; i++ {
					sb.WriteRune(c01WideSigma[rng.Intn(len(c01WideSigma))])
				}
				return &corpus.Q{T: "substr", Pat: sb.String(), CT: true, CS: true}
			case x < 19:
				a, b := c01WideSub(rng, d.Content, 3), c01WideSub(rng, d.Content, 3)
				return &corpus.Q{T: "regex", Pat: "(?s)" + regexpQuote(a) + ".*" + regexpQuote(b), CT: true, CS: true}
			default:
				return &corpus.Q{T: "substr", Pat: c01WideSub(rng, d.Content, 3), CT: true, FN: true, CS: true}
			}
		}
		for k := 0; k < nq; k++ {
			if k > 0 && k%20 == 0 {
				tr.Emit(c.Event()) // lets the validation split the trace here
			}
			var q *corpus.Q
			switch rng.Intn(10) {
			case 0:
				q = &corpus.Q{T: "and", Sub: []*corpus.Q{atom(), atom()}}
			case 1:
				q = &corpus.Q{T: "or", Sub: []*corpus.Q{atom(), atom()}}
			case 2:
				q = &corpus.Q{T: "and", Sub: []*corpus.Q{atom(), {T: "not", Sub: []*corpus.Q{atom()}}}}
			default:
				q = atom()
			}
			opts := &zoekt.SearchOptions{ChunkMatches: rng.Intn(2) == 0}
			c01Search(tr, l, "shard", 0, q, opts, detail, nil)
		}
		l.Close()
	}
}
