//go:build verif

package search_test

import (
	"context"
	"fmt"
	"os"
	"sort"
	"strings"
	"testing"

	"github.com/sourcegraph/zoekt"
	"github.com/sourcegraph/zoekt/internal/verifkit"
	"github.com/sourcegraph/zoekt/internal/verifkit/corpus"
)

// C28 on documents far larger than anything the specification's scanning oracle can judge: the
// property itself is relational (the threshold never changes the result), so every threshold
// setting runs the same searches over the same shard in its own process and the recorded results
// (file, number of ranges, first ranges, checksum of all ranges) are compared by
// Trace_Threshold.tla with those of the process in which RE2 is disabled.

func c28LargeDoc(rng interface{ Intn(int) int }, target int, longLine bool) string {
	var sb strings.Builder
	sb.WriteString("package main\n")
	words := []string{"foo", "bar", "Kelvin", "éa", "x y", "end", "package", "func", "aéb", "zzz", "\t", "\"q\"", "中", "ab_1"}
	for n := 0; sb.Len() < target; n++ {
		if longLine {
			sb.WriteString(words[rng.Intn(len(words))])
			sb.WriteByte(' ')
			continue
		}
		switch rng.Intn(6) {
		case 0:
			fmt.Fprintf(&sb, "func f%d() { return \"%s\" } // line %d é\n", n, words[rng.Intn(len(words))], n)
		case 1:
			fmt.Fprintf(&sb, "package p%d\n", n)
		case 2:
			sb.WriteString("\n")
		default:
			for k := 0; k < 2+rng.Intn(8); k++ {
				sb.WriteString(words[rng.Intn(len(words))])
				sb.WriteByte(" .(,"[rng.Intn(4)])
			}
			sb.WriteString("end\n")
		}
	}
	if longLine {
		sb.WriteString("\nlast end")
	}
	return sb.String()
}

func TestVerif_C28_Large(t *testing.T) {
	tr := verifkit.Open(t)
	defer tr.Close()
	rng := verifkit.Rng(2828)
	c := &corpus.Corpus{ID: 1}
	c.Repos = []corpus.Repo{{Name: "large/repo", ID: 88, Branches: []string{"HEAD"}}}
	for i, sz := range []int{2 << 10, 100 << 10, 140 << 10, 400 << 10} {
		c.Docs = append(c.Docs, corpus.Doc{Repo: 0, Name: fmt.Sprintf("f%d_%dk.go", i, sz>>10), Content: c28LargeDoc(rng, sz, false), Branches: []int{0}, Lang: "Go"})
	}
	c.Docs = append(c.Docs, corpus.Doc{Repo: 0, Name: "longline.txt", Content: c28LargeDoc(rng, 200<<10, true), Branches: []int{0}, Lang: "Text"})
	l := c01Load(t, c, false)
	defer l.Close()
	pats := []string{`\Apackage`, `(?m)^func \w+`, `\bfoo\b`, `a.b`, `"[^"]*"`, `\w+\z`, `(?s)x.y`, `end$`, `(?-m:^)pack`, `line \d+ é$`,
		`é.`, `(?i)KELVIN`, `\t+`, `.{3}z`, `\Afunc|\Apackage \w+`, `end\z`, `(?m)^$`, `[^a\n]+$`, `x\s+y`, `f\d+\(\) \{`,
		// text anchors in front of something nearly every line starts / ends with: an engine that is
		// handed pieces of the document would see a text start / end at every piece
		`\A\w+`, `(?-m:^)[a-z]+`, `\A[^\n]`, `[^\n]\z`, `\w+(?-m:$)`}
	th := os.Getenv("ZOEKT_RE2_THRESHOLD_BYTES")
	for qi, p := range pats {
		for _, cs := range []bool{true, false} {
			q := &corpus.Q{T: "regex", Pat: p, CT: true, CS: cs}
			var res *zoekt.SearchResult
			var err error
			pv := verifkit.Catch(func() {
				res, err = l.shards[0].Search(context.Background(), q.Zoekt(), &zoekt.SearchOptions{ChunkMatches: true})
			})
			ev := verifkit.M{"ev": "large", "qi": qi*2 + map[bool]int{true: 0, false: 1}[cs], "q": p, "cs": cs, "threshold": th, "outcome": "ok", "files": []verifkit.M{}}
			switch {
			case pv != nil:
				ev["outcome"] = "panic"
			case err != nil:
				ev["outcome"] = "error"
			default:
				fs := []verifkit.M{}
				for _, f := range res.Files {
					var rs [][]int
					for _, cm := range f.ChunkMatches {
						for _, r := range cm.Ranges {
							rs = append(rs, []int{int(r.Start.ByteOffset), int(r.End.ByteOffset)})
						}
					}
					sort.Slice(rs, func(i, j int) bool { return rs[i][0] < rs[j][0] || rs[i][0] == rs[j][0] && rs[i][1] < rs[j][1] })
					sum := 0
					for _, r := range rs {
						sum = (sum*31 + r[0]*7 + r[1]) % 1000000007
					}
					first := rs
					if len(first) > 6 {
						first = append(append([][]int{}, rs[:3]...), rs[len(rs)-3:]...)
					}
					if first == nil {
						first = [][]int{}
					}
					fs = append(fs, verifkit.M{"name": f.FileName, "n": len(rs), "sum": sum, "some": first})
				}
				sort.Slice(fs, func(i, j int) bool { return fs[i]["name"].(string) < fs[j]["name"].(string) })
				ev["files"] = fs
			}
			tr.Emit(ev)
		}
	}
}
